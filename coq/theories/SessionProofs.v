(* SessionProofs.v — proofs about the machine of Session.v (property C19). *)
From Coq Require Import List Arith Bool Lia.
From QV Require Import Session.
Import ListNotations.

(* ---------- lists ---------- *)

Lemma nth_error_upd_eq {A} (l : list A) i x y : nth_error l i = Some y -> nth_error (upd i x l) i = Some x.
Proof. revert i. induction l as [|a l IH]; intros [|i]; cbn; try discriminate; auto. Qed.

Lemma nth_error_upd_neq {A} (l : list A) i j x : i <> j -> nth_error (upd i x l) j = nth_error l j.
Proof. revert i j. induction l as [|a l IH]; intros [|i] [|j] H; cbn; try reflexivity; try congruence. apply IH. congruence. Qed.

Lemma mem_true_iff i l : mem i l = true <-> In i l.
Proof.
  unfold mem. rewrite existsb_exists. split.
  - intros [x [Hin Hx]]. apply Nat.eqb_eq in Hx. now subst.
  - intro H. exists i. split; [exact H | apply Nat.eqb_refl].
Qed.

Lemma mem_false_iff i l : mem i l = false <-> ~ In i l.
Proof. rewrite <- mem_true_iff. destruct (mem i l); split; congruence. Qed.

Lemma mem_cons i x l : mem i (x :: l) = (i =? x) || mem i l.
Proof. reflexivity. Qed.

Lemma mem_remove_one_neq i j l : j <> i -> mem j (remove_one i l) = mem j l.
Proof.
  intro H. induction l as [|x l IH]; [reflexivity|]. cbn [remove_one].
  destruct (x =? i) eqn:E.
  - apply Nat.eqb_eq in E. subst x. rewrite mem_cons. replace (j =? i) with false by (symmetry; now apply Nat.eqb_neq). reflexivity.
  - rewrite !mem_cons, IH. reflexivity.
Qed.

Lemma mem_remove_one_eq i l : NoDup l -> mem i (remove_one i l) = false.
Proof.
  induction 1 as [|x l Hx _ IH]; [reflexivity|]. cbn [remove_one].
  destruct (x =? i) eqn:E.
  - apply Nat.eqb_eq in E. subst x. now apply mem_false_iff.
  - rewrite mem_cons, IH. rewrite Nat.eqb_sym, E. reflexivity.
Qed.

Lemma In_remove_one i x l : In x (remove_one i l) -> In x l.
Proof.
  induction l as [|y l IH]; [tauto|]. cbn [remove_one]. destruct (y =? i); cbn [In]; tauto.
Qed.

Lemma NoDup_remove_one i l : NoDup l -> NoDup (remove_one i l).
Proof.
  induction 1 as [|x l Hx Hl IH]; [constructor|]. cbn [remove_one]. destruct (x =? i); [exact Hl|].
  constructor; [|exact IH]. intro H. apply Hx. now apply In_remove_one in H.
Qed.

(* ---------- pool ---------- *)

Lemma lookup_cons a b x p : lookup a ((b, x) :: p) = if b =? a then Some x else lookup a p.
Proof. unfold lookup. cbn [find fst]. destruct (b =? a); reflexivity. Qed.

Lemma lookup_In a p x : lookup a p = Some x -> In (a, x) p.
Proof.
  unfold lookup. destruct (find _ p) as [[b y]|] eqn:E; [|discriminate].
  intro H. inversion H; subst. apply find_some in E. destruct E as [Hin Hb]. cbn [fst snd] in *.
  apply Nat.eqb_eq in Hb. now subst.
Qed.

Lemma lookup_None_notin a p : lookup a p = None -> ~ In a (map fst p).
Proof.
  unfold lookup. destruct (find _ p) as [e|] eqn:E; [discriminate|]. intros _ Hin.
  apply in_map_iff in Hin. destruct Hin as [[b y] [Hb Hin]]. cbn [fst] in Hb. subst b.
  pose proof (find_none _ _ E _ Hin) as H. cbn [fst] in H. rewrite Nat.eqb_refl in H. discriminate.
Qed.

Lemma In_lookup a x p : NoDup (map fst p) -> In (a, x) p -> lookup a p = Some x.
Proof.
  induction p as [|[b y] p IH]; cbn [map fst In]; [tauto|]. intros Hnd Hin. rewrite lookup_cons.
  inversion Hnd as [|? ? Hb Hnd']; subst. destruct Hin as [E|Hin].
  - inversion E; subst. now rewrite Nat.eqb_refl.
  - destruct (b =? a) eqn:Eb.
    + apply Nat.eqb_eq in Eb. subst b. exfalso. apply Hb. apply in_map_iff. exists (a, x). auto.
    + now apply IH.
Qed.

Lemma pooled_true_iff x p : pooled x p = true <-> exists a, In (a, x) p.
Proof.
  unfold pooled. rewrite existsb_exists. split.
  - intros [[a y] [Hin Hy]]. cbn [snd] in Hy. apply Nat.eqb_eq in Hy. subst y. eauto.
  - intros [a Hin]. exists (a, x). split; [exact Hin | cbn; apply Nat.eqb_refl].
Qed.

Lemma pooled_cons x a y p : pooled x ((a, y) :: p) = (y =? x) || pooled x p.
Proof. reflexivity. Qed.

Lemma lookup_pooled a p x : lookup a p = Some x -> pooled x p = true.
Proof. intro H. apply pooled_true_iff. exists a. now apply lookup_In. Qed.

Definition pooled_in (eps : list nat) (c : nat) (p : list (nat * nat)) : bool :=
  existsb (fun a => match lookup a p with Some c' => c' =? c | None => false end) eps.

Lemma pooled_in_true_iff eps c p : pooled_in eps c p = true <-> exists a, In a eps /\ lookup a p = Some c.
Proof.
  unfold pooled_in. rewrite existsb_exists. split.
  - intros [a [Hin H]]. destruct (lookup a p) as [c'|] eqn:E; [|discriminate]. apply Nat.eqb_eq in H. subst. eauto.
  - intros [a [Hin H]]. exists a. split; [exact Hin|]. rewrite H. apply Nat.eqb_refl.
Qed.

Lemma pooled_in_pooled eps c p : pooled_in eps c p = true -> pooled c p = true.
Proof. rewrite pooled_in_true_iff. intros [a [_ H]]. now apply lookup_pooled in H. Qed.

(* adding an entry for an address that had none keeps what was pooled *)
Lemma pooled_in_ext eps c p a x : lookup a p = None -> pooled_in eps c p = true -> pooled_in eps c ((a, x) :: p) = true.
Proof.
  intros Hn. rewrite !pooled_in_true_iff. intros [b [Hin H]]. exists b. split; [exact Hin|].
  rewrite lookup_cons. destruct (a =? b) eqn:E; [|exact H]. apply Nat.eqb_eq in E. subst. congruence.
Qed.

(* ... and adds nothing for other clients *)
Lemma pooled_in_ext_other eps c p a x : lookup a p = None -> c <> x -> pooled_in eps c ((a, x) :: p) = pooled_in eps c p.
Proof.
  intros Hn Hc. unfold pooled_in. induction eps as [|b eps IH]; [reflexivity|]. cbn [existsb]. rewrite IH. f_equal.
  rewrite lookup_cons. destruct (a =? b) eqn:E; [|reflexivity]. apply Nat.eqb_eq in E. subst b. rewrite Hn.
  apply Nat.eqb_neq. congruence.
Qed.

Lemma first_hit_Some eps p c : first_hit eps p = Some c -> exists a, In a eps /\ lookup a p = Some c.
Proof.
  induction eps as [|a eps IH]; cbn [first_hit]; [discriminate|].
  destruct (lookup a p) as [c'|] eqn:E.
  - intro H. inversion H; subst. exists a. split; [now left | exact E].
  - intro H. destruct (IH H) as [b [Hin Hb]]. exists b. split; [now right | exact Hb].
Qed.

(* ---------- what a state says about a thread ---------- *)

Definition mode_of (s : shared) (i : nat) : mode :=
  match s_wh s with
  | Some w => if w =? i then MW else if mem i (s_rh s) then MR else MN
  | None => if mem i (s_rh s) then MR else MN
  end.

Definition cst_of (s : shared) (i : nat) (t : thread) : cst :=
  match t_c t with
  | None => CNone
  | Some c =>
      if c =? i then
        (if pooled i (s_pool s) then CPooled else match t_sel t with Some _ => CFresh | None => CBad end)
      else if pooled_in (t_eps t) c (s_pool s) then CPooled else CBad
  end.

Definition owns_of (s : shared) (i : nat) : bool := mem i (s_open s) && negb (pooled i (s_pool s)).

Definition sel_b (t : thread) : bool := match t_sel t with Some _ => true | None => false end.

Definition mk_a (s : shared) (i : nat) (t : thread) (ab : bool) : astate :=
  {| a_mode := mode_of s i; a_sel := sel_b t; a_absent := ab; a_c := cst_of s i t; a_owns := owns_of s i |}.

(* ab = true: the thread holds the write lock and its selected address has no pool entry *)
Definition absent_ok (s : shared) (i : nat) (t : thread) (ab : bool) : Prop :=
  ab = true -> s_wh s = Some i /\ exists a, t_sel t = Some a /\ lookup a (s_pool s) = None.

Definition thread_ok (s : shared) (i : nat) (t : thread) : Prop :=
  (forall a, t_sel t = Some a -> In a (t_eps t)) /\
  match t_res t with
  | Running => exists ab, absent_ok s i t ab /\ check (mk_a s i t ab) (t_k t) = true
  | r => mode_of s i = MN /\ owns_of s i = false /\
         (forall c, r = Returned c -> pooled_in (t_eps t) c (s_pool s) = true) /\ r <> ReturnedNil
  end.

Record Inv (s : st) : Prop := {
  inv_wh : forall w, s_wh (st_sh s) = Some w -> s_rh (st_sh s) = [] /\ exists t, nth_error (st_thr s) w = Some t;
  inv_rh : NoDup (s_rh (st_sh s)) /\ forall r, In r (s_rh (st_sh s)) -> exists t, nth_error (st_thr s) r = Some t;
  inv_keys : NoDup (map fst (s_pool (st_sh s)));
  inv_pool : forall a x, In (a, x) (s_pool (st_sh s)) ->
             exists t, nth_error (st_thr s) x = Some t /\ t_sel t = Some a /\ mem x (s_open (st_sh s)) = true;
  inv_open : NoDup (s_open (st_sh s)) /\
             forall x, In x (s_open (st_sh s)) -> exists t a, nth_error (st_thr s) x = Some t /\ t_sel t = Some a;
  inv_thr : forall i t, nth_error (st_thr s) i = Some t -> thread_ok (st_sh s) i t
}.

(* ---------- effect of a step of thread i on the other threads ---------- *)

Definition frame (i : nat) (s s' : shared) : Prop :=
  (forall j, j <> i -> mode_of s' j = mode_of s j) /\
  (forall j, j <> i -> mem j (s_open s') = mem j (s_open s)) /\
  (forall j, j <> i -> (s_wh s' = Some j <-> s_wh s = Some j)) /\
  (s_pool s' = s_pool s \/
   exists a, s_pool s' = (a, i) :: s_pool s /\ lookup a (s_pool s) = None /\
             pooled i (s_pool s) = false /\ s_wh s = Some i).

Lemma frame_pooled i j s s' : j <> i -> frame i s s' -> pooled j (s_pool s') = pooled j (s_pool s).
Proof.
  intros Hj [_ [_ [_ [E|[a [E _]]]]]]; rewrite E; [reflexivity|].
  rewrite pooled_cons. replace (i =? j) with false by (symmetry; apply Nat.eqb_neq; congruence). reflexivity.
Qed.

Lemma frame_owns i j s s' : j <> i -> frame i s s' -> owns_of s' j = owns_of s j.
Proof.
  intros Hj F. unfold owns_of. rewrite (frame_pooled i j s s' Hj F).
  destruct F as [_ [F _]]. now rewrite (F j Hj).
Qed.

Lemma frame_cst i j s s' t : j <> i -> frame i s s' -> cst_of s j t <> CBad -> cst_of s' j t = cst_of s j t.
Proof.
  intros Hj F Hb. unfold cst_of in *. destruct (t_c t) as [c|]; [|reflexivity].
  destruct (c =? j) eqn:Ec.
  - now rewrite (frame_pooled i j s s' Hj F).
  - destruct F as [_ [_ [_ [E|[a [E [Hn [Hp _]]]]]]]]; rewrite E; [reflexivity|].
    destruct (Nat.eq_dec c i) as [->|Hci].
    + (* thread j holds thread i's client: it would be pooled already *)
      destruct (pooled_in (t_eps t) i (s_pool s)) eqn:Ep; [|congruence].
      apply pooled_in_pooled in Ep. congruence.
    + now rewrite (pooled_in_ext_other _ _ _ _ _ Hn Hci).
Qed.

Lemma check_not_bad a k : check a k = true -> a_c a <> CBad.
Proof.
  destruct k; cbn [check]; intro H; apply andb_true_iff in H; destruct H as [H _];
    apply negb_true_iff in H; intro E; rewrite E in H; discriminate H.
Qed.

Lemma frame_thread_ok i j s s' t : j <> i -> frame i s s' -> thread_ok s j t -> thread_ok s' j t.
Proof.
  intros Hj F [Hsel H]. split; [exact Hsel|].
  pose proof F as [Fm [Fo [Fw Fp]]].
  destruct (t_res t) eqn:Er.
  - destruct H as [ab [Hab Hc]]. exists ab. split.
    + intro E. destruct (Hab E) as [Hw [a [Hs Hl]]]. split; [now apply Fw|]. exists a. split; [exact Hs|].
      destruct Fp as [Ep|[a' [_ [_ [_ Hwi]]]]]; [now rewrite Ep | congruence].
    + assert (Ea : mk_a s' j t ab = mk_a s j t ab).
      { unfold mk_a. rewrite (Fm j Hj), (frame_owns i j s s' Hj F).
        rewrite (frame_cst i j s s' t Hj F); [reflexivity|]. exact (check_not_bad _ _ Hc). }
      now rewrite Ea.
  - destruct H as [H1 [H2 [H3 H4]]]. repeat split; try congruence.
    + now rewrite (Fm j Hj).
    + now rewrite (frame_owns i j s s' Hj F).
  - destruct H as [H1 [H2 [H3 H4]]]. repeat split; try congruence.
    + now rewrite (Fm j Hj).
    + now rewrite (frame_owns i j s s' Hj F).
    + intros c0 E. specialize (H3 c0 E).
      destruct Fp as [Ep|[a [Ep [Hn _]]]]; rewrite Ep; [exact H3 | now apply pooled_in_ext].
  - destruct H as [_ [_ [_ H4]]]. congruence.
Qed.

(* ---------- re-establishing the invariant after a step of thread i ---------- *)

Lemma frame_refl i s : frame i s s.
Proof. repeat split; auto. Qed.

Lemma inv_step_close s i t sh' t' :
  Inv s -> nth_error (st_thr s) i = Some t ->
  frame i (st_sh s) sh' ->
  thread_ok sh' i t' ->
  (forall w, s_wh sh' = Some w -> s_rh sh' = [] /\ (w = i \/ s_wh (st_sh s) = Some w)) ->
  (NoDup (s_rh sh') /\ forall r, In r (s_rh sh') -> r = i \/ In r (s_rh (st_sh s))) ->
  NoDup (map fst (s_pool sh')) ->
  (forall a x, In (a, x) (s_pool sh') ->
     (In (a, x) (s_pool (st_sh s)) /\ (x = i -> mem i (s_open sh') = true)) \/
     (x = i /\ t_sel t' = Some a /\ mem i (s_open sh') = true)) ->
  (NoDup (s_open sh') /\ forall x, In x (s_open sh') -> In x (s_open (st_sh s)) \/ (x = i /\ t_sel t' <> None)) ->
  (t_sel t' = t_sel t \/ t_sel t = None) ->
  Inv {| st_sh := sh'; st_thr := upd i t' (st_thr s) |}.
Proof.
  intros I Ht F Hok Hwh Hrh Hkeys Hpool Hopen Hsel.
  assert (Hex : forall j u, nth_error (st_thr s) j = Some u -> exists u', nth_error (upd i t' (st_thr s)) j = Some u').
  { intros j u Hj. destruct (Nat.eq_dec j i) as [->|Hn].
    - exists t'. now apply (nth_error_upd_eq _ _ _ t).
    - exists u. now rewrite nth_error_upd_neq by congruence. }
  constructor; cbn [st_sh st_thr].
  - intros w Hw. destruct (Hwh w Hw) as [Hr Hor]. split; [exact Hr|]. destruct Hor as [->|Hold].
    + exists t'. now apply (nth_error_upd_eq _ _ _ t).
    + destruct (inv_wh s I w Hold) as [_ [u Hu]]. now apply (Hex w u).
  - destruct Hrh as [Hnd Hin]. split; [exact Hnd|]. intros r Hr. destruct (Hin r Hr) as [->|Hold].
    + exists t'. now apply (nth_error_upd_eq _ _ _ t).
    + destruct (inv_rh s I) as [_ H]. destruct (H r Hold) as [u Hu]. now apply (Hex r u).
  - exact Hkeys.
  - intros a x Hin. destruct (Hpool a x Hin) as [[Hold Hi]|[-> [Hs Hm]]].
    + destruct (inv_pool s I a x Hold) as [u [Hu [Hus Hum]]].
      destruct (Nat.eq_dec x i) as [->|Hn].
      * exists t'. split; [now apply (nth_error_upd_eq _ _ _ t)|]. rewrite Ht in Hu. inversion Hu; subst u.
        split; [|now apply Hi]. destruct Hsel as [E|E]; congruence.
      * exists u. split; [now rewrite nth_error_upd_neq by congruence|]. split; [exact Hus|].
        destruct F as [_ [Fo _]]. now rewrite (Fo x Hn).
    + exists t'. split; [now apply (nth_error_upd_eq _ _ _ t)|]. auto.
  - destruct Hopen as [Hnd Hin]. split; [exact Hnd|]. intros x Hx. destruct (Hin x Hx) as [Hold|[-> Hs]].
    + destruct (inv_open s I) as [_ H]. destruct (H x Hold) as [u [a [Hu Hus]]].
      destruct (Nat.eq_dec x i) as [->|Hn].
      * rewrite Ht in Hu. inversion Hu; subst u. exists t', a. split; [now apply (nth_error_upd_eq _ _ _ t)|].
        destruct Hsel as [E|E]; congruence.
      * exists u, a. split; [now rewrite nth_error_upd_neq by congruence | exact Hus].
    + destruct (t_sel t') as [a|] eqn:E; [|congruence]. exists t', a. split; [now apply (nth_error_upd_eq _ _ _ t) | exact E].
  - intros j u Hj. destruct (Nat.eq_dec j i) as [->|Hn].
    + rewrite (nth_error_upd_eq _ _ _ t Ht) in Hj. inversion Hj; subst u. exact Hok.
    + rewrite nth_error_upd_neq in Hj by congruence. apply (frame_thread_ok i j (st_sh s) sh' u Hn F). now apply (inv_thr s I).
Qed.

(* a step that leaves the shared state and the selected address alone *)
Lemma inv_step_local s i t t' :
  Inv s -> nth_error (st_thr s) i = Some t -> thread_ok (st_sh s) i t' -> t_sel t' = t_sel t ->
  Inv {| st_sh := st_sh s; st_thr := upd i t' (st_thr s) |}.
Proof.
  intros I Ht Hok Hsel.
  apply (inv_step_close s i t (st_sh s) t' I Ht (frame_refl _ _) Hok).
  - intros w Hw. destruct (inv_wh s I w Hw) as [Hr _]. auto.
  - destruct (inv_rh s I) as [Hnd _]. auto.
  - exact (inv_keys s I).
  - intros a x Hin. left. split; [exact Hin|]. intros ->. destruct (inv_pool s I a i Hin) as [u [_ [_ Hm]]]. exact Hm.
  - destruct (inv_open s I) as [Hnd _]. auto.
  - now left.
Qed.

(* ---------- reading the static check ---------- *)

Lemma mode_eqb_true a b : mode_eqb a b = true -> a = b.
Proof. destruct a, b; cbn; congruence. Qed.
Lemma cst_eqb_true a b : cst_eqb a b = true -> a = b.
Proof. destruct a, b; cbn; congruence. Qed.

Lemma mode_of_MR s i : mode_of s i = MR -> mem i (s_rh s) = true.
Proof. unfold mode_of. destruct (s_wh s) as [w|]; [destruct (w =? i)|]; destruct (mem i (s_rh s)); congruence. Qed.
Lemma mode_of_MW s i : mode_of s i = MW -> s_wh s = Some i.
Proof.
  unfold mode_of. destruct (s_wh s) as [w|]; [destruct (w =? i) eqn:E|]; try (destruct (mem i (s_rh s)); congruence).
  apply Nat.eqb_eq in E. now subst.
Qed.
Lemma mode_of_MN s i : mode_of s i = MN -> s_wh s <> Some i /\ mem i (s_rh s) = false.
Proof.
  unfold mode_of. destruct (s_wh s) as [w|].
  - destruct (w =? i) eqn:E; [discriminate|]. destruct (mem i (s_rh s)); [discriminate|].
    intros _. split; [|reflexivity]. intro H. inversion H; subst. rewrite Nat.eqb_refl in E. discriminate.
  - destruct (mem i (s_rh s)); [discriminate|]. intros _. split; [discriminate|reflexivity].
Qed.

Lemma mk_a_set_k s i t k ab : mk_a s i (set_k t k) ab = mk_a s i t ab.
Proof. reflexivity. Qed.

Ltac split_andb :=
  repeat match goal with
         | H : _ && _ = true |- _ => apply andb_true_iff in H; destruct H
         end.

(* the client found by a lookup is a pooled one *)
Lemma cst_of_found s i t k c a ab :
  In a (t_eps t) -> lookup a (s_pool s) = Some c ->
  mk_a s i (set_kc t k c) ab = a_set_c (mk_a s i t ab) CPooled.
Proof.
  intros Hin Hl. unfold mk_a, a_set_c. cbn [a_mode a_sel a_absent a_c a_owns]. f_equal.
  unfold cst_of. cbn [set_kc t_c t_eps t_sel].
  destruct (c =? i) eqn:E.
  - apply Nat.eqb_eq in E. subst c. now rewrite (lookup_pooled _ _ _ Hl).
  - assert (H : pooled_in (t_eps t) c (s_pool s) = true) by (apply pooled_in_true_iff; eauto). now rewrite H.
Qed.

(* ---------- one lemma per instruction ---------- *)

Ltac start I Ht Er Ek E :=
  let Hok := fresh "Hok" in
  pose proof (inv_thr _ I _ _ Ht) as [Hsel Hok]; rewrite Er in Hok; destruct Hok as [ab [Hab Hc]];
  rewrite Ek in Hc; unfold tstep in E; rewrite Er, Ek in E; cbn [check] in Hc; split_andb.

Ltac get_mode Hm :=
  match goal with H : mode_eqb _ _ = true |- _ => apply mode_eqb_true in H; cbn [a_mode mk_a] in H; rename H into Hm end.

Lemma tstep_runlock sh i t k ch :
  t_res t = Running -> t_k t = IRUnlock ;; k -> mem i (s_rh sh) = true ->
  tstep sh i t ch = TNext (with_rh sh (remove_one i (s_rh sh))) (set_k t k).
Proof.
  intros Er Ek Hin. unfold tstep. rewrite Er, Ek. destruct (s_rh sh) as [|r0 rr] eqn:E; [discriminate Hin|].
  now rewrite Hin.
Qed.

Section Steps.
  Variables (s : st) (i : nat) (t : thread) (k : code) (ch : option nat) (sh' : shared) (t' : thread).
  Hypothesis I : Inv s.
  Hypothesis Ht : nth_error (st_thr s) i = Some t.
  Hypothesis Er : t_res t = Running.
  Let goal := Inv {| st_sh := sh'; st_thr := upd i t' (st_thr s) |}.

  Lemma no_absent_ok sh u : absent_ok sh i u false.
  Proof. intro H. discriminate H. Qed.

  Lemma step_IIfEmptyErr : t_k t = IIfEmptyErr ;; k -> tstep (st_sh s) i t ch = TNext sh' t' -> goal.
  Proof.
    intros Ek E. start I Ht Er Ek E. get_mode Hm.
    remember (t_eps t) as e eqn:Ee in E. destruct e; inversion E; subst sh' t'; clear E.
    - apply (inv_step_local s i t _ I Ht); [|reflexivity]. split; [exact Hsel|]. cbn [finish t_res].
      repeat split; try congruence. cbn [a_owns mk_a] in *. now apply negb_true_iff.
    - apply (inv_step_local s i t _ I Ht); [|reflexivity]. split; [exact Hsel|]. cbn [set_k t_res t_k]. rewrite Er.
      exists ab. split; [exact Hab|]. now rewrite mk_a_set_k.
  Qed.

  Lemma step_IRLock : t_k t = IRLock ;; k -> tstep (st_sh s) i t ch = TNext sh' t' -> goal.
  Proof.
    intros Ek E. start I Ht Er Ek E. get_mode Hm. destruct (mode_of_MN _ _ Hm) as [_ Hni].
    destruct (s_wh (st_sh s)) eqn:Ew; [discriminate E|]. inversion E; subst sh' t'; clear E.
    apply (inv_step_close s i t _ _ I Ht).
    - split; [|split; [|split]]; cbn [with_rh s_open s_wh s_pool]; auto; [|tauto].
      intros j Hj. unfold mode_of. cbn [with_rh s_wh s_rh]. rewrite Ew, mem_cons.
      replace (j =? i) with false by (symmetry; now apply Nat.eqb_neq). reflexivity.
    - split; [exact Hsel|]. cbn [set_k t_res t_k]. rewrite Er. exists false. split; [apply no_absent_ok|].
      match goal with H : check _ k = true |- _ => rewrite <- H end. f_equal.
      unfold mk_a, a_set_mode. cbn [a_mode a_sel a_absent a_c a_owns]. f_equal.
      unfold mode_of. cbn [with_rh s_wh s_rh]. now rewrite Ew, mem_cons, Nat.eqb_refl.
    - cbn [with_rh s_wh]. congruence.
    - cbn [with_rh s_rh]. destruct (inv_rh s I) as [Hnd _]. split.
      + constructor; [now apply mem_false_iff | exact Hnd].
      + intros r [<-|Hr]; auto.
    - exact (inv_keys s I).
    - intros a x Hin. left. split; [exact Hin|]. intros ->. destruct (inv_pool s I a i Hin) as [u [_ [_ Hmm]]]. exact Hmm.
    - destruct (inv_open s I) as [Hnd _]. cbn [with_rh s_open]. auto.
    - now left.
  Qed.
  (* conditions of inv_step_close that only concern pool and open, when neither changes *)
  Ltac same_pool_open :=
    first
      [ exact (inv_keys s I)
      | (let a := fresh "a" in let x := fresh "x" in let Hin := fresh "Hin" in let u := fresh "u" in let Hmm := fresh "Hmm" in
         intros a x Hin; left; split; [exact Hin|]; intros ->;
         destruct (inv_pool s I a i Hin) as [u [_ [_ Hmm]]]; exact Hmm)
      | (let Hnd := fresh "Hnd" in destruct (inv_open s I) as [Hnd _]; auto) ].

  Lemma step_IRUnlock : t_k t = IRUnlock ;; k -> tstep (st_sh s) i t ch = TNext sh' t' -> goal.
  Proof.
    intros Ek E. pose proof E as E0. start I Ht Er Ek E. clear E. get_mode Hm. pose proof (mode_of_MR _ _ Hm) as Hin.
    rewrite (tstep_runlock _ _ _ _ _ Er Ek Hin) in E0. inversion E0; subst sh' t'; clear E0.
    assert (Ew : s_wh (st_sh s) = None).
    { destruct (s_wh (st_sh s)) as [w|] eqn:Ew; [|reflexivity]. destruct (inv_wh s I w Ew) as [Hr _].
      rewrite Hr in Hin. discriminate Hin. }
    destruct (inv_rh s I) as [Hnd Hex].
    apply (inv_step_close s i t _ _ I Ht).
    - split; [|split; [|split]]; cbn [with_rh s_open s_wh s_pool]; auto; [|tauto].
      intros j Hj. unfold mode_of. cbn [with_rh s_wh s_rh]. rewrite Ew. now rewrite mem_remove_one_neq.
    - split; [exact Hsel|]. cbn [set_k t_res t_k]. rewrite Er. exists false. split; [apply no_absent_ok|].
      match goal with H : check _ k = true |- _ => rewrite <- H end. f_equal.
      unfold mk_a, a_set_mode. cbn [a_mode a_sel a_absent a_c a_owns]. f_equal.
      unfold mode_of. cbn [with_rh s_wh s_rh]. now rewrite Ew, mem_remove_one_eq.
    - cbn [with_rh s_wh]. congruence.
    - cbn [with_rh s_rh]. split; [now apply NoDup_remove_one|]. intros r Hr. right. now apply In_remove_one in Hr.
    - same_pool_open.
    - same_pool_open.
    - same_pool_open.
    - now left.
  Qed.

  Lemma step_ILock : t_k t = ILock ;; k -> tstep (st_sh s) i t ch = TNext sh' t' -> goal.
  Proof.
    intros Ek E. start I Ht Er Ek E. get_mode Hm.
    destruct (s_wh (st_sh s)) eqn:Ew; [discriminate E|]. destruct (s_rh (st_sh s)) eqn:Erh; [|discriminate E].
    inversion E; subst sh' t'; clear E.
    apply (inv_step_close s i t _ _ I Ht).
    - split; [|split; [|split]]; cbn [with_wh s_open s_wh s_pool]; auto.
      + intros j Hj. unfold mode_of. cbn [with_wh s_wh s_rh]. rewrite Ew, Erh.
        replace (i =? j) with false by (symmetry; apply Nat.eqb_neq; congruence). reflexivity.
      + intros j Hj. split; intro HH; [inversion HH|]; congruence.
    - split; [exact Hsel|]. cbn [set_k t_res t_k]. rewrite Er. exists false. split; [apply no_absent_ok|].
      match goal with H : check _ k = true |- _ => rewrite <- H end. f_equal.
      unfold mk_a, a_set_mode. cbn [a_mode a_sel a_absent a_c a_owns]. f_equal.
      unfold mode_of. cbn [with_wh s_wh s_rh]. now rewrite Nat.eqb_refl.
    - cbn [with_wh s_wh s_rh]. intros w Hw. inversion Hw; subst. auto.
    - cbn [with_wh s_rh]. rewrite Erh. split; [constructor | intros r []].
    - same_pool_open.
    - same_pool_open.
    - same_pool_open.
    - now left.
  Qed.

  Lemma step_IUnlock : t_k t = IUnlock ;; k -> tstep (st_sh s) i t ch = TNext sh' t' -> goal.
  Proof.
    intros Ek E. start I Ht Er Ek E. get_mode Hm. pose proof (mode_of_MW _ _ Hm) as Ew. rewrite Ew in E.
    inversion E; subst sh' t'; clear E. destruct (inv_wh s I i Ew) as [Erh _].
    apply (inv_step_close s i t _ _ I Ht).
    - split; [|split; [|split]]; cbn [with_wh s_open s_wh s_pool]; auto.
      + intros j Hj. unfold mode_of. cbn [with_wh s_wh s_rh]. rewrite Ew, Erh.
        replace (i =? j) with false by (symmetry; apply Nat.eqb_neq; congruence). reflexivity.
      + intros j Hj. rewrite Ew. split; intro HH; [discriminate HH | inversion HH; congruence].
    - split; [exact Hsel|]. cbn [set_k t_res t_k]. rewrite Er. exists false. split; [apply no_absent_ok|].
      match goal with H : check _ k = true |- _ => rewrite <- H end. f_equal.
      unfold mk_a, a_set_mode. cbn [a_mode a_sel a_absent a_c a_owns]. f_equal.
      unfold mode_of. cbn [with_wh s_wh s_rh]. now rewrite Erh.
    - cbn [with_wh s_wh]. congruence.
    - cbn [with_wh s_rh]. rewrite Erh. split; [constructor | intros r []].
    - same_pool_open.
    - same_pool_open.
    - same_pool_open.
    - now left.
  Qed.
  Lemma step_IRangeLookup hit : t_k t = IRangeLookup hit ;; k -> tstep (st_sh s) i t ch = TNext sh' t' -> goal.
  Proof.
    intros Ek E. start I Ht Er Ek E.
    destruct (first_hit (t_eps t) (s_pool (st_sh s))) as [c|] eqn:Ef; inversion E; subst sh' t'; clear E.
    - destruct (first_hit_Some _ _ _ Ef) as [a [Hin Hl]].
      apply (inv_step_local s i t _ I Ht); [|reflexivity]. split; [exact Hsel|]. cbn [set_kc t_res t_k]. rewrite Er.
      exists ab. split; [exact Hab|]. now rewrite (cst_of_found _ _ _ _ _ a ab Hin Hl).
    - apply (inv_step_local s i t _ I Ht); [|reflexivity]. split; [exact Hsel|]. cbn [set_k t_res t_k]. rewrite Er.
      exists ab. split; [exact Hab|]. now rewrite mk_a_set_k.
  Qed.

  Lemma step_ILookupSel hit : t_k t = ILookupSel hit ;; k -> tstep (st_sh s) i t ch = TNext sh' t' -> goal.
  Proof.
    intros Ek E. start I Ht Er Ek E.
    destruct (t_sel t) as [a|] eqn:Es; [|discriminate E].
    destruct (lookup a (s_pool (st_sh s))) as [c|] eqn:El; inversion E; subst sh' t'; clear E.
    - apply (inv_step_local s i t _ I Ht); [|cbn [set_kc t_sel]; congruence]. split; [cbn [set_kc t_sel t_eps]; now rewrite Es|].
      cbn [set_kc t_res t_k]. rewrite Er. exists ab. split; [intro Eab; destruct (Hab Eab) as [Hw [a' [Ha' Hl']]]; split; [exact Hw|]; exists a'; auto|].
      now rewrite (cst_of_found _ _ _ _ _ a ab (Hsel a eq_refl) El).
    - apply (inv_step_local s i t _ I Ht); [|cbn [set_k t_sel]; congruence]. split; [cbn [set_k t_sel t_eps]; now rewrite Es|].
      cbn [set_k t_res t_k]. rewrite Er. exists (mode_eqb (mode_of (st_sh s) i) MW). split.
      + intro Em. apply mode_eqb_true in Em. split; [now apply mode_of_MW|]. exists a. cbn [set_k t_sel]. auto.
      + match goal with H : check _ k = true |- _ => rewrite <- H end. f_equal.
        unfold mk_a. cbn [a_mode a_sel a_absent a_c a_owns]. f_equal. unfold sel_b. cbn [set_k t_sel]. now rewrite Es.
  Qed.

  Lemma step_INewClient : t_k t = INewClient ;; k -> tstep (st_sh s) i t ch = TNext sh' t' -> goal.
  Proof.
    intros Ek E. start I Ht Er Ek E.
    destruct (t_sel t) as [a|] eqn:Es; [|discriminate E]. inversion E; subst sh' t'; clear E.
    apply (inv_step_local s i t _ I Ht); [|cbn [set_kc t_sel]; congruence]. split; [cbn [set_kc t_sel t_eps]; now rewrite Es|].
    cbn [set_kc t_res t_k]. rewrite Er. exists ab. split; [intro Eab; destruct (Hab Eab) as [Hw [a' [Ha' Hl']]]; split; [exact Hw|]; exists a'; auto|].
    match goal with H : check _ k = true |- _ => rewrite <- H end. f_equal.
    unfold mk_a, a_set_c. cbn [a_mode a_sel a_absent a_c a_owns]. f_equal.
    unfold cst_of. cbn [set_kc t_c t_sel]. rewrite Nat.eqb_refl, Es.
    match goal with H : a_owns _ = true |- _ => cbn [a_owns mk_a] in H; unfold owns_of in H; apply andb_true_iff in H; destruct H as [_ Hp] end.
    apply negb_true_iff in Hp. now rewrite Hp.
  Qed.

  Lemma step_IAddHandler : t_k t = IAddHandler ;; k -> tstep (st_sh s) i t ch = TNext sh' t' -> goal.
  Proof.
    intros Ek E. start I Ht Er Ek E. inversion E; subst sh' t'; clear E.
    apply (inv_step_local s i t _ I Ht); [|reflexivity]. split; [exact Hsel|]. cbn [set_k t_res t_k]. rewrite Er.
    exists ab. split; [exact Hab|]. now rewrite mk_a_set_k.
  Qed.

  Lemma step_IReturnC : t_k t = IReturnC ;; k -> tstep (st_sh s) i t ch = TNext sh' t' -> goal.
  Proof.
    intros Ek E. start I Ht Er Ek E. get_mode Hm. inversion E; subst sh' t'; clear E.
    match goal with H : cst_eqb _ _ = true |- _ => apply cst_eqb_true in H; cbn [a_c mk_a] in H; rename H into Hcst end.
    match goal with H : negb (a_owns _) = true |- _ => apply negb_true_iff in H; cbn [a_owns mk_a] in H; rename H into Hown end.
    apply (inv_step_local s i t _ I Ht); [|reflexivity]. split; [exact Hsel|]. cbn [finish t_res t_eps].
    unfold cst_of in Hcst. destruct (t_c t) as [c|] eqn:Ec; [|discriminate Hcst].
    repeat split; try congruence. intros c0 E0. inversion E0; subst c0.
    destruct (c =? i) eqn:Eci.
    - apply Nat.eqb_eq in Eci. subst c. destruct (pooled i (s_pool (st_sh s))) eqn:Ep; [|destruct (t_sel t); discriminate Hcst].
      apply pooled_true_iff in Ep. destruct Ep as [a Hin].
      destruct (inv_pool s I a i Hin) as [u [Hu [Hus _]]]. rewrite Ht in Hu. inversion Hu; subst u.
      apply pooled_in_true_iff. exists a. split; [now apply Hsel|]. apply In_lookup; [exact (inv_keys s I) | exact Hin].
    - destruct (pooled_in (t_eps t) c (s_pool (st_sh s))); [reflexivity | discriminate Hcst].
  Qed.
  Lemma step_IDialOrErr : t_k t = IDialOrErr ;; k -> tstep (st_sh s) i t ch = TNext sh' t' -> goal.
  Proof.
    intros Ek E. start I Ht Er Ek E. get_mode Hm.
    match goal with H : negb (a_sel _) = true |- _ => apply negb_true_iff in H; cbn [a_sel mk_a] in H; unfold sel_b in H; rename H into Hs end.
    match goal with H : negb (a_owns _) = true |- _ => apply negb_true_iff in H; cbn [a_owns mk_a] in H; rename H into Hown end.
    destruct (t_sel t) as [a0|] eqn:Es; [discriminate Hs|].
    destruct ch as [a|].
    2:{ inversion E; subst sh' t'; clear E.
        apply (inv_step_local s i t _ I Ht); [|reflexivity].
        split; [cbn [finish t_sel t_eps]; rewrite Es; intros ? HH; discriminate HH|]. cbn [finish t_res].
        repeat split; congruence. }
    destruct (mem a (t_eps t)) eqn:Ea; [|discriminate E]. inversion E; subst sh' t'; clear E.
    assert (Hnp : pooled i (s_pool (st_sh s)) = false).
    { destruct (pooled i (s_pool (st_sh s))) eqn:Ep; [|reflexivity]. apply pooled_true_iff in Ep. destruct Ep as [a1 Hin].
      destruct (inv_pool s I a1 i Hin) as [u [Hu [Hus _]]]. rewrite Ht in Hu. inversion Hu; subst u. congruence. }
    assert (Hno : ~ In i (s_open (st_sh s))).
    { intro Hin. destruct (inv_open s I) as [_ Ho]. destruct (Ho i Hin) as [u [a1 [Hu Hus]]].
      rewrite Ht in Hu. inversion Hu; subst u. congruence. }
    apply (inv_step_close s i t _ _ I Ht).
    - split; [|split; [|split]]; cbn [with_open s_open s_wh s_pool s_rh]; auto; [|tauto].
      intros j Hj. rewrite mem_cons. replace (j =? i) with false by (symmetry; now apply Nat.eqb_neq). reflexivity.
    - split; [cbn [set_ksel t_sel t_eps]; intros a1 Ea1; inversion Ea1; subst a1; now apply mem_true_iff|].
      cbn [set_ksel t_res t_k]. rewrite Er. exists false. split; [apply no_absent_ok|].
      match goal with H : check _ k = true |- _ => rewrite <- H end. f_equal.
      unfold mk_a. cbn [a_mode a_sel a_absent a_c a_owns]. f_equal.
      + exact Hm.
      + assert (Hb : cst_of (st_sh s) i t <> CBad).
        { match goal with H : negb (cst_eqb _ CBad) = true |- _ =>
            apply negb_true_iff in H; cbn [a_c mk_a] in H; intro Eb; rewrite Eb in H; discriminate H end. }
        unfold cst_of in *. cbn [set_ksel t_c t_sel t_eps with_open s_pool].
        rewrite Es in Hb. destruct (t_c t) as [c|]; [|reflexivity]. destruct (c =? i); [|reflexivity].
        rewrite Hnp in *. congruence.
      + unfold owns_of. cbn [with_open s_open s_pool]. now rewrite mem_cons, Nat.eqb_refl, Hnp.
    - cbn [with_open s_wh s_rh]. intros w Hw. destruct (inv_wh s I w Hw) as [Hr _]. auto.
    - cbn [with_open s_rh]. destruct (inv_rh s I) as [Hnd _]. auto.
    - exact (inv_keys s I).
    - intros a1 x Hin. left. split; [exact Hin|]. intros _. cbn [with_open s_open]. now rewrite mem_cons, Nat.eqb_refl.
    - cbn [with_open s_open]. destruct (inv_open s I) as [Hnd _]. split; [now constructor|].
      intros x [<-|Hx]; [right; split; [reflexivity | cbn [set_ksel t_sel]; discriminate] | now left].
    - now right.
  Qed.

  Lemma step_IInsert : t_k t = IInsert ;; k -> tstep (st_sh s) i t ch = TNext sh' t' -> goal.
  Proof.
    intros Ek E. start I Ht Er Ek E. get_mode Hm. pose proof (mode_of_MW _ _ Hm) as Ew.
    match goal with H : cst_eqb _ _ = true |- _ => apply cst_eqb_true in H; cbn [a_c mk_a] in H; rename H into Hcst end.
    match goal with H : a_owns _ = true |- _ => cbn [a_owns mk_a] in H; unfold owns_of in H; apply andb_true_iff in H; destruct H as [Hop Hnp] end.
    apply negb_true_iff in Hnp.
    match goal with H : a_absent _ = true |- _ => cbn [a_absent mk_a] in H; rename H into Eab end.
    destruct (Hab Eab) as [_ [a [Es El]]].
    assert (Ec : t_c t = Some i).
    { unfold cst_of in Hcst. destruct (t_c t) as [c|]; [|discriminate Hcst]. destruct (c =? i) eqn:Eci.
      - apply Nat.eqb_eq in Eci. now subst.
      - destruct (pooled_in (t_eps t) c (s_pool (st_sh s))); discriminate Hcst. }
    rewrite Es, Ec in E. inversion E; subst sh' t'; clear E.
    apply (inv_step_close s i t _ _ I Ht).
    - split; [|split; [|split]]; cbn [with_pool s_open s_wh s_pool s_rh]; auto; [tauto|].
      right. exists a. auto.
    - split; [exact Hsel|]. cbn [set_k t_res t_k]. rewrite Er. exists false. split; [apply no_absent_ok|].
      match goal with H : check _ k = true |- _ => rewrite <- H end. f_equal.
      unfold mk_a. cbn [a_mode a_sel a_absent a_c a_owns]. f_equal.
      + exact Hm.
      + unfold cst_of. cbn [set_k t_c with_pool s_pool]. now rewrite Ec, Nat.eqb_refl, pooled_cons, Nat.eqb_refl.
      + unfold owns_of. cbn [with_pool s_pool s_open]. rewrite pooled_cons, Nat.eqb_refl. cbn. apply andb_false_r.
    - cbn [with_pool s_wh s_rh]. intros w Hw. destruct (inv_wh s I w Hw) as [Hr _]. auto.
    - cbn [with_pool s_rh]. destruct (inv_rh s I) as [Hnd _]. auto.
    - cbn [with_pool s_pool map fst]. constructor; [now apply lookup_None_notin | exact (inv_keys s I)].
    - cbn [with_pool s_pool s_open]. intros a1 x [Eq|Hin].
      + inversion Eq; subst a1 x. right. cbn [set_k t_sel]. auto.
      + left. split; [exact Hin|]. intros _. exact Hop.
    - cbn [with_pool s_open]. destruct (inv_open s I) as [Hnd _]. auto.
    - now left.
  Qed.

  Lemma step_ICloseEndpoint : t_k t = ICloseEndpoint ;; k -> tstep (st_sh s) i t ch = TNext sh' t' -> goal.
  Proof.
    intros Ek E. start I Ht Er Ek E. inversion E; subst sh' t'; clear E.
    match goal with H : a_owns _ = true |- _ => cbn [a_owns mk_a] in H; unfold owns_of in H; apply andb_true_iff in H; destruct H as [Hop Hnp] end.
    apply negb_true_iff in Hnp. destruct (inv_open s I) as [Hnd _].
    apply (inv_step_close s i t _ _ I Ht).
    - split; [|split; [|split]]; cbn [with_open s_open s_wh s_pool s_rh]; auto; [|tauto].
      intros j Hj. now apply mem_remove_one_neq.
    - split; [exact Hsel|]. cbn [set_k t_res t_k]. rewrite Er. exists ab. split; [exact Hab|].
      match goal with H : check _ k = true |- _ => rewrite <- H end. f_equal.
      unfold mk_a. cbn [a_mode a_sel a_absent a_c a_owns]. f_equal.
      unfold owns_of. cbn [with_open s_open s_pool]. now rewrite mem_remove_one_eq.
    - cbn [with_open s_wh s_rh]. intros w Hw. destruct (inv_wh s I w Hw) as [Hr _]. auto.
    - cbn [with_open s_rh]. destruct (inv_rh s I) as [Hnd' _]. auto.
    - exact (inv_keys s I).
    - cbn [with_open s_pool s_open]. intros a x Hin. left. split; [exact Hin|]. intros ->.
      exfalso. assert (pooled i (s_pool (st_sh s)) = true) by (apply pooled_true_iff; eauto). congruence.
    - cbn [with_open s_open]. split; [now apply NoDup_remove_one|]. intros x Hx. left. now apply In_remove_one in Hx.
    - now left.
  Qed.
End Steps.

(* ---------- the invariant along every schedule ---------- *)

Theorem tstep_inv s i t ch sh' t' :
  Inv s -> nth_error (st_thr s) i = Some t -> tstep (st_sh s) i t ch = TNext sh' t' ->
  Inv {| st_sh := sh'; st_thr := upd i t' (st_thr s) |}.
Proof.
  intros I Ht E. pose proof E as E0. unfold tstep in E0.
  destruct (t_res t) eqn:Er; try discriminate E0. destruct (t_k t) as [|ins k] eqn:Ek; [discriminate E0|]. clear E0.
  destruct ins.
  - eapply step_IIfEmptyErr; eauto.
  - eapply step_IRLock; eauto.
  - eapply step_IRUnlock; eauto.
  - eapply step_ILock; eauto.
  - eapply step_IUnlock; eauto.
  - eapply step_IRangeLookup; eauto.
  - eapply step_IDialOrErr; eauto.
  - eapply step_ILookupSel; eauto.
  - eapply step_INewClient; eauto.
  - eapply step_IInsert; eauto.
  - eapply step_IAddHandler; eauto.
  - eapply step_ICloseEndpoint; eauto.
  - eapply step_IReturnC; eauto.
Qed.

Theorem tstep_no_fatal s i t ch : Inv s -> nth_error (st_thr s) i = Some t -> tstep (st_sh s) i t ch <> TFatal.
Proof.
  intros I Ht E. pose proof (inv_thr _ I _ _ Ht) as [_ Hok]. unfold tstep in E.
  destruct (t_res t) eqn:Er; try discriminate E. destruct Hok as [ab [_ Hc]].
  destruct (t_k t) as [|ins k] eqn:Ek; [discriminate E|].
  destruct ins; cbn [check] in Hc; split_andb;
    repeat match goal with
           | H : match ?x with _ => _ end = TFatal |- _ => destruct x eqn:?; try discriminate H
           end; try discriminate E.
  - get_mode Hm. apply mode_of_MR in Hm. match goal with H : s_rh _ = [] |- _ => rewrite H in Hm end. discriminate Hm.
  - get_mode Hm. apply mode_of_MW in Hm. congruence.
Qed.

Theorem step_inv s l s' : Inv s -> step s l = Run s' -> Inv s'.
Proof.
  intros I E. unfold step in E. destruct l as [i ch]. destruct (nth_error (st_thr s) i) as [t|] eqn:Ht; [|discriminate E].
  destruct (tstep (st_sh s) i t ch) as [| |sh' t'] eqn:Et; try discriminate E. inversion E; subst s'.
  exact (tstep_inv s i t ch sh' t' I Ht Et).
Qed.

Theorem step_no_fatal s l : Inv s -> step s l <> Fatal.
Proof.
  intros I E. unfold step in E. destruct l as [i ch]. destruct (nth_error (st_thr s) i) as [t|] eqn:Ht; [|discriminate E].
  destruct (tstep (st_sh s) i t ch) as [| |sh' t'] eqn:Et; try discriminate E.
  exact (tstep_no_fatal s i t ch I Ht Et).
Qed.

Theorem exec_inv ls : forall s s', Inv s -> exec s ls = Run s' -> Inv s'.
Proof.
  induction ls as [|l ls IH]; intros s s' I E; cbn [exec] in E; [inversion E; now subst|].
  destruct (step s l) as [s1| |] eqn:Es; try discriminate E. exact (IH s1 s' (step_inv s l s1 I Es) E).
Qed.

Theorem exec_no_fatal ls : forall s, Inv s -> exec s ls <> Fatal.
Proof.
  induction ls as [|l ls IH]; intros s I E; cbn [exec] in E; [discriminate E|].
  destruct (step s l) as [s1| |] eqn:Es; try discriminate E.
  - exact (IH s1 (step_inv s l s1 I Es) E).
  - exact (step_no_fatal s l I Es).
Qed.

Lemma check_prog_clean : check a_init (prog cfg_clean) = true.
Proof. vm_compute. reflexivity. Qed.

Theorem init_inv c epss : clean c -> Inv (init c epss).
Proof.
  intro Hc. destruct c as [b]. unfold clean in Hc. cbn in Hc. subst b.
  constructor; cbn [init st_sh st_thr init_sh s_wh s_rh s_pool s_open map fst].
  - discriminate.
  - split; [constructor | intros r []].
  - constructor.
  - intros a x [].
  - split; [constructor | intros x []].
  - intros i t Ht. apply nth_error_In in Ht. apply in_map_iff in Ht. destruct Ht as [eps [<- _]].
    split; [cbn; discriminate|]. cbn [new_thread t_res t_k]. exists false. split; [intro H; discriminate H|].
    exact check_prog_clean.
Qed.

(* ---------- C19 over every number of threads and every schedule ---------- *)

Section C19.
  Variable c : cfg.
  Hypothesis Hclean : clean c.
  Variable epss : list (list nat).
  Variable ls : list label.

  Theorem no_fatal : exec (init c epss) ls <> Fatal.
  Proof. apply exec_no_fatal. now apply init_inv. Qed.

  Variable s : st.
  Hypothesis Hrun : exec (init c epss) ls = Run s.

  Lemma reach_inv : Inv s.
  Proof. exact (exec_inv ls _ _ (init_inv c epss Hclean) Hrun). Qed.

  (* at most one pooled client per address *)
  Theorem one_client_per_address : NoDup (map fst (s_pool (st_sh s))).
  Proof. exact (inv_keys s reach_inv). Qed.

  (* a caller that has returned got the client pooled for one of the addresses of its service,
     and the connection of that client is open *)
  Theorem caller_gets_pooled i t cl :
    nth_error (st_thr s) i = Some t -> t_res t = Returned cl ->
    exists a, In a (t_eps t) /\ lookup a (s_pool (st_sh s)) = Some cl /\ mem cl (s_open (st_sh s)) = true.
  Proof.
    intros Ht Er. pose proof (inv_thr s reach_inv i t Ht) as [_ Hok]. rewrite Er in Hok.
    destruct Hok as [_ [_ [Hp _]]]. specialize (Hp cl eq_refl). apply pooled_in_true_iff in Hp.
    destruct Hp as [a [Hin Hl]]. exists a. split; [exact Hin|]. split; [exact Hl|].
    destruct (inv_pool s reach_inv a cl (lookup_In _ _ _ Hl)) as [u [_ [_ Hm]]]. exact Hm.
  Qed.

  (* no call returns a nil client without an error *)
  Theorem never_nil i t : nth_error (st_thr s) i = Some t -> t_res t <> ReturnedNil.
  Proof.
    intros Ht Er. pose proof (inv_thr s reach_inv i t Ht) as [_ Hok]. rewrite Er in Hok.
    destruct Hok as [_ [_ [_ H]]]. now apply H.
  Qed.

  (* callers of services behind the same single address share one client *)
  Theorem same_address_same_client i j t u a c1 c2 :
    nth_error (st_thr s) i = Some t -> nth_error (st_thr s) j = Some u ->
    t_eps t = [a] -> t_eps u = [a] -> t_res t = Returned c1 -> t_res u = Returned c2 -> c1 = c2.
  Proof.
    intros Ht Hu Et Eu Rt Ru.
    destruct (caller_gets_pooled i t c1 Ht Rt) as [a1 [H1 [L1 _]]].
    destruct (caller_gets_pooled j u c2 Hu Ru) as [a2 [H2 [L2 _]]].
    rewrite Et in H1. rewrite Eu in H2. destruct H1 as [<-|[]]. destruct H2 as [<-|[]]. congruence.
  Qed.

  (* once every call has returned, every open connection is a pooled one ... *)
  Theorem open_are_pooled x : all_done s = true -> In x (s_open (st_sh s)) -> pooled x (s_pool (st_sh s)) = true.
  Proof.
    intros Hd Hx. destruct (inv_open s reach_inv) as [_ Ho]. destruct (Ho x Hx) as [t [a [Ht _]]].
    pose proof (inv_thr s reach_inv x t Ht) as [_ Hok].
    unfold all_done in Hd. rewrite forallb_forall in Hd. specialize (Hd t (nth_error_In _ _ Ht)).
    destruct (t_res t) eqn:Er; try discriminate Hd; destruct Hok as [_ [Hown _]]; unfold owns_of in Hown;
      apply mem_true_iff in Hx; rewrite Hx in Hown; cbn in Hown; now apply negb_false_iff in Hown.
  Qed.

  (* ... hence at most one connection per address stays open *)
  Theorem one_connection_per_address x y t u a :
    all_done s = true -> In x (s_open (st_sh s)) -> In y (s_open (st_sh s)) ->
    nth_error (st_thr s) x = Some t -> nth_error (st_thr s) y = Some u ->
    t_sel t = Some a -> t_sel u = Some a -> x = y.
  Proof.
    intros Hd Hx Hy Ht Hu St Su.
    pose proof (open_are_pooled x Hd Hx) as Px. pose proof (open_are_pooled y Hd Hy) as Py.
    apply pooled_true_iff in Px. apply pooled_true_iff in Py. destruct Px as [a1 P1]. destruct Py as [a2 P2].
    destruct (inv_pool s reach_inv a1 x P1) as [t1 [Ht1 [S1 _]]]. destruct (inv_pool s reach_inv a2 y P2) as [u1 [Hu1 [S2 _]]].
    rewrite Ht in Ht1. inversion Ht1; subst t1. rewrite Hu in Hu1. inversion Hu1; subst u1.
    assert (a1 = a) by congruence. assert (a2 = a) by congruence. subst a1 a2.
    pose proof (In_lookup _ _ _ (inv_keys s reach_inv) P1) as L1.
    pose proof (In_lookup _ _ _ (inv_keys s reach_inv) P2) as L2. congruence.
  Qed.
End C19.

(* a call fails only when its service has no endpoint or the dial failed *)
Theorem failed_only_without_endpoint sh i t ch sh' t' :
  tstep sh i t ch = TNext sh' t' -> t_res t' = Failed -> t_eps t = [] \/ ch = None.
Proof.
  unfold tstep. destruct (t_res t) eqn:Er; try discriminate. destruct (t_k t) as [|ins k]; [discriminate|].
  destruct ins; intros E Ef;
    repeat match goal with
           | H : match ?x with _ => _ end = TNext _ _ |- _ => destruct x eqn:?; try discriminate H
           | H : (if ?x then _ else _) = TNext _ _ |- _ => destruct x eqn:?; try discriminate H
           end; inversion E; subst; cbn in Ef; try congruence; auto;
    try (destruct (t_c t); discriminate Ef).
Qed.

(* ---------- progress: no schedule gets stuck with a call still running ---------- *)

Lemma enabled s i t :
  Inv s -> nth_error (st_thr s) i = Some t -> t_res t = Running ->
  (mode_of (st_sh s) i <> MN \/ (s_wh (st_sh s) = None /\ s_rh (st_sh s) = [])) ->
  exists sh' t', tstep (st_sh s) i t None = TNext sh' t'.
Proof.
  intros I Ht Er Hen. pose proof (inv_thr _ I _ _ Ht) as [Hsel Hok]. rewrite Er in Hok. destruct Hok as [ab [Hab Hc]].
  unfold tstep. rewrite Er. destruct (t_k t) as [|ins k]; [cbn in Hc; rewrite andb_false_r in Hc; discriminate Hc|].
  destruct ins; cbn [check] in Hc; split_andb; try get_mode Hm.
  - destruct (t_eps t); eauto.
  - destruct Hen as [Hn|[Hw _]]; [congruence|]. rewrite Hw. eauto.
  - apply mode_of_MR in Hm. destruct (s_rh (st_sh s)); [discriminate Hm|]. eauto.
  - destruct Hen as [Hn|[Hw Hr]]; [congruence|]. rewrite Hw, Hr. eauto.
  - apply mode_of_MW in Hm. rewrite Hm. eauto.
  - destruct (first_hit (t_eps t) (s_pool (st_sh s))); eauto.
  - eauto.
  - match goal with H : a_sel _ = true |- _ => cbn [a_sel mk_a] in H; unfold sel_b in H end.
    destruct (t_sel t); [|discriminate]. destruct (lookup n (s_pool (st_sh s))); eauto.
  - match goal with H : a_sel _ = true |- _ => cbn [a_sel mk_a] in H; unfold sel_b in H end.
    destruct (t_sel t); [|discriminate]. eauto.
  - match goal with H : a_absent _ = true |- _ => cbn [a_absent mk_a] in H; destruct (Hab H) as [_ [a [Es _]]] end.
    match goal with H : cst_eqb _ _ = true |- _ => apply cst_eqb_true in H; cbn [a_c mk_a] in H; unfold cst_of in H end.
    rewrite Es. destruct (t_c t); [eauto | discriminate].
  - eauto.
  - eauto.
  - eauto.
Qed.

Theorem no_deadlock s : Inv s -> all_done s = false -> exists l s', step s l = Run s'.
Proof.
  intros I Hd.
  assert (Hgo : forall i t, nth_error (st_thr s) i = Some t -> t_res t = Running ->
                 (mode_of (st_sh s) i <> MN \/ (s_wh (st_sh s) = None /\ s_rh (st_sh s) = [])) ->
                 exists l s', step s l = Run s').
  { intros i t Ht Er Hen. destruct (enabled s i t I Ht Er Hen) as [sh' [t' E]].
    exists (i, None). eexists. unfold step. rewrite Ht, E. reflexivity. }
  assert (Hrun : forall i t, nth_error (st_thr s) i = Some t -> mode_of (st_sh s) i <> MN -> t_res t = Running).
  { intros i t Ht Hm. pose proof (inv_thr _ I _ _ Ht) as [_ Hok].
    destruct (t_res t); [reflexivity| | |]; destruct Hok as [H _]; congruence. }
  destruct (s_wh (st_sh s)) as [w|] eqn:Ew.
  - destruct (inv_wh s I w Ew) as [_ [t Ht]].
    assert (Hm : mode_of (st_sh s) w <> MN) by (unfold mode_of; rewrite Ew, Nat.eqb_refl; discriminate).
    exact (Hgo w t Ht (Hrun w t Ht Hm) (or_introl Hm)).
  - destruct (s_rh (st_sh s)) as [|r rr] eqn:Erh.
    + unfold all_done in Hd. apply not_true_iff_false in Hd. rewrite forallb_forall in Hd.
      assert (Hex : exists t, In t (st_thr s) /\ t_res t = Running).
      { clear -Hd. induction (st_thr s) as [|t l IH].
        - exfalso. apply Hd. intros x [].
        - destruct (t_res t) eqn:Er; [exists t; split; [now left | exact Er] | | |];
            (destruct IH as [u [Hin Hu]]; [intro H; apply Hd; intros x [<-|Hx]; [now rewrite Er | now apply H] | exists u; split; [now right | exact Hu]]). }
      destruct Hex as [t [Hin Er]]. apply In_nth_error in Hin. destruct Hin as [i Ht].
      apply (Hgo i t Ht Er). right. auto.
    + destruct (inv_rh s I) as [_ Hex]. destruct (Hex r) as [t Ht]; [rewrite Erh; now left|].
      assert (Hm : mode_of (st_sh s) r <> MN) by (unfold mode_of; rewrite Ew, Erh, mem_cons, Nat.eqb_refl; discriminate).
      exact (Hgo r t Ht (Hrun r t Ht Hm) (or_introl Hm)).
Qed.

(* ---------- every schedule is finite: each step consumes program text ---------- *)

Fixpoint ksize (k : code) : nat :=
  match k with
  | CNil => 0
  | CCons i r => S (match i with IRangeLookup h | ILookupSel h => ksize h | _ => 0 end + ksize r)
  end.

Definition potential (s : st) : nat := list_sum (map (fun t => ksize (t_k t)) (st_thr s)).

Lemma tstep_shrinks sh i t ch sh' t' : tstep sh i t ch = TNext sh' t' -> ksize (t_k t') < ksize (t_k t).
Proof.
  unfold tstep. destruct (t_res t); try discriminate. destruct (t_k t) as [|ins k]; [discriminate|].
  destruct ins; intro E;
    repeat match goal with
           | H : match ?x with _ => _ end = TNext _ _ |- _ => destruct x eqn:?; try discriminate H
           | H : (if ?x then _ else _) = TNext _ _ |- _ => destruct x eqn:?; try discriminate H
           end; inversion E; subst; cbn; lia.
Qed.

Lemma sum_upd_lt (f : thread -> nat) l i t t' :
  nth_error l i = Some t -> f t' < f t -> list_sum (map f (upd i t' l)) < list_sum (map f l).
Proof.
  revert i. induction l as [|x l IH]; intros [|i] Hn Hlt; cbn in *; try discriminate.
  - inversion Hn; subst. now apply Nat.add_lt_mono_r.
  - specialize (IH i Hn Hlt). now apply Nat.add_lt_mono_l.
Qed.

Theorem exec_bounded ls : forall s s', exec s ls = Run s' -> List.length ls + potential s' <= potential s.
Proof.
  induction ls as [|l ls IH]; intros s s' E; cbn [exec] in E; [inversion E; subst; cbn; lia|].
  destruct (step s l) as [s1| |] eqn:Es; try discriminate E. specialize (IH s1 s' E).
  unfold step in Es. destruct l as [i ch]. destruct (nth_error (st_thr s) i) as [t|] eqn:Ht; [|discriminate Es].
  destruct (tstep (st_sh s) i t ch) as [| |sh' t'] eqn:Et; try discriminate Es. inversion Es; subst s1.
  pose proof (sum_upd_lt (fun t => ksize (t_k t)) _ _ _ _ Ht (tstep_shrinks _ _ _ _ _ _ Et)) as Hlt.
  unfold potential in *. cbn [st_thr List.length] in *. lia.
Qed.

Lemma potential_init c epss : potential (init c epss) = List.length epss * ksize (prog c).
Proof.
  unfold potential, init. cbn [st_thr]. induction epss as [|e l IH]; [reflexivity|].
  change (list_sum (map (fun t => ksize (t_k t)) (map (new_thread c) (e :: l))))
    with (ksize (prog c) + list_sum (map (fun t => ksize (t_k t)) (map (new_thread c) l))).
  rewrite IH. reflexivity.
Qed.

Theorem schedule_length_bounded c epss ls s :
  exec (init c epss) ls = Run s -> List.length ls <= List.length epss * ksize (prog c).
Proof. intro E. pose proof (exec_bounded ls _ _ E) as H. rewrite potential_init in H. lia. Qed.

(* ---------- the pinned program ---------- *)

Lemma check_prog_pinned : check a_init (prog cfg_pinned) = false.
Proof. vm_compute. reflexivity. Qed.

(* two goroutines ask for services behind the same endpoint 0, both miss the first lookup,
   both dial; the first one pools its client, the second finds it under the write lock and
   leaves through RUnlock *)
Definition wit_epss : list (list nat) := [[0]; [0]].
Definition wit_sched : list label :=
  [ (0, None); (0, None); (0, None); (0, None);          (* T0: len test, RLock, lookup misses, RUnlock *)
    (1, None); (1, None); (1, None); (1, None);          (* T1: the same *)
    (0, Some 0); (1, Some 0);                            (* both dial endpoint 0 *)
    (0, None); (0, None); (0, None); (0, None); (0, None); (0, None); (0, None);  (* T0: Lock, miss, new, insert, Unlock, add handler, return *)
    (1, None); (1, None); (1, None) ].                   (* T1: Lock, lookup hits, RUnlock *)
Lemma refuted_runlock_after_lock : exec (init cfg_pinned wit_epss) wit_sched = Fatal.
Proof. vm_compute. reflexivity. Qed.
Lemma wit_clean_ok :
  exists s, exec (init cfg_clean wit_epss) (wit_sched ++ [(1, None); (1, None)]) = Run s /\ all_done s = true /\
            s_pool (st_sh s) = [(0, 0)] /\ s_open (st_sh s) = [0] /\
            map t_res (st_thr s) = [Returned 0; Returned 0].
Proof. eexists. vm_compute. repeat split. Qed.
