(* DepthCost.v — two resources the cost model of Cost.v does not count (C07), as executable twins of
   frozen definitions:

   1. BYTES COPIED by the signature-driven reader (meta/signature/reader.go).  Every TypeReader
      returns the bytes it has read, and every composite reader builds its own result from what its
      members returned: tupleReader and varReader write each member's bytes into a fresh
      bytes.Buffer, valueReader returns append(signature bytes, data...).  A byte that sits under d
      nested readers is therefore written d times.  [sig_copy] is Wire.sig_read once more, same
      recursion and same combinators, returning next to the outcome a [meter]:
        copied : the bytes written into result buffers, summed over all reader invocations (a reader
                 that succeeds has written its whole result; one that fails has written what its
                 members returned before the failure),
        nesting   : the deepest nesting of reader invocations reached (the Go call depth of Read).
      The outcome is sig_read's (DepthCostProofs.sig_copy_read).

   2. RECURSION DEPTH of the signature parser.  signature.Parse (goparsec combinators) re-enters the
      type rule once per nesting level of the signature text.  The models decl / decl_m of SigParse.v
      take a fuel that is exactly the number of nested entries of the type rule still allowed, and
      answer NoFuel when an entry is refused.  [parse_depth s] is the least fuel with which the model
      answers something else: the number of nested entries of the rule that parsing s needs. *)
From QV Require Export Wire SigParse ParseOpt.
Local Open Scope N_scope.

Definition blen (bs : bytes) : N := N.of_nat (List.length bs).

(* ================= 1. bytes copied by the signature reader ================= *)
Record meter := { copied : N; nesting : N }.
Definition mzero : meter := {| copied := 0; nesting := 0 |}.
(* two readers run one after the other at the same level *)
Definition madd (a b : meter) : meter := {| copied := copied a + copied b; nesting := N.max (nesting a) (nesting b) |}.
(* n more bytes written at this level *)
Definition charge (n : N) (m : meter) : meter := {| copied := copied m + n; nesting := nesting m |}.
(* the reader that made the calls metered by m *)
Definition deeper (m : meter) : meter := {| copied := copied m; nesting := nesting m + 1 |}.

Definition mres (A : Type) : Type := meter * Wire.res (A * bytes).

(* a reader without members: on success it has produced its result *)
Definition mleaf (r : Wire.res (bytes * bytes)) : mres bytes :=
  match r with
  | ROk (d, rest) => ({| copied := blen d; nesting := 1 |}, r)
  | _ => ({| copied := 0; nesting := 1 |}, r)
  end.

(* the loops of Wire.v over metered element readers: each element returned is written into the
   buffer of the enclosing reader *)
Section MLoops.
  Variable p : bytes -> mres bytes.
  Fixpoint mrep_nat (k : nat) (bs : bytes) : mres (list bytes) :=
    match k with
    | O => (mzero, ROk ([], bs))
    | S k' =>
        let '(m, r) := p bs in
        match r with
        | ROk (x, rest) =>
            let '(m', r') := mrep_nat k' rest in
            (madd (charge (blen x) m) m',
             match r' with
             | ROk (xs, rest') => ROk (x :: xs, rest')
             | RErr l => RErr l | RPanic => RPanic | RFuel => RFuel
             end)
        | RErr l => (m, RErr l) | RPanic => (m, RPanic) | RFuel => (m, RFuel)
        end
    end.
  (* the iteration that succeeds without consuming anything is repeated as it is, n times *)
  Fixpoint mrep_slow (fuel : nat) (n : N) (bs : bytes) (acc : list bytes) (ma : meter) : mres (list bytes) :=
    if n =? 0 then (ma, ROk (rev acc, bs))
    else match fuel with
         | O => (ma, RFuel)
         | S f =>
             let '(m, r) := p bs in
             match r with
             | ROk (d, bs') =>
                 if Nat.ltb (List.length bs') (List.length bs)
                 then mrep_slow f (n - 1) bs' (d :: acc) (madd ma (charge (blen d) m))
                 else ({| copied := copied ma + n * (copied m + blen d); nesting := N.max (nesting ma) (nesting m) |},
                       ROk (rev acc ++ repeat d (N.to_nat n), bs'))
             | RErr l => (madd ma m, RErr l)
             | RPanic => (madd ma m, RPanic)
             | RFuel => (madd ma m, RFuel)
             end
         end.
  Definition mrep (n : N) (bs : bytes) : mres (list bytes) :=
    if N.of_nat (List.length bs) <? n then mrep_slow (S (List.length bs)) n bs [] mzero
    else mrep_nat (N.to_nat n) bs.
End MLoops.

Fixpoint mseq_with (ps : list (bytes -> mres bytes)) (bs : bytes) : mres (list bytes) :=
  match ps with
  | [] => (mzero, ROk ([], bs))
  | p :: ps' =>
      let '(m, r) := p bs in
      match r with
      | ROk (x, rest) =>
          let '(m', r') := mseq_with ps' rest in
          (madd (charge (blen x) m) m',
           match r' with
           | ROk (xs, rest') => ROk (x :: xs, rest')
           | RErr l => RErr l | RPanic => RPanic | RFuel => RFuel
           end)
      | RErr l => (m, RErr l) | RPanic => (m, RPanic) | RFuel => (m, RFuel)
      end
  end.

(* one map entry: the tupleReader{key, value} inside the varReader of a map *)
Definition mentry (pk pv : bytes -> mres bytes) (b : bytes) : mres bytes :=
  let '(mk, rk) := pk b in
  match rk with
  | ROk (k, r1) =>
      let '(mv, rv) := pv r1 in
      (deeper (madd (charge (blen k) mk) (match rv with ROk (v, _) => charge (blen v) mv | _ => mv end)),
       match rv with
       | ROk (v, r2) => ROk (k ++ v, r2)
       | RErr l => RErr l | RPanic => RPanic | RFuel => RFuel
       end)
  | RErr l => (deeper mk, RErr l) | RPanic => (deeper mk, RPanic) | RFuel => (deeper mk, RFuel)
  end.

Definition mcat (x : mres (list bytes)) : mres bytes :=
  (deeper (fst x), cat_res (snd x)).

(* varReader: the count is written first, then every element *)
Definition mvar (p : bytes -> mres bytes) (bs : bytes) : mres bytes :=
  match read_num 4 bs with
  | ROk (n, r) =>
      let '(m, x) := mrep p n r in
      (deeper (charge 4 m), do '(d, r') <- cat_res x; ROk (enc_u32 n ++ d, r'))
  | RErr l => ({| copied := 0; nesting := 1 |}, RErr l)
  | RPanic => ({| copied := 0; nesting := 1 |}, RPanic)
  | RFuel => ({| copied := 0; nesting := 1 |}, RFuel)
  end.

Definition mfail {A} (r : Wire.res (A * bytes)) : mres A := ({| copied := 0; nesting := 1 |}, r).

Section WithParse.
  Variable parse : string -> option ty.
  Variable c : wcfg.

  Section Body.
    Variable dyn obj : bytes -> mres bytes.
    (* Wire.sig_body, metered *)
    Fixpoint sig_copy_body (t : ty) (bs : bytes) {struct t} : mres bytes :=
      match t with
      | TS s =>
          match s with
          | SStr => mleaf (string_reader c bs)
          | SVoid => mleaf (ROk ([], bs))
          | SUnknown => mleaf (RErr bs)
          | SValue => dyn bs
          | SObject => obj bs
          | SBool => mleaf (take_n 1 bs)
          | _ => mleaf (match scalar_width s with Some w => take_n w bs | None => RErr bs end)
          end
      | TList t' => mvar (sig_copy_body t') bs
      | TMap tk tv => mvar (mentry (sig_copy_body tk) (sig_copy_body tv)) bs
      | TTuple ts => mcat (mseq_with (map sig_copy_body ts) bs)
      | TStruct _ fs => mcat (mseq_with (map (fun f => sig_copy_body (snd f)) fs) bs)
      end.
  End Body.

  Definition mno_dyn (bs : bytes) : mres bytes := mfail (RErr bs).
  Definition sig_copy_obj : bytes -> mres bytes := sig_copy_body mno_dyn mno_dyn ty_ObjectReference.

  (* valueReader: the signature is read, the reader it denotes is run, and the result is
     append(signature bytes, data...) *)
  Definition mvalue (inner : ty -> bytes -> mres bytes) (bs : bytes) : mres bytes :=
    match read_str bs with
    | ROk (sg, r) =>
        match parse (string_of_bytes sg) with
        | None => mfail (RErr r)
        | Some t' =>
            let '(m, x) := inner t' r in
            match x with
            | ROk (d, r') =>
                let out := (if value_reader_no_len c then sg else enc_str sg) ++ d in
                (deeper (charge (blen out) m), ROk (out, r'))
            | RErr l => (deeper m, RErr l)
            | RPanic => (deeper m, RPanic)
            | RFuel => (deeper m, RFuel)
            end
        end
    | RErr l => mfail (RErr l)
    | RPanic => mfail RPanic
    | RFuel => mfail RFuel
    end.

  (* Wire.sig_read, metered; fuel bounds the nesting of dynamic values *)
  Fixpoint sig_copy (fuel : nat) : ty -> bytes -> mres bytes :=
    sig_copy_body
      (match fuel with
       | O => fun _ => mfail RFuel
       | S f => mvalue (sig_copy f)
       end)
      sig_copy_obj.
End WithParse.

(* what the cost theorems speak about *)
Definition sig_copied (c : wcfg) (t : ty) (bs : bytes) : N :=
  copied (fst (sig_copy parse_opt c (S (List.length bs)) t bs)).
Definition sig_nest (c : wcfg) (t : ty) (bs : bytes) : N :=
  nesting (fst (sig_copy parse_opt c (S (List.length bs)) t bs)).

(* the reader nesting of a type without looking at the data (dv, dobj: the nesting of the readers of
   "m" and "o"): what [nesting] is at most for a type that holds no dynamic value
   (DepthCostProofs.sig_copy_nest_static) *)
Fixpoint rdepth_g (dv dobj : N) (t : ty) : N :=
  match t with
  | TS SValue => dv
  | TS SObject => dobj
  | TS _ => 1
  | TList t' => 1 + rdepth_g dv dobj t'
  | TMap k v => 2 + N.max (rdepth_g dv dobj k) (rdepth_g dv dobj v)
  | TTuple ts => 1 + fold_right (fun t a => N.max (rdepth_g dv dobj t) a) 0 ts
  | TStruct _ fs => 1 + fold_right (fun f a => N.max (rdepth_g dv dobj (snd f)) a) 0 fs
  end.
(* "o": the ObjectReference structure (struct, struct, map, entry, struct, list, struct, string) *)
Definition rdepth_obj : N := rdepth_g 1 1 ty_ObjectReference.
Definition rdepth (t : ty) : N := rdepth_g 1 rdepth_obj t.

(* the family of the finding sig_reader_depth_quadratic: n dynamic values nested in one another, the
   innermost holding a void: n times the string "m", then the string "v"; 5 (n + 1) bytes *)
Definition str_m : bytes := [x01; x00; x00; x00; x6d].
Definition str_v : bytes := [x01; x00; x00; x00; x76].
Fixpoint nested_m (n : nat) : bytes :=
  match n with O => str_v | S n' => str_m ++ nested_m n' end.

(* ================= 2. recursion depth of the signature parser ================= *)
(* decl_m (S f) hands decl_m f to the rules for maps, lists and tuples, and decl_m 0 answers NoFuel,
   which every combinator passes on: with fuel d the model answers NoFuel exactly when parsing s would
   enter the type rule more than d times inside one another.  (decl, the pinned grammar, answers the
   same: SigParseMerged.decl_m_decl.) *)
Definition parse_within (d : nat) (s : string) : bool :=
  match fst (decl_m d s) with NoFuel => false | _ => true end.

(* the first of d, d + 1, ..., d + k - 1 that is enough (d + k if none is) *)
Fixpoint least_from (k d : nat) (s : string) : nat :=
  match k with
  | O => d
  | S k' => if parse_within d s then d else least_from k' (S d) s
  end.

(* the number of nested entries of the type rule signature.Parse makes on s: Parse runs the rule with
   fuel |s| + 1, which is always enough (SigParseMerged.parse_m_total) *)
Definition parse_depth (s : string) : nat := least_from (S (String.length s)) 0 s.

Definition is_open (c : ascii) : bool := (Ascii.eqb c "(" || Ascii.eqb c "[" || Ascii.eqb c "{")%char.
(* the opening brackets of a text *)
Fixpoint open_count (s : string) : nat :=
  match s with
  | EmptyString => 0
  | String c r => (if is_open c then 1 else 0) + open_count r
  end%nat.

(* the family of the finding sig_parse_stack_unbounded *)
Fixpoint brackets (n : nat) : string :=
  match n with O => EmptyString | S n' => String "["%char (brackets n') end.
(* and a signature that parses: n lists around an int32 *)
Fixpoint closes (n : nat) : string :=
  match n with O => EmptyString | S n' => String "]"%char (closes n') end.
Definition nested_list (n : nat) : string := (brackets n ++ "i" ++ closes n)%string.
