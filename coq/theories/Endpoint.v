(* Endpoint.v — model of bus/net/endpoint.go: the handler table of an endPoint
   (MakeHandler / RemoveHandler / dispatch / closeWith / Handler.closeWith / process)
   as a labelled transition system, plus the concurrent-senders system of C10.

   One label = one atomic action: everything an operation does between Lock and Unlock
   of handlersMutex is one label (LMake, LRemove, LDispatch, LCloseAll); each goroutine
   started by `go handler.closeWith(err)` contributes two labels (its closer call, its
   close(queue)); the consumer side of a queue contributes LRecv.  "For every
   interleaving" is "for every list of labels".

   What Go does when things go wrong is explicit: sending on / closing a closed channel
   is Panic, re-locking handlersMutex from a callback that runs under it is Deadlock.

   Real state: slot table, per handler the channel (capacity, buffer, closed flag) and
   the goroutines still to run.  Ghost state: per handler a log of everything that
   happened to it, and what its consumer has received. *)
From QV Require Export Message.
From Coq Require Import String.
Local Open Scope nat_scope.

(* class of the error value handed to a closer: nil, or a non-nil error *)
Inductive cerr := CNil | CErr.

(* A Filter is a Go closure.  It may keep state; as long as it is deterministic and does
   not look at anything but the headers it is shown, it is a function of the headers it
   has been shown before (latest first) and the current one.  Result: (matched, keep). *)
Definition filter := list header -> header -> bool * bool.

Inductive hev :=
| HMade (slot : nat)                                   (* MakeHandler returned this id *)
| HMsg (m : msg) (matched keep room : bool)            (* dispatch consulted the filter for m; room: len(queue) < cap(queue)
                                                          at that moment; the message was enqueued iff matched && room *)
| HCloser (e : cerr)                                   (* closer(e) was called *)
| HQClose.                                             (* close(queue) *)

Record handler := {
  h_filter : filter;
  h_fre : bool;              (* the filter calls back into the endpoint (forbidden by the contract) *)
  h_closer : option bool;    (* None: cl == nil; Some re: re = the closer calls back into the endpoint *)
  h_cap : nat;               (* cap(queue) *)
  h_buf : list msg;          (* channel buffer, oldest first *)
  h_closed : bool;           (* channel closed *)
  h_recvd : list msg;        (* ghost: what the consumer has taken out, oldest first *)
  h_log : list hev           (* ghost: latest first *)
}.

Definition set_log (h : handler) (l : list hev) : handler :=
  {| h_filter := h_filter h; h_fre := h_fre h; h_closer := h_closer h; h_cap := h_cap h;
     h_buf := h_buf h; h_closed := h_closed h; h_recvd := h_recvd h; h_log := l |}.
Definition add_log (e : hev) (h : handler) : handler := set_log h (e :: h_log h).
Definition set_buf (h : handler) (b : list msg) : handler :=
  {| h_filter := h_filter h; h_fre := h_fre h; h_closer := h_closer h; h_cap := h_cap h;
     h_buf := b; h_closed := h_closed h; h_recvd := h_recvd h; h_log := h_log h |}.
Definition set_closed (h : handler) : handler :=
  {| h_filter := h_filter h; h_fre := h_fre h; h_closer := h_closer h; h_cap := h_cap h;
     h_buf := h_buf h; h_closed := true; h_recvd := h_recvd h; h_log := h_log h |}.
Definition take_one (h : handler) (m : msg) (rest : list msg) : handler :=
  {| h_filter := h_filter h; h_fre := h_fre h; h_closer := h_closer h; h_cap := h_cap h;
     h_buf := rest; h_closed := h_closed h; h_recvd := h_recvd h ++ [m]; h_log := h_log h |}.

(* headers the filter has been shown, latest first *)
Fixpoint seen_of (l : list hev) : list header :=
  match l with
  | [] => []
  | HMsg m _ _ _ :: r => m_header m :: seen_of r
  | _ :: r => seen_of r
  end.

Inductive pkind := PSendClosed | PCloseClosed | PNilHandler.
Inductive hres := HOk (h : handler) | HPanic (p : pkind) | HDeadlock.

(* Handler.closeWith(err): closer (if any), then close(consumer).
   [underlock]: the caller holds handlersMutex (RemoveHandler, dispatch). *)
Definition call_closer (underlock : bool) (e : cerr) (h : handler) : hres :=
  match h_closer h with
  | None => HOk h
  | Some re => if re && underlock then HDeadlock else HOk (add_log (HCloser e) h)
  end.
Definition close_queue (h : handler) : hres :=
  if h_closed h then HPanic PCloseClosed else HOk (add_log HQClose (set_closed h)).
Definition close_with (underlock : bool) (e : cerr) (h : handler) : hres :=
  match call_closer underlock e h with
  | HOk h1 => close_queue h1
  | r => r
  end.

(* ---- the reply dispatch sends for a Call it had to drop ---- *)
Definition blocked_text : string := "message dropped: consumer blocked".
Definition str_bytes (s : string) : bytes := list_byte_of_string s.
Definition enc_string (s : string) : bytes := le 4 (N.of_nat (String.length s)) ++ str_bytes s.
(* value.String(text).Write: signature "s" as a string, then the string *)
Definition blocked_payload : bytes := enc_string "s" ++ enc_string blocked_text.
Definition error_reply (m : msg) : msg :=
  let h := m_header m in
  {| m_header := {| h_magic := Magic; h_id := h_id h; h_size := N.of_nat (List.length blocked_payload);
                    h_version := Version; h_type := T_Error; h_flags := 0%N;
                    h_service := h_service h; h_object := h_object h; h_action := h_action h |};
     m_payload := blocked_payload |}.

(* result of dispatch *)
Inductive dres := DNil | DNoMatch | DBlocked | DNoHandler.

Inductive d1res :=
| D1Ok (h : handler) (keepslot : bool) (reply : list msg) (ret : dres)
| D1Panic (p : pkind)
| D1Deadlock.

(* one iteration of dispatch's loop for a non-nil slot *)
Definition disp_one (m : msg) (h : handler) (ret : dres) : d1res :=
  if h_fre h then D1Deadlock else
  let '(matched, keep) := h_filter h (seen_of (h_log h)) (m_header m) in
  if matched && h_closed h then D1Panic PSendClosed else
  let room := Nat.ltb (List.length (h_buf h)) (h_cap h) in
  let delivered := matched && room in
  let h1 := if delivered then set_buf h (h_buf h ++ [m]) else h in
  let ret1 := if matched then (if room then match ret with DNoMatch => DNil | r => r end else DBlocked) else ret in
  let reply := if matched && negb room && N.eqb (h_type (m_header m)) T_Call then [error_reply m] else [] in
  let h2 := add_log (HMsg m matched keep room) h1 in
  if keep then D1Ok h2 true reply ret1
  else match close_with true CNil h2 with
       | HOk h3 => D1Ok h3 false reply ret1
       | HPanic p => D1Panic p
       | HDeadlock => D1Deadlock
       end.

Fixpoint set_nth {A} (n : nat) (x : A) (l : list A) : list A :=
  match l, n with
  | [], _ => []
  | _ :: r, O => x :: r
  | y :: r, S n' => y :: set_nth n' x r
  end.

Inductive dloop :=
| DL (slots : list (option nat)) (hs : list handler) (sent : list msg) (ret : dres)
| DLPanic (p : pkind)
| DLDeadlock.

(* for i, h := range e.handlers { ... } ; [todo] is the part of the table still to visit *)
Fixpoint disp_loop (m : msg) (todo : list (option nat)) (hs : list handler) (sent : list msg) (ret : dres) : dloop :=
  match todo with
  | [] => DL [] hs sent ret
  | None :: r =>
      match disp_loop m r hs sent ret with
      | DL sl hs' se re => DL (None :: sl) hs' se re
      | x => x
      end
  | Some hid :: r =>
      match nth_error hs hid with
      | None => DLPanic PNilHandler
      | Some h =>
          match disp_one m h ret with
          | D1Ok h' keepslot reply ret1 =>
              match disp_loop m r (set_nth hid h' hs) (sent ++ reply) ret1 with
              | DL sl hs' se re => DL ((if keepslot then Some hid else None) :: sl) hs' se re
              | x => x
              end
          | D1Panic p => DLPanic p
          | D1Deadlock => DLDeadlock
          end
      end
  end.

Record state := {
  st_slots : list (option nat);        (* e.handlers; Some hid = pointer to the hid-th handler ever made *)
  st_hs : list handler;                (* every handler ever made, in creation order *)
  st_go : list (nat * cerr * bool);    (* goroutines `go handler.closeWith(err)` not finished: handler, err, closer done *)
  st_sent : list msg;                  (* frames dispatch has handed to e.Send *)
  st_sclose : nat;                     (* calls of stream.Close() *)
  st_proc : bool                       (* the process goroutine is still in its loop *)
}.

Definition initial_slots : nat := 10.
Definition init : state :=
  {| st_slots := repeat None initial_slots; st_hs := []; st_go := []; st_sent := []; st_sclose := 0; st_proc := true |}.

Inductive label :=
| LMake (f : filter) (fre : bool) (cl : option bool) (cap : nat)
| LRemove (id : Z)
| LDispatch (m : msg)                 (* process: one message read, dispatched *)
| LCloseAll (e : cerr) (byproc : bool) (* e.closeWith(err): Close() or, byproc, process on a read error (it then returns) *)
| LGoCloser (hid : nat)               (* a `go handler.closeWith` goroutine calls the closer *)
| LGoClose (hid : nat)                (* ... and closes the queue *)
| LRecv (hid : nat).                  (* the consumer takes one message *)

Inductive ret := RNone | RId (i : nat) | ROk | RInvalid | RDisp (d : dres).
Inductive outcome := Run (s : state) (r : ret) | Panic (p : pkind) | Deadlock | Disabled.

Fixpoint first_free (sl : list (option nat)) : option nat :=
  match sl with
  | [] => None
  | None :: _ => Some 0
  | Some _ :: r => match first_free r with Some i => Some (S i) | None => None end
  end.

Definition with_hs (s : state) (hs : list handler) : state :=
  {| st_slots := st_slots s; st_hs := hs; st_go := st_go s; st_sent := st_sent s; st_sclose := st_sclose s; st_proc := st_proc s |}.
Definition with_slots_hs (s : state) (sl : list (option nat)) (hs : list handler) : state :=
  {| st_slots := sl; st_hs := hs; st_go := st_go s; st_sent := st_sent s; st_sclose := st_sclose s; st_proc := st_proc s |}.
Definition with_go_hs (s : state) (g : list (nat * cerr * bool)) (hs : list handler) : state :=
  {| st_slots := st_slots s; st_hs := hs; st_go := g; st_sent := st_sent s; st_sclose := st_sclose s; st_proc := st_proc s |}.

Definition new_handler (f : filter) (fre : bool) (cl : option bool) (cap i : nat) : handler :=
  {| h_filter := f; h_fre := fre; h_closer := cl; h_cap := cap; h_buf := []; h_closed := false; h_recvd := [];
     h_log := [HMade i] |}.

Definition do_make (s : state) (f : filter) (fre : bool) (cl : option bool) (cap : nat) : outcome :=
  let hid := List.length (st_hs s) in
  match first_free (st_slots s) with
  | Some i => Run (with_slots_hs s (set_nth i (Some hid) (st_slots s)) (st_hs s ++ [new_handler f fre cl cap i])) (RId i)
  | None => let i := List.length (st_slots s) in
            Run (with_slots_hs s (st_slots s ++ [Some hid]) (st_hs s ++ [new_handler f fre cl cap i])) (RId i)
  end.

Definition slot_at (s : state) (id : Z) : option nat :=
  if Z.ltb id 0 then None else
  match nth_error (st_slots s) (Z.to_nat id) with Some (Some hid) => Some hid | _ => None end.

Definition do_remove (s : state) (id : Z) : outcome :=
  match slot_at s id with
  | None => Run s RInvalid
  | Some hid =>
      match nth_error (st_hs s) hid with
      | None => Panic PNilHandler
      | Some h =>
          match close_with true CNil h with
          | HOk h' => Run (with_slots_hs s (set_nth (Z.to_nat id) None (st_slots s)) (set_nth hid h' (st_hs s))) ROk
          | HPanic p => Panic p
          | HDeadlock => Deadlock
          end
      end
  end.

Definition do_dispatch (s : state) (m : msg) : outcome :=
  if negb (st_proc s) then Disabled else
  match st_slots s with
  | [] => Run s (RDisp DNoHandler)
  | _ =>
    match disp_loop m (st_slots s) (st_hs s) (st_sent s) DNoMatch with
    | DL sl hs se re =>
        Run {| st_slots := sl; st_hs := hs; st_go := st_go s; st_sent := se; st_sclose := st_sclose s; st_proc := st_proc s |} (RDisp re)
    | DLPanic p => Panic p
    | DLDeadlock => Deadlock
    end
  end.

Fixpoint slot_hids (sl : list (option nat)) : list nat :=
  match sl with
  | [] => []
  | Some hid :: r => hid :: slot_hids r
  | None :: r => slot_hids r
  end.

Definition do_closeall (s : state) (e : cerr) (byproc : bool) : outcome :=
  if byproc && negb (st_proc s) then Disabled else
  Run {| st_slots := map (fun _ => None) (st_slots s); st_hs := st_hs s;
         st_go := st_go s ++ map (fun hid => (hid, e, false)) (slot_hids (st_slots s));
         st_sent := st_sent s; st_sclose := S (st_sclose s); st_proc := st_proc s && negb byproc |} RNone.

(* first goroutine of handler hid at the given stage: (entry's err, list before, list after) *)
Fixpoint find_go (hid : nat) (stage : bool) (g : list (nat * cerr * bool)) : option (cerr * list (nat * cerr * bool) * list (nat * cerr * bool)) :=
  match g with
  | [] => None
  | (h, e, b) :: r =>
      if Nat.eqb h hid && Bool.eqb b stage then Some (e, [], r)
      else match find_go hid stage r with
           | Some (e', pre, post) => Some (e', (h, e, b) :: pre, post)
           | None => None
           end
  end.

Definition do_gocloser (s : state) (hid : nat) : outcome :=
  match find_go hid false (st_go s) with
  | None => Disabled
  | Some (e, pre, post) =>
      match nth_error (st_hs s) hid with
      | None => Panic PNilHandler
      | Some h =>
          match call_closer false e h with
          | HOk h' => Run (with_go_hs s (pre ++ (hid, e, true) :: post) (set_nth hid h' (st_hs s))) RNone
          | HPanic p => Panic p
          | HDeadlock => Deadlock
          end
      end
  end.

Definition do_goclose (s : state) (hid : nat) : outcome :=
  match find_go hid true (st_go s) with
  | None => Disabled
  | Some (e, pre, post) =>
      match nth_error (st_hs s) hid with
      | None => Panic PNilHandler
      | Some h =>
          match close_queue h with
          | HOk h' => Run (with_go_hs s (pre ++ post) (set_nth hid h' (st_hs s))) RNone
          | HPanic p => Panic p
          | HDeadlock => Deadlock
          end
      end
  end.

Definition do_recv (s : state) (hid : nat) : outcome :=
  match nth_error (st_hs s) hid with
  | None => Disabled
  | Some h =>
      match h_buf h with
      | [] => Disabled                        (* the consumer would block (or see the close) *)
      | m :: rest => Run (with_hs s (set_nth hid (take_one h m rest) (st_hs s))) RNone
      end
  end.

Definition step (s : state) (l : label) : outcome :=
  match l with
  | LMake f fre cl cap => do_make s f fre cl cap
  | LRemove id => do_remove s id
  | LDispatch m => do_dispatch s m
  | LCloseAll e byproc => do_closeall s e byproc
  | LGoCloser hid => do_gocloser s hid
  | LGoClose hid => do_goclose s hid
  | LRecv hid => do_recv s hid
  end.

(* run a label sequence; the returned values of the steps are collected (oldest first) *)
Inductive runres := RRun (s : state) (rs : list ret) | RPanic (p : pkind) (at_ : nat) | RDeadlock (at_ : nat) | RDisabled (at_ : nat).

Fixpoint run_from (s : state) (ls : list label) (rs : list ret) (i : nat) : runres :=
  match ls with
  | [] => RRun s (rev rs)
  | l :: r =>
      match step s l with
      | Run s' x => run_from s' r (x :: rs) (S i)
      | Panic p => RPanic p i
      | Deadlock => RDeadlock i
      | Disabled => RDisabled i
      end
  end.
Definition run (ls : list label) : runres := run_from init ls [] 0.

(* ---------- observables of a handler, read off its log ---------- *)
Fixpoint closer_calls (l : list hev) : nat :=
  match l with [] => 0 | HCloser _ :: r => S (closer_calls r) | _ :: r => closer_calls r end.
Fixpoint queue_closes (l : list hev) : nat :=
  match l with [] => 0 | HQClose :: r => S (queue_closes r) | _ :: r => queue_closes r end.
(* messages put into the queue, oldest first *)
Fixpoint enqueued_rev (l : list hev) : list msg :=
  match l with [] => [] | HMsg m true _ true :: r => m :: enqueued_rev r | _ :: r => enqueued_rev r end.
Definition enqueued (h : handler) : list msg := rev (enqueued_rev (h_log h)).
(* messages the filter was consulted for, oldest first *)
Fixpoint consulted_rev (l : list hev) : list msg :=
  match l with [] => [] | HMsg m _ _ _ :: r => m :: consulted_rev r | _ :: r => consulted_rev r end.
Definition consulted (h : handler) : list msg := rev (consulted_rev (h_log h)).

(* (message, room) for every consultation of the filter, oldest first *)
Fixpoint events_rev (l : list hev) : list (msg * bool) :=
  match l with [] => [] | HMsg m _ _ room :: r => (m, room) :: events_rev r | _ :: r => events_rev r end.
Definition events (h : handler) : list (msg * bool) := rev (events_rev (h_log h)).

(* what a filter selects from a sequence of messages, given whether the queue had room for each:
   the filter is shown every message, in order, with the headers it was shown before *)
Fixpoint expect (f : filter) (seen : list header) (evs : list (msg * bool)) : list msg :=
  match evs with
  | [] => []
  | (m, room) :: r => (if fst (f seen (m_header m)) && room then [m] else []) ++ expect f (m_header m :: seen) r
  end.

(* the handler is in the table *)
Definition registered (s : state) (hid : nat) : bool := existsb (Nat.eqb hid) (slot_hids (st_slots s)).

(* the messages dispatched while handler hid was in the table, along a run from s *)
Fixpoint window_from (s : state) (ls : list label) (hid : nat) : list msg :=
  match ls with
  | [] => []
  | l :: r =>
      match step s l with
      | Run s' _ =>
          (match l with LDispatch m => if registered s hid then [m] else [] | _ => [] end) ++ window_from s' r hid
      | _ => []
      end
  end.
Definition window (ls : list label) (hid : nat) : list msg := window_from init ls hid.

(* the documented contract on callbacks: they do not call back into the endpoint *)
Definition contract_label (l : label) : Prop :=
  match l with LMake _ fre cl _ => fre = false /\ cl <> Some true | _ => True end.

(* handlers made by a label sequence *)
Fixpoint made_count (ls : list label) : nat :=
  match ls with [] => 0 | LMake _ _ _ _ :: r => S (made_count r) | _ :: r => made_count r end.

(* ---------- C10 (b): concurrent senders on one stream ----------
   Sender i owns the list of messages it still has to send; one step of the system is
   one sender's EndPoint.Send = Message.Write of its next message on the shared stream.
   A schedule is the list of sender indices in the order their Write calls reach the
   stream (atomicity of one Write call on the transport is the assumption). *)
Fixpoint pop_nth {A} (i : nat) (ls : list (list A)) : option (A * list (list A)) :=
  match ls, i with
  | [], _ => None
  | [] :: _, O => None
  | (x :: q) :: r, O => Some (x, q :: r)
  | q :: r, S i' => match pop_nth i' r with Some (x, r') => Some (x, q :: r') | None => None end
  end.

(* runs the schedule; entries naming a sender with nothing left to send are skipped *)
Fixpoint send_run (sched : list nat) (pending : list (list msg)) (w : wr) (sent : list (nat * msg))
  : option (result (wr * list (list msg) * list (nat * msg))) :=
  match sched with
  | [] => Some (Ok (w, pending, rev sent))
  | i :: r =>
      match pop_nth i pending with
      | None => send_run r pending w sent
      | Some (m, pending') =>
          match write_msg m w with
          | None => None
          | Some (Err e) => Some (Err e)
          | Some (Ok w') => send_run r pending' w' ((i, m) :: sent)
          end
      end
  end.
