(* SignalsRawProofs.v — an acknowledged registration is a full subscription until its own
   unregistration, whatever ids the other registrations use (model: SignalsRaw.v). *)
From QV Require Import Signals SignalsLemmas SignalsRaw.
From Coq Require Import Permutation.
Local Open Scope N_scope.

(* the two switches that matter when callers choose their ids: ids compared per connection, and a
   refused duplicate leaves the table alone *)
Definition rclean (g : scfg) : Prop := uid_global g = false /\ dup_relock g = false.

Definition ukey (u : user) : nat * N := (u_conn u, u_uid u).
Definition Uniq (t : list user) : Prop := NoDup (map ukey t).

Lemma is_user_key c uid u : is_user c uid u = true <-> ukey u = (c, uid).
Proof.
  unfold is_user, ukey. rewrite andb_true_iff, N.eqb_eq, Nat.eqb_eq. split.
  - intros [-> ->]. reflexivity.
  - intros [= -> ->]. auto.
Qed.

Lemma same_user_is_user g c uid u : uid_global g = false -> same_user g c uid u = is_user c uid u.
Proof. intro H. unfold same_user, is_user. now rewrite H. Qed.

Lemma uniq_add t x : Uniq t -> (forall u, In u t -> is_user (u_conn x) (u_uid x) u = false) -> Uniq (t ++ [x]).
Proof.
  intros U H. unfold Uniq. rewrite map_app. cbn [map].
  apply (Permutation_NoDup (l := ukey x :: map ukey t)); [apply Permutation_cons_append|].
  constructor; [|exact U]. intro Hin. apply in_map_iff in Hin. destruct Hin as (u & E & Hu).
  specialize (H u Hu).
  assert (T : is_user (u_conn x) (u_uid x) u = true) by (apply is_user_key; exact E). congruence.
Qed.

Lemma uniq_swap_remove t i e : Uniq t -> nth_error t i = Some e ->
  Uniq (swap_remove t i) /\ (forall u, In u (swap_remove t i) -> ukey u <> ukey e) /\
  (forall u, In u t -> u = e \/ In u (swap_remove t i)).
Proof.
  intros U H. pose proof (swap_remove_perm t i e H) as P.
  pose proof (Permutation_map ukey P) as P'. cbn [map] in P'.
  pose proof (Permutation_NoDup P' U) as N. inversion N as [|? ? Hn Hd]; subst.
  split; [exact Hd|]. split.
  - intros u Hu E. apply Hn. rewrite <- E. now apply in_map.
  - intros u Hu. destruct (Permutation_in u P Hu) as [E|Hin]; [left; now symmetry|now right].
Qed.

(* ---- connections in bad health ---- *)
(* writes to connection c succeed: no permanent failure, no single failure pending *)
Definition healthy (st : rstate) (c : nat) : Prop := bad_of (r_bad st) c = None /\ ~ In c (r_once st).

Lemma del1_notin c c' l : ~ In c l -> ~ In c (del1 c' l).
Proof.
  induction l as [|x l IH]; cbn; [auto|]. intros H. destruct (Nat.eqb x c').
  - intro Hc. apply H. now right.
  - intros [->|Hc]; [apply H; now left|]. apply IH; [|exact Hc]. intro Hl. apply H. now right.
Qed.

Lemma uniq_drop_user t c uid : Uniq t -> Uniq (drop_user t c uid).
Proof.
  intro U. unfold drop_user. destruct (find_idx (is_user c uid) t) as [i|] eqn:F; [|exact U].
  destruct (find_idx_some _ _ _ F) as (e & He & _). exact (proj1 (uniq_swap_remove _ _ _ U He)).
Qed.

Lemma drop_user_keeps t c uid x : Uniq t -> In x t -> u_conn x <> c -> In x (drop_user t c uid).
Proof.
  intros U Hx Ne. unfold drop_user. destruct (find_idx (is_user c uid) t) as [i|] eqn:F; [|exact Hx].
  destruct (find_idx_some _ _ _ F) as (e & He & Fe).
  destruct (proj2 (proj2 (uniq_swap_remove _ _ _ U He)) x Hx) as [->|Hin]; [|exact Hin].
  exfalso. apply is_user_key in Fe. unfold ukey in Fe. injection Fe as E _. now apply Ne.
Qed.

Lemma drop_user_subset t c uid u : Uniq t -> In u (drop_user t c uid) -> In u t.
Proof.
  intros U. unfold drop_user. destruct (find_idx (is_user c uid) t) as [i|] eqn:F; [|auto].
  destruct (find_idx_some _ _ _ F) as (e & He & _). intro Hu.
  apply (Permutation_in u (Permutation_sym (swap_remove_perm t i e He))). now right.
Qed.

(* the delivery loop: the table stays a table, entries of connections whose writes do not fail with
   io.EOF stay, no entry appears *)
Lemma emit_go_inv snap : forall t bad once, Uniq t ->
  let '(t', _) := emit_go snap t bad once in
  Uniq t' /\ (forall x, In x t -> bad_of bad (u_conn x) = None -> In x t') /\ (forall u, In u t' -> In u t).
Proof.
  induction snap as [|u r IH]; intros t bad once U; cbn [emit_go]; [auto|].
  destruct (bad_of bad (u_conn u)) as [k|] eqn:B.
  - destruct (k =? 1).
    + specialize (IH (drop_user t (u_conn u) (u_uid u)) bad once (uniq_drop_user _ _ _ U)).
      destruct (emit_go r (drop_user t (u_conn u) (u_uid u)) bad once) as [t' l].
      destruct IH as (U' & K & S). repeat split; [exact U'| |].
      * intros x Hx Hb. apply K; [|exact Hb]. apply drop_user_keeps; [exact U|exact Hx|]. intro E. congruence.
      * intros v Hv. apply (drop_user_subset t (u_conn u) (u_uid u)); [exact U|]. now apply S.
    + exact (IH t bad once U).
  - destruct (existsb (Nat.eqb (u_conn u)) once); [exact (IH t bad once U)|].
    specialize (IH t bad once U). destruct (emit_go r t bad once) as [t' l]. exact IH.
Qed.

(* the pending transient failures only go away *)
Lemma once_after_notin snap bad c : forall hit once, ~ In c once -> ~ In c (once_after snap bad hit once).
Proof.
  induction snap as [|u r IH]; intros hit once H; cbn [once_after]; [exact H|].
  destruct (bad_of bad (u_conn u)); [now apply IH|].
  destruct (existsb (Nat.eqb (u_conn u)) hit); apply IH; [exact H|now apply del1_notin].
Qed.

(* ... and every entry of the snapshot whose connection is healthy is written to *)
Lemma emit_go_sends snap : forall t bad once x, In x snap -> bad_of bad (u_conn x) = None -> ~ In (u_conn x) once ->
  In (u_conn x, u_mid x) (snd (emit_go snap t bad once)).
Proof.
  induction snap as [|u r IH]; intros t bad once x Hx Hb Ho; [destruct Hx|]. cbn [emit_go].
  destruct Hx as [->|Hx].
  - rewrite Hb. destruct (existsb (Nat.eqb (u_conn x)) once) eqn:E.
    + exfalso. apply existsb_exists in E. destruct E as (c & Hc & Ec). apply Nat.eqb_eq in Ec. subst c. exact (Ho Hc).
    + destruct (emit_go r t bad once) as [t' l]. now left.
  - destruct (bad_of bad (u_conn u)) as [k|].
    + destruct (k =? 1); now apply IH.
    + destruct (existsb (Nat.eqb (u_conn u)) once); [now apply IH|].
      specialize (IH t bad once x Hx Hb Ho). destruct (emit_go r t bad once) as [t' l]. now right.
Qed.

(* nothing is ever written to a connection every write to which fails *)
Lemma emit_go_bad snap : forall t bad once c m, bad_of bad c <> None -> ~ In (c, m) (snd (emit_go snap t bad once)).
Proof.
  induction snap as [|u r IH]; intros t bad once c m Hb; cbn [emit_go]; [auto|].
  destruct (bad_of bad (u_conn u)) as [k|] eqn:B.
  - destruct (k =? 1); now apply IH.
  - destruct (existsb (Nat.eqb (u_conn u)) once); [now apply IH|].
    specialize (IH t bad once c m Hb). destruct (emit_go r t bad once) as [t' l]. cbn [snd] in *.
    intros [E|Hin]; [|exact (IH Hin)]. injection E as E _. rewrite E in B. exact (Hb B).
Qed.

(* with every connection in good health the loop is the plain fan-out over the snapshot *)
Lemma emit_go_healthy snap t : emit_go snap t [] [] = (t, map (fun u => (u_conn u, u_mid u)) snap).
Proof. induction snap as [|u r IH]; [reflexivity|]. cbn [emit_go bad_of existsb]. now rewrite IH. Qed.

Lemma bad_of_break bad c c' k : c' <> c -> bad_of ((c', k) :: bad) c = bad_of bad c.
Proof. intro Ne. cbn. destruct (Nat.eqb c' c) eqn:E; [apply Nat.eqb_eq in E; contradiction|reflexivity]. Qed.

Section Raw.
Variable g : scfg.
Hypothesis G : rclean g.

Lemma raw_step_inv st o : Uniq (r_table st) -> r_dead st = false ->
  Uniq (r_table (fst (raw_step g st o))) /\ r_dead (fst (raw_step g st o)) = false.
Proof.
  destruct G as [Gu Gd]. intros U D. destruct o as [c m sig uid|c sig uid|sig p|c k]; cbn [raw_step]; rewrite ?D.
  - destruct (find_idx (same_user g c uid) (r_table st)) as [i|] eqn:F.
    + rewrite Gd. cbn. auto.
    + cbn. split; [|reflexivity]. apply uniq_add; [exact U|]. cbn. intros u Hu.
      rewrite <- (same_user_is_user g) by exact Gu. exact (find_idx_none _ _ F u Hu).
  - destruct (find_idx (is_user c uid) (r_table st)) as [i|] eqn:F; cbn; [|auto].
    destruct (find_idx_some _ _ _ F) as (e & He & _). split; [|reflexivity].
    exact (proj1 (uniq_swap_remove _ _ _ U He)).
  - pose proof (emit_go_inv (filter (fun u => u_sig u =? sig) (r_table st)) (r_table st) (r_bad st) (r_once st) U) as I.
    destruct (emit_go _ _ _ _) as [t' l]. cbn. split; [exact (proj1 I)|assumption || reflexivity].
  - cbn. auto.
Qed.

(* a step that is neither the unregistration of (connection, id) of entry x nor a change of the health of
   its connection keeps x, and keeps its connection healthy *)
Lemma raw_step_keeps st o x : Uniq (r_table st) -> r_dead st = false -> In x (r_table st) -> healthy st (u_conn x) ->
  (forall s, o <> RUnreg (u_conn x) s (u_uid x)) -> (forall k, o <> RBreak (u_conn x) k) ->
  In x (r_table (fst (raw_step g st o))) /\ healthy (fst (raw_step g st o)) (u_conn x).
Proof.
  destruct G as [Gu Gd]. intros U D Hx [Hb Ho] No Nb.
  destruct o as [c m sig uid|c sig uid|sig p|c k]; cbn [raw_step]; rewrite ?D.
  - destruct (find_idx (same_user g c uid) (r_table st)) as [i|] eqn:F.
    + rewrite Gd. split; [exact Hx|split; assumption].
    + cbn. split; [apply in_or_app; now left|split; assumption].
  - destruct (find_idx (is_user c uid) (r_table st)) as [i|] eqn:F; cbn; [|split; [exact Hx|split; assumption]].
    split; [|split; assumption].
    destruct (find_idx_some _ _ _ F) as (e & He & Fe).
    destruct (proj2 (proj2 (uniq_swap_remove _ _ _ U He)) x Hx) as [->|Hin]; [|exact Hin].
    exfalso. apply is_user_key in Fe. unfold ukey in Fe. injection Fe as <- <-. exact (No sig eq_refl).
  - pose proof (emit_go_inv (filter (fun u => u_sig u =? sig) (r_table st)) (r_table st) (r_bad st) (r_once st) U) as I.
    destruct (emit_go _ _ _ _) as [t' l]. destruct I as (_ & K & _). cbn.
    split; [exact (K x Hx Hb)|]. split; [exact Hb|now apply once_after_notin].
  - assert (Ne : c <> u_conn x) by (intro E; subst c; exact (Nb k eq_refl)).
    cbn. split; [exact Hx|]. split; cbn.
    + destruct ((k =? 0) || (k =? 1) || (k =? 2)); [rewrite bad_of_break by exact Ne|]; exact Hb.
    + destruct (k =? 3); [|exact Ho]. intros [E|Hin]; [exact (Ne E)|exact (Ho Hin)].
Qed.

Lemma raw_run_inv os : forall st, Uniq (r_table st) -> r_dead st = false ->
  Uniq (r_table (raw_run g st os)) /\ r_dead (raw_run g st os) = false.
Proof.
  induction os as [|o os IH]; intros st U D; [cbn; auto|]. cbn [raw_run fold_left].
  destruct (raw_step_inv st o U D) as [U' D']. exact (IH _ U' D').
Qed.

Lemma raw_run_keeps os : forall st x, Uniq (r_table st) -> r_dead st = false -> In x (r_table st) -> healthy st (u_conn x) ->
  (forall s, ~ In (RUnreg (u_conn x) s (u_uid x)) os) -> (forall k, ~ In (RBreak (u_conn x) k) os) ->
  In x (r_table (raw_run g st os)) /\ healthy (raw_run g st os) (u_conn x).
Proof.
  induction os as [|o os IH]; intros st x U D Hx Hh No Nb; [split; assumption|]. cbn [raw_run fold_left].
  destruct (raw_step_inv st o U D) as [U' D'].
  destruct (raw_step_keeps st o x U D Hx Hh) as [Hx' Hh'].
  - intros s E. apply (No s). now left.
  - intros k E. apply (Nb k). now left.
  - apply IH; [exact U'|exact D'|exact Hx'|exact Hh'| |].
    + intros s Hin. apply (No s). now right.
    + intros k Hin. apply (Nb k). now right.
Qed.

(* health only changes by RBreak *)
Lemma raw_step_healthy st o c : healthy st c -> (forall k, o <> RBreak c k) -> healthy (fst (raw_step g st o)) c.
Proof.
  intros [Hb Ho] Nb. destruct o as [c' m sig uid|c' sig uid|sig p|c' k]; cbn [raw_step].
  - destruct (r_dead st); [split; assumption|]. destruct (find_idx _ _); [destruct (dup_relock g)|]; split; assumption.
  - destruct (r_dead st); [split; assumption|]. destruct (find_idx _ _); split; assumption.
  - destruct (emit_go _ _ _ _) as [t' l]. split; [exact Hb|cbn; now apply once_after_notin].
  - assert (Ne : c' <> c) by (intro E; subst c'; exact (Nb k eq_refl)). split; cbn.
    + destruct ((k =? 0) || (k =? 1) || (k =? 2)); [rewrite bad_of_break by exact Ne|]; exact Hb.
    + destruct (k =? 3); [|exact Ho]. intros [E|Hin]; [exact (Ne E)|exact (Ho Hin)].
Qed.

Lemma raw_run_healthy os : forall st c, healthy st c -> (forall k, ~ In (RBreak c k) os) -> healthy (raw_run g st os) c.
Proof.
  induction os as [|o os IH]; intros st c H Nb; [exact H|]. cbn [raw_run fold_left]. apply IH.
  - apply raw_step_healthy; [exact H|]. intros k E. apply (Nb k). now left.
  - intros k Hin. apply (Nb k). now right.
Qed.

Lemma raw_run_app st a b : raw_run g st (a ++ b) = raw_run g (raw_run g st a) b.
Proof. unfold raw_run. apply fold_left_app. Qed.

Lemma raw_run_cons st o os : raw_run g st (o :: os) = raw_run g (fst (raw_step g st o)) os.
Proof. reflexivity. Qed.

Lemma uniq_init : Uniq (r_table rinit). Proof. constructor. Qed.
Lemma healthy_init c : healthy rinit c. Proof. split; [reflexivity|intros []]. Qed.

(* an acknowledged registration is in the table as long as no unregisterEvent of its own
   (connection, id) has been processed and its own connection stays in good health: other
   registrations, refused or not, with the same id for another signal or on another connection,
   other unregistrations, and OTHER CONNECTIONS GOING BAD IN ANY WAY (their registrations dropped in
   the middle of an emission, their writes failing once or for ever) do not touch it *)
Lemma raw_kept pre post c m sig uid :
  snd (raw_step g (raw_run g rinit pre) (RReg c m sig uid)) = OAck ->
  (forall s, ~ In (RUnreg c s uid) post) ->
  (forall k, ~ In (RBreak c k) (pre ++ post)) ->
  In {| u_uid := uid; u_sig := sig; u_mid := m; u_conn := c |}
     (r_table (raw_run g rinit (pre ++ RReg c m sig uid :: post))) /\
  healthy (raw_run g rinit (pre ++ RReg c m sig uid :: post)) c.
Proof.
  intros A No Nb. rewrite raw_run_app, raw_run_cons.
  destruct (raw_run_inv pre rinit uniq_init eq_refl) as [U D].
  assert (Hh : healthy (raw_run g rinit pre) c).
  { apply raw_run_healthy; [apply healthy_init|]. intros k Hin. apply (Nb k). apply in_or_app. now left. }
  set (st := raw_run g rinit pre) in *.
  destruct (raw_step_inv st (RReg c m sig uid) U D) as [U' D'].
  pose proof (raw_step_healthy st (RReg c m sig uid) c Hh (fun k => ltac:(discriminate))) as Hh'.
  apply (raw_run_keeps post _ {| u_uid := uid; u_sig := sig; u_mid := m; u_conn := c |} U' D'); [|exact Hh'|exact No|].
  - revert A. destruct G as [Gu Gd]. cbn [raw_step]. rewrite D.
    destruct (find_idx (same_user g c uid) (r_table st)); [rewrite Gd; discriminate|].
    intros _. cbn. apply in_or_app. right. now left.
  - intros k Hin. apply (Nb k). apply in_or_app. now right.
Qed.

(* ... and every emission of its signal is sent to it *)
Lemma targets_in sig t x : In x t -> u_sig x = sig -> In (u_conn x, u_mid x) (targets sig t).
Proof.
  intros Hx E. unfold targets. apply (in_map (fun u => (u_conn u, u_mid u))). apply filter_In. split; [exact Hx|].
  now apply N.eqb_eq.
Qed.

Lemma raw_acked_receives pre post c m sig uid p :
  snd (raw_step g (raw_run g rinit pre) (RReg c m sig uid)) = OAck ->
  (forall s, ~ In (RUnreg c s uid) post) ->
  (forall k, ~ In (RBreak c k) (pre ++ post)) ->
  exists l, snd (raw_step g (raw_run g rinit (pre ++ RReg c m sig uid :: post)) (REmit sig p)) = OSent l /\ In (c, m) l.
Proof.
  intros A No Nb. destruct (raw_kept pre post c m sig uid A No Nb) as [Hin [Hb Ho]].
  set (st := raw_run g rinit (pre ++ RReg c m sig uid :: post)) in *. cbn [raw_step].
  pose proof (emit_go_sends (filter (fun u => u_sig u =? sig) (r_table st)) (r_table st) (r_bad st) (r_once st)
                {| u_uid := uid; u_sig := sig; u_mid := m; u_conn := c |}) as S. cbn [u_conn u_mid] in S.
  destruct (emit_go _ _ _ _) as [t' l]. cbn [snd] in *. exists l. split; [reflexivity|].
  apply S; [|exact Hb|exact Ho]. apply filter_In. split; [exact Hin|]. cbn. apply N.eqb_refl.
Qed.

(* with every connection in good health an emission is the plain fan-out in table order *)
Lemma raw_emit_all_healthy st sig p : r_bad st = [] -> r_once st = [] ->
  snd (raw_step g st (REmit sig p)) = OSent (targets sig (r_table st)) /\ r_table (fst (raw_step g st (REmit sig p))) = r_table st.
Proof. intros B O. cbn [raw_step]. rewrite B, O, emit_go_healthy. split; reflexivity. Qed.

(* an acknowledged unregistration leaves no entry for that (connection, id): nothing more is sent to it *)
Lemma raw_removed os c s uid :
  snd (raw_step g (raw_run g rinit os) (RUnreg c s uid)) = OAck ->
  forall u, In u (r_table (fst (raw_step g (raw_run g rinit os) (RUnreg c s uid)))) -> is_user c uid u = false.
Proof.
  destruct (raw_run_inv os rinit uniq_init eq_refl) as [U D]. set (st := raw_run g rinit os) in *.
  cbn [raw_step]. rewrite D.
  destruct (find_idx (is_user c uid) (r_table st)) as [i|] eqn:F; [|discriminate]. intros _ u Hu. cbn in Hu.
  destruct (find_idx_some _ _ _ F) as (e & He & Fe).
  pose proof (proj1 (proj2 (uniq_swap_remove _ _ _ U He)) u Hu) as Ne.
  destruct (is_user c uid u) eqn:Fu; [|reflexivity]. exfalso. apply Ne.
  apply is_user_key in Fe. apply is_user_key in Fu. congruence.
Qed.

(* a refused call changes nothing *)
Lemma raw_refused st o : snd (raw_step g st o) = ORefused -> fst (raw_step g st o) = st.
Proof.
  destruct G as [Gu Gd]. destruct o as [c m sig uid|c sig uid|sig p|c k]; cbn [raw_step].
  - destruct (r_dead st); [discriminate|]. destruct (find_idx _ _); [rewrite Gd; reflexivity|discriminate].
  - destruct (r_dead st); [discriminate|]. destruct (find_idx _ _); [discriminate|reflexivity].
  - destruct (emit_go _ _ _ _) as [t' l]. discriminate.
  - discriminate.
Qed.

(* nothing is written to a connection every write to which fails *)
Lemma raw_bad_gets_nothing st sig p c m l : bad_of (r_bad st) c <> None ->
  snd (raw_step g st (REmit sig p)) = OSent l -> ~ In (c, m) l.
Proof.
  intros Hb. cbn [raw_step].
  pose proof (emit_go_bad (filter (fun u => u_sig u =? sig) (r_table st)) (r_table st) (r_bad st) (r_once st) c m Hb) as E.
  destruct (emit_go _ _ _ _) as [t' l']. cbn [snd] in *. intros [= <-]. exact E.
Qed.
End Raw.

(* the table operation of [raw_step] is the one the mailbox goroutine of Signals.v performs (LMbox) *)
Definition op_of (c : nat) (f : uframe) : rop :=
  match f with UReg m sig uid => RReg c m sig uid | UUnreg m sig uid => RUnreg c sig uid end.
Lemma step_mbox_is_raw_step g st c f rest st' : up st c = f :: rest -> step g st (LMbox c) = Some st' ->
  table st' = r_table (fst (raw_step g (rof (table st)) (op_of c f))).
Proof.
  intros Hu. cbn [step]. destruct (dead st || stuck st c); [discriminate|].
  destruct (pend st); [discriminate|]. rewrite Hu.
  destruct (negb (snapshot_send g) && emitting st); [discriminate|].
  destruct f as [m sig uid|m sig uid]; cbn [op_of raw_step rof r_dead r_table].
  - destruct (find_idx (same_user g c uid) (table st)); [destruct (dup_relock g)|]; intros [= <-]; reflexivity.
  - destruct (find_idx (is_user c uid) (table st)); intros [= <-]; reflexivity.
Qed.
