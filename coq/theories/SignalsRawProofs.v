(* SignalsRawProofs.v — an acknowledged registration is a full subscription until its own
   unregistration, whatever ids the other registrations use (model: SignalsRaw.v). *)
From QV Require Import Signals SignalsLemmas SignalsRaw.
From Coq Require Import Permutation.
Local Open Scope N_scope.

(* the two switches that matter when callers choose their ids: ids compared per connection, and a
   refused duplicate leaves the table alone *)
Definition rclean (g : scfg) : Prop := uid_global g = false /\ dup_relock g = false.

Definition ukey (u : user) : nat * N := (u_conn u, u_uid u).
Definition Uniq (t : list user) : Prop := NoDup (map ukey t).

Lemma is_user_key c uid u : is_user c uid u = true <-> ukey u = (c, uid).
Proof.
  unfold is_user, ukey. rewrite andb_true_iff, N.eqb_eq, Nat.eqb_eq. split.
  - intros [-> ->]. reflexivity.
  - intros [= -> ->]. auto.
Qed.

Lemma same_user_is_user g c uid u : uid_global g = false -> same_user g c uid u = is_user c uid u.
Proof. intro H. unfold same_user, is_user. now rewrite H. Qed.

Lemma uniq_add t x : Uniq t -> (forall u, In u t -> is_user (u_conn x) (u_uid x) u = false) -> Uniq (t ++ [x]).
Proof.
  intros U H. unfold Uniq. rewrite map_app. cbn [map].
  apply (Permutation_NoDup (l := ukey x :: map ukey t)); [apply Permutation_cons_append|].
  constructor; [|exact U]. intro Hin. apply in_map_iff in Hin. destruct Hin as (u & E & Hu).
  specialize (H u Hu).
  assert (T : is_user (u_conn x) (u_uid x) u = true) by (apply is_user_key; exact E). congruence.
Qed.

Lemma uniq_swap_remove t i e : Uniq t -> nth_error t i = Some e ->
  Uniq (swap_remove t i) /\ (forall u, In u (swap_remove t i) -> ukey u <> ukey e) /\
  (forall u, In u t -> u = e \/ In u (swap_remove t i)).
Proof.
  intros U H. pose proof (swap_remove_perm t i e H) as P.
  pose proof (Permutation_map ukey P) as P'. cbn [map] in P'.
  pose proof (Permutation_NoDup P' U) as N. inversion N as [|? ? Hn Hd]; subst.
  split; [exact Hd|]. split.
  - intros u Hu E. apply Hn. rewrite <- E. now apply in_map.
  - intros u Hu. destruct (Permutation_in u P Hu) as [E|Hin]; [left; now symmetry|now right].
Qed.

Section Raw.
Variable g : scfg.
Hypothesis G : rclean g.

Lemma raw_step_inv st o : Uniq (r_table st) -> r_dead st = false ->
  Uniq (r_table (fst (raw_step g st o))) /\ r_dead (fst (raw_step g st o)) = false.
Proof.
  destruct G as [Gu Gd]. intros U D. destruct o as [c m sig uid|c sig uid|sig p]; cbn [raw_step]; rewrite ?D.
  - destruct (find_idx (same_user g c uid) (r_table st)) as [i|] eqn:F.
    + rewrite Gd. cbn. auto.
    + cbn. split; [|reflexivity]. apply uniq_add; [exact U|]. cbn. intros u Hu.
      rewrite <- (same_user_is_user g) by exact Gu. exact (find_idx_none _ _ F u Hu).
  - destruct (find_idx (is_user c uid) (r_table st)) as [i|] eqn:F; cbn; [|auto].
    destruct (find_idx_some _ _ _ F) as (e & He & _). split; [|reflexivity].
    exact (proj1 (uniq_swap_remove _ _ _ U He)).
  - cbn. auto.
Qed.

(* a step that is not the unregistration of (connection, id) of entry x keeps x *)
Lemma raw_step_keeps st o x : Uniq (r_table st) -> r_dead st = false -> In x (r_table st) ->
  (forall s, o <> RUnreg (u_conn x) s (u_uid x)) -> In x (r_table (fst (raw_step g st o))).
Proof.
  destruct G as [Gu Gd]. intros U D Hx No. destruct o as [c m sig uid|c sig uid|sig p]; cbn [raw_step]; rewrite ?D.
  - destruct (find_idx (same_user g c uid) (r_table st)) as [i|] eqn:F.
    + rewrite Gd. exact Hx.
    + cbn. apply in_or_app. now left.
  - destruct (find_idx (is_user c uid) (r_table st)) as [i|] eqn:F; cbn; [|exact Hx].
    destruct (find_idx_some _ _ _ F) as (e & He & Fe).
    destruct (proj2 (proj2 (uniq_swap_remove _ _ _ U He)) x Hx) as [->|Hin]; [|exact Hin].
    exfalso. apply is_user_key in Fe. unfold ukey in Fe. injection Fe as <- <-. exact (No sig eq_refl).
  - exact Hx.
Qed.

Lemma raw_run_inv os : forall st, Uniq (r_table st) -> r_dead st = false ->
  Uniq (r_table (raw_run g st os)) /\ r_dead (raw_run g st os) = false.
Proof.
  induction os as [|o os IH]; intros st U D; [cbn; auto|]. cbn [raw_run fold_left].
  destruct (raw_step_inv st o U D) as [U' D']. exact (IH _ U' D').
Qed.

Lemma raw_run_keeps os : forall st x, Uniq (r_table st) -> r_dead st = false -> In x (r_table st) ->
  (forall s, ~ In (RUnreg (u_conn x) s (u_uid x)) os) -> In x (r_table (raw_run g st os)).
Proof.
  induction os as [|o os IH]; intros st x U D Hx No; [exact Hx|]. cbn [raw_run fold_left].
  destruct (raw_step_inv st o U D) as [U' D'].
  apply IH; [exact U'|exact D'| |].
  - apply raw_step_keeps; [exact U|exact D|exact Hx|]. intros s E. apply (No s). now left.
  - intros s Hin. apply (No s). now right.
Qed.

Lemma raw_run_app st a b : raw_run g st (a ++ b) = raw_run g (raw_run g st a) b.
Proof. unfold raw_run. apply fold_left_app. Qed.

Lemma raw_run_cons st o os : raw_run g st (o :: os) = raw_run g (fst (raw_step g st o)) os.
Proof. reflexivity. Qed.

Lemma uniq_init : Uniq (r_table rinit). Proof. constructor. Qed.

(* an acknowledged registration is in the table as long as no unregisterEvent of its own
   (connection, id) has been processed: other registrations, refused or not, with the same id for
   another signal or on another connection, and other unregistrations do not touch it *)
Lemma raw_kept pre post c m sig uid :
  snd (raw_step g (raw_run g rinit pre) (RReg c m sig uid)) = OAck ->
  (forall s, ~ In (RUnreg c s uid) post) ->
  In {| u_uid := uid; u_sig := sig; u_mid := m; u_conn := c |}
     (r_table (raw_run g rinit (pre ++ RReg c m sig uid :: post))).
Proof.
  intros A No. rewrite raw_run_app, raw_run_cons.
  destruct (raw_run_inv pre rinit uniq_init eq_refl) as [U D].
  set (st := raw_run g rinit pre) in *.
  destruct (raw_step_inv st (RReg c m sig uid) U D) as [U' D'].
  apply (raw_run_keeps post _ _ U' D'); [|exact No].
  revert A. destruct G as [Gu Gd]. cbn [raw_step]. rewrite D.
  destruct (find_idx (same_user g c uid) (r_table st)); [rewrite Gd; discriminate|].
  intros _. cbn. apply in_or_app. right. now left.
Qed.

(* ... and every emission of its signal is sent to it *)
Lemma targets_in sig t x : In x t -> u_sig x = sig -> In (u_conn x, u_mid x) (targets sig t).
Proof.
  intros Hx E. unfold targets. apply (in_map (fun u => (u_conn u, u_mid u))). apply filter_In. split; [exact Hx|].
  now apply N.eqb_eq.
Qed.

Lemma raw_acked_receives pre post c m sig uid p :
  snd (raw_step g (raw_run g rinit pre) (RReg c m sig uid)) = OAck ->
  (forall s, ~ In (RUnreg c s uid) post) ->
  exists l, snd (raw_step g (raw_run g rinit (pre ++ RReg c m sig uid :: post)) (REmit sig p)) = OSent l /\ In (c, m) l.
Proof.
  intros A No. eexists. split; [reflexivity|].
  exact (targets_in sig _ _ (raw_kept pre post c m sig uid A No) eq_refl).
Qed.

(* an acknowledged unregistration leaves no entry for that (connection, id): nothing more is sent to it *)
Lemma raw_removed os c s uid :
  snd (raw_step g (raw_run g rinit os) (RUnreg c s uid)) = OAck ->
  forall u, In u (r_table (fst (raw_step g (raw_run g rinit os) (RUnreg c s uid)))) -> is_user c uid u = false.
Proof.
  destruct (raw_run_inv os rinit uniq_init eq_refl) as [U D]. set (st := raw_run g rinit os) in *.
  cbn [raw_step]. rewrite D.
  destruct (find_idx (is_user c uid) (r_table st)) as [i|] eqn:F; [|discriminate]. intros _ u Hu. cbn in Hu.
  destruct (find_idx_some _ _ _ F) as (e & He & Fe).
  pose proof (proj1 (proj2 (uniq_swap_remove _ _ _ U He)) u Hu) as Ne.
  destruct (is_user c uid u) eqn:Fu; [|reflexivity]. exfalso. apply Ne.
  apply is_user_key in Fe. apply is_user_key in Fu. congruence.
Qed.

(* a refused call changes nothing *)
Lemma raw_refused st o : snd (raw_step g st o) = ORefused -> fst (raw_step g st o) = st.
Proof.
  destruct G as [Gu Gd]. destruct o as [c m sig uid|c sig uid|sig p]; cbn [raw_step].
  - destruct (r_dead st); [discriminate|]. destruct (find_idx _ _); [rewrite Gd; reflexivity|discriminate].
  - destruct (r_dead st); [discriminate|]. destruct (find_idx _ _); [discriminate|reflexivity].
  - discriminate.
Qed.
End Raw.

(* the table operation of [raw_step] is the one the mailbox goroutine of Signals.v performs (LMbox) *)
Definition op_of (c : nat) (f : uframe) : rop :=
  match f with UReg m sig uid => RReg c m sig uid | UUnreg m sig uid => RUnreg c sig uid end.
Lemma step_mbox_is_raw_step g st c f rest st' : up st c = f :: rest -> step g st (LMbox c) = Some st' ->
  table st' = r_table (fst (raw_step g {| r_table := table st; r_dead := false |} (op_of c f))).
Proof.
  intros Hu. cbn [step]. destruct (dead st || stuck st c); [discriminate|].
  destruct (pend st); [discriminate|]. rewrite Hu.
  destruct (negb (snapshot_send g) && emitting st); [discriminate|].
  destruct f as [m sig uid|m sig uid]; cbn [op_of raw_step r_dead r_table].
  - destruct (find_idx (same_user g c uid) (table st)); [destruct (dup_relock g)|]; intros [= <-]; reflexivity.
  - destruct (find_idx (is_user c uid) (table st)); intros [= <-]; reflexivity.
Qed.
