(* SignalsInv3.v — the registration protocol between one client and the object, per (connection,
   signal), for the repaired configuration: the reference count of Client.State, the critical
   section, the requests in flight and the object's table agree at every step. *)
From QV Require Import Signals SignalsLemmas SignalsStep SignalsInv1 SignalsInv2.
From Coq Require Import Permutation.
Local Open Scope N_scope.

Definition on_key (c : nat) (sig : N) (x : sub) : bool := Nat.eqb (s_conn x) c && (s_sig x =? sig).
Definition pcb (k : pc -> bool) (c : nat) (sig : N) (x : sub) : bool := on_key c sig x && k (s_pc x).
Definition isNR (p : pc) := match p with PNeedReg => true | _ => false end.
Definition isWR (p : pc) := match p with PWaitReg _ => true | _ => false end.
Definition isNU (p : pc) := match p with PNeedUnreg => true | _ => false end.
Definition isWU (p : pc) := match p with PWaitUnreg _ => true | _ => false end.
Definition isAck (p : pc) := match p with PAcked => true | _ => false end.
Definition isFail (p : pc) := match p with PFailed => true | _ => false end.
Definition nP (k : pc -> bool) (st : state) (c : nat) (sig : N) : nat := cnt (pcb k c sig) (subs st).

Definition isRegF (sig : N) (f : uframe) : bool := match f with UReg _ s _ => s =? sig | UUnreg _ _ _ => false end.
Definition isUnregF (sig : N) (f : uframe) : bool := match f with UUnreg _ s _ => s =? sig | UReg _ _ _ => false end.
Definition ekey (c : nat) (sig : N) (u : user) : bool := Nat.eqb (u_conn u) c && (u_sig u =? sig).
Definition ents (t : list user) (c : nat) (sig : N) : list user := filter (ekey c sig) t.

Definition has_entry (st : state) (c : nat) (sig h : N) : Prop := exists u, In u (ents (table st) c sig) /\ u_uid u = h.
Definition has_sub (st : state) (c : nat) (sig : N) (p : pc) : Prop := exists x, In x (subs st) /\ on_key c sig x = true /\ s_pc x = p.

Record keyinv (st : state) (c : nat) (sig : N) : Prop := {
  k_cnt : c_count (cl st c) sig = (nP isAck st c sig + nP isNR st c sig + nP isWR st c sig)%nat;
  k_lock : (nP isNR st c sig + nP isWR st c sig + nP isNU st c sig + nP isWU st c sig)%nat =
           if c_lock (cl st c) sig then 1%nat else 0%nat;
  k_reg : (List.length (ents (table st) c sig) + cnt (isRegF sig) (up st c))%nat =
          (cnt (isUnregF sig) (up st c) + nP isWR st c sig + nP isNU st c sig +
           (if c_lock (cl st c) sig then 0 else if Nat.eqb (c_count (cl st c) sig) 0 then 0 else 1))%nat;
  k_r : (cnt (isRegF sig) (up st c) <= nP isWR st c sig)%nat;
  k_u : (cnt (isUnregF sig) (up st c) <= nP isWU st c sig)%nat;
  k_ack : c_lock (cl st c) sig = true -> nP isAck st c sig = O;
  k_fail : nP isFail st c sig = O;
  k_unreg_frame : forall m h, In (UUnreg m sig h) (up st c) -> has_entry st c sig h /\ has_sub st c sig (PWaitUnreg m);
  k_reg_frame : forall m h, In (UReg m sig h) (up st c) -> h = c_hid (cl st c) sig /\ has_sub st c sig (PWaitReg m);
  k_nu : nP isNU st c sig = 1%nat -> has_entry st c sig (c_hid (cl st c) sig);
  k_stable : c_lock (cl st c) sig = false -> (c_count (cl st c) sig >= 1)%nat -> has_entry st c sig (c_hid (cl st c) sig);
  k_wr : nP isWR st c sig = 1%nat -> cnt (isRegF sig) (up st c) = O -> has_entry st c sig (c_hid (cl st c) sig);
  k_hid0 : (nP isNR st c sig = 1%nat \/ nP isWU st c sig = 1%nat \/
            (c_lock (cl st c) sig = false /\ c_count (cl st c) sig = O)) -> c_hid (cl st c) sig = 0
}.

Definition no_derror (f : dframe) : Prop := match f with DError _ _ => False | _ => True end.
Definition is_dreply (f : dframe) : Prop := match f with DReply _ _ => True | _ => False end.
Lemma is_dreply_no_derror f : is_dreply f -> no_derror f.
Proof. now destruct f. Qed.
Record Proto (st : state) : Prop := {
  p_key : forall c sig, keyinv st c sig;
  p_pend : forall c f n, pend st = Some (c, f, n) -> is_dreply f;
  p_down : forall c f, In f (down st c) -> no_derror f
}.

Lemma Proto_init : Proto init.
Proof.
  split; [|discriminate|intros c f []].
  intros c sig. split; cbn; try reflexivity; try lia; try (intros ? ? []); try discriminate.
Qed.

(* ---- consequences used by the delivery theorem ---- *)
Lemma keyinv_ents_le1 st c sig : keyinv st c sig -> (List.length (ents (table st) c sig) <= 1)%nat.
Proof.
  intros [Hc Hl Hr Hrr Hu _ _ _ _ _ _ _ _].
  destruct (c_lock (cl st c) sig); [|destruct (Nat.eqb (c_count (cl st c) sig) 0)]; lia.
Qed.
Lemma keyinv_acked_registered st c sig : keyinv st c sig -> (nP isAck st c sig >= 1)%nat ->
  List.length (ents (table st) c sig) = 1%nat.
Proof.
  intros [Hc Hl Hr Hrr Hu Ha _ _ _ _ _ _ _] HA.
  destruct (c_lock (cl st c) sig); [specialize (Ha eq_refl); lia|].
  destruct (Nat.eqb (c_count (cl st c) sig) 0) eqn:E; [apply Nat.eqb_eq in E; lia|lia].
Qed.

(* ---- bookkeeping lemmas ---- *)
Lemma on_key_same c sig x x' : s_conn x' = s_conn x -> s_sig x' = s_sig x -> on_key c sig x' = on_key c sig x.
Proof. unfold on_key. now intros -> ->. Qed.

Lemma nP_set k st s x x' c sig :
  nth_error (subs st) s = Some x -> s_conn x' = s_conn x -> s_sig x' = s_sig x ->
  (cnt (pcb k c sig) (set_nth (subs st) s x') + (if on_key c sig x && k (s_pc x) then 1 else 0) =
   nP k st c sig + (if on_key c sig x && k (s_pc x') then 1 else 0))%nat.
Proof.
  intros H Hc Hs. pose proof (cnt_set_nth (pcb k c sig) (subs st) s x' x H) as E.
  change (pcb k c sig x) with (on_key c sig x && k (s_pc x)) in E.
  change (pcb k c sig x') with (on_key c sig x' && k (s_pc x')) in E.
  rewrite (on_key_same c sig x x' Hc Hs) in E. unfold nP. lia.
Qed.
Lemma nP_set_other k st s x x' c sig :
  nth_error (subs st) s = Some x -> s_conn x' = s_conn x -> s_sig x' = s_sig x -> on_key c sig x = false ->
  cnt (pcb k c sig) (set_nth (subs st) s x') = nP k st c sig.
Proof. intros H Hc Hs Hk. pose proof (nP_set k st s x x' c sig H Hc Hs) as E. rewrite Hk in E. cbn in E. lia. Qed.
Lemma nP_map k st (h : sub -> sub) c sig :
  (forall x, s_conn (h x) = s_conn x /\ s_sig (h x) = s_sig x /\ s_pc (h x) = s_pc x) ->
  cnt (pcb k c sig) (map h (subs st)) = nP k st c sig.
Proof.
  intro H. unfold nP. apply cnt_map. intro x. destruct (H x) as (E1 & E2 & E3). unfold pcb.
  now rewrite (on_key_same c sig x (h x) E1 E2), E3.
Qed.

Lemma In_set_nth_other {A} (l : list A) s x x' y : nth_error l s = Some x -> In y l -> y <> x -> In y (set_nth l s x').
Proof.
  intros Hs Hy Hne. apply In_nth_error in Hy as [j Hj].
  assert (j <> s) by (intro; subst; rewrite Hs in Hj; injection Hj as ->; congruence).
  apply nth_error_In with j. now rewrite nth_error_set_nth_neq by congruence.
Qed.
Lemma In_set_nth_self {A} (l : list A) s x x' : nth_error l s = Some x -> In x' (set_nth l s x').
Proof. intro H. eapply nth_error_In. eapply nth_error_set_nth_eq. exact H. Qed.

Lemma has_sub_set st c sig p s x x' sts :
  nth_error (subs st) s = Some x -> s_pc x <> p -> subs sts = set_nth (subs st) s x' ->
  has_sub st c sig p -> has_sub sts c sig p.
Proof.
  intros Hs Hp E (y & Hy & Ky & Py). exists y. rewrite E. repeat split; try assumption.
  eapply In_set_nth_other; [exact Hs|exact Hy|]. intros ->. congruence.
Qed.
Lemma has_sub_map st c sig p (h : sub -> sub) sts :
  (forall x, s_conn (h x) = s_conn x /\ s_sig (h x) = s_sig x /\ s_pc (h x) = s_pc x) ->
  subs sts = map h (subs st) -> has_sub st c sig p -> has_sub sts c sig p.
Proof.
  intros H E (y & Hy & Ky & Py). exists (h y). destruct (H y) as (E1 & E2 & E3). rewrite E. repeat split.
  - now apply in_map.
  - now rewrite (on_key_same c sig y (h y) E1 E2).
  - congruence.
Qed.

Lemma cnt_le1_eq {A} (f : A -> bool) l a b : (cnt f l <= 1)%nat -> In a l -> In b l -> f a = true -> f b = true -> a = b.
Proof.
  induction l as [|y l IH]; [intros _ []|]. rewrite cnt_cons. intros Hc [->|Ha] [->|Hb] Fa Fb; try reflexivity.
  - rewrite Fa in Hc. pose proof (cnt_In f l b Hb Fb). lia.
  - rewrite Fb in Hc. pose proof (cnt_In f l a Ha Fa). lia.
  - apply IH; try assumption. destruct (f y); lia.
Qed.

Lemma ents_app t t' c sig : ents (t ++ t') c sig = ents t c sig ++ ents t' c sig.
Proof. apply filter_app. Qed.
Lemma ents_swap_remove t i e c sig : nth_error t i = Some e ->
  Permutation (ents t c sig) (ents (e :: swap_remove t i) c sig).
Proof. intro H. apply Permutation_filter. now apply swap_remove_perm. Qed.

Definition same_counts (st st' : state) (c : nat) (sig : N) : Prop :=
  nP isNR st' c sig = nP isNR st c sig /\ nP isWR st' c sig = nP isWR st c sig /\
  nP isNU st' c sig = nP isNU st c sig /\ nP isWU st' c sig = nP isWU st c sig /\
  nP isAck st' c sig = nP isAck st c sig /\ nP isFail st' c sig = nP isFail st c sig.
Lemma same_counts_all st st' c sig : (forall k, nP k st' c sig = nP k st c sig) -> same_counts st st' c sig.
Proof. intro H. repeat split; apply H. Qed.

(* a key that the step does not touch *)
Lemma keyinv_frame st st' c sig :
  c_count (cl st' c) sig = c_count (cl st c) sig ->
  c_lock (cl st' c) sig = c_lock (cl st c) sig ->
  c_hid (cl st' c) sig = c_hid (cl st c) sig ->
  same_counts st st' c sig ->
  List.length (ents (table st') c sig) = List.length (ents (table st) c sig) ->
  (forall u, In u (ents (table st) c sig) -> In u (ents (table st') c sig)) ->
  cnt (isRegF sig) (up st' c) = cnt (isRegF sig) (up st c) ->
  cnt (isUnregF sig) (up st' c) = cnt (isUnregF sig) (up st c) ->
  (forall m h, In (UReg m sig h) (up st' c) -> In (UReg m sig h) (up st c)) ->
  (forall m h, In (UUnreg m sig h) (up st' c) -> In (UUnreg m sig h) (up st c)) ->
  (forall m, has_sub st c sig (PWaitReg m) -> has_sub st' c sig (PWaitReg m)) ->
  (forall m, has_sub st c sig (PWaitUnreg m) -> has_sub st' c sig (PWaitUnreg m)) ->
  keyinv st c sig -> keyinv st' c sig.
Proof.
  intros Ec El Eh En Ee Ie Er Eu Ir Iu Sr Su K.
  assert (HE : forall h, has_entry st c sig h -> has_entry st' c sig h).
  { intros h (u & Hu & Hh). exists u. auto. }
  destruct K as [K1 K2 K3 K4 K5 K6 K7 K8 K9 K10 K11 K12 K13].
  destruct En as (N1 & N2 & N3 & N4 & N5 & N6).
  split; rewrite ?Ec, ?El, ?Eh, ?N1, ?N2, ?N3, ?N4, ?N5, ?N6, ?Ee, ?Er, ?Eu; auto.
  - intros m h Hin. destruct (K8 m h (Iu _ _ Hin)). auto.
  - intros m h Hin. destruct (K9 m h (Ir _ _ Hin)). auto.
Qed.

Lemma fupd_cl_other (f : nat -> cstate) c0 k c sig :
  (c = c0 -> c_count k sig = c_count (f c0) sig /\ c_lock k sig = c_lock (f c0) sig /\ c_hid k sig = c_hid (f c0) sig) ->
  c_count (fupd f c0 k c) sig = c_count (f c) sig /\ c_lock (fupd f c0 k c) sig = c_lock (f c) sig /\
  c_hid (fupd f c0 k c) sig = c_hid (f c) sig.
Proof.
  intro H. unfold fupd. destruct (Nat.eqb c c0) eqn:E; [apply Nat.eqb_eq in E; subst; now apply H|auto].
Qed.

Lemma on_key_false_iff c sig x : on_key c sig x = false <-> ~ (s_conn x = c /\ s_sig x = sig).
Proof.
  unfold on_key. split.
  - intros H [<- <-]. now rewrite Nat.eqb_refl, N.eqb_refl in H.
  - intro H. destruct (Nat.eqb (s_conn x) c) eqn:E1; [|reflexivity]. destruct (s_sig x =? sig) eqn:E2; [|reflexivity].
    apply Nat.eqb_eq in E1. apply N.eqb_eq in E2. tauto.
Qed.
Lemma on_key_true c sig x : on_key c sig x = true -> s_conn x = c /\ s_sig x = sig.
Proof. unfold on_key. intro H. apply andb_prop in H as [H1 H2]. apply Nat.eqb_eq in H1. apply N.eqb_eq in H2. auto. Qed.
Lemma on_key_refl x : on_key (s_conn x) (s_sig x) x = true.
Proof. unfold on_key. now rewrite Nat.eqb_refl, N.eqb_refl. Qed.

(* a step that replaces subscriber s, seen from a key that s does not belong to *)
Lemma keyinv_sub_other st st' s x x' c sig :
  nth_error (subs st) s = Some x -> s_conn x' = s_conn x -> s_sig x' = s_sig x -> on_key c sig x = false ->
  subs st' = set_nth (subs st) s x' -> table st' = table st ->
  c_count (cl st' c) sig = c_count (cl st c) sig ->
  c_lock (cl st' c) sig = c_lock (cl st c) sig ->
  c_hid (cl st' c) sig = c_hid (cl st c) sig ->
  cnt (isRegF sig) (up st' c) = cnt (isRegF sig) (up st c) ->
  cnt (isUnregF sig) (up st' c) = cnt (isUnregF sig) (up st c) ->
  (forall m h, In (UReg m sig h) (up st' c) -> In (UReg m sig h) (up st c)) ->
  (forall m h, In (UUnreg m sig h) (up st' c) -> In (UUnreg m sig h) (up st c)) ->
  keyinv st c sig -> keyinv st' c sig.
Proof.
  intros Hs Hc Hg Hk Es Et E1 E2 E3 E4 E5 E6 E7 K.
  assert (HS : forall p, has_sub st c sig p -> has_sub st' c sig p).
  { intros p (y & Hy & Ky & Py). exists y. rewrite Es. repeat split; try assumption.
    eapply In_set_nth_other; [exact Hs|exact Hy|]. intros ->. congruence. }
  apply (keyinv_frame st); try assumption; try (rewrite Et; auto; fail); auto.
  apply same_counts_all. intro k. unfold nP at 1. rewrite Es. now apply (nP_set_other k st s x x').
Qed.

Lemma cnt_isRegF_app_other sig l f : isRegF sig f = false -> cnt (isRegF sig) (l ++ [f]) = cnt (isRegF sig) l.
Proof. intro H. rewrite cnt_app, cnt_cons, cnt_nil, H. lia. Qed.
Lemma cnt_isUnregF_app_other sig l f : isUnregF sig f = false -> cnt (isUnregF sig) (l ++ [f]) = cnt (isUnregF sig) l.
Proof. intro H. rewrite cnt_app, cnt_cons, cnt_nil, H. lia. Qed.

Ltac key_cases c0 sig0 x :=
  destruct (on_key c0 sig0 x) eqn:Hkey;
  [apply on_key_true in Hkey as [? ?]; subst c0 sig0|].

Lemma nupd_fields_other (k : cstate) sig sig0 n b :
  sig0 <> sig ->
  c_count (with_lock (with_count k sig n) sig b) sig0 = c_count k sig0 /\
  c_lock (with_lock (with_count k sig n) sig b) sig0 = c_lock k sig0 /\
  c_hid (with_lock (with_count k sig n) sig b) sig0 = c_hid k sig0.
Proof. intro H. cbn. now rewrite !nupd_neq by exact H. Qed.

(* facts about the subscriber that a step replaces, for its own key *)
Lemma self_counts st s x x' k :
  nth_error (subs st) s = Some x -> s_conn x' = s_conn x -> s_sig x' = s_sig x ->
  (cnt (pcb k (s_conn x) (s_sig x)) (set_nth (subs st) s x') + (if k (s_pc x) then 1 else 0) =
   nP k st (s_conn x) (s_sig x) + (if k (s_pc x') then 1 else 0))%nat.
Proof.
  intros H Hc Hs. pose proof (nP_set k st s x x' (s_conn x) (s_sig x) H Hc Hs) as E.
  now rewrite on_key_refl in E.
Qed.
