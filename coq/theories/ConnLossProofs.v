(* ConnLossProofs.v — invariants and theorems about the LTS of ConnLoss.v (property C11). *)
From QV Require Import ConnLoss.
From Coq Require Import List Arith Bool Lia.
Import ListNotations.

(* ---------- small facts ---------- *)
Lemma owner_eqb_eq : forall a b, owner_eqb a b = true <-> a = b.
Proof.
  destruct a, b; simpl; split; intro H; try discriminate; try (apply Nat.eqb_eq in H; subst; reflexivity);
    inversion H; subst; apply Nat.eqb_refl.
Qed.
Lemma owner_eqb_refl : forall a, owner_eqb a a = true.
Proof. intro; apply owner_eqb_eq; reflexivity. Qed.
Lemma owner_eqb_neq : forall a b, owner_eqb a b = false <-> a <> b.
Proof.
  intros; split; intro H.
  - intro E; apply owner_eqb_eq in E; congruence.
  - destruct (owner_eqb a b) eqn:E; auto. apply owner_eqb_eq in E; contradiction.
Qed.
Lemma owner_dec : forall a b : owner, {a = b} + {a <> b}.
Proof. decide equality; apply Nat.eq_dec. Qed.

Lemma upd_same : forall A (f : nat -> A) k v, upd f k v k = v.
Proof. intros; unfold upd; rewrite Nat.eqb_refl; reflexivity. Qed.
Lemma upd_other : forall A (f : nat -> A) k v x, x <> k -> upd f k v x = f x.
Proof. intros; unfold upd; destruct (Nat.eqb x k) eqn:E; auto. apply Nat.eqb_eq in E; contradiction. Qed.
Lemma updo_same : forall A (f : owner -> A) k v, updo f k v k = v.
Proof. intros; unfold updo; rewrite owner_eqb_refl; reflexivity. Qed.
Lemma updo_other : forall A (f : owner -> A) k v x, x <> k -> updo f k v x = f x.
Proof. intros; unfold updo; destruct (owner_eqb x k) eqn:E; auto. apply owner_eqb_eq in E; contradiction. Qed.

(* ---------- the handler table as a list of owners ---------- *)
Definition owners (tb : list (option owner)) : list owner :=
  flat_map (fun x => match x with Some o => [o] | None => [] end) tb.
Definition cowners (cl : list (owner * bool * nat)) : list owner := map (fun x => fst (fst x)) cl.
Definition ALL (s : state) : list owner := cowners (closers s) ++ owners (table s).

Lemma owners_cons_none : forall r, owners (None :: r) = owners r.
Proof. reflexivity. Qed.
Lemma owners_cons_some : forall o r, owners (Some o :: r) = o :: owners r.
Proof. reflexivity. Qed.

Lemma alloc_owners : forall tb o, exists l1 l2,
  owners tb = l1 ++ l2 /\ owners (fst (alloc tb o)) = l1 ++ o :: l2.
Proof.
  induction tb as [|x r IH]; intro o; simpl.
  - exists [], []; auto.
  - destruct x as [x|].
    + specialize (IH o). destruct (alloc r o) as [r' k] eqn:A. simpl in *.
      destruct IH as (l1 & l2 & E1 & E2).
      exists (x :: l1), l2; rewrite E1, E2; auto.
    + exists [], (owners r); auto.
Qed.

Lemma alloc_slot : forall tb o, nth_error (fst (alloc tb o)) (snd (alloc tb o)) = Some (Some o).
Proof.
  induction tb as [|x r IH]; intro o; simpl; auto.
  destruct x as [x|]; simpl; auto.
  specialize (IH o). destruct (alloc r o) as [r' k]; simpl in *; auto.
Qed.

Lemma in_owners : forall tb o, In o (owners tb) <-> In (Some o) tb.
Proof.
  induction tb as [|x r IH]; intro o; simpl; [tauto|].
  destruct x as [x|]; simpl; rewrite IH; split; intro H.
  - destruct H as [H|H]; [subst|]; auto.
  - destruct H as [H|H]; [inversion H|]; auto.
  - auto.
  - destruct H as [H|H]; [discriminate|auto].
Qed.

Lemma owners_map_none : forall tb : list (option owner), owners (map (fun _ => None) tb) = [].
Proof. induction tb; simpl; auto. Qed.

Lemma spawned_owners : forall tb e, cowners (spawned tb e) = owners tb.
Proof.
  induction tb as [|x r IH]; intro e; simpl; auto.
  destruct x; simpl; [|apply IH]. unfold cowners in *. simpl. f_equal. apply IH.
Qed.

(* clearing a slot removes exactly that occurrence *)
Lemma setnth_none_owners : forall tb k o, nth_error tb k = Some (Some o) ->
  exists l1 l2, owners tb = l1 ++ o :: l2 /\ owners (setnth k None tb) = l1 ++ l2.
Proof.
  induction tb as [|x r IH]; intros k o H; destruct k; simpl in *; try discriminate.
  - inversion H; subst. exists [], (owners r); auto.
  - destruct (IH _ _ H) as (l1 & l2 & E1 & E2). destruct x as [x|]; simpl.
    + exists (x :: l1), l2; rewrite E1, E2; auto.
    + exists l1, l2; auto.
Qed.

(* ---------- dispatch: at most one handler matches ---------- *)
Definition clearo (o : owner) (tb : list (option owner)) : list (option owner) :=
  map (fun x => match x with Some o' => if owner_eqb o' o then None else Some o' | None => None end) tb.

Lemma matches_target0 : forall o' m, matches o' m = true -> exists t, m = MFor o' t.
Proof.
  intros o' m H. destruct m as [o t|]; simpl in H; [|destruct o'; discriminate].
  destruct o'; try discriminate; apply owner_eqb_eq in H; subst; eauto.
Qed.
Arguments matches : simpl never.
Arguments keeps : simpl never.
Arguments enqueue : simpl never.
Arguments close_sync : simpl never.

Lemma matches_target : forall o' m, matches o' m = true -> exists t, m = MFor o' t.
Proof.
  exact matches_target0.
Qed.

Lemma keeps_nomatch : forall o m, matches o m = false -> keeps o m = true.
Proof. intros o m H; unfold keeps; rewrite H; reflexivity. Qed.

Lemma disp_nomatch : forall m tb s, (forall o, In o (owners tb) -> matches o m = false) -> disp m tb s = (tb, s).
Proof.
  induction tb as [|x r IH]; intros s H; simpl; auto.
  destruct x as [o|].
  - assert (M : matches o m = false) by (apply H; simpl; auto).
    rewrite M, (keeps_nomatch _ _ M), IH; auto. intros; apply H; simpl; auto.
  - rewrite IH; auto.
Qed.

Lemma clearo_notin : forall o tb, ~ In o (owners tb) -> clearo o tb = tb.
Proof.
  induction tb as [|x r IH]; intro H; simpl; auto.
  destruct x as [o'|]; simpl in *.
  - destruct (owner_eqb o' o) eqn:E.
    + apply owner_eqb_eq in E; subst; tauto.
    + rewrite IH; auto.
  - rewrite IH; auto.
Qed.

Lemma disp_match : forall o t tb s, NoDup (owners tb) -> In o (owners tb) -> matches o (MFor o t) = true ->
  disp (MFor o t) tb s =
    if keeps o (MFor o t) then (tb, enqueue s o t) else (clearo o tb, close_sync (enqueue s o t) o).
Proof.
  induction tb as [|x r IH]; intros s ND HIn HM; simpl in HIn; [contradiction|].
  destruct x as [o'|]; simpl in *.
  - inversion ND as [|? ? Hni ND']; subst.
    destruct (owner_dec o' o) as [->|Hne].
    + rewrite HM, owner_eqb_refl.
      assert (NM : forall o1, In o1 (owners r) -> matches o1 (MFor o t) = false).
      { intros o1 H1. destruct (matches o1 (MFor o t)) eqn:E; auto.
        destruct (matches_target _ _ E) as [t' Et]. inversion Et; subst. contradiction. }
      destruct (keeps o (MFor o t)); rewrite disp_nomatch; auto.
      rewrite clearo_notin; auto.
    + destruct HIn as [->|HIn]; [contradiction|].
      assert (M : matches o' (MFor o t) = false).
      { destruct (matches o' (MFor o t)) eqn:E; auto. destruct (matches_target _ _ E) as [t' Et]. inversion Et; subst; contradiction. }
      rewrite M, (keeps_nomatch _ _ M), IH; auto.
      apply owner_eqb_neq in Hne; rewrite Hne.
      destruct (keeps o (MFor o t)); reflexivity.
  - rewrite IH; auto. destruct (keeps o (MFor o t)); reflexivity.
Qed.

Lemma clearo_owners : forall o tb, NoDup (owners tb) -> In o (owners tb) ->
  exists l1 l2, owners tb = l1 ++ o :: l2 /\ owners (clearo o tb) = l1 ++ l2.
Proof.
  induction tb as [|x r IH]; intros ND HIn; simpl in *; [contradiction|].
  destruct x as [o'|]; simpl in *.
  - inversion ND as [|? ? Hni ND']; subst. destruct (owner_dec o' o) as [->|Hne].
    + rewrite owner_eqb_refl. exists [], (owners r). fold (clearo o r). rewrite clearo_notin; auto.
    + destruct HIn as [->|HIn]; [contradiction|]. apply owner_eqb_neq in Hne; rewrite Hne.
      destruct (IH ND' HIn) as (l1 & l2 & E1 & E2). exists (o' :: l1), l2. simpl. fold (clearo o r). rewrite E1, E2; auto.
  - apply IH; auto.
Qed.

(* ---------- list facts ---------- *)
Lemma in_mid : forall A (x o : A) l1 l2, In x (l1 ++ o :: l2) <-> x = o \/ In x (l1 ++ l2).
Proof.
  intros; rewrite !in_app_iff; simpl; split; intros H; repeat destruct H as [H|H]; subst; auto.
Qed.
Lemma nodup_mid_remove : forall A (a l1 l2 : list A) o, NoDup (a ++ l1 ++ o :: l2) -> NoDup (a ++ l1 ++ l2) /\ ~ In o (a ++ l1 ++ l2).
Proof.
  intros A a l1 l2 o H. rewrite app_assoc in H. split.
  - rewrite app_assoc. eapply NoDup_remove_1; eauto.
  - rewrite app_assoc. eapply NoDup_remove_2; eauto.
Qed.
Lemma nodup_mid_insert : forall A (a l1 l2 : list A) o, NoDup (a ++ l1 ++ l2) -> ~ In o (a ++ l1 ++ l2) -> NoDup (a ++ l1 ++ o :: l2).
Proof.
  intros A a l1 l2 o H Hn. rewrite app_assoc in *.
  apply (proj2 (NoDup_Add (Add_app o (a ++ l1) l2))). auto.
Qed.

Lemma setnth_length : forall A k (v : A) l, length (setnth k v l) = length l.
Proof. induction k; destruct l; simpl; auto. Qed.
Lemma setnth_same : forall A k (v : A) l, k < length l -> nth_error (setnth k v l) k = Some v.
Proof. induction k; destruct l; simpl; intros; try lia; auto. apply IHk; lia. Qed.
Lemma setnth_other : forall A k j (v : A) l, j <> k -> nth_error (setnth k v l) j = nth_error l j.
Proof. induction k; destruct l, j; simpl; intros; try congruence; auto. Qed.
Lemma in_setnth : forall A k (v x : A) l, In x (setnth k v l) -> x = v \/ exists j, j <> k /\ nth_error l j = Some x.
Proof.
  intros A k v x l H. apply In_nth_error in H. destruct H as [j Hj].
  destruct (Nat.eq_dec j k) as [->|Hne].
  - left. assert (k < length l). { rewrite <- (setnth_length _ k v l). apply nth_error_Some. congruence. }
    rewrite setnth_same in Hj; auto. congruence.
  - right. exists j. rewrite setnth_other in Hj; auto.
Qed.
Lemma setnth_in_old : forall A k (v x : A) l j, j <> k -> nth_error l j = Some x -> In x (setnth k v l).
Proof. intros. apply nth_error_In with j. rewrite setnth_other; auto. Qed.
Lemma setnth_in_new : forall A k (v : A) l, k < length l -> In v (setnth k v l).
Proof. intros. apply nth_error_In with k. apply setnth_same; auto. Qed.
Lemma cowners_setnth : forall cl k o e ph e' ph', nth_error cl k = Some (o, e, ph) ->
  cowners (setnth k (o, e', ph') cl) = cowners cl.
Proof.
  induction cl as [|x r IH]; intros k o e ph e' ph' H; destruct k; simpl in *; try discriminate; auto.
  - inversion H; subst; reflexivity.
  - unfold cowners in *. simpl. f_equal. eapply IH; eauto.
Qed.
Lemma nodup_cowners_pos : forall cl i j o e1 p1 e2 p2, NoDup (cowners cl) ->
  nth_error cl i = Some (o, e1, p1) -> nth_error cl j = Some (o, e2, p2) -> i = j.
Proof.
  intros cl i j o e1 p1 e2 p2 ND H1 H2.
  assert (Hi : nth_error (cowners cl) i = Some o) by (unfold cowners; rewrite nth_error_map, H1; reflexivity).
  assert (Hj : nth_error (cowners cl) j = Some o) by (unfold cowners; rewrite nth_error_map, H2; reflexivity).
  eapply (proj1 (NoDup_nth_error (cowners cl))); eauto.
  - apply nth_error_Some; congruence.
  - congruence.
Qed.
Lemma in_cowners : forall cl o, In o (cowners cl) <-> exists e ph, In (o, e, ph) cl.
Proof.
  intros; unfold cowners; rewrite in_map_iff; split.
  - intros ([[o' e] ph] & E & H); simpl in E; subst; eauto.
  - intros (e & ph & H); exists (o, e, ph); auto.
Qed.

(* ---------- the invariant ---------- *)
Definition reg (s : state) (o : owner) : Prop :=
  match o with
  | OCall c => cp s c <> CIdle
  | OSub i => sp s i <> SNone
  | OCb j => cbreg s j = true
  end.
(* a handler of o has been made and o has not yet returned *)
Definition act (s : state) (o : owner) : Prop :=
  match o with
  | OCall c => match cp s c with CMade _ | CWait | CFailed _ | CCancel => True | _ => False end
  | _ => reg s o
  end.
Definition pend (s : state) (o : owner) : Prop := exists e ph, In (o, e, ph) (closers s) /\ ph <= 1.
Definition intab (s : state) (o : owner) : Prop := In o (owners (table s)).

Record Inv (s : state) : Prop := {
  iA : panicked s = false;
  iB : NoDup (ALL s);
  iC : forall o, In o (ALL s) -> reg s o;
  iH : forall o, reg s o \/ ch s o = chan0;
  iD : forall o, intab s o -> qclosed (ch s o) = false;
  iE : forall o e ph, In (o, e, ph) (closers s) -> ph <= 2 /\ (ph <= 1 -> qclosed (ch s o) = false);
  iF : forall c, errs s c = true -> exists ph, In (OCall c, true, ph) (closers s) /\ 1 <= ph;
  iG : forall i, evclosed s i = true <-> sp s i = SDone;
  iK : forall o, act s o -> qclosed (ch s o) = true \/ pend s o \/ intab s o;
  iN : forall c, q (ch s (OCall c)) <> [] -> ~ In (OCall c) (ALL s);
  iP : (proc s = PClosing \/ proc s = PDone -> closed s = true) /\ (usr s <> UIdle -> closed s = true);
  iK2 : forall c, cp s c = CWait -> intab s (OCall c) -> proc s <> PDone;
  iM : forall j, cbcount s j <= 1 /\
         (cbcount s j = 1 <-> (qclosed (ch s (OCb j)) = true \/ exists e ph, In (OCb j, e, ph) (closers s) /\ 1 <= ph))
}.

Lemma inv_init : forall n m d, Inv (init n m d).
Proof.
  intros; constructor; unfold ALL, intab, pend, reg, act; simpl; auto.
  - constructor.
  - tauto.
  - tauto.
  - intros; discriminate.
  - intros; split; discriminate.
  - intros o H; destruct o; simpl in H; try congruence; contradiction.
  - split; intros H; [destruct H; discriminate|congruence].
  - intros; split; [lia|]. split; [discriminate|]. intros [H|(e & ph & [] & _)]; discriminate.
Qed.

Ltac inv_split I := destruct I as [jA jB jC jH jD jE jF jG jK jN jP jK2 jM].
Ltac unf := unfold ALL, intab, pend, reg, act in *.
Ltac updc := repeat (match goal with
  | H : context[upd _ ?k _ ?x] |- _ =>
      destruct (Nat.eq_dec x k) as [?|?]; [subst; rewrite upd_same in H | rewrite upd_other in H by assumption]
  | |- context[upd _ ?k _ ?x] =>
      destruct (Nat.eq_dec x k) as [?|?]; [subst; rewrite upd_same | rewrite upd_other by assumption]
  end; try (exfalso; congruence)).

Definition act_pc (v : cpc) : Prop := match v with CMade _ | CWait | CFailed _ | CCancel => True | _ => False end.

(* a step that only moves the program counter of call c *)
Lemma inv_cp : forall s c v, Inv s -> v <> CIdle -> (act_pc v -> act_pc (cp s c)) ->
  (v = CWait -> proc s <> PDone) -> Inv (set_cp s (upd (cp s) c v)).
Proof.
  intros s c v I Hv Hact Hw. inv_split I. constructor; unf; simpl; auto.
  - intros o Ho. specialize (jC o Ho). destruct o; auto. updc; auto.
  - intros o. destruct (jH o) as [Hr|Hc]; auto. left. destruct o; auto. updc; auto.
  - intros o Ho. apply jK. destruct o; simpl in *; auto. updc; auto. unfold act_pc in Hact.
    destruct v; try contradiction; apply Hact; simpl; trivial.
  - intros c0 H0 Hin. updc; [apply Hw; assumption | eapply jK2; eauto].
Qed.

(* MakeHandler for an owner that has no handler yet *)
Lemma inv_register : forall s s' o, Inv s -> ~ reg s o ->
  table s' = fst (alloc (table s) o) -> closers s' = closers s -> ch s' = ch s -> errs s' = errs s ->
  panicked s' = panicked s -> proc s' = proc s -> usr s' = usr s -> closed s' = closed s -> cbcount s' = cbcount s ->
  (forall o', reg s' o' <-> reg s o' \/ o' = o) ->
  (forall o', act s' o' -> act s o' \/ o' = o) ->
  (forall i, evclosed s' i = true <-> sp s' i = SDone) ->
  (forall c, cp s' c = CWait -> cp s c = CWait) ->
  Inv s'.
Proof.
  intros s s' o I Hnr Et Ec Eh Ee Ep Epr Eu Ecl Ecb Hreg Hact HG HW. inv_split I.
  destruct (alloc_owners (table s) o) as (l1 & l2 & E1 & E2).
  assert (Hnew : ~ In o (ALL s)) by (intro Hin; apply Hnr; auto).
  assert (Hall : forall x, In x (ALL s') <-> x = o \/ In x (ALL s)).
  { intro x. unfold ALL. rewrite Ec, Et, E2, E1. rewrite !in_app_iff. simpl. intuition (subst; auto). }
  constructor.
  - congruence.
  - unfold ALL in *. rewrite Ec, Et, E2. apply nodup_mid_insert; rewrite <- E1; auto.
  - intros x Hx. apply Hreg. apply Hall in Hx. destruct Hx; auto.
  - intro x. rewrite Eh. destruct (jH x); auto. left; apply Hreg; auto.
  - intros x Hx. rewrite Eh. unfold intab in Hx. rewrite Et, E2 in Hx. apply in_mid in Hx. rewrite <- E1 in Hx.
    destruct Hx as [->|Hx]; [|apply jD; auto].
    destruct (jH o) as [Hr|Hc]; [contradiction|rewrite Hc; reflexivity].
  - intros x e ph Hx. rewrite Ec in Hx. rewrite Eh. eauto.
  - intros c Hc. rewrite Ee in Hc. rewrite Ec. auto.
  - exact HG.
  - intros x Hx. rewrite Eh. unfold pend, intab. rewrite Ec, Et, E2.
    destruct (Hact x Hx) as [Ha| ->].
    + destruct (jK x Ha) as [H|[H|H]]; auto. right; right. apply in_mid. right. rewrite <- E1; auto.
    + right; right. apply in_mid; auto.
  - intros c Hq Hin. rewrite Eh in Hq. apply Hall in Hin. destruct Hin as [E|Hin]; [|eapply jN; eauto].
    subst o. destruct (jH (OCall c)) as [Hr|Hc]; [contradiction|]. rewrite Hc in Hq. simpl in Hq. congruence.
  - rewrite Epr, Eu, Ecl. exact jP.
  - intros c Hc Hin. rewrite Epr. apply HW in Hc. unfold intab in Hin. rewrite Et, E2 in Hin. apply in_mid in Hin. rewrite <- E1 in Hin.
    destruct Hin as [E|Hin]; [|eapply jK2; eauto].
    subst o. exfalso. apply Hnr. simpl. congruence.
  - intro j. rewrite Ecb, Eh, Ec. apply jM.
Qed.

Definition bump_cb (s : state) (o : owner) : state :=
  match o with OCb j => set_cbcount s (upd (cbcount s) j (S (cbcount s j))) | _ => s end.

Lemma close_sync_eq : forall s o, qclosed (ch s o) = false ->
  close_sync s o = set_ch (bump_cb s o) (updo (ch s) o {| q := q (ch s o); qclosed := true |}).
Proof.
  intros s o H. unfold close_sync, run_closer, close_chan, bump_cb. destruct o; simpl; rewrite H; reflexivity.
Qed.

Lemma bump_cb_fields : forall s o,
  table (bump_cb s o) = table s /\ closers (bump_cb s o) = closers s /\ ch (bump_cb s o) = ch s /\
  errs (bump_cb s o) = errs s /\ cp (bump_cb s o) = cp s /\ sp (bump_cb s o) = sp s /\
  cbreg (bump_cb s o) = cbreg s /\ proc (bump_cb s o) = proc s /\ usr (bump_cb s o) = usr s /\
  closed (bump_cb s o) = closed s /\ evclosed (bump_cb s o) = evclosed s /\ panicked (bump_cb s o) = panicked s /\
  dead (bump_cb s o) = dead s /\ cancelled (bump_cb s o) = cancelled s /\ delivered (bump_cb s o) = delivered s.
Proof. intros s o; destruct o; simpl; repeat split; reflexivity. Qed.
Lemma bump_cb_count : forall s o j,
  cbcount (bump_cb s o) j = if owner_eqb (OCb j) o then S (cbcount s j) else cbcount s j.
Proof.
  intros s o j; destruct o as [c|i|k]; simpl; auto. unfold upd. destruct (Nat.eqb j k) eqn:E; [apply Nat.eqb_eq in E; subst|]; reflexivity.
Qed.

(* Handler.closeWith(nil) on a handler that sits in the table, and its slot cleared *)
Lemma inv_sync_close_q : forall s o l1 l2 tb' q', Inv s ->
  owners (table s) = l1 ++ o :: l2 -> owners tb' = l1 ++ l2 ->
  Inv (set_table (set_ch (bump_cb s o) (updo (ch s) o {| q := q'; qclosed := true |})) tb').
Proof.
  intros s o l1 l2 tb' q' I E1 E2. inv_split I.
  assert (Hin : intab s o) by (unfold intab; rewrite E1; apply in_mid; auto).
  assert (Hop : qclosed (ch s o) = false) by auto.
  unfold ALL in jB. rewrite E1 in jB. destruct (nodup_mid_remove _ _ _ _ _ jB) as [ND Hni].
  assert (Hsub : forall x, In x (cowners (closers s) ++ l1 ++ l2) -> In x (ALL s)).
  { intros x Hx. unfold ALL. rewrite E1. rewrite !in_app_iff in *. simpl. tauto. }
  assert (Hne : forall x, In x (cowners (closers s) ++ l1 ++ l2) -> x <> o) by (intros x Hx ->; contradiction).
  assert (Hcl : forall e ph, ~ In (o, e, ph) (closers s)).
  { intros e ph Hx. apply Hni. apply in_app_iff. left. apply in_cowners; eauto. }
  destruct (bump_cb_fields s o) as (Ft & Fc & Fh & Fe & Fcp & Fsp & Fcb & Fpr & Fu & Fcl & Fev & Fpa & _).
  assert (Hreg : forall x, reg (set_table (set_ch (bump_cb s o) (updo (ch s) o {| q := q'; qclosed := true |})) tb') x <-> reg s x).
  { intro x; destruct x; simpl; rewrite ?Fcp, ?Fsp, ?Fcb; tauto. }
  assert (Hact : forall x, act (set_table (set_ch (bump_cb s o) (updo (ch s) o {| q := q'; qclosed := true |})) tb') x <-> act s x).
  { intro x; destruct x; simpl; rewrite ?Fcp, ?Fsp, ?Fcb; tauto. }
  constructor; unfold ALL, intab, pend; simpl; rewrite ?Fc, ?E2, ?Fpa, ?Fe, ?Fev, ?Fsp, ?Fpr, ?Fu, ?Fcl, ?Fcp; auto.
  - intros x Hx. apply Hreg. apply jC. apply Hsub. exact Hx.
  - intro x. destruct (owner_dec x o) as [->|Hx].
    + left. apply Hreg. apply jC. unfold ALL. rewrite E1. apply in_app_iff. right. apply in_mid; auto.
    + rewrite updo_other by assumption. destruct (jH x); [left; apply Hreg|]; auto.
  - intros x Hx. rewrite updo_other; [apply jD; unfold intab; rewrite E1; apply in_mid; auto|].
    apply Hne. apply in_app_iff; auto.
  - intros x e ph Hx. destruct (jE x e ph Hx) as [Hp Hq]. split; auto. intro Hle.
    rewrite updo_other; auto. intros ->. eapply Hcl; eauto.
  - intros x Hx. apply Hact in Hx. destruct (owner_dec x o) as [->|Hxo].
    + left. rewrite updo_same. reflexivity.
    + rewrite updo_other by assumption. destruct (jK x Hx) as [H|[H|H]]; auto.
      right; right. unfold intab in H. rewrite E1 in H. apply in_mid in H. destruct H; [contradiction|auto].
  - intros c Hq Hx. apply (jN c); [|apply Hsub; exact Hx].
    destruct (owner_dec (OCall c) o) as [<-|Hxo].
    + exfalso. apply Hni. exact Hx.
    + rewrite updo_other in Hq; auto.
  - intros c Hc Hx. apply (jK2 c Hc). unfold intab. rewrite E1. apply in_mid; auto.
  - intro j. rewrite bump_cb_count. destruct (jM j) as [Hle Hiff].
    destruct (owner_eqb (OCb j) o) eqn:Eo.
    + apply owner_eqb_eq in Eo. subst o. rewrite updo_same. simpl.
      assert (cbcount s j <> 1).
      { intro H1. apply Hiff in H1. destruct H1 as [H1|(e & ph & H1 & _)]; [congruence|]. eapply Hcl; eauto. }
      split; [lia|]. split; auto. intros _. lia.
    + apply owner_eqb_neq in Eo. rewrite updo_other by assumption. split; auto.
Qed.
Lemma inv_sync_close : forall s o l1 l2 tb', Inv s ->
  owners (table s) = l1 ++ o :: l2 -> owners tb' = l1 ++ l2 ->
  Inv (set_table (close_sync s o) tb').
Proof.
  intros s o l1 l2 tb' I E1 E2.
  assert (Hop : qclosed (ch s o) = false).
  { apply (iD s I). unfold intab. rewrite E1. apply in_mid; auto. }
  rewrite close_sync_eq by assumption. eapply inv_sync_close_q; eauto.
Qed.


(* the invariant only looks at these fields, pointwise *)
Lemma inv_ext : forall s s', Inv s ->
  table s' = table s -> closers s' = closers s -> (forall x, ch s' x = ch s x) -> (forall x, errs s' x = errs s x) ->
  (forall x, cp s' x = cp s x) -> (forall x, sp s' x = sp s x) -> (forall x, cbreg s' x = cbreg s x) ->
  proc s' = proc s -> usr s' = usr s -> closed s' = closed s -> (forall x, evclosed s' x = evclosed s x) ->
  panicked s' = panicked s -> (forall x, cbcount s' x = cbcount s x) -> Inv s'.
Proof.
  intros s s' I Et Ec Eh Ee Ecp Esp Ecb Epr Eu Ecl Eev Epa Ecn. inv_split I.
  assert (Hreg : forall x, reg s' x <-> reg s x) by (intro x; destruct x; simpl; rewrite ?Ecp, ?Esp, ?Ecb; tauto).
  assert (Hact : forall x, act s' x <-> act s x) by (intro x; destruct x; simpl; rewrite ?Ecp, ?Esp, ?Ecb; tauto).
  constructor; unfold ALL, intab, pend in *; rewrite ?Et, ?Ec, ?Epr, ?Eu, ?Ecl, ?Epa; auto.
  - intros x Hx. apply Hreg. auto.
  - intro x. rewrite Eh. destruct (jH x); [left; apply Hreg|]; auto.
  - intros x Hx. rewrite Eh. auto.
  - intros x e ph Hx. rewrite Eh. eauto.
  - intros c Hc. rewrite Ee in Hc. auto.
  - intro i. rewrite Eev, Esp. auto.
  - intros x Hx. rewrite Eh. apply jK. apply Hact. auto.
  - intros c Hq. rewrite Eh in Hq. auto.
  - intros c Hc. rewrite Ecp in Hc. eauto.
  - intro j. rewrite Ecn, Eh. auto.
Qed.

(* changing the content (not the closed flag) of the channel of a registered owner *)
Lemma inv_setq : forall s o r, Inv s -> reg s o ->
  (forall c, o = OCall c -> r <> [] -> q (ch s o) <> []) ->
  Inv (set_ch s (updo (ch s) o {| q := r; qclosed := qclosed (ch s o) |})).
Proof.
  intros s o r I Hr Hq. inv_split I. constructor; unf; simpl; auto.
  - intro x. destruct (owner_dec x o) as [->|Hx]; [left; auto|]. rewrite updo_other by assumption. auto.
  - intros x Hx. destruct (owner_dec x o) as [->|Hxo]; [rewrite updo_same; simpl|rewrite updo_other by assumption]; auto.
  - intros x e ph Hx. destruct (owner_dec x o) as [->|Hxo]; [rewrite updo_same; simpl|rewrite updo_other by assumption]; eauto.
  - intros x Hx. destruct (owner_dec x o) as [->|Hxo]; [rewrite updo_same; simpl|rewrite updo_other by assumption]; auto.
  - intros c Hc. destruct (owner_dec (OCall c) o) as [<-|Hxo].
    + rewrite updo_same in Hc. simpl in Hc. apply jN. eapply Hq; eauto.
    + rewrite updo_other in Hc by assumption. auto.
  - intro j. destruct (owner_dec (OCb j) o) as [<-|Hxo]; [rewrite updo_same; simpl|rewrite updo_other by assumption]; auto.
Qed.

Lemma inv_errs_clear : forall s c, Inv s -> Inv (set_errs s (upd (errs s) c false)).
Proof.
  intros s c I. inv_split I. constructor; unf; simpl; auto.
  intros c0 H0. updc; auto.
Qed.

Lemma inv_proc : forall s p, Inv s -> p <> PClosing -> p <> PDone -> Inv (set_proc s p).
Proof.
  intros s p I H1 H2. inv_split I. constructor; unf; simpl; auto.
  destruct jP as [P1 P2]. split; auto. intros [H|H]; congruence.
Qed.

Lemma inv_dead : forall s b, Inv s -> Inv (set_dead s b).
Proof. intros s b I. inv_split I. constructor; unf; simpl; auto. Qed.
Lemma inv_cancelled : forall s f, Inv s -> Inv (set_cancelled s f).
Proof. intros s f I. inv_split I. constructor; unf; simpl; auto. Qed.
Lemma inv_delivered : forall s f, Inv s -> Inv (set_delivered s f).
Proof. intros s f I. inv_split I. constructor; unf; simpl; auto. Qed.

(* the Subscribe goroutine moves between SLoop and SSend, or ends with close(events) *)
Lemma inv_subpc : forall s i v b, Inv s -> sp s i <> SNone -> v <> SNone -> (b = true <-> v = SDone) ->
  Inv (set_sp (set_evclosed s (upd (evclosed s) i b)) (upd (sp s) i v)).
Proof.
  intros s i v b I H0 Hv Hb. inv_split I. constructor; unf; simpl; auto.
  - intros o Ho. specialize (jC o Ho). destruct o; auto. updc; auto.
  - intro o. destruct (jH o); auto. left. destruct o; auto. updc; auto.
  - intro i0. updc; auto.
  - intros o Ho. apply jK. destruct o; simpl in *; auto. updc; auto.
Qed.

Lemma inv_remove_handler : forall s k, Inv s -> Inv (remove_handler s k).
Proof.
  intros s k I. unfold remove_handler. destruct (nth_error (table s) k) as [[o|]|] eqn:E; auto.
  destruct (setnth_none_owners _ _ _ E) as (l1 & l2 & E1 & E2). eapply inv_sync_close; eauto.
Qed.

Lemma alloc_fst_snd : forall tb o, alloc tb o = (fst (alloc tb o), snd (alloc tb o)).
Proof. intros; destruct (alloc tb o); reflexivity. Qed.

Lemma inv_step_call : forall s l s', Inv s -> step_call s l = Some s' -> Inv s'.
Proof.
  intros s l s' I H. destruct l; simpl in H; try discriminate.
  - (* LCancel *) destruct (_ && _) in H; inversion H; subst. apply inv_cancelled; auto.
  - (* LCallMake *)
    destruct (c <? nn s); try discriminate. destruct (cp s c) eqn:Ec; try discriminate.
    destruct (cancelled s c).
    + inversion H; subst. apply inv_cp; auto; try discriminate. simpl; tauto.
    + rewrite (alloc_fst_snd (table s) (OCall c)) in H. inversion H; subst; clear H.
      eapply (inv_register s _ (OCall c)); eauto; simpl; auto.
      * intros o'. destruct o' as [c0|i|j]; simpl; try (split; [auto|intros [?|?]; [auto|discriminate]]).
        updc; split; intro; auto; try discriminate.
        -- destruct H as [H|H]; [auto|inversion H; contradiction].
      * intros o'. destruct o' as [c0|i|j]; simpl; auto. updc; auto.
      * apply (iG s I).
      * intros c0 H0. updc; auto.
  - (* LCallSend *)
    destruct (cp s c) eqn:Ec; try discriminate. destruct (closed s) eqn:Ecl; try discriminate.
    inversion H; subst. apply inv_cp; auto; try discriminate.
    + rewrite Ec; simpl; auto.
    + intros _ Hp. destruct (iP s I) as [P1 _]. rewrite P1 in Ecl; auto; discriminate.
  - (* LCallSendFail *)
    destruct (cp s c) eqn:Ec; try discriminate. destruct (lost s); try discriminate.
    inversion H; subst. apply inv_cp; auto; try discriminate. rewrite Ec; simpl; auto.
  - (* LCallRemove *)
    destruct (cp s c) eqn:Ec; try discriminate. inversion H; subst; clear H.
    apply inv_cp; try discriminate.
    + apply inv_remove_handler; auto.
    + simpl; tauto.
  - (* LCallSel *)
    destruct (cp s c) eqn:Ec; try discriminate. destruct b.
    + destruct (errs s c); try discriminate. inversion H; subst; clear H.
      apply (inv_cp (set_errs s (upd (errs s) c false))); try discriminate.
      * apply inv_errs_clear; auto.
      * simpl; tauto.
    + destruct (q (ch s (OCall c))) as [|t r] eqn:Eq.
      * destruct (qclosed (ch s (OCall c))); try discriminate. inversion H; subst.
        apply inv_cp; auto; try discriminate. simpl; tauto.
      * inversion H; subst; clear H.
        apply (inv_cp (set_ch s (updo (ch s) (OCall c) {| q := r; qclosed := qclosed (ch s (OCall c)) |}))); try discriminate.
        -- apply inv_setq; auto.
           ++ simpl. congruence.
           ++ intros c0 E0 _. rewrite Eq. discriminate.
        -- simpl; tauto.
    + destruct (cancelled s c); try discriminate. inversion H; subst.
      apply inv_cp; auto; try discriminate. rewrite Ec; simpl; auto.
  - (* LCallCancelSend *)
    destruct (cp s c) eqn:Ec; try discriminate. inversion H; subst.
    apply inv_cp; auto; try discriminate. simpl; tauto.
Qed.

Lemma inv_step_sub : forall s l s', Inv s -> step_sub s l = Some s' -> Inv s'.
Proof.
  intros s l s' I H. destruct l; simpl in H; try discriminate.
  - (* LSubscribe *)
    destruct (i <? mm s); try discriminate. destruct (sp s i) eqn:Es; try discriminate.
    rewrite (alloc_fst_snd (table s) (OSub i)) in H. inversion H; subst; clear H.
    eapply (inv_register s _ (OSub i)); eauto; simpl; auto.
    + intros o'. destruct o' as [c0|i0|j]; simpl; try (split; [auto|intros [?|?]; [auto|discriminate]]).
      updc; split; intro; auto; try discriminate.
      destruct H as [H|H]; [auto|inversion H; contradiction].
    + intros o'. destruct o' as [c0|i0|j]; simpl; auto. updc; auto.
    + intro i0. updc.
      * split; [|discriminate]. intro Hev. apply (iG s I) in Hev. congruence.
      * apply (iG s I).
  - (* LSubTake *)
    destruct (sp s i) eqn:Es; try discriminate. destruct (q (ch s (OSub i))) as [|t r] eqn:Eq; try discriminate.
    inversion H; subst; clear H.
    set (s1 := set_ch s (updo (ch s) (OSub i) {| q := r; qclosed := qclosed (ch s (OSub i)) |})).
    assert (I1 : Inv s1).
    { apply inv_setq; auto. simpl; congruence. intros; discriminate. }
    assert (Hev : evclosed s i = false).
    { destruct (evclosed s i) eqn:E; auto. apply (iG s I) in E. congruence. }
    eapply (inv_ext (set_sp (set_evclosed s1 (upd (evclosed s1) i false)) (upd (sp s1) i (if mtype_eqb t TEvent then SSend else SLoop)))).
    + apply inv_subpc; auto; simpl; try congruence.
      * destruct (mtype_eqb t TEvent); discriminate.
      * split; [discriminate|]. destruct (mtype_eqb t TEvent); discriminate.
    + reflexivity. + reflexivity. + reflexivity. + reflexivity. + reflexivity. + reflexivity. + reflexivity.
    + reflexivity. + reflexivity. + reflexivity.
    + intro x; simpl. unfold upd. destruct (Nat.eqb x i) eqn:E; auto. apply Nat.eqb_eq in E; subst; auto.
    + reflexivity. + reflexivity.
  - (* LSubClosed *)
    destruct (sp s i) eqn:Es; try discriminate. destruct (q (ch s (OSub i))) eqn:Eq; try discriminate.
    destruct (qclosed (ch s (OSub i))); try discriminate.
    assert (Hev : evclosed s i = false).
    { destruct (evclosed s i) eqn:E; auto. apply (iG s I) in E. congruence. }
    rewrite Hev in H. inversion H; subst; clear H.
    apply inv_subpc; auto; try congruence. tauto.
  - (* LSubRead *)
    destruct (sp s i) eqn:Es; try discriminate. inversion H; subst; clear H.
    assert (Hev : evclosed s i = false).
    { destruct (evclosed s i) eqn:E; auto. apply (iG s I) in E. congruence. }
    set (s1 := set_delivered s (upd (delivered s) i (S (delivered s i)))).
    eapply (inv_ext (set_sp (set_evclosed s1 (upd (evclosed s1) i false)) (upd (sp s1) i SLoop))).
    + apply inv_subpc; try (simpl; congruence). apply inv_delivered; auto. split; discriminate.
    + reflexivity. + reflexivity. + reflexivity. + reflexivity. + reflexivity. + reflexivity. + reflexivity.
    + reflexivity. + reflexivity. + reflexivity.
    + intro x; simpl. unfold upd. destruct (Nat.eqb x i) eqn:E; auto. apply Nat.eqb_eq in E; subst; auto.
    + reflexivity. + reflexivity.
  - (* LOnDisc *)
    destruct (j <? dd s); simpl in H; try discriminate. destruct (cbreg s j) eqn:Er; simpl in H; try discriminate.
    rewrite (alloc_fst_snd (table s) (OCb j)) in H. inversion H; subst; clear H.
    eapply (inv_register s _ (OCb j)); eauto; simpl; auto.
    + congruence.
    + intros o'. destruct o' as [c0|i0|j0]; simpl; try (split; [auto|intros [?|?]; [auto|discriminate]]).
      updc; split; intro; auto; try discriminate.
      destruct H as [H|H]; [auto|inversion H; contradiction].
    + intros o'. destruct o' as [c0|i0|j0]; simpl; auto. updc; auto.
    + apply (iG s I).
Qed.

Lemma in_spawned : forall tb e x, In x (spawned tb e) <-> exists o, x = (o, e, 0) /\ In o (owners tb).
Proof.
  induction tb as [|y r IH]; intros e x; simpl.
  - split; [tauto|intros (o & _ & [])].
  - destruct y as [o'|]; simpl; rewrite IH.
    + split.
      * intros [<-|(o & E & Hin)]; eauto.
      * intros (o & E & [->|Hin]); eauto.
    + tauto.
Qed.

(* closeWith, second half (after stream.Close()): every handler is handed to its own goroutine *)
Lemma inv_spawn : forall s e, Inv s -> closed s = true -> Inv (set_proc (spawn_all s e) (proc s)) /\
  forall p u, (p = PClosing \/ p = PDone -> closed s = true) -> Inv (set_usr (set_proc (spawn_all s e) p) u).
Proof.
  intros s e I Hcl.
  assert (G : forall p u, Inv (set_usr (set_proc (spawn_all s e) p) u)).
  { intros p u. inv_split I. unfold spawn_all.
    assert (EA : cowners (closers s ++ spawned (table s) e) ++ owners (map (fun _ => None) (table s)) = ALL s).
    { unfold ALL, cowners. rewrite map_app. fold (cowners (closers s)). fold (cowners (spawned (table s) e)).
      rewrite spawned_owners, owners_map_none, app_nil_r. reflexivity. }
    constructor; unfold ALL, intab, pend, reg, act in *; simpl; rewrite ?EA, ?owners_map_none; auto.
    - intros o [].
    - intros o e0 ph Hx. apply in_app_iff in Hx. destruct Hx as [Hx|Hx]; eauto.
      apply in_spawned in Hx. destruct Hx as (o' & E & Hin). inversion E; subst. split; [lia|]. intros _. auto.
    - intros c Hc. destruct (jF c Hc) as (ph & Hin & Hle). exists ph. split; auto. apply in_app_iff; auto.
    - intros o Ho. destruct (jK o Ho) as [H|[(e0 & ph & Hin & Hle)|H]]; auto.
      + right; left. exists e0, ph. split; auto. apply in_app_iff; auto.
      + right; left. exists e, 0. split; [|lia]. apply in_app_iff. right. apply in_spawned. eauto.
    - intro j. destruct (jM j) as [Hle Hiff]. split; auto. rewrite Hiff. split.
      + intros [H|(e0 & ph & Hin & Hp)]; auto. right. exists e0, ph. split; auto. apply in_app_iff; auto.
      + intros [H|(e0 & ph & Hin & Hp)]; auto. apply in_app_iff in Hin. destruct Hin as [Hin|Hin]; eauto.
        apply in_spawned in Hin. destruct Hin as (o' & E & _). inversion E; subst. lia. }
  split.
  - eapply inv_ext; [apply (G (proc s) (usr s))|..]; reflexivity.
  - intros; apply G.
Qed.

Lemma nodup_app_l : forall A (a b : list A), NoDup (a ++ b) -> NoDup a.
Proof.
  induction a as [|x a IH]; intros b H; [constructor|]. simpl in H. inversion H as [|? ? Hn Hd]; subst.
  constructor; [intro Hi; apply Hn; apply in_app_iff; auto|eauto].
Qed.
Lemma nth_lt : forall A (l : list A) k x, nth_error l k = Some x -> k < length l.
Proof. intros. apply nth_error_Some. congruence. Qed.

(* go handler.closeWith(err), first half: closer(err) *)
Lemma inv_phase0 : forall s k o e, Inv s -> nth_error (closers s) k = Some (o, e, 0) ->
  Inv (set_closers (set_cbcount (set_errs s (match o with OCall c => if e then upd (errs s) c true else errs s | _ => errs s end))
                                (cbcount (bump_cb s o)))
                   (setnth k (o, e, 1) (closers s))).
Proof.
  intros s k o e I Hk. pose proof (nth_lt _ _ _ _ Hk) as Hlt. inv_split I.
  assert (NDc : NoDup (cowners (closers s))) by (unfold ALL in jB; eapply nodup_app_l; eauto).
  assert (Hold : forall x, In x (setnth k (o, e, 1) (closers s)) -> x = (o, e, 1) \/ (In x (closers s) /\ fst (fst x) <> o)).
  { intros x Hx. apply in_setnth in Hx. destruct Hx as [->|(j & Hj & Hn)]; auto. right. split; [eapply nth_error_In; eauto|].
    destruct x as [[x1 x2] x3]. simpl. intros ->. apply Hj. eapply nodup_cowners_pos; eauto. }
  assert (Hkeep : forall x, In x (closers s) -> fst (fst x) <> o -> In x (setnth k (o, e, 1) (closers s))).
  { intros x Hx Hne. apply In_nth_error in Hx. destruct Hx as [j Hj]. apply (setnth_in_old _ k _ x _ j); [|exact Hj].
    intros ->. rewrite Hk in Hj. inversion Hj; subst. simpl in Hne. congruence. }
  assert (Hnew : In (o, e, 1) (setnth k (o, e, 1) (closers s))) by (apply setnth_in_new; auto).
  assert (Hopen : qclosed (ch s o) = false).
  { apply (proj2 (jE o e 0 (nth_error_In _ _ Hk))). lia. }
  constructor; unfold ALL, intab, pend in *; simpl; rewrite ?(cowners_setnth _ _ _ _ _ _ _ Hk); auto.
  - intros x e0 ph Hx. destruct (Hold _ Hx) as [E|[Hin _]]; [inversion E; subst; split; auto; lia|eauto].
  - intros c Hc.
    assert (Hcase : (o = OCall c /\ e = true) \/ errs s c = true).
    { destruct o as [c0|i|j]; auto. destruct e; auto. unfold upd in Hc. destruct (Nat.eqb c c0) eqn:E; auto.
      apply Nat.eqb_eq in E; subst; auto. }
    destruct Hcase as [[-> ->]|Hc'].
    + exists 1. auto.
    + destruct (jF c Hc') as (ph & Hin & Hle). destruct (owner_dec (OCall c) o) as [<-|Hne].
      * exists 1. split; auto. apply In_nth_error in Hin. destruct Hin as [j Hj].
        assert (j = k) by (eapply nodup_cowners_pos; eauto). subst j. rewrite Hk in Hj. inversion Hj; subst. auto.
      * exists ph. split; auto.
  - intros x Hx. assert (Hx' : act s x) by (destruct x; simpl in *; auto).
    destruct (jK x Hx') as [H|[(e0 & ph & Hin & Hle)|H]]; auto. right; left.
    destruct (owner_dec x o) as [->|Hne]; [exists e, 1; auto|]. exists e0, ph. split; auto.
  - intro j. rewrite bump_cb_count. destruct (jM j) as [Hle Hiff].
    destruct (owner_eqb (OCb j) o) eqn:Eo.
    + apply owner_eqb_eq in Eo. subst o.
      assert (cbcount s j <> 1).
      { intro H1. apply Hiff in H1. destruct H1 as [H1|(e0 & ph & H1 & Hp)]; [congruence|].
        apply In_nth_error in H1. destruct H1 as [j0 Hj0]. assert (j0 = k) by (eapply nodup_cowners_pos; eauto).
        subst j0. rewrite Hk in Hj0. inversion Hj0; subst. lia. }
      split; [lia|]. split; [|lia]. intros _. right. exists e, 1. auto.
    + apply owner_eqb_neq in Eo. split; auto. rewrite Hiff. split.
      * intros [H|(e0 & ph & Hin & Hp)]; auto. right. exists e0, ph. split; auto.
      * intros [H|(e0 & ph & Hin & Hp)]; auto. destruct (Hold _ Hin) as [E|[Hin' _]]; [inversion E; congruence|eauto].
Qed.

(* go handler.closeWith(err), second half: close(consumer) *)
Lemma inv_phase1 : forall s k o e, Inv s -> nth_error (closers s) k = Some (o, e, 1) ->
  Inv (set_closers (set_ch s (updo (ch s) o {| q := q (ch s o); qclosed := true |})) (setnth k (o, e, 2) (closers s))).
Proof.
  intros s k o e I Hk. pose proof (nth_lt _ _ _ _ Hk) as Hlt. inv_split I.
  assert (NDc : NoDup (cowners (closers s))) by (unfold ALL in jB; eapply nodup_app_l; eauto).
  assert (Hold : forall x, In x (setnth k (o, e, 2) (closers s)) -> x = (o, e, 2) \/ (In x (closers s) /\ fst (fst x) <> o)).
  { intros x Hx. apply in_setnth in Hx. destruct Hx as [->|(j & Hj & Hn)]; auto. right. split; [eapply nth_error_In; eauto|].
    destruct x as [[x1 x2] x3]. simpl. intros ->. apply Hj. eapply nodup_cowners_pos; eauto. }
  assert (Hkeep : forall x, In x (closers s) -> fst (fst x) <> o -> In x (setnth k (o, e, 2) (closers s))).
  { intros x Hx Hne. apply In_nth_error in Hx. destruct Hx as [j Hj]. apply (setnth_in_old _ k _ x _ j); [|exact Hj].
    intros ->. rewrite Hk in Hj. inversion Hj; subst. simpl in Hne. congruence. }
  assert (Hnew : In (o, e, 2) (setnth k (o, e, 2) (closers s))) by (apply setnth_in_new; auto).
  assert (Hoc : In o (cowners (closers s))) by (apply in_cowners; exists e, 1; eapply nth_error_In; eauto).
  assert (Hnt : ~ In o (owners (table s))).
  { intro Hin. unfold ALL in jB. apply in_split in Hoc. destruct Hoc as (a & b & Ea). rewrite Ea in jB.
    rewrite <- app_assoc in jB. simpl in jB. apply NoDup_remove_2 in jB. apply jB. rewrite !in_app_iff. auto. }
  constructor; unfold ALL, intab, pend in *; simpl; rewrite ?(cowners_setnth _ _ _ _ _ _ _ Hk); auto.
  - intro x. destruct (owner_dec x o) as [->|Hne]; [left; apply jC; apply in_app_iff; auto|].
    rewrite updo_other by assumption. destruct (jH x); auto.
  - intros x Hx. rewrite updo_other; auto. intros ->. contradiction.
  - intros x e0 ph Hx. destruct (Hold _ Hx) as [E|[Hin Hne]].
    + inversion E; subst. split; [lia|]. intro; lia.
    + simpl in Hne. rewrite updo_other by assumption. eauto.
  - intros c Hc. destruct (jF c Hc) as (ph & Hin & Hle). destruct (owner_dec (OCall c) o) as [<-|Hne].
    + exists 2. split; auto. apply In_nth_error in Hin. destruct Hin as [j Hj].
      assert (j = k) by (eapply nodup_cowners_pos; eauto). subst j. rewrite Hk in Hj. inversion Hj; subst. auto.
    + exists ph. split; auto.
  - intros x Hx. assert (Hx' : act s x) by (destruct x; simpl in *; auto).
    destruct (owner_dec x o) as [->|Hne]; [left; rewrite updo_same; reflexivity|]. rewrite updo_other by assumption.
    destruct (jK x Hx') as [H|[(e0 & ph & Hin & Hle)|H]]; auto. right; left. exists e0, ph. split; auto.
  - intros c Hc. apply jN. destruct (owner_dec (OCall c) o) as [<-|Hne].
    + rewrite updo_same in Hc. exact Hc.
    + rewrite updo_other in Hc by assumption. exact Hc.
  - intro j. destruct (jM j) as [Hle Hiff]. split; auto. destruct (owner_dec (OCb j) o) as [<-|Hne].
    + rewrite updo_same. simpl. split; auto. intros _. apply Hiff. right. exists e, 1. split; auto. eapply nth_error_In; eauto.
    + rewrite updo_other by assumption. rewrite Hiff. split.
      * intros [H|(e0 & ph & Hin & Hp)]; auto. right. exists e0, ph. split; auto.
      * intros [H|(e0 & ph & Hin & Hp)]; auto. destruct (Hold _ Hin) as [E|[Hin' _]]; [inversion E; congruence|eauto].
Qed.

Lemma enqueue_fields : forall s o t, qclosed (ch s o) = false ->
  let s1 := enqueue s o t in
  table s1 = table s /\ closers s1 = closers s /\ errs s1 = errs s /\ cp s1 = cp s /\ sp s1 = sp s /\
  cbreg s1 = cbreg s /\ proc s1 = proc s /\ usr s1 = usr s /\ closed s1 = closed s /\ evclosed s1 = evclosed s /\
  panicked s1 = panicked s /\ cbcount s1 = cbcount s /\ dead s1 = dead s /\ cancelled s1 = cancelled s /\
  delivered s1 = delivered s /\ nn s1 = nn s /\ mm s1 = mm s /\ dd s1 = dd s /\
  (forall x, x <> o -> ch s1 x = ch s x) /\ qclosed (ch s1 o) = false /\
  (q (ch s1 o) = q (ch s o) \/ q (ch s1 o) = q (ch s o) ++ [t]).
Proof.
  intros s o t H. unfold enqueue. rewrite H. destruct (length (q (ch s o)) <? capacity o); simpl.
  - repeat split; auto. + intros; apply updo_other; auto. + rewrite updo_same; reflexivity. + rewrite updo_same; auto.
  - repeat split; auto.
Qed.

Lemma inv_dispatch : forall s m tb s', Inv s -> proc s = PHave m -> disp m (table s) s = (tb, s') ->
  Inv (set_proc (set_table s' tb) PRead).
Proof.
  intros s m tb s' I Hp Hd.
  assert (NDt : NoDup (owners (table s))).
  { pose proof (iB s I) as B. unfold ALL in B. clear - B. induction (cowners (closers s)); simpl in *; auto. inversion B; auto. }
  assert (Base : Inv (set_proc (set_table s (table s)) PRead)).
  { eapply inv_ext; [apply (inv_proc s PRead I); discriminate|..]; reflexivity. }
  assert (NoM : (forall o1, In o1 (owners (table s)) -> matches o1 m = false) -> Inv (set_proc (set_table s' tb) PRead)).
  { intro H. rewrite disp_nomatch in Hd by assumption. inversion Hd; subst. exact Base. }
  destruct m as [o t|].
  2:{ apply NoM. intros o1 _. destruct o1; reflexivity. }
  destruct (in_dec owner_dec o (owners (table s))) as [Hin|Hnin].
  2:{ apply NoM. intros o1 H1. destruct (matches o1 (MFor o t)) eqn:E; auto.
      destruct (matches_target _ _ E) as [t' Et]. inversion Et; subst. contradiction. }
  destruct (matches o (MFor o t)) eqn:HM.
  2:{ apply NoM. intros o1 H1. destruct (matches o1 (MFor o t)) eqn:E; auto.
      destruct (matches_target _ _ E) as [t' Et]. inversion Et; subst. congruence. }
  rewrite (disp_match o t (table s) s NDt Hin HM) in Hd.
  assert (Hop : qclosed (ch s o) = false) by (apply (iD s I); exact Hin).
  destruct (enqueue_fields s o t Hop) as (Ft & Fc & Fe & Fcp & Fsp & Fcb & Fpr & Fu & Fcl & Fev & Fpa & Fcn & _ & _ & _ & _ & _ & _ & Fch & Fop & Fq).
  assert (Hreg : reg s o) by (apply (iC s I); unfold ALL; apply in_app_iff; auto).
  destruct (keeps o (MFor o t)) eqn:HK; inversion Hd; subst; clear Hd.
  - (* the handler stays: a subscription receiving a non-error message *)
    assert (Hsub : forall c, o <> OCall c).
    { intros c ->. unfold keeps in HK. rewrite HM in HK. discriminate. }
    eapply (inv_ext (set_proc (set_ch s (updo (ch s) o {| q := q (ch (enqueue s o t) o); qclosed := qclosed (ch s o) |})) PRead)).
    + apply inv_proc; try discriminate. apply inv_setq; auto. intros c E. exfalso. eapply Hsub; eauto.
    + simpl; auto.
    + simpl; auto.
    + intro x; simpl. destruct (owner_dec x o) as [->|Hne].
      * rewrite updo_same. rewrite Hop, <- Fop. destruct (ch (enqueue s o t) o); reflexivity.
      * rewrite updo_other by assumption. auto.
    + simpl; congruence. + simpl; congruence. + simpl; congruence. + simpl; congruence.
    + reflexivity. + simpl; congruence. + simpl; congruence. + simpl; congruence. + simpl; congruence. + simpl; congruence.
  - (* the handler goes: closeWith(nil) and the slot cleared, under the same mutex *)
    destruct (clearo_owners o (table s) NDt Hin) as (l1 & l2 & E1 & E2).
    rewrite close_sync_eq by assumption.
    eapply (inv_ext (set_proc (set_table (set_ch (bump_cb s o) (updo (ch s) o {| q := q (ch (enqueue s o t) o); qclosed := true |})) (clearo o (table s))) PRead)).
    + apply inv_proc; try discriminate. eapply inv_sync_close_q; eauto.
    + reflexivity.
    + simpl. destruct (bump_cb_fields (enqueue s o t) o) as (_ & Bc & _). destruct (bump_cb_fields s o) as (_ & Bc' & _). congruence.
    + intro x; simpl. destruct (owner_dec x o) as [->|Hne]; [rewrite !updo_same; reflexivity|rewrite !updo_other by assumption; auto].
    + intro x; simpl. destruct (bump_cb_fields (enqueue s o t) o) as (_ & _ & _ & B & _). destruct (bump_cb_fields s o) as (_ & _ & _ & B' & _). congruence.
    + intro x; simpl. destruct (bump_cb_fields (enqueue s o t) o) as (_ & _ & _ & _ & B & _). destruct (bump_cb_fields s o) as (_ & _ & _ & _ & B' & _). congruence.
    + intro x; simpl. destruct (bump_cb_fields (enqueue s o t) o) as (_ & _ & _ & _ & _ & B & _). destruct (bump_cb_fields s o) as (_ & _ & _ & _ & _ & B' & _). congruence.
    + intro x; simpl. destruct (bump_cb_fields (enqueue s o t) o) as (_ & _ & _ & _ & _ & _ & B & _). destruct (bump_cb_fields s o) as (_ & _ & _ & _ & _ & _ & B' & _). congruence.
    + reflexivity.
    + simpl. destruct (bump_cb_fields (enqueue s o t) o) as (_ & _ & _ & _ & _ & _ & _ & _ & B & _). destruct (bump_cb_fields s o) as (_ & _ & _ & _ & _ & _ & _ & _ & B' & _). congruence.
    + simpl. destruct (bump_cb_fields (enqueue s o t) o) as (_ & _ & _ & _ & _ & _ & _ & _ & _ & B & _). destruct (bump_cb_fields s o) as (_ & _ & _ & _ & _ & _ & _ & _ & _ & B' & _). congruence.
    + intro x; simpl. destruct (bump_cb_fields (enqueue s o t) o) as (_ & _ & _ & _ & _ & _ & _ & _ & _ & _ & B & _). destruct (bump_cb_fields s o) as (_ & _ & _ & _ & _ & _ & _ & _ & _ & _ & B' & _). congruence.
    + simpl. destruct (bump_cb_fields (enqueue s o t) o) as (_ & _ & _ & _ & _ & _ & _ & _ & _ & _ & _ & B & _). destruct (bump_cb_fields s o) as (_ & _ & _ & _ & _ & _ & _ & _ & _ & _ & _ & B' & _). congruence.
    + intro x; simpl. rewrite !bump_cb_count. rewrite Fcn. reflexivity.
Qed.

Lemma inv_closed : forall s, Inv s -> Inv (set_closed s true).
Proof. intros s I. inv_split I. constructor; unf; simpl; auto. Qed.
Lemma inv_usr_mid : forall s, Inv s -> closed s = true -> Inv (set_usr s UMid).
Proof. intros s I H. inv_split I. constructor; unf; simpl; auto; try (destruct jP; split; auto). Qed.
Lemma inv_proc_closing : forall s, Inv s -> closed s = true -> Inv (set_proc s PClosing).
Proof.
  intros s I H. inv_split I. constructor; unf; simpl; auto; try (destruct jP; split; auto); try (intros; discriminate).
Qed.

Lemma inv_step_ep : forall s l s', Inv s -> step_ep s l = Some s' -> Inv s'.
Proof.
  intros s l s' I H. destruct l; simpl in H; try discriminate.
  - (* LConnDie *) destruct (dead s); inversion H; subst. apply inv_dead; auto.
  - (* LPeerMsg *) destruct (proc s); try discriminate. destruct (lost s); inversion H; subst; apply inv_proc; auto; discriminate.
  - (* LReadFail *) destruct (proc s); try discriminate. destruct (lost s); inversion H; subst; apply inv_proc; auto; discriminate.
  - (* LDispatch *) destruct (proc s) eqn:Ep; try discriminate. destruct (disp m (table s) s) as [tb s1] eqn:Ed.
    inversion H; subst. eapply inv_dispatch; eauto.
  - (* LProcClose1 *) destruct (proc s); try discriminate. inversion H; subst.
    apply inv_proc_closing; [apply inv_closed; auto|reflexivity].
  - (* LProcClose2 *) destruct (proc s) eqn:Ep; try discriminate. inversion H; subst.
    assert (Hc : closed s = true) by (apply (proj1 (iP s I)); auto).
    eapply inv_ext; [apply (proj2 (inv_spawn s true I Hc) PDone (usr s)); auto|..]; reflexivity.
  - (* LUserClose1 *) destruct (usr s); try discriminate. inversion H; subst.
    apply inv_usr_mid; [apply inv_closed; auto|reflexivity].
  - (* LUserClose2 *) destruct (usr s) eqn:Eu; try discriminate. inversion H; subst.
    assert (Hc : closed s = true) by (apply (proj2 (iP s I)); congruence).
    eapply inv_ext; [apply (proj2 (inv_spawn s false I Hc) (proc s) UFin); auto|..]; reflexivity.
  - (* LCloserStep *)
    destruct (nth_error (closers s) k) as [[[o e] ph]|] eqn:Ek; try discriminate.
    destruct ph as [|[|ph]]; try discriminate.
    + destruct (run_closer s o e) as [s1|] eqn:Er; try discriminate. inversion H; subst; clear H.
      eapply inv_ext; [apply (inv_phase0 s k o e I Ek)|..]; destruct o as [c|i|j]; simpl in Er.
      all: try (destruct e; [destruct (errs s c); try discriminate|]); inversion Er; subst; simpl; auto.
    + inversion H; subst; clear H.
      assert (Hop : qclosed (ch s o) = false).
      { apply (proj2 (iE s I o e 1 (nth_error_In _ _ Ek))). lia. }
      unfold close_chan. rewrite Hop. simpl. apply inv_phase1; auto.
Qed.

Lemma inv_step : forall s l s', Inv s -> step s l = Some s' -> Inv s'.
Proof.
  intros s l s' I H. unfold step in H. destruct (panicked s); try discriminate.
  destruct l; eauto using inv_step_call, inv_step_sub, inv_step_ep.
Qed.

Lemma inv_run : forall tr s s', Inv s -> run tr s = Some s' -> Inv s'.
Proof.
  induction tr as [|l r IH]; intros s s' I H; simpl in H.
  - inversion H; subst; auto.
  - destruct (step s l) eqn:E; try discriminate. eauto using inv_step.
Qed.

Definition reachable (s : state) : Prop := exists n m d tr, run tr (init n m d) = Some s.
Lemma inv_reachable : forall s, reachable s -> Inv s.
Proof. intros s (n & m & d & tr & H). eapply inv_run; eauto using inv_init. Qed.
