(* ConnLossProofs.v — invariants and theorems about the LTS of ConnLoss.v (property C11). *)
From QV Require Import ConnLoss.
From Coq Require Import List Arith Bool Lia.
Import ListNotations.

(* ---------- small facts ---------- *)
Lemma owner_eqb_eq : forall a b, owner_eqb a b = true <-> a = b.
Proof.
  destruct a, b; simpl; split; intro H; try discriminate; try (apply Nat.eqb_eq in H; subst; reflexivity);
    inversion H; subst; apply Nat.eqb_refl.
Qed.
Lemma owner_eqb_refl : forall a, owner_eqb a a = true.
Proof. intro; apply owner_eqb_eq; reflexivity. Qed.
Lemma owner_eqb_neq : forall a b, owner_eqb a b = false <-> a <> b.
Proof.
  intros; split; intro H.
  - intro E; apply owner_eqb_eq in E; congruence.
  - destruct (owner_eqb a b) eqn:E; auto. apply owner_eqb_eq in E; contradiction.
Qed.
Lemma owner_dec : forall a b : owner, {a = b} + {a <> b}.
Proof. decide equality; apply Nat.eq_dec. Qed.

Lemma upd_same : forall A (f : nat -> A) k v, upd f k v k = v.
Proof. intros; unfold upd; rewrite Nat.eqb_refl; reflexivity. Qed.
Lemma upd_other : forall A (f : nat -> A) k v x, x <> k -> upd f k v x = f x.
Proof. intros; unfold upd; destruct (Nat.eqb x k) eqn:E; auto. apply Nat.eqb_eq in E; contradiction. Qed.
Lemma updo_same : forall A (f : owner -> A) k v, updo f k v k = v.
Proof. intros; unfold updo; rewrite owner_eqb_refl; reflexivity. Qed.
Lemma updo_other : forall A (f : owner -> A) k v x, x <> k -> updo f k v x = f x.
Proof. intros; unfold updo; destruct (owner_eqb x k) eqn:E; auto. apply owner_eqb_eq in E; contradiction. Qed.

(* ---------- the handler table as a list of owners ---------- *)
Definition owners (tb : list (option owner)) : list owner :=
  flat_map (fun x => match x with Some o => [o] | None => [] end) tb.
Definition cowners (cl : list (owner * bool * nat)) : list owner := map (fun x => fst (fst x)) cl.
Definition ALL (s : state) : list owner := cowners (closers s) ++ owners (table s).

Lemma owners_cons_none : forall r, owners (None :: r) = owners r.
Proof. reflexivity. Qed.
Lemma owners_cons_some : forall o r, owners (Some o :: r) = o :: owners r.
Proof. reflexivity. Qed.

Lemma alloc_owners : forall tb o, exists l1 l2,
  owners tb = l1 ++ l2 /\ owners (fst (alloc tb o)) = l1 ++ o :: l2.
Proof.
  induction tb as [|x r IH]; intro o; simpl.
  - exists [], []; auto.
  - destruct x as [x|].
    + specialize (IH o). destruct (alloc r o) as [r' k] eqn:A. simpl in *.
      destruct IH as (l1 & l2 & E1 & E2).
      exists (x :: l1), l2; rewrite E1, E2; auto.
    + exists [], (owners r); auto.
Qed.

Lemma alloc_slot : forall tb o, nth_error (fst (alloc tb o)) (snd (alloc tb o)) = Some (Some o).
Proof.
  induction tb as [|x r IH]; intro o; simpl; auto.
  destruct x as [x|]; simpl; auto.
  specialize (IH o). destruct (alloc r o) as [r' k]; simpl in *; auto.
Qed.

Lemma in_owners : forall tb o, In o (owners tb) <-> In (Some o) tb.
Proof.
  induction tb as [|x r IH]; intro o; simpl; [tauto|].
  destruct x as [x|]; simpl; rewrite IH; split; intro H.
  - destruct H as [H|H]; [subst|]; auto.
  - destruct H as [H|H]; [inversion H|]; auto.
  - auto.
  - destruct H as [H|H]; [discriminate|auto].
Qed.

Lemma owners_map_none : forall tb : list (option owner), owners (map (fun _ => None) tb) = [].
Proof. induction tb; simpl; auto. Qed.

Lemma spawned_owners : forall tb e, cowners (spawned tb e) = owners tb.
Proof.
  induction tb as [|x r IH]; intro e; simpl; auto.
  destruct x; simpl; [|apply IH]. unfold cowners in *. simpl. f_equal. apply IH.
Qed.

(* clearing a slot removes exactly that occurrence *)
Lemma setnth_none_owners : forall tb k o, nth_error tb k = Some (Some o) ->
  exists l1 l2, owners tb = l1 ++ o :: l2 /\ owners (setnth k None tb) = l1 ++ l2.
Proof.
  induction tb as [|x r IH]; intros k o H; destruct k; simpl in *; try discriminate.
  - inversion H; subst. exists [], (owners r); auto.
  - destruct (IH _ _ H) as (l1 & l2 & E1 & E2). destruct x as [x|]; simpl.
    + exists (x :: l1), l2; rewrite E1, E2; auto.
    + exists l1, l2; auto.
Qed.

(* ---------- dispatch: at most one handler matches ---------- *)
Definition clearo (o : owner) (tb : list (option owner)) : list (option owner) :=
  map (fun x => match x with Some o' => if owner_eqb o' o then None else Some o' | None => None end) tb.

Lemma matches_target0 : forall o' m, matches o' m = true -> exists t, m = MFor o' t.
Proof.
  intros o' m H. destruct m as [o t|]; simpl in H; [|destruct o'; discriminate].
  destruct o'; try discriminate; apply owner_eqb_eq in H; subst; eauto.
Qed.
Arguments matches : simpl never.
Arguments keeps : simpl never.
Arguments enqueue : simpl never.
Arguments close_sync : simpl never.

Lemma matches_target : forall o' m, matches o' m = true -> exists t, m = MFor o' t.
Proof.
  exact matches_target0.
Qed.

Lemma keeps_nomatch : forall o m, matches o m = false -> keeps o m = true.
Proof. intros o m H; unfold keeps; rewrite H; reflexivity. Qed.

Lemma disp_nomatch : forall m tb s, (forall o, In o (owners tb) -> matches o m = false) -> disp m tb s = (tb, s).
Proof.
  induction tb as [|x r IH]; intros s H; simpl; auto.
  destruct x as [o|].
  - assert (M : matches o m = false) by (apply H; simpl; auto).
    rewrite M, (keeps_nomatch _ _ M), IH; auto. intros; apply H; simpl; auto.
  - rewrite IH; auto.
Qed.

Lemma clearo_notin : forall o tb, ~ In o (owners tb) -> clearo o tb = tb.
Proof.
  induction tb as [|x r IH]; intro H; simpl; auto.
  destruct x as [o'|]; simpl in *.
  - destruct (owner_eqb o' o) eqn:E.
    + apply owner_eqb_eq in E; subst; tauto.
    + rewrite IH; auto.
  - rewrite IH; auto.
Qed.

Lemma disp_match : forall o t tb s, NoDup (owners tb) -> In o (owners tb) -> matches o (MFor o t) = true ->
  disp (MFor o t) tb s =
    if keeps o (MFor o t) then (tb, enqueue s o t) else (clearo o tb, close_sync (enqueue s o t) o).
Proof.
  induction tb as [|x r IH]; intros s ND HIn HM; simpl in HIn; [contradiction|].
  destruct x as [o'|]; simpl in *.
  - inversion ND as [|? ? Hni ND']; subst.
    destruct (owner_dec o' o) as [->|Hne].
    + rewrite HM, owner_eqb_refl.
      assert (NM : forall o1, In o1 (owners r) -> matches o1 (MFor o t) = false).
      { intros o1 H1. destruct (matches o1 (MFor o t)) eqn:E; auto.
        destruct (matches_target _ _ E) as [t' Et]. inversion Et; subst. contradiction. }
      destruct (keeps o (MFor o t)); rewrite disp_nomatch; auto.
      rewrite clearo_notin; auto.
    + destruct HIn as [->|HIn]; [contradiction|].
      assert (M : matches o' (MFor o t) = false).
      { destruct (matches o' (MFor o t)) eqn:E; auto. destruct (matches_target _ _ E) as [t' Et]. inversion Et; subst; contradiction. }
      rewrite M, (keeps_nomatch _ _ M), IH; auto.
      apply owner_eqb_neq in Hne; rewrite Hne.
      destruct (keeps o (MFor o t)); reflexivity.
  - rewrite IH; auto. destruct (keeps o (MFor o t)); reflexivity.
Qed.

Lemma clearo_owners : forall o tb, NoDup (owners tb) -> In o (owners tb) ->
  exists l1 l2, owners tb = l1 ++ o :: l2 /\ owners (clearo o tb) = l1 ++ l2.
Proof.
  induction tb as [|x r IH]; intros ND HIn; simpl in *; [contradiction|].
  destruct x as [o'|]; simpl in *.
  - inversion ND as [|? ? Hni ND']; subst. destruct (owner_dec o' o) as [->|Hne].
    + rewrite owner_eqb_refl. exists [], (owners r). fold (clearo o r). rewrite clearo_notin; auto.
    + destruct HIn as [->|HIn]; [contradiction|]. apply owner_eqb_neq in Hne; rewrite Hne.
      destruct (IH ND' HIn) as (l1 & l2 & E1 & E2). exists (o' :: l1), l2. simpl. fold (clearo o r). rewrite E1, E2; auto.
  - apply IH; auto.
Qed.

(* ---------- list facts ---------- *)
Lemma in_mid : forall A (x o : A) l1 l2, In x (l1 ++ o :: l2) <-> x = o \/ In x (l1 ++ l2).
Proof.
  intros; rewrite !in_app_iff; simpl; split; intros H; repeat destruct H as [H|H]; subst; auto.
Qed.
Lemma nodup_mid_remove : forall A (a l1 l2 : list A) o, NoDup (a ++ l1 ++ o :: l2) -> NoDup (a ++ l1 ++ l2) /\ ~ In o (a ++ l1 ++ l2).
Proof.
  intros A a l1 l2 o H. rewrite app_assoc in H. split.
  - rewrite app_assoc. eapply NoDup_remove_1; eauto.
  - rewrite app_assoc. eapply NoDup_remove_2; eauto.
Qed.
Lemma nodup_mid_insert : forall A (a l1 l2 : list A) o, NoDup (a ++ l1 ++ l2) -> ~ In o (a ++ l1 ++ l2) -> NoDup (a ++ l1 ++ o :: l2).
Proof.
  intros A a l1 l2 o H Hn. rewrite app_assoc in *.
  apply (proj2 (NoDup_Add (Add_app o (a ++ l1) l2))). auto.
Qed.

Lemma setnth_length : forall A k (v : A) l, length (setnth k v l) = length l.
Proof. induction k; destruct l; simpl; auto. Qed.
Lemma setnth_same : forall A k (v : A) l, k < length l -> nth_error (setnth k v l) k = Some v.
Proof. induction k; destruct l; simpl; intros; try lia; auto. apply IHk; lia. Qed.
Lemma setnth_other : forall A k j (v : A) l, j <> k -> nth_error (setnth k v l) j = nth_error l j.
Proof. induction k; destruct l, j; simpl; intros; try congruence; auto. Qed.
Lemma in_setnth : forall A k (v x : A) l, In x (setnth k v l) -> x = v \/ exists j, j <> k /\ nth_error l j = Some x.
Proof.
  intros A k v x l H. apply In_nth_error in H. destruct H as [j Hj].
  destruct (Nat.eq_dec j k) as [->|Hne].
  - left. assert (k < length l). { rewrite <- (setnth_length _ k v l). apply nth_error_Some. congruence. }
    rewrite setnth_same in Hj; auto. congruence.
  - right. exists j. rewrite setnth_other in Hj; auto.
Qed.
Lemma setnth_in_old : forall A k (v x : A) l j, j <> k -> nth_error l j = Some x -> In x (setnth k v l).
Proof. intros. apply nth_error_In with j. rewrite setnth_other; auto. Qed.
Lemma setnth_in_new : forall A k (v : A) l, k < length l -> In v (setnth k v l).
Proof. intros. apply nth_error_In with k. apply setnth_same; auto. Qed.
Lemma cowners_setnth : forall cl k o e ph e' ph', nth_error cl k = Some (o, e, ph) ->
  cowners (setnth k (o, e', ph') cl) = cowners cl.
Proof.
  induction cl as [|x r IH]; intros k o e ph e' ph' H; destruct k; simpl in *; try discriminate; auto.
  - inversion H; subst; reflexivity.
  - unfold cowners in *. simpl. f_equal. eapply IH; eauto.
Qed.
Lemma nodup_cowners_pos : forall cl i j o e1 p1 e2 p2, NoDup (cowners cl) ->
  nth_error cl i = Some (o, e1, p1) -> nth_error cl j = Some (o, e2, p2) -> i = j.
Proof.
  intros cl i j o e1 p1 e2 p2 ND H1 H2.
  assert (Hi : nth_error (cowners cl) i = Some o) by (unfold cowners; rewrite nth_error_map, H1; reflexivity).
  assert (Hj : nth_error (cowners cl) j = Some o) by (unfold cowners; rewrite nth_error_map, H2; reflexivity).
  eapply (proj1 (NoDup_nth_error (cowners cl))); eauto.
  - apply nth_error_Some; congruence.
  - congruence.
Qed.
Lemma in_cowners : forall cl o, In o (cowners cl) <-> exists e ph, In (o, e, ph) cl.
Proof.
  intros; unfold cowners; rewrite in_map_iff; split.
  - intros ([[o' e] ph] & E & H); simpl in E; subst; eauto.
  - intros (e & ph & H); exists (o, e, ph); auto.
Qed.

(* ---------- the invariant ---------- *)
Definition reg (s : state) (o : owner) : Prop :=
  match o with
  | OCall c => cp s c <> CIdle
  | OSub i => sp s i <> SNone
  | OCb j => cbreg s j = true
  end.
(* a handler of o has been made and o has not yet returned *)
Definition act (s : state) (o : owner) : Prop :=
  match o with
  | OCall c => match cp s c with CMade _ | CWait | CFailed _ | CCancel => True | _ => False end
  | _ => reg s o
  end.
Definition pend (s : state) (o : owner) : Prop := exists e ph, In (o, e, ph) (closers s) /\ ph <= 1.
Definition intab (s : state) (o : owner) : Prop := In o (owners (table s)).

Record Inv (s : state) : Prop := {
  iA : panicked s = false;
  iB : NoDup (ALL s);
  iC : forall o, In o (ALL s) -> reg s o;
  iH : forall o, reg s o \/ ch s o = chan0;
  iD : forall o, intab s o -> qclosed (ch s o) = false;
  iE : forall o e ph, In (o, e, ph) (closers s) -> ph <= 2 /\ (ph <= 1 -> qclosed (ch s o) = false);
  iF : forall c, errs s c = true -> exists ph, In (OCall c, true, ph) (closers s) /\ 1 <= ph;
  iG : forall i, evclosed s i = true <-> sp s i = SDone;
  iK : forall o, act s o -> qclosed (ch s o) = true \/ pend s o \/ intab s o;
  iN : forall c, q (ch s (OCall c)) <> [] -> ~ In (OCall c) (ALL s);
  iP : (proc s = PClosing \/ proc s = PDone -> closed s = true) /\ (usr s <> UIdle -> closed s = true);
  iK2 : forall c, cp s c = CWait -> intab s (OCall c) -> proc s <> PDone;
  iM : forall j, cbcount s j <= 1 /\
         (cbcount s j = 1 <-> (qclosed (ch s (OCb j)) = true \/ exists e ph, In (OCb j, e, ph) (closers s) /\ 1 <= ph))
}.

Lemma inv_init : forall n m d, Inv (init n m d).
Proof.
  intros; constructor; unfold ALL, intab, pend, reg, act; simpl; auto.
  - constructor.
  - tauto.
  - tauto.
  - intros; discriminate.
  - intros; split; discriminate.
  - intros o H; destruct o; simpl in H; try congruence; contradiction.
  - split; intros H; [destruct H; discriminate|congruence].
  - intros; split; [lia|]. split; [discriminate|]. intros [H|(e & ph & [] & _)]; discriminate.
Qed.

Ltac inv_split I := destruct I as [jA jB jC jH jD jE jF jG jK jN jP jK2 jM].
Ltac unf := unfold ALL, intab, pend, reg, act in *.
Ltac updc := repeat (match goal with
  | H : context[upd _ ?k _ ?x] |- _ =>
      destruct (Nat.eq_dec x k) as [?|?]; [subst; rewrite upd_same in H | rewrite upd_other in H by assumption]
  | |- context[upd _ ?k _ ?x] =>
      destruct (Nat.eq_dec x k) as [?|?]; [subst; rewrite upd_same | rewrite upd_other by assumption]
  end; try (exfalso; congruence)).

Definition act_pc (v : cpc) : Prop := match v with CMade _ | CWait | CFailed _ | CCancel => True | _ => False end.

(* a step that only moves the program counter of call c *)
Lemma inv_cp : forall s c v, Inv s -> v <> CIdle -> (act_pc v -> act_pc (cp s c)) ->
  (v = CWait -> proc s <> PDone) -> Inv (set_cp s (upd (cp s) c v)).
Proof.
  intros s c v I Hv Hact Hw. inv_split I. constructor; unf; simpl; auto.
  - intros o Ho. specialize (jC o Ho). destruct o; auto. updc; auto.
  - intros o. destruct (jH o) as [Hr|Hc]; auto. left. destruct o; auto. updc; auto.
  - intros o Ho. apply jK. destruct o; simpl in *; auto. updc; auto. unfold act_pc in Hact.
    destruct v; try contradiction; apply Hact; simpl; trivial.
  - intros c0 H0 Hin. updc; [apply Hw; assumption | eapply jK2; eauto].
Qed.

(* MakeHandler for an owner that has no handler yet *)
Lemma inv_register : forall s s' o, Inv s -> ~ reg s o ->
  table s' = fst (alloc (table s) o) -> closers s' = closers s -> ch s' = ch s -> errs s' = errs s ->
  panicked s' = panicked s -> proc s' = proc s -> usr s' = usr s -> closed s' = closed s -> cbcount s' = cbcount s ->
  (forall o', reg s' o' <-> reg s o' \/ o' = o) ->
  (forall o', act s' o' -> act s o' \/ o' = o) ->
  (forall i, evclosed s' i = true <-> sp s' i = SDone) ->
  (forall c, cp s' c = CWait -> cp s c = CWait) ->
  Inv s'.
Proof.
  intros s s' o I Hnr Et Ec Eh Ee Ep Epr Eu Ecl Ecb Hreg Hact HG HW. inv_split I.
  destruct (alloc_owners (table s) o) as (l1 & l2 & E1 & E2).
  assert (Hnew : ~ In o (ALL s)) by (intro Hin; apply Hnr; auto).
  assert (Hall : forall x, In x (ALL s') <-> x = o \/ In x (ALL s)).
  { intro x. unfold ALL. rewrite Ec, Et, E2, E1. rewrite !in_app_iff. simpl. intuition (subst; auto). }
  constructor.
  - congruence.
  - unfold ALL in *. rewrite Ec, Et, E2. apply nodup_mid_insert; rewrite <- E1; auto.
  - intros x Hx. apply Hreg. apply Hall in Hx. destruct Hx; auto.
  - intro x. rewrite Eh. destruct (jH x); auto. left; apply Hreg; auto.
  - intros x Hx. rewrite Eh. unfold intab in Hx. rewrite Et, E2 in Hx. apply in_mid in Hx. rewrite <- E1 in Hx.
    destruct Hx as [->|Hx]; [|apply jD; auto].
    destruct (jH o) as [Hr|Hc]; [contradiction|rewrite Hc; reflexivity].
  - intros x e ph Hx. rewrite Ec in Hx. rewrite Eh. eauto.
  - intros c Hc. rewrite Ee in Hc. rewrite Ec. auto.
  - exact HG.
  - intros x Hx. rewrite Eh. unfold pend, intab. rewrite Ec, Et, E2.
    destruct (Hact x Hx) as [Ha| ->].
    + destruct (jK x Ha) as [H|[H|H]]; auto. right; right. apply in_mid. right. rewrite <- E1; auto.
    + right; right. apply in_mid; auto.
  - intros c Hq Hin. rewrite Eh in Hq. apply Hall in Hin. destruct Hin as [E|Hin]; [|eapply jN; eauto].
    subst o. destruct (jH (OCall c)) as [Hr|Hc]; [contradiction|]. rewrite Hc in Hq. simpl in Hq. congruence.
  - rewrite Epr, Eu, Ecl. exact jP.
  - intros c Hc Hin. rewrite Epr. apply HW in Hc. unfold intab in Hin. rewrite Et, E2 in Hin. apply in_mid in Hin. rewrite <- E1 in Hin.
    destruct Hin as [E|Hin]; [|eapply jK2; eauto].
    subst o. exfalso. apply Hnr. simpl. congruence.
  - intro j. rewrite Ecb, Eh, Ec. apply jM.
Qed.

Definition bump_cb (s : state) (o : owner) : state :=
  match o with OCb j => set_cbcount s (upd (cbcount s) j (S (cbcount s j))) | _ => s end.

Lemma close_sync_eq : forall s o, qclosed (ch s o) = false ->
  close_sync s o = set_ch (bump_cb s o) (updo (ch s) o {| q := q (ch s o); qclosed := true |}).
Proof.
  intros s o H. unfold close_sync, run_closer, close_chan, bump_cb. destruct o; simpl; rewrite H; reflexivity.
Qed.

Lemma bump_cb_fields : forall s o,
  table (bump_cb s o) = table s /\ closers (bump_cb s o) = closers s /\ ch (bump_cb s o) = ch s /\
  errs (bump_cb s o) = errs s /\ cp (bump_cb s o) = cp s /\ sp (bump_cb s o) = sp s /\
  cbreg (bump_cb s o) = cbreg s /\ proc (bump_cb s o) = proc s /\ usr (bump_cb s o) = usr s /\
  closed (bump_cb s o) = closed s /\ evclosed (bump_cb s o) = evclosed s /\ panicked (bump_cb s o) = panicked s /\
  dead (bump_cb s o) = dead s /\ cancelled (bump_cb s o) = cancelled s /\ delivered (bump_cb s o) = delivered s.
Proof. intros s o; destruct o; simpl; repeat split; reflexivity. Qed.
Lemma bump_cb_count : forall s o j,
  cbcount (bump_cb s o) j = if owner_eqb (OCb j) o then S (cbcount s j) else cbcount s j.
Proof.
  intros s o j; destruct o as [c|i|k]; simpl; auto. unfold upd. destruct (Nat.eqb j k) eqn:E; [apply Nat.eqb_eq in E; subst|]; reflexivity.
Qed.

(* Handler.closeWith(nil) on a handler that sits in the table, and its slot cleared *)
Lemma inv_sync_close_q : forall s o l1 l2 tb' q', Inv s ->
  owners (table s) = l1 ++ o :: l2 -> owners tb' = l1 ++ l2 ->
  Inv (set_table (set_ch (bump_cb s o) (updo (ch s) o {| q := q'; qclosed := true |})) tb').
Proof.
  intros s o l1 l2 tb' q' I E1 E2. inv_split I.
  assert (Hin : intab s o) by (unfold intab; rewrite E1; apply in_mid; auto).
  assert (Hop : qclosed (ch s o) = false) by auto.
  unfold ALL in jB. rewrite E1 in jB. destruct (nodup_mid_remove _ _ _ _ _ jB) as [ND Hni].
  assert (Hsub : forall x, In x (cowners (closers s) ++ l1 ++ l2) -> In x (ALL s)).
  { intros x Hx. unfold ALL. rewrite E1. rewrite !in_app_iff in *. simpl. tauto. }
  assert (Hne : forall x, In x (cowners (closers s) ++ l1 ++ l2) -> x <> o) by (intros x Hx ->; contradiction).
  assert (Hcl : forall e ph, ~ In (o, e, ph) (closers s)).
  { intros e ph Hx. apply Hni. apply in_app_iff. left. apply in_cowners; eauto. }
  destruct (bump_cb_fields s o) as (Ft & Fc & Fh & Fe & Fcp & Fsp & Fcb & Fpr & Fu & Fcl & Fev & Fpa & _).
  assert (Hreg : forall x, reg (set_table (set_ch (bump_cb s o) (updo (ch s) o {| q := q'; qclosed := true |})) tb') x <-> reg s x).
  { intro x; destruct x; simpl; rewrite ?Fcp, ?Fsp, ?Fcb; tauto. }
  assert (Hact : forall x, act (set_table (set_ch (bump_cb s o) (updo (ch s) o {| q := q'; qclosed := true |})) tb') x <-> act s x).
  { intro x; destruct x; simpl; rewrite ?Fcp, ?Fsp, ?Fcb; tauto. }
  constructor; unfold ALL, intab, pend; simpl; rewrite ?Fc, ?E2, ?Fpa, ?Fe, ?Fev, ?Fsp, ?Fpr, ?Fu, ?Fcl, ?Fcp; auto.
  - intros x Hx. apply Hreg. apply jC. apply Hsub. exact Hx.
  - intro x. destruct (owner_dec x o) as [->|Hx].
    + left. apply Hreg. apply jC. unfold ALL. rewrite E1. apply in_app_iff. right. apply in_mid; auto.
    + rewrite updo_other by assumption. destruct (jH x); [left; apply Hreg|]; auto.
  - intros x Hx. rewrite updo_other; [apply jD; unfold intab; rewrite E1; apply in_mid; auto|].
    apply Hne. apply in_app_iff; auto.
  - intros x e ph Hx. destruct (jE x e ph Hx) as [Hp Hq]. split; auto. intro Hle.
    rewrite updo_other; auto. intros ->. eapply Hcl; eauto.
  - intros x Hx. apply Hact in Hx. destruct (owner_dec x o) as [->|Hxo].
    + left. rewrite updo_same. reflexivity.
    + rewrite updo_other by assumption. destruct (jK x Hx) as [H|[H|H]]; auto.
      right; right. unfold intab in H. rewrite E1 in H. apply in_mid in H. destruct H; [contradiction|auto].
  - intros c Hq Hx. apply (jN c); [|apply Hsub; exact Hx].
    destruct (owner_dec (OCall c) o) as [<-|Hxo].
    + exfalso. apply Hni. exact Hx.
    + rewrite updo_other in Hq; auto.
  - intros c Hc Hx. apply (jK2 c Hc). unfold intab. rewrite E1. apply in_mid; auto.
  - intro j. rewrite bump_cb_count. destruct (jM j) as [Hle Hiff].
    destruct (owner_eqb (OCb j) o) eqn:Eo.
    + apply owner_eqb_eq in Eo. subst o. rewrite updo_same. simpl.
      assert (cbcount s j <> 1).
      { intro H1. apply Hiff in H1. destruct H1 as [H1|(e & ph & H1 & _)]; [congruence|]. eapply Hcl; eauto. }
      split; [lia|]. split; auto. intros _. lia.
    + apply owner_eqb_neq in Eo. rewrite updo_other by assumption. split; auto.
Qed.
Lemma inv_sync_close : forall s o l1 l2 tb', Inv s ->
  owners (table s) = l1 ++ o :: l2 -> owners tb' = l1 ++ l2 ->
  Inv (set_table (close_sync s o) tb').
Proof.
  intros s o l1 l2 tb' I E1 E2.
  assert (Hop : qclosed (ch s o) = false).
  { apply (iD s I). unfold intab. rewrite E1. apply in_mid; auto. }
  rewrite close_sync_eq by assumption. eapply inv_sync_close_q; eauto.
Qed.


(* the invariant only looks at these fields, pointwise *)
Lemma inv_ext : forall s s', Inv s ->
  table s' = table s -> closers s' = closers s -> (forall x, ch s' x = ch s x) -> (forall x, errs s' x = errs s x) ->
  (forall x, cp s' x = cp s x) -> (forall x, sp s' x = sp s x) -> (forall x, cbreg s' x = cbreg s x) ->
  proc s' = proc s -> usr s' = usr s -> closed s' = closed s -> (forall x, evclosed s' x = evclosed s x) ->
  panicked s' = panicked s -> (forall x, cbcount s' x = cbcount s x) -> Inv s'.
Proof.
  intros s s' I Et Ec Eh Ee Ecp Esp Ecb Epr Eu Ecl Eev Epa Ecn. inv_split I.
  assert (Hreg : forall x, reg s' x <-> reg s x) by (intro x; destruct x; simpl; rewrite ?Ecp, ?Esp, ?Ecb; tauto).
  assert (Hact : forall x, act s' x <-> act s x) by (intro x; destruct x; simpl; rewrite ?Ecp, ?Esp, ?Ecb; tauto).
  constructor; unfold ALL, intab, pend in *; rewrite ?Et, ?Ec, ?Epr, ?Eu, ?Ecl, ?Epa; auto.
  - intros x Hx. apply Hreg. auto.
  - intro x. rewrite Eh. destruct (jH x); [left; apply Hreg|]; auto.
  - intros x Hx. rewrite Eh. auto.
  - intros x e ph Hx. rewrite Eh. eauto.
  - intros c Hc. rewrite Ee in Hc. auto.
  - intro i. rewrite Eev, Esp. auto.
  - intros x Hx. rewrite Eh. apply jK. apply Hact. auto.
  - intros c Hq. rewrite Eh in Hq. auto.
  - intros c Hc. rewrite Ecp in Hc. eauto.
  - intro j. rewrite Ecn, Eh. auto.
Qed.

(* changing the content (not the closed flag) of the channel of a registered owner *)
Lemma inv_setq : forall s o r, Inv s -> reg s o ->
  (forall c, o = OCall c -> r <> [] -> q (ch s o) <> []) ->
  Inv (set_ch s (updo (ch s) o {| q := r; qclosed := qclosed (ch s o) |})).
Proof.
  intros s o r I Hr Hq. inv_split I. constructor; unf; simpl; auto.
  - intro x. destruct (owner_dec x o) as [->|Hx]; [left; auto|]. rewrite updo_other by assumption. auto.
  - intros x Hx. destruct (owner_dec x o) as [->|Hxo]; [rewrite updo_same; simpl|rewrite updo_other by assumption]; auto.
  - intros x e ph Hx. destruct (owner_dec x o) as [->|Hxo]; [rewrite updo_same; simpl|rewrite updo_other by assumption]; eauto.
  - intros x Hx. destruct (owner_dec x o) as [->|Hxo]; [rewrite updo_same; simpl|rewrite updo_other by assumption]; auto.
  - intros c Hc. destruct (owner_dec (OCall c) o) as [<-|Hxo].
    + rewrite updo_same in Hc. simpl in Hc. apply jN. eapply Hq; eauto.
    + rewrite updo_other in Hc by assumption. auto.
  - intro j. destruct (owner_dec (OCb j) o) as [<-|Hxo]; [rewrite updo_same; simpl|rewrite updo_other by assumption]; auto.
Qed.

Lemma inv_errs_clear : forall s c, Inv s -> Inv (set_errs s (upd (errs s) c false)).
Proof.
  intros s c I. inv_split I. constructor; unf; simpl; auto.
  intros c0 H0. updc; auto.
Qed.

Lemma inv_proc : forall s p, Inv s -> p <> PClosing -> p <> PDone -> Inv (set_proc s p).
Proof.
  intros s p I H1 H2. inv_split I. constructor; unf; simpl; auto.
  destruct jP as [P1 P2]. split; auto. intros [H|H]; congruence.
Qed.

Lemma inv_dead : forall s b, Inv s -> Inv (set_dead s b).
Proof. intros s b I. inv_split I. constructor; unf; simpl; auto. Qed.
Lemma inv_cancelled : forall s f, Inv s -> Inv (set_cancelled s f).
Proof. intros s f I. inv_split I. constructor; unf; simpl; auto. Qed.
Lemma inv_delivered : forall s f, Inv s -> Inv (set_delivered s f).
Proof. intros s f I. inv_split I. constructor; unf; simpl; auto. Qed.

(* the Subscribe goroutine moves between SLoop and SSend, or ends with close(events) *)
Lemma inv_subpc : forall s i v b, Inv s -> sp s i <> SNone -> v <> SNone -> (b = true <-> v = SDone) ->
  Inv (set_sp (set_evclosed s (upd (evclosed s) i b)) (upd (sp s) i v)).
Proof.
  intros s i v b I H0 Hv Hb. inv_split I. constructor; unf; simpl; auto.
  - intros o Ho. specialize (jC o Ho). destruct o; auto. updc; auto.
  - intro o. destruct (jH o); auto. left. destruct o; auto. updc; auto.
  - intro i0. updc; auto.
  - intros o Ho. apply jK. destruct o; simpl in *; auto. updc; auto.
Qed.

Lemma inv_remove_handler : forall s k, Inv s -> Inv (remove_handler s k).
Proof.
  intros s k I. unfold remove_handler. destruct (nth_error (table s) k) as [[o|]|] eqn:E; auto.
  destruct (setnth_none_owners _ _ _ E) as (l1 & l2 & E1 & E2). eapply inv_sync_close; eauto.
Qed.

Lemma alloc_fst_snd : forall tb o, alloc tb o = (fst (alloc tb o), snd (alloc tb o)).
Proof. intros; destruct (alloc tb o); reflexivity. Qed.

Lemma inv_step_call : forall s l s', Inv s -> step_call s l = Some s' -> Inv s'.
Proof.
  intros s l s' I H. destruct l; simpl in H; try discriminate.
  - (* LCancel *) destruct (_ && _) in H; inversion H; subst. apply inv_cancelled; auto.
  - (* LCallMake *)
    destruct (c <? nn s); try discriminate. destruct (cp s c) eqn:Ec; try discriminate.
    destruct (cancelled s c).
    + inversion H; subst. apply inv_cp; auto; try discriminate. simpl; tauto.
    + rewrite (alloc_fst_snd (table s) (OCall c)) in H. inversion H; subst; clear H.
      eapply (inv_register s _ (OCall c)); eauto; simpl; auto.
      * intros o'. destruct o' as [c0|i|j]; simpl; try (split; [auto|intros [?|?]; [auto|discriminate]]).
        updc; split; intro; auto; try discriminate.
        -- destruct H as [H|H]; [auto|inversion H; contradiction].
      * intros o'. destruct o' as [c0|i|j]; simpl; auto. updc; auto.
      * apply (iG s I).
      * intros c0 H0. updc; auto.
  - (* LCallSend *)
    destruct (cp s c) eqn:Ec; try discriminate. destruct (closed s) eqn:Ecl; try discriminate.
    inversion H; subst. apply inv_cp; auto; try discriminate.
    + rewrite Ec; simpl; auto.
    + intros _ Hp. destruct (iP s I) as [P1 _]. rewrite P1 in Ecl; auto; discriminate.
  - (* LCallSendFail *)
    destruct (cp s c) eqn:Ec; try discriminate. destruct (lost s); try discriminate.
    inversion H; subst. apply inv_cp; auto; try discriminate. rewrite Ec; simpl; auto.
  - (* LCallRemove *)
    destruct (cp s c) eqn:Ec; try discriminate. inversion H; subst; clear H.
    apply inv_cp; try discriminate.
    + apply inv_remove_handler; auto.
    + simpl; tauto.
  - (* LCallSel *)
    destruct (cp s c) eqn:Ec; try discriminate. destruct b.
    + destruct (errs s c); try discriminate. inversion H; subst; clear H.
      apply (inv_cp (set_errs s (upd (errs s) c false))); try discriminate.
      * apply inv_errs_clear; auto.
      * simpl; tauto.
    + destruct (q (ch s (OCall c))) as [|t r] eqn:Eq.
      * destruct (qclosed (ch s (OCall c))); try discriminate. inversion H; subst.
        apply inv_cp; auto; try discriminate. simpl; tauto.
      * inversion H; subst; clear H.
        apply (inv_cp (set_ch s (updo (ch s) (OCall c) {| q := r; qclosed := qclosed (ch s (OCall c)) |}))); try discriminate.
        -- apply inv_setq; auto.
           ++ simpl. congruence.
           ++ intros c0 E0 _. rewrite Eq. discriminate.
        -- simpl; tauto.
    + destruct (cancelled s c); try discriminate. inversion H; subst.
      apply inv_cp; auto; try discriminate. rewrite Ec; simpl; auto.
  - (* LCallCancelSend *)
    destruct (cp s c) eqn:Ec; try discriminate. inversion H; subst.
    apply inv_cp; auto; try discriminate. simpl; tauto.
Qed.

Lemma inv_step_sub : forall s l s', Inv s -> step_sub s l = Some s' -> Inv s'.
Proof.
  intros s l s' I H. destruct l; simpl in H; try discriminate.
  - (* LSubscribe *)
    destruct (i <? mm s); try discriminate. destruct (sp s i) eqn:Es; try discriminate.
    rewrite (alloc_fst_snd (table s) (OSub i)) in H. inversion H; subst; clear H.
    eapply (inv_register s _ (OSub i)); eauto; simpl; auto.
    + intros o'. destruct o' as [c0|i0|j]; simpl; try (split; [auto|intros [?|?]; [auto|discriminate]]).
      updc; split; intro; auto; try discriminate.
      destruct H as [H|H]; [auto|inversion H; contradiction].
    + intros o'. destruct o' as [c0|i0|j]; simpl; auto. updc; auto.
    + intro i0. updc.
      * split; [|discriminate]. intro Hev. apply (iG s I) in Hev. congruence.
      * apply (iG s I).
  - (* LSubTake *)
    destruct (sp s i) eqn:Es; try discriminate. destruct (q (ch s (OSub i))) as [|t r] eqn:Eq; try discriminate.
    inversion H; subst; clear H.
    set (s1 := set_ch s (updo (ch s) (OSub i) {| q := r; qclosed := qclosed (ch s (OSub i)) |})).
    assert (I1 : Inv s1).
    { apply inv_setq; auto. simpl; congruence. intros; discriminate. }
    assert (Hev : evclosed s i = false).
    { destruct (evclosed s i) eqn:E; auto. apply (iG s I) in E. congruence. }
    eapply (inv_ext (set_sp (set_evclosed s1 (upd (evclosed s1) i false)) (upd (sp s1) i (if mtype_eqb t TEvent then SSend else SLoop)))).
    + apply inv_subpc; auto; simpl; try congruence.
      * destruct (mtype_eqb t TEvent); discriminate.
      * split; [discriminate|]. destruct (mtype_eqb t TEvent); discriminate.
    + reflexivity. + reflexivity. + reflexivity. + reflexivity. + reflexivity. + reflexivity. + reflexivity.
    + reflexivity. + reflexivity. + reflexivity.
    + intro x; simpl. unfold upd. destruct (Nat.eqb x i) eqn:E; auto. apply Nat.eqb_eq in E; subst; auto.
    + reflexivity. + reflexivity.
  - (* LSubClosed *)
    destruct (sp s i) eqn:Es; try discriminate. destruct (q (ch s (OSub i))) eqn:Eq; try discriminate.
    destruct (qclosed (ch s (OSub i))); try discriminate.
    assert (Hev : evclosed s i = false).
    { destruct (evclosed s i) eqn:E; auto. apply (iG s I) in E. congruence. }
    rewrite Hev in H. inversion H; subst; clear H.
    apply inv_subpc; auto; try congruence. tauto.
  - (* LSubRead *)
    destruct (sp s i) eqn:Es; try discriminate. inversion H; subst; clear H.
    assert (Hev : evclosed s i = false).
    { destruct (evclosed s i) eqn:E; auto. apply (iG s I) in E. congruence. }
    set (s1 := set_delivered s (upd (delivered s) i (S (delivered s i)))).
    eapply (inv_ext (set_sp (set_evclosed s1 (upd (evclosed s1) i false)) (upd (sp s1) i SLoop))).
    + apply inv_subpc; try (simpl; congruence). apply inv_delivered; auto. split; discriminate.
    + reflexivity. + reflexivity. + reflexivity. + reflexivity. + reflexivity. + reflexivity. + reflexivity.
    + reflexivity. + reflexivity. + reflexivity.
    + intro x; simpl. unfold upd. destruct (Nat.eqb x i) eqn:E; auto. apply Nat.eqb_eq in E; subst; auto.
    + reflexivity. + reflexivity.
  - (* LOnDisc *)
    destruct (j <? dd s); simpl in H; try discriminate. destruct (cbreg s j) eqn:Er; simpl in H; try discriminate.
    rewrite (alloc_fst_snd (table s) (OCb j)) in H. inversion H; subst; clear H.
    eapply (inv_register s _ (OCb j)); eauto; simpl; auto.
    + congruence.
    + intros o'. destruct o' as [c0|i0|j0]; simpl; try (split; [auto|intros [?|?]; [auto|discriminate]]).
      updc; split; intro; auto; try discriminate.
      destruct H as [H|H]; [auto|inversion H; contradiction].
    + intros o'. destruct o' as [c0|i0|j0]; simpl; auto. updc; auto.
    + apply (iG s I).
Qed.

Lemma in_spawned : forall tb e x, In x (spawned tb e) <-> exists o, x = (o, e, 0) /\ In o (owners tb).
Proof.
  induction tb as [|y r IH]; intros e x; simpl.
  - split; [tauto|intros (o & _ & [])].
  - destruct y as [o'|]; simpl; rewrite IH.
    + split.
      * intros [<-|(o & E & Hin)]; eauto.
      * intros (o & E & [->|Hin]); eauto.
    + tauto.
Qed.

(* closeWith, second half (after stream.Close()): every handler is handed to its own goroutine *)
Lemma inv_spawn : forall s e, Inv s -> closed s = true -> Inv (set_proc (spawn_all s e) (proc s)) /\
  forall p u, (p = PClosing \/ p = PDone -> closed s = true) -> Inv (set_usr (set_proc (spawn_all s e) p) u).
Proof.
  intros s e I Hcl.
  assert (G : forall p u, Inv (set_usr (set_proc (spawn_all s e) p) u)).
  { intros p u. inv_split I. unfold spawn_all.
    assert (EA : cowners (closers s ++ spawned (table s) e) ++ owners (map (fun _ => None) (table s)) = ALL s).
    { unfold ALL, cowners. rewrite map_app. fold (cowners (closers s)). fold (cowners (spawned (table s) e)).
      rewrite spawned_owners, owners_map_none, app_nil_r. reflexivity. }
    constructor; unfold ALL, intab, pend, reg, act in *; simpl; rewrite ?EA, ?owners_map_none; auto.
    - intros o [].
    - intros o e0 ph Hx. apply in_app_iff in Hx. destruct Hx as [Hx|Hx]; eauto.
      apply in_spawned in Hx. destruct Hx as (o' & E & Hin). inversion E; subst. split; [lia|]. intros _. auto.
    - intros c Hc. destruct (jF c Hc) as (ph & Hin & Hle). exists ph. split; auto. apply in_app_iff; auto.
    - intros o Ho. destruct (jK o Ho) as [H|[(e0 & ph & Hin & Hle)|H]]; auto.
      + right; left. exists e0, ph. split; auto. apply in_app_iff; auto.
      + right; left. exists e, 0. split; [|lia]. apply in_app_iff. right. apply in_spawned. eauto.
    - intro j. destruct (jM j) as [Hle Hiff]. split; auto. rewrite Hiff. split.
      + intros [H|(e0 & ph & Hin & Hp)]; auto. right. exists e0, ph. split; auto. apply in_app_iff; auto.
      + intros [H|(e0 & ph & Hin & Hp)]; auto. apply in_app_iff in Hin. destruct Hin as [Hin|Hin]; eauto.
        apply in_spawned in Hin. destruct Hin as (o' & E & _). inversion E; subst. lia. }
  split.
  - eapply inv_ext; [apply (G (proc s) (usr s))|..]; reflexivity.
  - intros; apply G.
Qed.

Lemma nodup_app_l : forall A (a b : list A), NoDup (a ++ b) -> NoDup a.
Proof.
  induction a as [|x a IH]; intros b H; [constructor|]. simpl in H. inversion H as [|? ? Hn Hd]; subst.
  constructor; [intro Hi; apply Hn; apply in_app_iff; auto|eauto].
Qed.
Lemma nth_lt : forall A (l : list A) k x, nth_error l k = Some x -> k < length l.
Proof. intros. apply nth_error_Some. congruence. Qed.

(* go handler.closeWith(err), first half: closer(err) *)
Lemma inv_phase0 : forall s k o e, Inv s -> nth_error (closers s) k = Some (o, e, 0) ->
  Inv (set_closers (set_cbcount (set_errs s (match o with OCall c => if e then upd (errs s) c true else errs s | _ => errs s end))
                                (cbcount (bump_cb s o)))
                   (setnth k (o, e, 1) (closers s))).
Proof.
  intros s k o e I Hk. pose proof (nth_lt _ _ _ _ Hk) as Hlt. inv_split I.
  assert (NDc : NoDup (cowners (closers s))) by (unfold ALL in jB; eapply nodup_app_l; eauto).
  assert (Hold : forall x, In x (setnth k (o, e, 1) (closers s)) -> x = (o, e, 1) \/ (In x (closers s) /\ fst (fst x) <> o)).
  { intros x Hx. apply in_setnth in Hx. destruct Hx as [->|(j & Hj & Hn)]; auto. right. split; [eapply nth_error_In; eauto|].
    destruct x as [[x1 x2] x3]. simpl. intros ->. apply Hj. eapply nodup_cowners_pos; eauto. }
  assert (Hkeep : forall x, In x (closers s) -> fst (fst x) <> o -> In x (setnth k (o, e, 1) (closers s))).
  { intros x Hx Hne. apply In_nth_error in Hx. destruct Hx as [j Hj]. apply (setnth_in_old _ k _ x _ j); [|exact Hj].
    intros ->. rewrite Hk in Hj. inversion Hj; subst. simpl in Hne. congruence. }
  assert (Hnew : In (o, e, 1) (setnth k (o, e, 1) (closers s))) by (apply setnth_in_new; auto).
  assert (Hopen : qclosed (ch s o) = false).
  { apply (proj2 (jE o e 0 (nth_error_In _ _ Hk))). lia. }
  constructor; unfold ALL, intab, pend in *; simpl; rewrite ?(cowners_setnth _ _ _ _ _ _ _ Hk); auto.
  - intros x e0 ph Hx. destruct (Hold _ Hx) as [E|[Hin _]]; [inversion E; subst; split; auto; lia|eauto].
  - intros c Hc.
    assert (Hcase : (o = OCall c /\ e = true) \/ errs s c = true).
    { destruct o as [c0|i|j]; auto. destruct e; auto. unfold upd in Hc. destruct (Nat.eqb c c0) eqn:E; auto.
      apply Nat.eqb_eq in E; subst; auto. }
    destruct Hcase as [[-> ->]|Hc'].
    + exists 1. auto.
    + destruct (jF c Hc') as (ph & Hin & Hle). destruct (owner_dec (OCall c) o) as [<-|Hne].
      * exists 1. split; auto. apply In_nth_error in Hin. destruct Hin as [j Hj].
        assert (j = k) by (eapply nodup_cowners_pos; eauto). subst j. rewrite Hk in Hj. inversion Hj; subst. auto.
      * exists ph. split; auto.
  - intros x Hx. assert (Hx' : act s x) by (destruct x; simpl in *; auto).
    destruct (jK x Hx') as [H|[(e0 & ph & Hin & Hle)|H]]; auto. right; left.
    destruct (owner_dec x o) as [->|Hne]; [exists e, 1; auto|]. exists e0, ph. split; auto.
  - intro j. rewrite bump_cb_count. destruct (jM j) as [Hle Hiff].
    destruct (owner_eqb (OCb j) o) eqn:Eo.
    + apply owner_eqb_eq in Eo. subst o.
      assert (cbcount s j <> 1).
      { intro H1. apply Hiff in H1. destruct H1 as [H1|(e0 & ph & H1 & Hp)]; [congruence|].
        apply In_nth_error in H1. destruct H1 as [j0 Hj0]. assert (j0 = k) by (eapply nodup_cowners_pos; eauto).
        subst j0. rewrite Hk in Hj0. inversion Hj0; subst. lia. }
      split; [lia|]. split; [|lia]. intros _. right. exists e, 1. auto.
    + apply owner_eqb_neq in Eo. split; auto. rewrite Hiff. split.
      * intros [H|(e0 & ph & Hin & Hp)]; auto. right. exists e0, ph. split; auto.
      * intros [H|(e0 & ph & Hin & Hp)]; auto. destruct (Hold _ Hin) as [E|[Hin' _]]; [inversion E; congruence|eauto].
Qed.

(* go handler.closeWith(err), second half: close(consumer) *)
Lemma inv_phase1 : forall s k o e, Inv s -> nth_error (closers s) k = Some (o, e, 1) ->
  Inv (set_closers (set_ch s (updo (ch s) o {| q := q (ch s o); qclosed := true |})) (setnth k (o, e, 2) (closers s))).
Proof.
  intros s k o e I Hk. pose proof (nth_lt _ _ _ _ Hk) as Hlt. inv_split I.
  assert (NDc : NoDup (cowners (closers s))) by (unfold ALL in jB; eapply nodup_app_l; eauto).
  assert (Hold : forall x, In x (setnth k (o, e, 2) (closers s)) -> x = (o, e, 2) \/ (In x (closers s) /\ fst (fst x) <> o)).
  { intros x Hx. apply in_setnth in Hx. destruct Hx as [->|(j & Hj & Hn)]; auto. right. split; [eapply nth_error_In; eauto|].
    destruct x as [[x1 x2] x3]. simpl. intros ->. apply Hj. eapply nodup_cowners_pos; eauto. }
  assert (Hkeep : forall x, In x (closers s) -> fst (fst x) <> o -> In x (setnth k (o, e, 2) (closers s))).
  { intros x Hx Hne. apply In_nth_error in Hx. destruct Hx as [j Hj]. apply (setnth_in_old _ k _ x _ j); [|exact Hj].
    intros ->. rewrite Hk in Hj. inversion Hj; subst. simpl in Hne. congruence. }
  assert (Hnew : In (o, e, 2) (setnth k (o, e, 2) (closers s))) by (apply setnth_in_new; auto).
  assert (Hoc : In o (cowners (closers s))) by (apply in_cowners; exists e, 1; eapply nth_error_In; eauto).
  assert (Hnt : ~ In o (owners (table s))).
  { intro Hin. unfold ALL in jB. apply in_split in Hoc. destruct Hoc as (a & b & Ea). rewrite Ea in jB.
    rewrite <- app_assoc in jB. simpl in jB. apply NoDup_remove_2 in jB. apply jB. rewrite !in_app_iff. auto. }
  constructor; unfold ALL, intab, pend in *; simpl; rewrite ?(cowners_setnth _ _ _ _ _ _ _ Hk); auto.
  - intro x. destruct (owner_dec x o) as [->|Hne]; [left; apply jC; apply in_app_iff; auto|].
    rewrite updo_other by assumption. destruct (jH x); auto.
  - intros x Hx. rewrite updo_other; auto. intros ->. contradiction.
  - intros x e0 ph Hx. destruct (Hold _ Hx) as [E|[Hin Hne]].
    + inversion E; subst. split; [lia|]. intro; lia.
    + simpl in Hne. rewrite updo_other by assumption. eauto.
  - intros c Hc. destruct (jF c Hc) as (ph & Hin & Hle). destruct (owner_dec (OCall c) o) as [<-|Hne].
    + exists 2. split; auto. apply In_nth_error in Hin. destruct Hin as [j Hj].
      assert (j = k) by (eapply nodup_cowners_pos; eauto). subst j. rewrite Hk in Hj. inversion Hj; subst. auto.
    + exists ph. split; auto.
  - intros x Hx. assert (Hx' : act s x) by (destruct x; simpl in *; auto).
    destruct (owner_dec x o) as [->|Hne]; [left; rewrite updo_same; reflexivity|]. rewrite updo_other by assumption.
    destruct (jK x Hx') as [H|[(e0 & ph & Hin & Hle)|H]]; auto. right; left. exists e0, ph. split; auto.
  - intros c Hc. apply jN. destruct (owner_dec (OCall c) o) as [<-|Hne].
    + rewrite updo_same in Hc. exact Hc.
    + rewrite updo_other in Hc by assumption. exact Hc.
  - intro j. destruct (jM j) as [Hle Hiff]. split; auto. destruct (owner_dec (OCb j) o) as [<-|Hne].
    + rewrite updo_same. simpl. split; auto. intros _. apply Hiff. right. exists e, 1. split; auto. eapply nth_error_In; eauto.
    + rewrite updo_other by assumption. rewrite Hiff. split.
      * intros [H|(e0 & ph & Hin & Hp)]; auto. right. exists e0, ph. split; auto.
      * intros [H|(e0 & ph & Hin & Hp)]; auto. destruct (Hold _ Hin) as [E|[Hin' _]]; [inversion E; congruence|eauto].
Qed.

Lemma enqueue_fields : forall s o t, qclosed (ch s o) = false ->
  let s1 := enqueue s o t in
  table s1 = table s /\ closers s1 = closers s /\ errs s1 = errs s /\ cp s1 = cp s /\ sp s1 = sp s /\
  cbreg s1 = cbreg s /\ proc s1 = proc s /\ usr s1 = usr s /\ closed s1 = closed s /\ evclosed s1 = evclosed s /\
  panicked s1 = panicked s /\ cbcount s1 = cbcount s /\ dead s1 = dead s /\ cancelled s1 = cancelled s /\
  delivered s1 = delivered s /\ nn s1 = nn s /\ mm s1 = mm s /\ dd s1 = dd s /\
  (forall x, x <> o -> ch s1 x = ch s x) /\ qclosed (ch s1 o) = false /\
  (q (ch s1 o) = q (ch s o) \/ q (ch s1 o) = q (ch s o) ++ [t]).
Proof.
  intros s o t H. unfold enqueue. rewrite H. destruct (length (q (ch s o)) <? capacity o); simpl.
  - repeat split; auto. + intros; apply updo_other; auto. + rewrite updo_same; reflexivity. + rewrite updo_same; auto.
  - repeat split; auto.
Qed.

Lemma inv_dispatch : forall s m tb s', Inv s -> proc s = PHave m -> disp m (table s) s = (tb, s') ->
  Inv (set_proc (set_table s' tb) PRead).
Proof.
  intros s m tb s' I Hp Hd.
  assert (NDt : NoDup (owners (table s))).
  { pose proof (iB s I) as B. unfold ALL in B. clear - B. induction (cowners (closers s)); simpl in *; auto. inversion B; auto. }
  assert (Base : Inv (set_proc (set_table s (table s)) PRead)).
  { eapply inv_ext; [apply (inv_proc s PRead I); discriminate|..]; reflexivity. }
  assert (NoM : (forall o1, In o1 (owners (table s)) -> matches o1 m = false) -> Inv (set_proc (set_table s' tb) PRead)).
  { intro H. rewrite disp_nomatch in Hd by assumption. inversion Hd; subst. exact Base. }
  destruct m as [o t|].
  2:{ apply NoM. intros o1 _. destruct o1; reflexivity. }
  destruct (in_dec owner_dec o (owners (table s))) as [Hin|Hnin].
  2:{ apply NoM. intros o1 H1. destruct (matches o1 (MFor o t)) eqn:E; auto.
      destruct (matches_target _ _ E) as [t' Et]. inversion Et; subst. contradiction. }
  destruct (matches o (MFor o t)) eqn:HM.
  2:{ apply NoM. intros o1 H1. destruct (matches o1 (MFor o t)) eqn:E; auto.
      destruct (matches_target _ _ E) as [t' Et]. inversion Et; subst. congruence. }
  rewrite (disp_match o t (table s) s NDt Hin HM) in Hd.
  assert (Hop : qclosed (ch s o) = false) by (apply (iD s I); exact Hin).
  destruct (enqueue_fields s o t Hop) as (Ft & Fc & Fe & Fcp & Fsp & Fcb & Fpr & Fu & Fcl & Fev & Fpa & Fcn & _ & _ & _ & _ & _ & _ & Fch & Fop & Fq).
  assert (Hreg : reg s o) by (apply (iC s I); unfold ALL; apply in_app_iff; auto).
  destruct (keeps o (MFor o t)) eqn:HK; inversion Hd; subst; clear Hd.
  - (* the handler stays: a subscription receiving a non-error message *)
    assert (Hsub : forall c, o <> OCall c).
    { intros c ->. unfold keeps in HK. rewrite HM in HK. discriminate. }
    eapply (inv_ext (set_proc (set_ch s (updo (ch s) o {| q := q (ch (enqueue s o t) o); qclosed := qclosed (ch s o) |})) PRead)).
    + apply inv_proc; try discriminate. apply inv_setq; auto. intros c E. exfalso. eapply Hsub; eauto.
    + simpl; auto.
    + simpl; auto.
    + intro x; simpl. destruct (owner_dec x o) as [->|Hne].
      * rewrite updo_same. rewrite Hop, <- Fop. destruct (ch (enqueue s o t) o); reflexivity.
      * rewrite updo_other by assumption. auto.
    + simpl; congruence. + simpl; congruence. + simpl; congruence. + simpl; congruence.
    + reflexivity. + simpl; congruence. + simpl; congruence. + simpl; congruence. + simpl; congruence. + simpl; congruence.
  - (* the handler goes: closeWith(nil) and the slot cleared, under the same mutex *)
    destruct (clearo_owners o (table s) NDt Hin) as (l1 & l2 & E1 & E2).
    rewrite close_sync_eq by assumption.
    eapply (inv_ext (set_proc (set_table (set_ch (bump_cb s o) (updo (ch s) o {| q := q (ch (enqueue s o t) o); qclosed := true |})) (clearo o (table s))) PRead)).
    + apply inv_proc; try discriminate. eapply inv_sync_close_q; eauto.
    + reflexivity.
    + simpl. destruct (bump_cb_fields (enqueue s o t) o) as (_ & Bc & _). destruct (bump_cb_fields s o) as (_ & Bc' & _). congruence.
    + intro x; simpl. destruct (owner_dec x o) as [->|Hne]; [rewrite !updo_same; reflexivity|rewrite !updo_other by assumption; auto].
    + intro x; simpl. destruct (bump_cb_fields (enqueue s o t) o) as (_ & _ & _ & B & _). destruct (bump_cb_fields s o) as (_ & _ & _ & B' & _). congruence.
    + intro x; simpl. destruct (bump_cb_fields (enqueue s o t) o) as (_ & _ & _ & _ & B & _). destruct (bump_cb_fields s o) as (_ & _ & _ & _ & B' & _). congruence.
    + intro x; simpl. destruct (bump_cb_fields (enqueue s o t) o) as (_ & _ & _ & _ & _ & B & _). destruct (bump_cb_fields s o) as (_ & _ & _ & _ & _ & B' & _). congruence.
    + intro x; simpl. destruct (bump_cb_fields (enqueue s o t) o) as (_ & _ & _ & _ & _ & _ & B & _). destruct (bump_cb_fields s o) as (_ & _ & _ & _ & _ & _ & B' & _). congruence.
    + reflexivity.
    + simpl. destruct (bump_cb_fields (enqueue s o t) o) as (_ & _ & _ & _ & _ & _ & _ & _ & B & _). destruct (bump_cb_fields s o) as (_ & _ & _ & _ & _ & _ & _ & _ & B' & _). congruence.
    + simpl. destruct (bump_cb_fields (enqueue s o t) o) as (_ & _ & _ & _ & _ & _ & _ & _ & _ & B & _). destruct (bump_cb_fields s o) as (_ & _ & _ & _ & _ & _ & _ & _ & _ & B' & _). congruence.
    + intro x; simpl. destruct (bump_cb_fields (enqueue s o t) o) as (_ & _ & _ & _ & _ & _ & _ & _ & _ & _ & B & _). destruct (bump_cb_fields s o) as (_ & _ & _ & _ & _ & _ & _ & _ & _ & _ & B' & _). congruence.
    + simpl. destruct (bump_cb_fields (enqueue s o t) o) as (_ & _ & _ & _ & _ & _ & _ & _ & _ & _ & _ & B & _). destruct (bump_cb_fields s o) as (_ & _ & _ & _ & _ & _ & _ & _ & _ & _ & _ & B' & _). congruence.
    + intro x; simpl. rewrite !bump_cb_count. rewrite Fcn. reflexivity.
Qed.

Lemma inv_closed : forall s, Inv s -> Inv (set_closed s true).
Proof. intros s I. inv_split I. constructor; unf; simpl; auto. Qed.
Lemma inv_usr_mid : forall s, Inv s -> closed s = true -> Inv (set_usr s UMid).
Proof. intros s I H. inv_split I. constructor; unf; simpl; auto; try (destruct jP; split; auto). Qed.
Lemma inv_proc_closing : forall s, Inv s -> closed s = true -> Inv (set_proc s PClosing).
Proof.
  intros s I H. inv_split I. constructor; unf; simpl; auto; try (destruct jP; split; auto); try (intros; discriminate).
Qed.

Lemma inv_step_ep : forall s l s', Inv s -> step_ep s l = Some s' -> Inv s'.
Proof.
  intros s l s' I H. destruct l; simpl in H; try discriminate.
  - (* LConnDie *) destruct (dead s); inversion H; subst. apply inv_dead; auto.
  - (* LPeerMsg *) destruct (proc s); try discriminate. destruct (lost s); inversion H; subst; apply inv_proc; auto; discriminate.
  - (* LReadFail *) destruct (proc s); try discriminate. destruct (lost s); inversion H; subst; apply inv_proc; auto; discriminate.
  - (* LDispatch *) destruct (proc s) eqn:Ep; try discriminate. destruct (disp m (table s) s) as [tb s1] eqn:Ed.
    inversion H; subst. eapply inv_dispatch; eauto.
  - (* LProcClose1 *) destruct (proc s); try discriminate. inversion H; subst.
    apply inv_proc_closing; [apply inv_closed; auto|reflexivity].
  - (* LProcClose2 *) destruct (proc s) eqn:Ep; try discriminate. inversion H; subst.
    assert (Hc : closed s = true) by (apply (proj1 (iP s I)); auto).
    eapply inv_ext; [apply (proj2 (inv_spawn s true I Hc) PDone (usr s)); auto|..]; reflexivity.
  - (* LUserClose1 *) destruct (usr s); try discriminate. inversion H; subst.
    apply inv_usr_mid; [apply inv_closed; auto|reflexivity].
  - (* LUserClose2 *) destruct (usr s) eqn:Eu; try discriminate. inversion H; subst.
    assert (Hc : closed s = true) by (apply (proj2 (iP s I)); congruence).
    eapply inv_ext; [apply (proj2 (inv_spawn s false I Hc) (proc s) UFin); auto|..]; reflexivity.
  - (* LCloserStep *)
    destruct (nth_error (closers s) k) as [[[o e] ph]|] eqn:Ek; try discriminate.
    destruct ph as [|[|ph]]; try discriminate.
    + destruct (run_closer s o e) as [s1|] eqn:Er; try discriminate. inversion H; subst; clear H.
      eapply inv_ext; [apply (inv_phase0 s k o e I Ek)|..]; destruct o as [c|i|j]; simpl in Er.
      all: try (destruct e; [destruct (errs s c); try discriminate|]); inversion Er; subst; simpl; auto.
    + inversion H; subst; clear H.
      assert (Hop : qclosed (ch s o) = false).
      { apply (proj2 (iE s I o e 1 (nth_error_In _ _ Ek))). lia. }
      unfold close_chan. rewrite Hop. simpl. apply inv_phase1; auto.
Qed.

Lemma inv_step : forall s l s', Inv s -> step s l = Some s' -> Inv s'.
Proof.
  intros s l s' I H. unfold step in H. destruct (panicked s); try discriminate.
  destruct l; eauto using inv_step_call, inv_step_sub, inv_step_ep.
Qed.

Lemma inv_run : forall tr s s', Inv s -> run tr s = Some s' -> Inv s'.
Proof.
  induction tr as [|l r IH]; intros s s' I H; simpl in H.
  - inversion H; subst; auto.
  - destruct (step s l) eqn:E; try discriminate. eauto using inv_step.
Qed.

Definition reachable (s : state) : Prop := exists n m d tr, run tr (init n m d) = Some s.
Lemma inv_reachable : forall s, reachable s -> Inv s.
Proof. intros s (n & m & d & tr & H). eapply inv_run; eauto using inv_init. Qed.

(* ====================================================================================== *)
(* Quiescent states: no label is enabled.  (The reader of every events channel is part of  *)
(* the system: LSubRead is its label, so "terminal" includes "readers keep reading".)      *)
(* labels of goroutines that exist already: everything except the environment (a new message,
   the loss itself, a cancellation, the user's Close) and the start of a new call, subscription
   or callback registration.  Indices are those of the scenario. *)
Definition internal (l : label) (s : state) : Prop :=
  match l with
  | LConnDie | LCancel _ | LPeerMsg _ | LUserClose1 | LCallMake _ | LSubscribe _ | LOnDisc _ => False
  | LCallSend c | LCallSendFail c | LCallRemove c | LCallSel c _ | LCallCancelSend c => c < nn s
  | LSubTake i | LSubClosed i | LSubRead i => i < mm s
  | _ => True
  end.
(* the connection is lost and nothing more can happen by itself *)
Definition terminal (s : state) : Prop := lost s = true /\ forall l, internal l s -> step s l = None.

Lemma terminal_proc : forall s, Inv s -> terminal s -> proc s = PDone.
Proof.
  intros s I T. assert (Hl : lost s = true) by apply T.
  destruct (proc s) eqn:Ep; auto; exfalso.
  - assert (T1 := proj2 T LReadFail); simpl in T1; specialize (T1 ltac:(auto)). unfold step in T1. rewrite (iA s I) in T1. simpl in T1. rewrite Ep, Hl in T1. discriminate.
  - assert (T1 := proj2 T LDispatch); simpl in T1; specialize (T1 ltac:(auto)). unfold step in T1. rewrite (iA s I) in T1. simpl in T1. rewrite Ep in T1.
    destruct (disp m (table s) s); discriminate.
  - assert (T1 := proj2 T LProcClose1); simpl in T1; specialize (T1 ltac:(auto)). unfold step in T1. rewrite (iA s I) in T1. simpl in T1. rewrite Ep in T1. discriminate.
  - assert (T1 := proj2 T LProcClose2); simpl in T1; specialize (T1 ltac:(auto)). unfold step in T1. rewrite (iA s I) in T1. simpl in T1. rewrite Ep in T1. discriminate.
Qed.

Lemma terminal_closers : forall s, Inv s -> terminal s -> forall o e ph, In (o, e, ph) (closers s) -> ph = 2.
Proof.
  intros s I T o e ph Hin. pose proof (proj1 (iE s I o e ph Hin)) as Hle2.
  destruct (Nat.eq_dec ph 2) as [|Hne]; auto. exfalso.
  apply In_nth_error in Hin. destruct Hin as [k Hk].
  assert (T1 := proj2 T (LCloserStep k)); simpl in T1; specialize (T1 ltac:(auto)). unfold step in T1. rewrite (iA s I) in T1. simpl in T1. rewrite Hk in T1.
  destruct ph as [|[|ph]]; try lia; try discriminate.
  destruct (run_closer s o e) eqn:Er; try discriminate.
  destruct o as [c|i|j]; simpl in Er; try discriminate. destruct e; try discriminate.
  destruct (errs s c) eqn:Ee; try discriminate.
  destruct (iF s I c Ee) as (ph & Hin & Hp). apply In_nth_error in Hin. destruct Hin as [j Hj].
  assert (NDc : NoDup (cowners (closers s))) by (pose proof (iB s I) as B; unfold ALL in B; eapply nodup_app_l; eauto).
  assert (j = k) by (eapply nodup_cowners_pos; eauto). subst. rewrite Hk in Hj. inversion Hj. lia.
Qed.

Lemma terminal_nopend : forall s, Inv s -> terminal s -> forall o, ~ pend s o.
Proof.
  intros s I T o (e & ph & Hin & Hle). rewrite (terminal_closers s I T _ _ _ Hin) in Hle. lia.
Qed.

(* every call has returned or was never started *)
Lemma terminal_calls : forall s, Inv s -> terminal s -> forall c, c < nn s -> cp s c = CIdle \/ exists b, cp s c = CDone b.
Proof.
  intros s I T c Hlt. pose proof (terminal_proc s I T) as Hp.
  assert (Hl : lost s = true) by apply T.
  destruct (cp s c) eqn:Ec; eauto; exfalso.
  - assert (T1 := proj2 T (LCallSendFail c)); simpl in T1; specialize (T1 ltac:(auto)). unfold step in T1. rewrite (iA s I) in T1. simpl in T1. rewrite Ec, Hl in T1. discriminate.
  - assert (Ha : act s (OCall c)) by (simpl; rewrite Ec; exact Logic.I).
    destruct (iK s I _ Ha) as [H|[H|H]].
    + assert (T1 := proj2 T (LCallSel c BReply)); simpl in T1; specialize (T1 ltac:(auto)). unfold step in T1. rewrite (iA s I) in T1. simpl in T1. rewrite Ec, H in T1.
      destruct (q (ch s (OCall c))); discriminate.
    + eapply terminal_nopend; eauto.
    + apply (iK2 s I c Ec H). exact Hp.
  - assert (T1 := proj2 T (LCallRemove c)); simpl in T1; specialize (T1 ltac:(auto)). unfold step in T1. rewrite (iA s I) in T1. simpl in T1. rewrite Ec in T1. discriminate.
  - assert (T1 := proj2 T (LCallCancelSend c)); simpl in T1; specialize (T1 ltac:(auto)). unfold step in T1. rewrite (iA s I) in T1. simpl in T1. rewrite Ec in T1. discriminate.
Qed.

(* ---------- what the channel operations leave alone ---------- *)
Definition ctl_eq (s s' : state) : Prop :=
  cp s' = cp s /\ sp s' = sp s /\ cbreg s' = cbreg s /\ proc s' = proc s /\ usr s' = usr s /\ closed s' = closed s /\
  dead s' = dead s /\ cancelled s' = cancelled s /\ nn s' = nn s /\ mm s' = mm s /\ dd s' = dd s /\
  table s' = table s /\ closers s' = closers s /\ delivered s' = delivered s /\ evclosed s' = evclosed s.

Lemma ctl_refl : forall s, ctl_eq s s.
Proof. intro s; unfold ctl_eq; repeat split; reflexivity. Qed.
Lemma ctl_trans : forall a b c, ctl_eq a b -> ctl_eq b c -> ctl_eq a c.
Proof.
  unfold ctl_eq; intros a b c H1 H2.
  destruct H1 as (A1 & A2 & A3 & A4 & A5 & A6 & A7 & A8 & A9 & A10 & A11 & A12 & A13 & A14 & A15).
  destruct H2 as (B1 & B2 & B3 & B4 & B5 & B6 & B7 & B8 & B9 & B10 & B11 & B12 & B13 & B14 & B15).
  repeat split; congruence.
Qed.
Lemma ctl_close_chan : forall s o, ctl_eq s (close_chan s o).
Proof. intros s o; unfold close_chan; destruct (qclosed (ch s o)); unfold ctl_eq; simpl; repeat split; reflexivity. Qed.
Lemma ctl_run_closer : forall s o e s1, run_closer s o e = Some s1 -> ctl_eq s s1.
Proof.
  intros s o e s1 H. destruct o as [c|i|j]; simpl in H.
  - destruct e; [destruct (errs s c); try discriminate|]; inversion H; subst; unfold ctl_eq; simpl; repeat split; reflexivity.
  - inversion H; subst; apply ctl_refl.
  - inversion H; subst; unfold ctl_eq; simpl; repeat split; reflexivity.
Qed.
Lemma ctl_close_sync : forall s o, ctl_eq s (close_sync s o).
Proof.
  intros s o. unfold close_sync. destruct (run_closer s o false) eqn:E; [|apply ctl_refl].
  eapply ctl_trans; [eapply ctl_run_closer; eauto|apply ctl_close_chan].
Qed.
Lemma ctl_enqueue : forall s o t, ctl_eq s (enqueue s o t).
Proof.
  intros s o t. unfold enqueue. destruct (qclosed (ch s o)); [unfold ctl_eq; simpl; repeat split; reflexivity|].
  destruct (length (q (ch s o)) <? capacity o); [unfold ctl_eq; simpl; repeat split; reflexivity|apply ctl_refl].
Qed.
Lemma ctl_disp : forall m tb s, ctl_eq s (snd (disp m tb s)).
Proof.
  induction tb as [|x r IH]; intro s; simpl; [apply ctl_refl|].
  destruct x as [o|].
  - set (s1 := if matches o m then match m with MFor _ t => enqueue s o t | MNone => s end else s).
    assert (C1 : ctl_eq s s1).
    { unfold s1. destruct (matches o m); [|apply ctl_refl]. destruct m; [apply ctl_enqueue|apply ctl_refl]. }
    destruct (keeps o m).
    + specialize (IH s1). destruct (disp m r s1); simpl in *. eapply ctl_trans; eauto.
    + specialize (IH (close_sync s1 o)). destruct (disp m r (close_sync s1 o)); simpl in *.
      eapply ctl_trans; [exact C1|]. eapply ctl_trans; [apply ctl_close_sync|exact IH].
  - specialize (IH s). destruct (disp m r s); simpl in *; auto.
Qed.
Lemma disp_owners_sub : forall m tb s x, In x (owners (fst (disp m tb s))) -> In x (owners tb).
Proof.
  induction tb as [|y r IH]; intros s x H; simpl in *; auto.
  destruct y as [o|].
  - set (s1 := if matches o m then match m with MFor _ t => enqueue s o t | MNone => s end else s) in *.
    destruct (keeps o m).
    + specialize (IH s1 x). destruct (disp m r s1); simpl in *. destruct H; auto.
    + specialize (IH (close_sync s1 o) x). destruct (disp m r (close_sync s1 o)); simpl in *. auto.
  - specialize (IH s x). destruct (disp m r s); simpl in *; auto.
Qed.
Lemma setnth_none_sub : forall tb k x, In x (owners (setnth k None tb)) -> In x (owners tb).
Proof.
  induction tb as [|y r IH]; intros k x H; destruct k; simpl in *; auto.
  - destruct y; simpl; auto.
  - destruct y; simpl in *; [destruct H; eauto|eauto].
Qed.
Lemma ctl_remove_handler : forall s k,
  let s1 := remove_handler s k in
  cp s1 = cp s /\ sp s1 = sp s /\ cbreg s1 = cbreg s /\ proc s1 = proc s /\ usr s1 = usr s /\ closed s1 = closed s /\
  dead s1 = dead s /\ cancelled s1 = cancelled s /\ nn s1 = nn s /\ mm s1 = mm s /\ dd s1 = dd s /\
  closers s1 = closers s /\ delivered s1 = delivered s /\ evclosed s1 = evclosed s /\
  (forall x, In x (owners (table s1)) -> In x (owners (table s))).
Proof.
  intros s k. unfold remove_handler. destruct (nth_error (table s) k) as [[o|]|]; simpl; try (repeat split; auto; fail).
  destruct (ctl_close_sync s o) as (A1 & A2 & A3 & A4 & A5 & A6 & A7 & A8 & A9 & A10 & A11 & A12 & A13 & A14 & A15).
  repeat split; auto. intros x. apply setnth_none_sub.
Qed.

Ltac step_cases H :=
  unfold step in H;
  match type of H with (if panicked ?s then _ else _) = _ => destruct (panicked s) eqn:?Hpan; [discriminate|] end;
  match type of H with context[match ?l with LConnDie => _ | _ => _ end] => destruct l end;
  unfold step_call, step_sub, step_ep in H;
  repeat match type of H with
         | context[match ?x with _ => _ end] => destruct x eqn:?
         | context[if ?x then _ else _] => destruct x eqn:?
         end;
  try discriminate; inversion H; subst; clear H.

Lemma alloc_sub : forall tb o tb' k x, alloc tb o = (tb', k) -> In x (owners tb') -> x = o \/ In x (owners tb).
Proof.
  intros tb o tb' k x E H. destruct (alloc_owners tb o) as (l1 & l2 & E1 & E2). rewrite E in E2. simpl in E2.
  rewrite E2 in H. apply in_mid in H. rewrite E1. exact H.
Qed.

Lemma step_mono : forall s l s', step s l = Some s' ->
  (forall o, reg s o -> reg s' o) /\
  (forall o, reg s o -> intab s' o -> intab s o) /\
  (proc s' = PDone -> proc s = PDone \/ owners (table s') = []) /\
  (lost s = true -> lost s' = true) /\
  nn s' = nn s /\ mm s' = mm s /\ dd s' = dd s.
Proof.
  intros s l s' H. step_cases H; unfold intab, lost; simpl.
  all: try match goal with Hb : _ && negb _ = true |- _ =>
         apply andb_true_iff in Hb; destruct Hb as [? Hb]; apply negb_true_iff in Hb end.
  all: try (destruct (ctl_remove_handler s slot) as (A1 & A2 & A3 & A4 & A5 & A6 & A7 & A8 & A9 & A10 & A11 & A12 & A13 & A14 & A15)).
  all: try match goal with E : disp ?m ?tb ?s0 = (?t1, ?s1) |- _ =>
         pose proof (ctl_disp m tb s0) as CD; pose proof (disp_owners_sub m tb s0) as DS; rewrite E in CD, DS; simpl in CD, DS;
         destruct CD as (A1 & A2 & A3 & A4 & A5 & A6 & A7 & A8 & A9 & A10 & A11 & A12 & A13 & A14 & A15) end.
  all: try match goal with E : run_closer ?s0 ?o ?e = Some ?s1 |- _ =>
         destruct (ctl_run_closer _ _ _ _ E) as (A1 & A2 & A3 & A4 & A5 & A6 & A7 & A8 & A9 & A10 & A11 & A12 & A13 & A14 & A15) end.
  all: try match goal with |- context[close_chan ?s0 ?o] =>
         destruct (ctl_close_chan s0 o) as (A1 & A2 & A3 & A4 & A5 & A6 & A7 & A8 & A9 & A10 & A11 & A12 & A13 & A14 & A15) end.
  all: rewrite ?A1, ?A2, ?A3, ?A4, ?A5, ?A6, ?A7, ?A8, ?A9, ?A10, ?A11, ?A12, ?A13, ?A14.
  all: repeat split; auto.
  all: try (intros ox Hox; destruct ox; simpl in *; rewrite ?A1, ?A2, ?A3; auto; updc; auto; congruence).
  all: try (intros ox Hox Hin; apply DS; exact Hin).
  all: try (intros; congruence).
  all: try (intros; discriminate).
  all: try (rewrite ?orb_true_r; auto; fail).
  all: try (intros o Ho Hin; match goal with E : alloc _ _ = _ |- _ => destruct (alloc_sub _ _ _ _ _ E Hin) as [->|]; auto end;
            exfalso; simpl in Ho; congruence).
  all: try (intros; right; apply owners_map_none).
  all: try (intros o Ho Hin; rewrite owners_map_none in Hin; destruct Hin).
Qed.

(* ---------- handlers registered before the loss ---------- *)
Definition good (s : state) (o : owner) : Prop := intab s o -> proc s <> PDone.

Lemma good_step : forall s l s' o, step s l = Some s' -> reg s o -> good s o -> good s' o /\ reg s' o.
Proof.
  intros s l s' o H Hr Hg. destruct (step_mono s l s' H) as (M1 & M2 & M3 & _). split; auto.
  intros Hin Hp. destruct (M3 Hp) as [Hp'|He].
  - apply Hg; auto.
  - unfold intab in Hin. rewrite He in Hin. destruct Hin.
Qed.
Lemma good_run : forall tr s s' o, run tr s = Some s' -> reg s o -> good s o -> good s' o /\ reg s' o.
Proof.
  induction tr as [|l r IH]; intros s s' o H Hr Hg; simpl in H.
  - inversion H; subst; auto.
  - destruct (step s l) eqn:E; try discriminate. destruct (good_step _ _ _ _ E Hr Hg). eauto.
Qed.
Lemma good_alive : forall s o, Inv s -> lost s = false -> good s o.
Proof.
  intros s o I Hl _ Hp. destruct (iP s I) as [P1 _]. unfold lost in Hl. rewrite P1 in Hl by auto.
  rewrite orb_true_r in Hl. discriminate.
Qed.

(* a handler registered before the loss is closed in every quiescent state *)
Lemma early_handler_closed : forall s0 tr s o, Inv s0 -> lost s0 = false -> reg s0 o -> (forall c, o <> OCall c) ->
  run tr s0 = Some s -> terminal s -> qclosed (ch s o) = true.
Proof.
  intros s0 tr s o I0 Hl Hr Hnc Hrun T.
  assert (I : Inv s) by (eapply inv_run; eauto).
  destruct (good_run _ _ _ _ Hrun Hr (good_alive _ _ I0 Hl)) as [Hg Hr'].
  assert (Ha : act s o) by (destruct o; simpl in *; auto; exfalso; eapply Hnc; eauto).
  destruct (iK s I o Ha) as [H|[H|H]]; auto.
  - exfalso. eapply terminal_nopend; eauto.
  - exfalso. apply (Hg H). apply terminal_proc; auto.
Qed.

Lemma sizes_run : forall tr s s', run tr s = Some s' -> nn s' = nn s /\ mm s' = mm s /\ dd s' = dd s.
Proof.
  induction tr as [|l r IH]; intros s s' H; simpl in H.
  - inversion H; subst; auto.
  - destruct (step s l) eqn:E; try discriminate. destruct (step_mono _ _ _ E) as (_ & _ & _ & _ & N1 & N2 & N3).
    destruct (IH _ _ H) as (M1 & M2 & M3). repeat split; congruence.
Qed.

Lemma subs_closed : forall s0 tr s i, Inv s0 -> lost s0 = false -> sp s0 i <> SNone -> i < mm s0 ->
  run tr s0 = Some s -> terminal s -> evclosed s i = true.
Proof.
  intros s0 tr s i I0 Hl Hr Hlt0 Hrun T.
  assert (Hlt : i < mm s) by (destruct (sizes_run _ _ _ Hrun) as (_ & M & _); rewrite M; exact Hlt0).
  assert (I : Inv s) by (eapply inv_run; eauto).
  assert (Hc : qclosed (ch s (OSub i)) = true).
  { apply (early_handler_closed s0 tr s (OSub i) I0 Hl Hr); auto. intros c; discriminate. }
  assert (Hr' : sp s i <> SNone).
  { destruct (good_run _ _ _ (OSub i) Hrun Hr (good_alive _ _ I0 Hl)) as [_ H]. exact H. }
  apply (iG s I). destruct (sp s i) eqn:Es; auto; exfalso.
  - congruence.
  - destruct (q (ch s (OSub i))) as [|t r] eqn:Eq.
    + assert (T1 := proj2 T (LSubClosed i)); simpl in T1; specialize (T1 ltac:(auto)). unfold step in T1. rewrite (iA s I) in T1. simpl in T1. rewrite Es, Eq, Hc in T1.
      destruct (evclosed s i); discriminate.
    + assert (T1 := proj2 T (LSubTake i)); simpl in T1; specialize (T1 ltac:(auto)). unfold step in T1. rewrite (iA s I) in T1. simpl in T1. rewrite Es, Eq in T1. discriminate.
  - assert (T1 := proj2 T (LSubRead i)); simpl in T1; specialize (T1 ltac:(auto)). unfold step in T1. rewrite (iA s I) in T1. simpl in T1. rewrite Es in T1. discriminate.
Qed.

Lemma cb_once : forall s0 tr s j, Inv s0 -> lost s0 = false -> cbreg s0 j = true ->
  run tr s0 = Some s -> terminal s -> cbcount s j = 1.
Proof.
  intros s0 tr s j I0 Hl Hr Hrun T.
  assert (I : Inv s) by (eapply inv_run; eauto).
  apply (proj2 (iM s I j)). left. apply (early_handler_closed s0 tr s (OCb j) I0 Hl Hr); auto. intros c; discriminate.
Qed.

Lemma cb_at_most_once : forall s j, reachable s -> cbcount s j <= 1.
Proof. intros s j R. apply (proj1 (iM s (inv_reachable s R) j)). Qed.

Lemma no_panic : forall s, reachable s -> panicked s = false.
Proof. intros s R. apply (iA s (inv_reachable s R)). Qed.

(* ---------- where replies come from ---------- *)
Lemma q_close_chan : forall s o x, q (ch (close_chan s o) x) = q (ch s x).
Proof.
  intros s o x. unfold close_chan. destruct (qclosed (ch s o)); simpl; auto.
  unfold updo. destruct (owner_eqb x o) eqn:E; auto. apply owner_eqb_eq in E; subst; reflexivity.
Qed.
Lemma ch_run_closer : forall s o e s1, run_closer s o e = Some s1 -> ch s1 = ch s.
Proof.
  intros s o e s1 H. destruct o as [c|i|j]; simpl in H.
  - destruct e; [destruct (errs s c); try discriminate|]; inversion H; subst; reflexivity.
  - inversion H; subst; reflexivity.
  - inversion H; subst; reflexivity.
Qed.
Lemma q_close_sync : forall s o x, q (ch (close_sync s o) x) = q (ch s x).
Proof.
  intros s o x. unfold close_sync. destruct (run_closer s o false) eqn:E; auto.
  rewrite q_close_chan. rewrite (ch_run_closer _ _ _ _ E). reflexivity.
Qed.
Lemma q_enqueue : forall s o t x t', In t' (q (ch (enqueue s o t) x)) -> In t' (q (ch s x)) \/ (x = o /\ t' = t).
Proof.
  intros s o t x t' H. unfold enqueue in H. destruct (qclosed (ch s o)); simpl in H; auto.
  destruct (length (q (ch s o)) <? capacity o); simpl in H; auto.
  unfold updo in H. destruct (owner_eqb x o) eqn:E; auto. apply owner_eqb_eq in E; subst. simpl in H.
  apply in_app_iff in H. destruct H as [H|[H|[]]]; auto.
Qed.
Lemma q_disp : forall m tb s x t', In t' (q (ch (snd (disp m tb s)) x)) -> In t' (q (ch s x)) \/ m = MFor x t'.
Proof.
  induction tb as [|y r IH]; intros s x t' H; simpl in *; auto.
  destruct y as [o|].
  - set (s1 := if matches o m then match m with MFor _ t => enqueue s o t | MNone => s end else s) in *.
    assert (H1 : In t' (q (ch s1 x)) -> In t' (q (ch s x)) \/ m = MFor x t').
    { unfold s1. destruct (matches o m) eqn:Em; auto. destruct (matches_target _ _ Em) as [t Et]. subst m.
      intro Hq. apply q_enqueue in Hq. destruct Hq as [|[-> ->]]; auto. }
    destruct (keeps o m).
    + specialize (IH s1 x t'). destruct (disp m r s1); simpl in *. destruct (IH H); auto.
    + specialize (IH (close_sync s1 o) x t'). destruct (disp m r (close_sync s1 o)); simpl in *.
      destruct (IH H) as [Hq|]; auto. rewrite q_close_sync in Hq. auto.
  - specialize (IH s x t'). destruct (disp m r s); simpl in *; auto.
Qed.
Lemma q_remove_handler : forall s k x, q (ch (remove_handler s k) x) = q (ch s x).
Proof.
  intros s k x. unfold remove_handler. destruct (nth_error (table s) k) as [[o|]|]; simpl; auto. apply q_close_sync.
Qed.

Definition can_ok (s : state) (c : nat) : Prop :=
  cp s c = CDone true \/ In TReply (q (ch s (OCall c))) \/ proc s = PHave (MFor (OCall c) TReply).

Lemma mtype_eqb_eq : forall a b, mtype_eqb a b = true -> a = b.
Proof. destruct a, b; simpl; intros; congruence. Qed.

(* once the connection is lost no call can become answerable any more *)
Lemma can_ok_back : forall s l s' c, step s l = Some s' -> lost s = true -> can_ok s' c -> can_ok s c.
Proof.
  intros s l s' c H Hl. unfold can_ok. step_cases H; simpl.
  all: try match goal with E : disp ?m ?tb ?s0 = (?t1, ?s1) |- _ =>
         pose proof (ctl_disp m tb s0) as CD; pose proof (q_disp m tb s0) as QD; rewrite E in CD, QD; simpl in CD, QD;
         destruct CD as (A1 & A2 & A3 & A4 & A5 & A6 & A7 & A8 & A9 & A10 & A11 & A12 & A13 & A14 & A15) end.
  all: try match goal with E : run_closer ?s0 ?o ?e = Some ?s1 |- _ =>
         pose proof (ch_run_closer _ _ _ _ E) as CH;
         destruct (ctl_run_closer _ _ _ _ E) as (A1 & A2 & A3 & A4 & A5 & A6 & A7 & A8 & A9 & A10 & A11 & A12 & A13 & A14 & A15) end.
  all: try match goal with |- context[close_chan ?s0 ?o] =>
         destruct (ctl_close_chan s0 o) as (A1 & A2 & A3 & A4 & A5 & A6 & A7 & A8 & A9 & A10 & A11 & A12 & A13 & A14 & A15) end.
  all: try (destruct (ctl_remove_handler s slot) as (A1 & A2 & A3 & A4 & A5 & A6 & A7 & A8 & A9 & A10 & A11 & A12 & A13 & A14 & A15)).
  all: rewrite ?q_close_chan, ?q_remove_handler, ?CH, ?A1, ?A4; try congruence.
  all: try (intros [H|[H|H]]; [revert H; updc; intro; auto; try discriminate; try congruence| auto | auto; try discriminate; try congruence]; fail).
  - (* BReply: the head of the reply channel decides *)
    intros [H|[H|H]]; auto.
    + revert H. updc; intro H; auto. inversion H as [Ht]. apply mtype_eqb_eq in Ht. subst.
      right; left. rewrite Heql. simpl; auto.
    + right; left. unfold updo in H. destruct (owner_eqb (OCall c) (OCall c0)) eqn:E; auto.
      apply owner_eqb_eq in E. inversion E; subst. simpl in H. rewrite Heql. simpl; auto.
  - (* LDispatch: only the message being dispatched can add a reply *)
    intros [H|[H|H]]; auto; try discriminate.
    destruct (QD _ _ H) as [Hq| ->]; auto.
Qed.

Lemma lost_run : forall tr s s', run tr s = Some s' -> lost s = true -> lost s' = true.
Proof.
  induction tr as [|l r IH]; intros s s' H Hl; simpl in H.
  - inversion H; subst; auto.
  - destruct (step s l) eqn:E; try discriminate. destruct (step_mono _ _ _ E) as (_ & _ & _ & M & _). eauto.
Qed.
Lemma can_ok_back_run : forall tr s s' c, run tr s = Some s' -> lost s = true -> can_ok s' c -> can_ok s c.
Proof.
  induction tr as [|l r IH]; intros s s' c H Hl Hc; simpl in H.
  - inversion H; subst; auto.
  - destruct (step s l) eqn:E; try discriminate. destruct (step_mono _ _ _ E) as (_ & _ & _ & M & _).
    eapply can_ok_back; eauto.
Qed.
Lemma reg_run : forall tr s s' o, run tr s = Some s' -> reg s o -> reg s' o.
Proof.
  induction tr as [|l r IH]; intros s s' o H Hr; simpl in H.
  - inversion H; subst; auto.
  - destruct (step s l) eqn:E; try discriminate. destruct (step_mono _ _ _ E) as (M & _). eauto.
Qed.

(* Every call that is in flight when the connection is lost, and every call made later,
   returns an error: after the loss, in every quiescent state reached by any schedule, a call
   for which no Reply had been read from the stream has returned and its result is an error
   (or it was never started). *)
Lemma calls_fail : forall s tr s' c, Inv s -> lost s = true -> ~ can_ok s c -> c < nn s ->
  run tr s = Some s' -> terminal s' ->
  (cp s c <> CIdle -> cp s' c = CDone false) /\ (cp s' c = CIdle \/ cp s' c = CDone false).
Proof.
  intros s tr s' c I Hl Hn Hlt0 Hrun T.
  assert (Hlt : c < nn s') by (destruct (sizes_run _ _ _ Hrun) as (M & _); rewrite M; exact Hlt0).
  assert (I' : Inv s') by (eapply inv_run; eauto).
  assert (Hb : cp s' c <> CDone true).
  { intro Hd. apply Hn. eapply can_ok_back_run; eauto. left; auto. }
  destruct (terminal_calls s' I' T c Hlt) as [H|[b H]].
  - split; auto. intro Hs. exfalso. apply (reg_run tr s s' (OCall c) Hrun Hs). exact H.
  - destruct b; [congruence|]. split; auto.
Qed.

(* ---------- a delivered reply reaches its caller (early reply included) ---------- *)
Lemma q_enqueue_other : forall s o t x, x <> o -> q (ch (enqueue s o t) x) = q (ch s x).
Proof.
  intros s o t x Hne. unfold enqueue. destruct (qclosed (ch s o)); simpl; auto.
  destruct (length (q (ch s o)) <? capacity o); simpl; auto. rewrite updo_other; auto.
Qed.
Lemma q_disp_notin : forall m tb s o, ~ In o (owners tb) -> q (ch (snd (disp m tb s)) o) = q (ch s o).
Proof.
  induction tb as [|y r IH]; intros s o Hn; simpl in *; auto.
  destruct y as [o'|]; simpl in Hn.
  - assert (Hne : o <> o') by (intros ->; apply Hn; auto).
    assert (Hn' : ~ In o (owners r)) by (intro; apply Hn; auto).
    set (s1 := if matches o' m then match m with MFor _ t => enqueue s o' t | MNone => s end else s).
    assert (H1 : q (ch s1 o) = q (ch s o)).
    { unfold s1. destruct (matches o' m); auto. destruct m; auto. apply q_enqueue_other; auto. }
    destruct (keeps o' m).
    + specialize (IH s1 o Hn'). destruct (disp m r s1); simpl in *. congruence.
    + specialize (IH (close_sync s1 o') o Hn'). destruct (disp m r (close_sync s1 o')); simpl in *.
      rewrite IH, q_close_sync. exact H1.
  - specialize (IH s o Hn). destruct (disp m r s); simpl in *; auto.
Qed.

Definition holds_reply (s : state) (c : nat) : Prop :=
  (exists r, q (ch s (OCall c)) = TReply :: r) /\ ((exists k, cp s c = CMade k) \/ cp s c = CWait) /\ cancelled s c = false.

Lemma done_stable : forall s l s' c b, step s l = Some s' -> cp s c = CDone b -> cp s' c = CDone b.
Proof.
  intros s l s' c b H Hd. step_cases H; simpl.
  all: try match goal with E : disp ?m ?tb ?s0 = (?t1, ?s1) |- _ =>
         pose proof (ctl_disp m tb s0) as CD; rewrite E in CD; simpl in CD;
         destruct CD as (A1 & _) end.
  all: try match goal with E : run_closer ?s0 ?o ?e = Some ?s1 |- _ => destruct (ctl_run_closer _ _ _ _ E) as (A1 & _) end.
  all: try match goal with |- context[close_chan ?s0 ?o] => destruct (ctl_close_chan s0 o) as (A1 & _) end.
  all: try (destruct (ctl_remove_handler s slot) as (A1 & _)).
  all: rewrite ?A1; auto; updc; auto; congruence.
Qed.

Lemma reply_kept : forall s l s' c, Inv s -> holds_reply s c -> step s l = Some s' ->
  l <> LCallSendFail c -> l <> LCancel c -> holds_reply s' c \/ cp s' c = CDone true.
Proof.
  intros s l s' c I ((r & Hq) & Hpc & Hcan) H N1 N2.
  assert (Hnin : ~ In (OCall c) (ALL s)) by (apply (iN s I); rewrite Hq; discriminate).
  assert (Hnt : ~ In (OCall c) (owners (table s))) by (intro; apply Hnin; unfold ALL; apply in_app_iff; auto).
  assert (Herr : errs s c = false).
  { destruct (errs s c) eqn:E; auto. exfalso. destruct (iF s I c E) as (ph & Hin & _). apply Hnin.
    unfold ALL. apply in_app_iff. left. apply in_cowners. eauto. }
  unfold holds_reply. step_cases H; simpl.
  all: try match goal with E : disp ?m ?tb ?s0 = (?t1, ?s1) |- _ =>
         pose proof (ctl_disp m tb s0) as CD; pose proof (q_disp_notin m tb s0 (OCall c) Hnt) as QD; rewrite E in CD, QD; simpl in CD, QD;
         destruct CD as (A1 & A2 & A3 & A4 & A5 & A6 & A7 & A8 & A9 & A10 & A11 & A12 & A13 & A14 & A15) end.
  all: try match goal with E : run_closer ?s0 ?o ?e = Some ?s1 |- _ =>
         pose proof (ch_run_closer _ _ _ _ E) as CH;
         destruct (ctl_run_closer _ _ _ _ E) as (A1 & A2 & A3 & A4 & A5 & A6 & A7 & A8 & A9 & A10 & A11 & A12 & A13 & A14 & A15) end.
  all: try match goal with |- context[close_chan ?s0 ?o] =>
         destruct (ctl_close_chan s0 o) as (A1 & A2 & A3 & A4 & A5 & A6 & A7 & A8 & A9 & A10 & A11 & A12 & A13 & A14 & A15) end.
  all: try (destruct (ctl_remove_handler s slot) as (A1 & A2 & A3 & A4 & A5 & A6 & A7 & A8 & A9 & A10 & A11 & A12 & A13 & A14 & A15)).
  all: rewrite ?q_close_chan, ?q_remove_handler, ?CH, ?QD, ?A1, ?A8.
  all: try (left; split; [eauto|split; [|auto]]; destruct Hpc as [[k0 Hk]|Hw]; updc; eauto; try congruence; fail).
  destruct (Nat.eq_dec c0 c) as [->|Hne].
  - right. rewrite upd_same. rewrite Hq in Heql. inversion Heql; subst. reflexivity.
  - left. rewrite updo_other by congruence. rewrite upd_other by auto. eauto.
Qed.

Lemma reply_delivered : forall tr s s' c, Inv s -> holds_reply s c -> c < nn s -> run tr s = Some s' ->
  ~ In (LCallSendFail c) tr -> ~ In (LCancel c) tr -> terminal s' -> cp s' c = CDone true.
Proof.
  assert (G : forall tr s s' c, Inv s -> holds_reply s c \/ cp s c = CDone true -> run tr s = Some s' ->
              ~ In (LCallSendFail c) tr -> ~ In (LCancel c) tr -> holds_reply s' c \/ cp s' c = CDone true).
  { induction tr as [|l r IH]; intros s s' c I H Hrun N1 N2; simpl in Hrun.
    - inversion Hrun; subst; auto.
    - destruct (step s l) as [s1|] eqn:E; try discriminate.
      apply (IH s1 s' c); auto.
      + eapply inv_step; eauto.
      + destruct H as [H|H].
        * eapply reply_kept; eauto; intros ->; [apply N1|apply N2]; simpl; auto.
        * right. eapply done_stable; eauto.
      + intro; apply N1; simpl; auto.
      + intro; apply N2; simpl; auto. }
  intros tr s s' c I H Hlt0 Hrun N1 N2 T.
  assert (Hlt : c < nn s') by (destruct (sizes_run _ _ _ Hrun) as (M & _); rewrite M; exact Hlt0).
  assert (I' : Inv s') by (eapply inv_run; eauto).
  destruct (G tr s s' c I (or_introl H) Hrun N1 N2) as [(_ & Hpc & _)|Hd]; auto.
  exfalso. destruct (terminal_calls s' I' T c Hlt) as [Hc|[b Hc]]; destruct Hpc as [[k Hk]|Hw]; congruence.
Qed.

(* the early-reply schedule: the handler is in the table before Send is attempted, so a Reply
   read and dispatched while the call is still inside Send lands in its reply channel *)
Lemma early_reply_lands : forall s c k, Inv s -> cp s c = CMade k -> intab s (OCall c) -> cancelled s c = false ->
  proc s = PRead -> lost s = false ->
  exists s1, run [LPeerMsg (MFor (OCall c) TReply); LDispatch] s = Some s1 /\ holds_reply s1 c /\ cp s1 c = CMade k.
Proof.
  intros s c k I Hc Hin Hcan Hp Hl.
  assert (NDt : NoDup (owners (table s))).
  { pose proof (iB s I) as B. unfold ALL in B. clear - B. induction (cowners (closers s)); simpl in *; auto. inversion B; auto. }
  assert (Hop : qclosed (ch s (OCall c)) = false) by (apply (iD s I); auto).
  assert (Hq : q (ch s (OCall c)) = []).
  { destruct (q (ch s (OCall c))) eqn:E; auto. exfalso. apply (iN s I c); [rewrite E; discriminate|].
    unfold ALL. apply in_app_iff; auto. }
  assert (HM : matches (OCall c) (MFor (OCall c) TReply) = true) by (unfold matches; apply owner_eqb_refl).
  simpl. unfold step. rewrite (iA s I). simpl. rewrite Hp, Hl. simpl.
  set (s0 := set_proc s (PHave (MFor (OCall c) TReply))).
  assert (E0 : disp (MFor (OCall c) TReply) (table s) s0 =
               (clearo (OCall c) (table s), close_sync (enqueue s0 (OCall c) TReply) (OCall c))).
  { rewrite (disp_match (OCall c) TReply (table s) s0 NDt Hin HM). unfold keeps. rewrite HM. reflexivity. }
  rewrite E0. rewrite (iA s I). eexists. split; [reflexivity|].
  destruct (ctl_close_sync (enqueue s0 (OCall c) TReply) (OCall c)) as (A1 & _).
  destruct (ctl_enqueue s0 (OCall c) TReply) as (B1 & _ & _ & _ & _ & _ & _ & B8 & _).
  unfold holds_reply; simpl. rewrite q_close_sync, A1, B1. simpl. rewrite Hc.
  split; [|reflexivity]. split; [|split; [eauto|]].
  - unfold enqueue. simpl. rewrite Hop, Hq. simpl. rewrite updo_same. simpl. eauto.
  - destruct (ctl_close_sync (enqueue s0 (OCall c) TReply) (OCall c)) as (_ & _ & _ & _ & _ & _ & _ & A8 & _).
    rewrite A8, B8. exact Hcan.
Qed.

(* ---------- the executable quiescence test used by the correspondence run ---------- *)
Definition quietb (s : state) : bool :=
  lost s && forallb (fun l => match step s l with None => true | Some _ => false end) (drain_labels s).

Lemma internal_in : forall l s, internal l s -> In l (drain_labels s) \/ step s l = None.
Proof.
  intros l s H. unfold drain_labels.
  assert (G : is_start l = false -> In l (all_labels s) -> In l (filter (fun l0 => negb (is_start l0)) (all_labels s))).
  { intros Hs Hin. apply filter_In. rewrite Hs. auto. }
  unfold all_labels.
  destruct l; simpl in H; try contradiction.
  1-5: left; apply G; auto; apply in_app_iff; left; apply in_flat_map; exists c; split; [apply in_seq; lia|simpl; auto 10].
  1: destruct b; simpl; auto 10.
  1-3: left; apply G; auto; apply in_app_iff; right; apply in_app_iff; left; apply in_flat_map; exists i;
       split; [apply in_seq; lia|simpl; auto 10].
  1-5: left; apply G; auto; apply in_app_iff; right; apply in_app_iff; right; apply in_app_iff; right; apply in_app_iff; left; simpl; auto 10.
  destruct (lt_dec k (length (closers s))) as [Hk|Hk].
  - left; apply G; auto. do 4 (apply in_app_iff; right). apply in_map. apply in_seq. lia.
  - right. unfold step. destruct (panicked s); auto. simpl.
    destruct (nth_error (closers s) k) eqn:E; auto. exfalso. apply Hk. apply nth_error_Some. congruence.
Qed.

Lemma quietb_terminal : forall s, quietb s = true -> terminal s.
Proof.
  intros s H. unfold quietb in H. apply andb_true_iff in H. destruct H as [Hl Hq]. split; auto.
  intros l Hi. destruct (internal_in l s Hi) as [Hin|]; auto.
  rewrite forallb_forall in Hq. specialize (Hq l Hin). destruct (step s l); auto; discriminate.
Qed.

(* ---------- termination: a measure that every label except LPeerMsg decreases ---------- *)
Definition inrange (s : state) (o : owner) : Prop :=
  match o with OCall c => c < nn s | OSub i => i < mm s | OCb j => j < dd s end.
Definition bounded (s : state) : Prop := forall o, reg s o -> inrange s o.

Lemma bounded_init : forall n m d, bounded (init n m d).
Proof. intros n m d o H. destruct o; simpl in H; congruence. Qed.

Lemma bounded_step : forall s l s', bounded s -> step s l = Some s' -> bounded s'.
Proof.
  intros s l s' B H. destruct (step_mono _ _ _ H) as (_ & _ & _ & _ & N1 & N2 & N3).
  intros o Ho. assert (G : reg s o -> inrange s' o).
  { intro Hr. specialize (B o Hr). destruct o; simpl in *; congruence. }
  revert Ho. step_cases H; simpl in *.
  all: try match goal with E : disp ?m ?tb ?s0 = (?t1, ?s1) |- _ =>
         pose proof (ctl_disp m tb s0) as CD; rewrite E in CD; simpl in CD; destruct CD as (A1 & A2 & A3 & _) end.
  all: try match goal with E : run_closer ?s0 ?o ?e = Some ?s1 |- _ => destruct (ctl_run_closer _ _ _ _ E) as (A1 & A2 & A3 & _) end.
  all: try match goal with |- context[close_chan ?s0 ?o] => destruct (ctl_close_chan s0 o) as (A1 & A2 & A3 & _) end.
  all: try (destruct (ctl_remove_handler s slot) as (A1 & A2 & A3 & _)).
  all: try match goal with Hb : _ && negb _ = true |- _ =>
         apply andb_true_iff in Hb; destruct Hb as [? Hb]; apply negb_true_iff in Hb end.
  all: intro Ho; destruct o as [c0|i0|j0]; simpl in *; rewrite ?A1, ?A2, ?A3 in Ho; try (apply G; simpl; exact Ho).
  all: revert Ho; updc; intro Ho; try (apply G; simpl; auto; congruence).
  all: try (apply Nat.ltb_lt; assumption).
Qed.

Lemma bounded_run : forall tr s s', bounded s -> run tr s = Some s' -> bounded s'.
Proof.
  induction tr as [|l r IH]; intros s s' B H; simpl in H.
  - inversion H; subst; auto.
  - destruct (step s l) eqn:E; try discriminate. eauto using bounded_step.
Qed.

(* ---------- a concrete run meeting every hypothesis above ---------- *)
Definition ex_pre : list label :=
  [LOnDisc 0; LSubscribe 0; LCallMake 0; LCallMake 1; LPeerMsg (MFor (OCall 0) TReply); LDispatch;
   LCallSend 0; LCallSend 1; LPeerMsg (MFor (OSub 0) TEvent); LDispatch].
Definition ex_s0 : state := match run ex_pre (init 2 1 1) with Some s => s | None => init 0 0 0 end.
Definition ex_tr : list label := LConnDie :: fst (drain_tr 60 (match step ex_s0 LConnDie with Some s => s | None => ex_s0 end)).
Definition ex_s : state := match run ex_tr ex_s0 with Some s => s | None => init 0 0 0 end.

Lemma ex_reachable : reachable ex_s0.
Proof.
  exists 2, 1, 1, ex_pre. unfold ex_s0. destruct (run ex_pre (init 2 1 1)) eqn:E; [reflexivity|].
  exfalso. vm_compute in E. discriminate.
Qed.
Lemma ex_run : run ex_tr ex_s0 = Some ex_s.
Proof.
  unfold ex_s. destruct (run ex_tr ex_s0) eqn:E; [reflexivity|]. exfalso. vm_compute in E. discriminate.
Qed.
Lemma ex_terminal : terminal ex_s.
Proof. apply quietb_terminal. vm_compute. reflexivity. Qed.
Lemma ex_before : lost ex_s0 = false /\ sp ex_s0 0 <> SNone /\ cbreg ex_s0 0 = true /\ cp ex_s0 0 = CWait /\ cp ex_s0 1 = CWait.
Proof. repeat split; try (vm_compute; reflexivity). vm_compute; discriminate. Qed.
Lemma ex_not_ok : ~ can_ok ex_s0 1.
Proof. intros [H|[H|H]]; vm_compute in H; try discriminate; tauto. Qed.
Lemma ex_holds : holds_reply ex_s0 0.
Proof. unfold holds_reply. split; [|split]; vm_compute; eauto. Qed.
Lemma ex_after : cp ex_s 0 = CDone true /\ cp ex_s 1 = CDone false /\ evclosed ex_s 0 = true /\ delivered ex_s 0 = 1 /\ cbcount ex_s 0 = 1.
Proof. repeat split; vm_compute; reflexivity. Qed.

Fixpoint sumf (f : nat -> nat) (n : nat) : nat := match n with 0 => 0 | S k => sumf f k + f k end.
Lemma sumf_ext : forall f g n, (forall i, i < n -> g i = f i) -> sumf g n = sumf f n.
Proof. induction n; intros H; simpl; auto. rewrite IHn, H; auto. Qed.
Lemma sumf_change : forall f g k n, (forall i, i <> k -> g i = f i) -> k < n -> sumf g n + f k = sumf f n + g k.
Proof.
  induction n; intros H Hk; [lia|]. simpl. destruct (Nat.eq_dec k n) as [E|Hne].
  - subst k. assert (E : sumf g n = sumf f n) by (apply sumf_ext; intros i Hi; apply H; lia). lia.
  - assert (E : g n = f n) by (apply H; auto). assert (k < n) by lia. specialize (IHn H H0). lia.
Qed.

Definition callrank (p : cpc) : nat :=
  match p with CIdle => 9 | CMade _ => 5 | CWait => 4 | CFailed _ => 2 | CCancel => 1 | CDone _ => 0 end.
Definition subrank (p : spc) : nat := match p with SNone => 5 | SLoop => 1 | SSend => 2 | SDone => 0 end.
Definition procrank (p : ppc) : nat := match p with PDone => 0 | PClosing => 1 | PFail => 2 | PRead => 3 | PHave _ => 7 end.
Definition usrrank (p : upc) : nat := match p with UIdle => 2 | UMid => 1 | UFin => 0 end.
Definition crank (cl : list (owner * bool * nat)) : nat := fold_right (fun x a => (2 - snd x) + a) 0 cl.
Definition callw (s : state) (c : nat) : nat := callrank (cp s c) + (if cancelled s c then 0 else 1).
Definition subw (s : state) (i : nat) : nat := subrank (sp s i) + 3 * length (q (ch s (OSub i))).
Definition cbw (s : state) (j : nat) : nat := if cbreg s j then 0 else 4.

(* the number of steps still possible once no new message can arrive *)
Definition measure (s : state) : nat :=
  sumf (callw s) (nn s) + sumf (subw s) (mm s) + sumf (cbw s) (dd s) + procrank (proc s) + usrrank (usr s) +
  3 * length (owners (table s)) + crank (closers s) + (if dead s then 0 else 1).

Lemma crank_app : forall a b, crank (a ++ b) = crank a + crank b.
Proof. induction a; intro b; simpl; auto. rewrite IHa. lia. Qed.
Lemma crank_spawned : forall tb e, crank (spawned tb e) = 2 * length (owners tb).
Proof. induction tb as [|x r IH]; intro e; simpl; auto. destruct x; simpl; rewrite ?crank_app, IH; simpl; lia. Qed.
Lemma crank_setnth : forall cl k o e ph, nth_error cl k = Some (o, e, ph) -> ph <= 1 ->
  crank (setnth k (o, e, S ph) cl) + 1 = crank cl.
Proof.
  induction cl as [|x r IH]; intros k o e ph H Hle; destruct k; simpl in *; try discriminate.
  - inversion H; subst. destruct ph as [|[|ph]]; simpl; lia.
  - rewrite <- (IH _ _ _ _ H Hle). lia.
Qed.
Lemma alloc_len : forall tb o, length (owners (fst (alloc tb o))) = S (length (owners tb)).
Proof.
  intros tb o. destruct (alloc_owners tb o) as (l1 & l2 & E1 & E2). rewrite E1, E2, !app_length. simpl. lia.
Qed.
Lemma setnth_none_len : forall tb k, length (owners (setnth k None tb)) <= length (owners tb).
Proof.
  induction tb as [|x r IH]; intros k; destruct k; simpl; auto.
  - destruct x; simpl; lia.
  - destruct x; simpl; specialize (IH k); lia.
Qed.
Lemma remove_handler_len : forall s k, length (owners (table (remove_handler s k))) <= length (owners (table s)).
Proof.
  intros s k. unfold remove_handler. destruct (nth_error (table s) k) as [[o|]|]; simpl; auto. apply setnth_none_len.
Qed.
Lemma clearo_len : forall o tb, length (owners (clearo o tb)) <= length (owners tb).
Proof. induction tb as [|x r IH]; simpl; auto. destruct x as [o'|]; simpl; auto. destruct (owner_eqb o' o); simpl; lia. Qed.
Lemma clearo_len_in : forall o tb, In o (owners tb) -> length (owners (clearo o tb)) < length (owners tb).
Proof.
  induction tb as [|x r IH]; simpl; intro H; [contradiction|]. destruct x as [o'|]; simpl in *; auto.
  destruct (owner_eqb o' o) eqn:E; simpl.
  - pose proof (clearo_len o r). unfold clearo in *. lia.
  - destruct H as [->|H]; [rewrite owner_eqb_refl in E; discriminate|]. specialize (IH H). unfold clearo in *. lia.
Qed.
Lemma enqueue_len : forall s o t x, length (q (ch (enqueue s o t) x)) <= length (q (ch s x)) + (if owner_eqb x o then 1 else 0).
Proof.
  intros s o t x. unfold enqueue. destruct (qclosed (ch s o)); simpl; [lia|].
  destruct (length (q (ch s o)) <? capacity o); simpl; [|lia].
  unfold updo. destruct (owner_eqb x o) eqn:E; [|lia]. apply owner_eqb_eq in E; subst. simpl. rewrite app_length. simpl. lia.
Qed.

Lemma sum_same : forall (f g : nat -> nat) n, (forall x, g x = f x) -> sumf g n = sumf f n.
Proof. intros; apply sumf_ext; auto. Qed.

Ltac sum_at f g k n :=
  let H := fresh "S" in
  assert (H : sumf g n + f k = sumf f n + g k);
  [apply sumf_change; [intros x Hx; unfold callw, subw, cbw; simpl; rewrite ?upd_other by assumption; try reflexivity|try assumption]|].

(* comparison of measures from the parts *)
Lemma measure_parts : forall s s' a b,
  nn s' = nn s -> mm s' = mm s -> dd s' = dd s ->
  (forall x, callw s' x = callw s x) -> (forall x, subw s' x = subw s x) -> (forall x, cbw s' x = cbw s x) ->
  procrank (proc s') + usrrank (usr s') + 3 * length (owners (table s')) + crank (closers s') + (if dead s' then 0 else 1) + a =
  procrank (proc s) + usrrank (usr s) + 3 * length (owners (table s)) + crank (closers s) + (if dead s then 0 else 1) + b ->
  measure s' + a = measure s + b.
Proof.
  intros s s' a b N1 N2 N3 H1 H2 H3 H. unfold measure. rewrite N1, N2, N3.
  rewrite (sum_same _ _ (nn s) H1), (sum_same _ _ (mm s) H2), (sum_same _ _ (dd s) H3). lia.
Qed.

Lemma measure_cp : forall s c v, c < nn s -> callrank v < callrank (cp s c) -> measure (set_cp s (upd (cp s) c v)) < measure s.
Proof.
  intros s c v Hc Hv. unfold measure; simpl.
  sum_at (callw s) (callw (set_cp s (upd (cp s) c v))) c (nn s).
  unfold callw in S at 2 4. simpl in S. rewrite upd_same in S.
  change (subw (set_cp s (upd (cp s) c v))) with (subw s). change (cbw (set_cp s (upd (cp s) c v))) with (cbw s). lia.
Qed.

Lemma measure_callq : forall s c v, measure (set_ch s (updo (ch s) (OCall c) v)) = measure s.
Proof.
  intros s c v. assert (H := measure_parts s (set_ch s (updo (ch s) (OCall c) v)) 0 0).
  assert (E : measure (set_ch s (updo (ch s) (OCall c) v)) + 0 = measure s + 0) by (apply H; auto). lia.
Qed.

Lemma subw_close_sync : forall s o x, subw (close_sync s o) x = subw s x.
Proof.
  intros s o x. unfold subw. rewrite q_close_sync. destruct (ctl_close_sync s o) as (_ & A2 & _). rewrite A2. reflexivity.
Qed.

Lemma measure_remove_handler : forall s k, measure (remove_handler s k) <= measure s.
Proof.
  intros s k. destruct (ctl_remove_handler s k) as (A1 & A2 & A3 & A4 & A5 & A6 & A7 & A8 & A9 & A10 & A11 & A12 & A13 & A14 & A15).
  pose proof (remove_handler_len s k) as L.
  set (dl := length (owners (table s)) - length (owners (table (remove_handler s k)))).
  assert (H := measure_parts s (remove_handler s k) (3 * dl) 0).
  assert (E : measure (remove_handler s k) + 3 * dl = measure s + 0).
  { apply H; auto.
    - intro x. unfold callw. rewrite A1, A8. reflexivity.
    - intro x. unfold subw. rewrite A2, q_remove_handler. reflexivity.
    - intro x. unfold cbw. rewrite A3. reflexivity.
    - rewrite A4, A5, A7, A12. unfold dl. lia. }
  lia.
Qed.

Lemma measure_call : forall s l s', Inv s -> bounded s -> step_call s l = Some s' -> measure s' < measure s.
Proof.
  intros s l s' I B H.
  assert (R : forall c, cp s c <> CIdle -> c < nn s) by (intros c Hc; apply (B (OCall c)); exact Hc).
  destruct l; simpl in H; try discriminate.
  - (* LCancel *) destruct (c <? nn s) eqn:Ec; simpl in H; try discriminate. destruct (cancelled s c) eqn:Ek; simpl in H; try discriminate.
    inversion H; subst; clear H. apply Nat.ltb_lt in Ec. unfold measure; simpl.
    sum_at (callw s) (callw (set_cancelled s (upd (cancelled s) c true))) c (nn s).
    unfold callw in S at 2 4. simpl in S. rewrite upd_same, Ek in S.
    change (subw (set_cancelled s (upd (cancelled s) c true))) with (subw s).
    change (cbw (set_cancelled s (upd (cancelled s) c true))) with (cbw s). lia.
  - (* LCallMake *)
    destruct (c <? nn s) eqn:Ec; try discriminate. apply Nat.ltb_lt in Ec. destruct (cp s c) eqn:Ep; try discriminate.
    destruct (cancelled s c) eqn:Ek.
    + inversion H; subst; clear H. apply measure_cp; auto. rewrite Ep; simpl; lia.
    + rewrite (alloc_fst_snd (table s) (OCall c)) in H. inversion H; subst; clear H. unfold measure; simpl.
      rewrite alloc_len.
      set (s' := set_cp (set_table s (fst (alloc (table s) (OCall c)))) (upd (cp s) c (CMade (snd (alloc (table s) (OCall c)))))).
      sum_at (callw s) (callw s') c (nn s).
      unfold callw in S at 2 4. simpl in S. rewrite upd_same, Ep, Ek in S. simpl in S.
      change (subw s') with (subw s). change (cbw s') with (cbw s). lia.
  - (* LCallSend *) destruct (cp s c) eqn:Ep; try discriminate. destruct (closed s); try discriminate. inversion H; subst.
    apply measure_cp; [apply R; congruence|rewrite Ep; simpl; lia].
  - (* LCallSendFail *) destruct (cp s c) eqn:Ep; try discriminate. destruct (lost s); try discriminate. inversion H; subst.
    apply measure_cp; [apply R; congruence|rewrite Ep; simpl; lia].
  - (* LCallRemove *) destruct (cp s c) eqn:Ep; try discriminate. inversion H; subst; clear H.
    destruct (ctl_remove_handler s slot) as (A1 & _ & _ & _ & _ & _ & _ & _ & A9 & _).
    eapply Nat.lt_le_trans; [apply measure_cp|apply measure_remove_handler].
    + rewrite A9. apply R; congruence.
    + rewrite A1, Ep; simpl; lia.
  - (* LCallSel *) destruct (cp s c) eqn:Ep; try discriminate.
    assert (Hc : c < nn s) by (apply R; congruence). destruct b.
    + destruct (errs s c); try discriminate. inversion H; subst; clear H.
      change (measure s) with (measure (set_errs s (upd (errs s) c false))).
      apply (measure_cp (set_errs s (upd (errs s) c false))); simpl; auto. rewrite Ep; simpl; lia.
    + destruct (q (ch s (OCall c))) as [|t r] eqn:Eq.
      * destruct (qclosed (ch s (OCall c))); try discriminate. inversion H; subst.
        apply measure_cp; auto. rewrite Ep; simpl; lia.
      * inversion H; subst; clear H.
        rewrite <- (measure_callq s c {| q := r; qclosed := qclosed (ch s (OCall c)) |}).
        apply (measure_cp (set_ch s (updo (ch s) (OCall c) {| q := r; qclosed := qclosed (ch s (OCall c)) |}))); simpl; auto.
        rewrite Ep; simpl; lia.
    + destruct (cancelled s c); try discriminate. inversion H; subst. apply measure_cp; auto. rewrite Ep; simpl; lia.
  - (* LCallCancelSend *) destruct (cp s c) eqn:Ep; try discriminate. inversion H; subst.
    apply measure_cp; [apply R; congruence|rewrite Ep; simpl; lia].
Qed.

Lemma measure_sub : forall s l s', Inv s -> bounded s -> step_sub s l = Some s' -> measure s' < measure s.
Proof.
  intros s l s' I B H.
  assert (R : forall i, sp s i <> SNone -> i < mm s) by (intros i Hi; apply (B (OSub i)); exact Hi).
  destruct l; simpl in H; try discriminate.
  - (* LSubscribe *)
    destruct (i <? mm s) eqn:Ei; try discriminate. apply Nat.ltb_lt in Ei. destruct (sp s i) eqn:Es; try discriminate.
    rewrite (alloc_fst_snd (table s) (OSub i)) in H. inversion H; subst; clear H. unfold measure; simpl. rewrite alloc_len.
    set (s' := set_sp (set_table s (fst (alloc (table s) (OSub i)))) (upd (sp s) i SLoop)).
    sum_at (subw s) (subw s') i (mm s).
    unfold subw in S at 2 4. simpl in S. rewrite upd_same, Es in S. simpl in S.
    change (callw s') with (callw s). change (cbw s') with (cbw s). lia.
  - (* LSubTake *)
    destruct (sp s i) eqn:Es; try discriminate. destruct (q (ch s (OSub i))) as [|t r] eqn:Eq; try discriminate.
    inversion H; subst; clear H. assert (Hi : i < mm s) by (apply R; congruence). unfold measure; simpl.
    set (s' := set_sp (set_ch s (updo (ch s) (OSub i) {| q := r; qclosed := qclosed (ch s (OSub i)) |}))
                      (upd (sp s) i (if mtype_eqb t TEvent then SSend else SLoop))).
    assert (S : sumf (subw s') (mm s) + subw s i = sumf (subw s) (mm s) + subw s' i).
    { apply sumf_change; auto. intros x Hx. unfold subw, s'; simpl. rewrite upd_other by assumption.
      rewrite updo_other; auto. intro E; inversion E; contradiction. }
    unfold subw in S at 2 4. unfold s' in S at 2 3. simpl in S. rewrite upd_same, updo_same, Es, Eq in S. simpl in S.
    change (callw s') with (callw s). change (cbw s') with (cbw s).
    destruct (mtype_eqb t TEvent); simpl in S; lia.
  - (* LSubClosed *)
    destruct (sp s i) eqn:Es; try discriminate. destruct (q (ch s (OSub i))) eqn:Eq; try discriminate.
    destruct (qclosed (ch s (OSub i))); try discriminate. assert (Hi : i < mm s) by (apply R; congruence).
    assert (Hev : evclosed s i = false).
    { destruct (evclosed s i) eqn:E; auto. apply (iG s I) in E. congruence. }
    rewrite Hev in H. inversion H; subst; clear H. unfold measure; simpl.
    set (s' := set_sp (set_evclosed s (upd (evclosed s) i true)) (upd (sp s) i SDone)).
    sum_at (subw s) (subw s') i (mm s).
    unfold subw in S at 2 4. simpl in S. rewrite upd_same, Es in S. simpl in S.
    change (callw s') with (callw s). change (cbw s') with (cbw s). lia.
  - (* LSubRead *)
    destruct (sp s i) eqn:Es; try discriminate. inversion H; subst; clear H. assert (Hi : i < mm s) by (apply R; congruence).
    unfold measure; simpl.
    set (s' := set_sp (set_delivered s (upd (delivered s) i (S (delivered s i)))) (upd (sp s) i SLoop)).
    sum_at (subw s) (subw s') i (mm s).
    unfold subw in S at 2 4. simpl in S. rewrite upd_same, Es in S. simpl in S.
    change (callw s') with (callw s). change (cbw s') with (cbw s). lia.
  - (* LOnDisc *)
    destruct (j <? dd s) eqn:Ej; simpl in H; try discriminate. apply Nat.ltb_lt in Ej.
    destruct (cbreg s j) eqn:Er; simpl in H; try discriminate.
    rewrite (alloc_fst_snd (table s) (OCb j)) in H. inversion H; subst; clear H. unfold measure; simpl. rewrite alloc_len.
    set (s' := set_cbreg (set_table s (fst (alloc (table s) (OCb j)))) (upd (cbreg s) j true)).
    sum_at (cbw s) (cbw s') j (dd s).
    unfold cbw in S at 2 4. simpl in S. rewrite upd_same, Er in S.
    change (callw s') with (callw s). change (subw s') with (subw s). lia.
Qed.

Lemma measure_parts_le : forall s s' a b d,
  nn s' = nn s -> mm s' = mm s -> dd s' = dd s ->
  (forall x, callw s' x = callw s x) -> sumf (subw s') (mm s) <= sumf (subw s) (mm s) + d -> (forall x, cbw s' x = cbw s x) ->
  procrank (proc s') + usrrank (usr s') + 3 * length (owners (table s')) + crank (closers s') + (if dead s' then 0 else 1) + a + d <=
  procrank (proc s) + usrrank (usr s) + 3 * length (owners (table s)) + crank (closers s) + (if dead s then 0 else 1) + b ->
  measure s' + a <= measure s + b.
Proof.
  intros s s' a b d N1 N2 N3 H1 H2 H3 H. unfold measure. rewrite N1, N2, N3.
  rewrite (sum_same _ _ (nn s) H1), (sum_same _ _ (dd s) H3). lia.
Qed.

Lemma measure_ep : forall s l s', Inv s -> step_ep s l = Some s' -> (forall m, l <> LPeerMsg m) -> measure s' < measure s.
Proof.
  intros s l s' I H NP. destruct l; simpl in H; try discriminate.
  - (* LConnDie *) destruct (dead s) eqn:Ed; inversion H; subst; clear H.
    assert (E : measure (set_dead s true) + 1 = measure s + 0) by (apply measure_parts; auto; simpl; rewrite Ed; lia). lia.
  - exfalso. eapply NP; eauto.
  - (* LReadFail *) destruct (proc s) eqn:Ep; try discriminate. destruct (lost s); inversion H; subst; clear H.
    assert (E : measure (set_proc s PFail) + 1 = measure s + 0) by (apply measure_parts; auto; simpl; rewrite Ep; simpl; lia). lia.
  - (* LDispatch *)
    destruct (proc s) eqn:Ep; try discriminate. destruct (disp m (table s) s) as [tb s1] eqn:Ed. inversion H; subst; clear H.
    assert (NDt : NoDup (owners (table s))).
    { pose proof (iB s I) as B. unfold ALL in B. clear - B. induction (cowners (closers s)); simpl in *; auto. inversion B; auto. }
    assert (NoM : (forall o1, In o1 (owners (table s)) -> matches o1 m = false) -> measure (set_proc (set_table s1 tb) PRead) < measure s).
    { intro Hn. rewrite disp_nomatch in Ed by assumption. inversion Ed; subst.
      assert (E : measure (set_proc (set_table s1 (table s1)) PRead) + 4 = measure s1 + 0) by (apply measure_parts; auto; simpl; rewrite Ep; simpl; lia). lia. }
    destruct m as [o t|].
    2:{ apply NoM. intros o1 _. destruct o1; reflexivity. }
    destruct (in_dec owner_dec o (owners (table s))) as [Hin|Hnin].
    2:{ apply NoM. intros o1 H1. destruct (matches o1 (MFor o t)) eqn:E; auto.
        destruct (matches_target _ _ E) as [t' Et]. inversion Et; subst. contradiction. }
    destruct (matches o (MFor o t)) eqn:HM.
    2:{ apply NoM. intros o1 H1. destruct (matches o1 (MFor o t)) eqn:E; auto.
        destruct (matches_target _ _ E) as [t' Et]. inversion Et; subst. congruence. }
    rewrite (disp_match o t (table s) s NDt Hin HM) in Ed.
    destruct (ctl_enqueue s o t) as (A1 & A2 & A3 & A4 & A5 & A6 & A7 & A8 & A9 & A10 & A11 & A12 & A13 & A14 & A15).
    assert (Hsub : sumf (subw (enqueue s o t)) (mm s) <= sumf (subw s) (mm s) + 3).
    { destruct o as [c|i|j].
      - rewrite (sum_same (subw s)); [lia|]. intro x. unfold subw. rewrite A2.
        pose proof (q_enqueue_other s (OCall c) t (OSub x)) as Q. rewrite Q; auto. discriminate.
      - destruct (lt_dec i (mm s)) as [Hi|Hi].
        + assert (S : sumf (subw (enqueue s (OSub i) t)) (mm s) + subw s i = sumf (subw s) (mm s) + subw (enqueue s (OSub i) t) i).
          { apply sumf_change; auto. intros x Hx. unfold subw. rewrite A2. rewrite q_enqueue_other; auto. intro E; inversion E; contradiction. }
          pose proof (enqueue_len s (OSub i) t (OSub i)) as L. rewrite owner_eqb_refl in L.
          unfold subw in S at 2 4. rewrite A2 in S. lia.
        + rewrite (sumf_ext (subw s)); [lia|]. intros x Hx. unfold subw. rewrite A2.
          rewrite q_enqueue_other; auto. intro E; inversion E; subst; contradiction.
      - rewrite (sum_same (subw s)); [lia|]. intro x. unfold subw. rewrite A2.
        rewrite q_enqueue_other; auto. discriminate. }
    assert (Hcall : forall x, callw (enqueue s o t) x = callw s x) by (intro x; unfold callw; rewrite A1, A8; reflexivity).
    assert (Hcb : forall x, cbw (enqueue s o t) x = cbw s x) by (intro x; unfold cbw; rewrite A3; reflexivity).
    destruct (keeps o (MFor o t)); inversion Ed; subst; clear Ed.
    + assert (E : measure (set_proc (set_table (enqueue s o t) (table s)) PRead) + 1 <= measure s + 0).
      { apply (measure_parts_le _ _ 1 0 3); simpl; auto.
        rewrite A13, A5, A7, Ep. simpl. lia. }
      lia.
    + pose proof (clearo_len_in o (table s) Hin) as L.
      destruct (ctl_close_sync (enqueue s o t) o) as (C1 & C2 & C3 & C4 & C5 & C6 & C7 & C8 & C9 & C10 & C11 & C12 & C13 & C14 & C15).
      assert (E : measure (set_proc (set_table (close_sync (enqueue s o t) o) (clearo o (table s))) PRead) + 1 <= measure s + 0).
      { apply (measure_parts_le _ _ 1 0 3); simpl; try congruence.
        - intro x. unfold callw; simpl. rewrite C1, C8. apply Hcall.
        - rewrite (sum_same (subw (enqueue s o t))); auto. intro x. apply subw_close_sync.
        - intro x. unfold cbw; simpl. rewrite C3. apply Hcb.
        - rewrite C13, C5, C7, A13, A5, A7, Ep. simpl. lia. }
      lia.
  - (* LProcClose1 *) destruct (proc s) eqn:Ep; try discriminate. inversion H; subst; clear H.
    assert (E : measure (set_proc (set_closed s true) PClosing) + 1 = measure s + 0) by (apply measure_parts; auto; simpl; rewrite Ep; simpl; lia). lia.
  - (* LProcClose2 *) destruct (proc s) eqn:Ep; try discriminate. inversion H; subst; clear H.
    assert (E : measure (set_proc (spawn_all s true) PDone) + (1 + length (owners (table s))) = measure s + 0).
    { apply measure_parts; auto. unfold spawn_all; simpl. rewrite owners_map_none, crank_app, crank_spawned, Ep. simpl. lia. }
    lia.
  - (* LUserClose1 *) destruct (usr s) eqn:Eu; try discriminate. inversion H; subst; clear H.
    assert (E : measure (set_usr (set_closed s true) UMid) + 1 = measure s + 0) by (apply measure_parts; auto; simpl; rewrite Eu; simpl; lia). lia.
  - (* LUserClose2 *) destruct (usr s) eqn:Eu; try discriminate. inversion H; subst; clear H.
    assert (E : measure (set_usr (spawn_all s false) UFin) + (1 + length (owners (table s))) = measure s + 0).
    { apply measure_parts; auto. unfold spawn_all; simpl. rewrite owners_map_none, crank_app, crank_spawned, Eu. simpl. lia. }
    lia.
  - (* LCloserStep *)
    destruct (nth_error (closers s) k) as [[[o e] ph]|] eqn:Ek; try discriminate.
    destruct ph as [|[|ph]]; try discriminate.
    + destruct (run_closer s o e) as [s1|] eqn:Er; try discriminate. inversion H; subst; clear H.
      destruct (ctl_run_closer _ _ _ _ Er) as (A1 & A2 & A3 & A4 & A5 & A6 & A7 & A8 & A9 & A10 & A11 & A12 & A13 & A14 & A15).
      pose proof (ch_run_closer _ _ _ _ Er) as CH.
      assert (E : measure (set_closers s1 (setnth k (o, e, 1) (closers s1))) + 1 = measure s + 0).
      { apply measure_parts; simpl; auto.
        - intro x. unfold callw. simpl. rewrite A1, A8. reflexivity.
        - intro x. unfold subw. simpl. rewrite A2, CH. reflexivity.
        - intro x. unfold cbw. simpl. rewrite A3. reflexivity.
        - rewrite A4, A5, A7, A12, A13. pose proof (crank_setnth _ _ _ _ _ Ek (Nat.le_0_l 1)). lia. }
      lia.
    + inversion H; subst; clear H.
      destruct (ctl_close_chan s o) as (A1 & A2 & A3 & A4 & A5 & A6 & A7 & A8 & A9 & A10 & A11 & A12 & A13 & A14 & A15).
      assert (E : measure (set_closers (close_chan s o) (setnth k (o, e, 2) (closers (close_chan s o)))) + 1 = measure s + 0).
      { apply measure_parts; simpl; auto.
        - intro x. unfold callw. simpl. rewrite A1, A8. reflexivity.
        - intro x. unfold subw. simpl. rewrite A2, q_close_chan. reflexivity.
        - intro x. unfold cbw. simpl. rewrite A3. reflexivity.
        - rewrite A4, A5, A7, A12, A13. pose proof (crank_setnth _ _ _ _ _ Ek (le_n 1)). lia. }
      lia.
Qed.


Lemma measure_step : forall s l s', Inv s -> bounded s -> step s l = Some s' -> (forall m, l <> LPeerMsg m) ->
  measure s' < measure s.
Proof.
  intros s l s' I B H NP. unfold step in H. destruct (panicked s); try discriminate.
  destruct l; eauto using measure_call, measure_sub, measure_ep.
Qed.

Lemma lost_no_peer : forall s m, lost s = true -> step s (LPeerMsg m) = None.
Proof.
  intros s m Hl. unfold step. destruct (panicked s); auto. simpl. destruct (proc s); auto. rewrite Hl. reflexivity.
Qed.

(* once the connection is lost, every schedule is at most [measure s] labels long *)
Lemma lost_run_bounded : forall tr s s', Inv s -> bounded s -> lost s = true -> run tr s = Some s' ->
  length tr + measure s' <= measure s.
Proof.
  induction tr as [|l r IH]; intros s s' I B Hl H; simpl in H.
  - inversion H; subst. simpl. lia.
  - destruct (step s l) as [s1|] eqn:E; try discriminate.
    assert (NP : forall m, l <> LPeerMsg m).
    { intros m ->. rewrite lost_no_peer in E by assumption. discriminate. }
    pose proof (measure_step s l s1 I B E NP) as M.
    destruct (step_mono _ _ _ E) as (_ & _ & _ & ML & _).
    specialize (IH s1 s' (inv_step _ _ _ I E) (bounded_step _ _ _ B E) (ML Hl) H). simpl. lia.
Qed.

Lemma reachable_bounded : forall s, reachable s -> bounded s.
Proof. intros s (n & m & d & tr & H). eapply bounded_run; eauto using bounded_init. Qed.

Lemma sumf_const : forall k n, sumf (fun _ => k) n = n * k.
Proof. induction n; simpl; auto. rewrite IHn. lia. Qed.
Lemma measure_init : forall n m d, measure (init n m d) = 10 * n + 5 * m + 4 * d + 6.
Proof.
  intros. unfold measure, callw, subw, cbw; simpl. rewrite !sumf_const. lia.
Qed.

(* a call takes at most three steps of its own after its handler is made *)
Lemma call_own_steps : forall s l s' c, step s l = Some s' ->
  (l = LCallSend c \/ l = LCallSendFail c \/ l = LCallRemove c \/ (exists b, l = LCallSel c b) \/ l = LCallCancelSend c) ->
  callrank (cp s' c) < callrank (cp s c) /\ callrank (cp s c) <= 5.
Proof.
  intros s l s' c H Hl. unfold step in H. destruct (panicked s); try discriminate.
  destruct Hl as [ -> | [ -> | [ -> | [ [b -> ] | -> ] ] ] ]; simpl in H.
  - destruct (cp s c) eqn:E; try discriminate. destruct (closed s); inversion H; subst; simpl. rewrite upd_same. simpl; lia.
  - destruct (cp s c) eqn:E; try discriminate. destruct (lost s); inversion H; subst; simpl. rewrite upd_same. simpl; lia.
  - destruct (cp s c) eqn:E; try discriminate. inversion H; subst; simpl. rewrite upd_same. simpl; lia.
  - destruct (cp s c) eqn:E; try discriminate. destruct b.
    + destruct (errs s c); inversion H; subst; simpl. rewrite upd_same. simpl; lia.
    + destruct (q (ch s (OCall c))); [destruct (qclosed (ch s (OCall c)))|]; inversion H; subst; simpl; rewrite upd_same; simpl; lia.
    + destruct (cancelled s c); inversion H; subst; simpl. rewrite upd_same. simpl; lia.
  - destruct (cp s c) eqn:E; try discriminate. inversion H; subst; simpl. rewrite upd_same. simpl; lia.
Qed.

(* dispatch never waits: with a message in hand the reader completes dispatch in one step, lost
   connection or not (the Error message it may write for a blocked consumer is part of the step
   and its result is discarded) *)
Lemma dispatch_enabled : forall s m, panicked s = false -> proc s = PHave m ->
  exists s', step s LDispatch = Some s' /\ proc s' = PRead.
Proof.
  intros s m Hp H. unfold step. rewrite Hp. simpl. rewrite H.
  destruct (disp m (table s) s) as [tb s']. eexists; split; reflexivity.
Qed.
