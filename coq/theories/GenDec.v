(* GenDec.v — decoders generated from signatures (meta/signature/type.go Unmarshal templates,
   type/object/metaobject_gen.go, bus/services/proxy_gen.go) and the hand-written capability-map
   reader (bus/authenticate.go ReadCapabilityMap). *)
From QV Require Export Value.
Local Open Scope N_scope.

Definition capabilityMapSizeMax : N := 4096.

Definition ty_ServiceInfo := TStruct "ServiceInfo"
  [("name", TS SStr); ("serviceId", TS SU32); ("machineId", TS SStr); ("processId", TS SU32);
   ("endpoints", TList (TS SStr)); ("sessionId", TS SStr); ("objectUid", TS SStr)]%string.

Section WithParse.
  Variable parse : string -> option ty.
  Variable c : wcfg.

  (* generated Unmarshal code reads exactly the documented format; the types it is generated
     for contain no dynamic value, hence no fuel *)
  Definition gen_dec (t : ty) (bs : bytes) : res (tval * bytes) := spec_dec parse 0 t bs.

  (* ReadCapabilityMap: count (<= 4096), then (string key, dynamic value) pairs *)
  Definition dec_capmap (bs : bytes) : res (list (bytes * dval) * bytes) :=
    do '(n, r) <- read_num 4 bs;
    if capabilityMapSizeMax <? n then RErr r
    else rep (pair_with read_str (new_value parse c)) n r.
End WithParse.
