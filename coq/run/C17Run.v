(* C17Run.v — executable comparison of Endpoint.v with what a real endPoint did.
   A case is an operation sequence with the value each operation returned on the
   implementation, and the final observation of every handler the harness made. *)
From QV Require Import Reader Message Endpoint.
From Coq Require Import String.
Local Open Scope N_scope.

(* scripted filters of the harness *)
Inductive fdesc :=
| FTab (tab : list (bool * bool))          (* answer by the message's Action; (false, true) outside the table *)
| FAfter (k : N) (a b : bool * bool).      (* the first k consultations answer a, later ones b *)

Definition mk_filter (d : fdesc) : filter :=
  fun seen h =>
    match d with
    | FTab tab => nth (N.to_nat (h_action h)) tab (false, true)
    | FAfter k a b => if N.of_nat (List.length seen) <? k then a else b
    end.

(* type, service, object, action, id, payload *)
Definition omsg := (N * N * N * N * N * string)%type.
Definition msg_of (o : omsg) : msg :=
  let '(t, sv, ob, ac, id, p) := o in
  let pl := unhex p in
  {| m_header := {| h_magic := Magic; h_id := id; h_size := N.of_nat (List.length pl); h_version := Version;
                    h_type := t; h_flags := 0; h_service := sv; h_object := ob; h_action := ac |};
     m_payload := pl |}.

Inductive oop :=
| OMake (f : fdesc) (fre : bool) (cl : N) (cap : N) (got : N)   (* cl: 0 nil closer, 1 closer, 2 closer that re-enters the endpoint *)
| ORemove (id : Z) (ok : bool)
| OMsg (m : omsg) (dret : N)         (* 0 nil, 1 ErrNoMatch, 2 ErrConsumerBlocked, 3 ErrNoHandler, 9 not observed *)
| OCloseAll (err : bool) (byproc : bool)
| OGoCloser (hid : N)
| OGoClose (hid : N)
| ORecv (hid : N) (id : N)
| OMakes (f : fdesc) (fre : bool) (cl : N) (cap : N) (from : N) (k : N)
                                     (* k consecutive OMake with the same arguments; they returned from, from+1, ..., from+k-1
                                        (how the harness writes the fill of a large table) *)
| OGoRange (from : N) (k : N)        (* OGoCloser hid; OGoClose hid for hid = from, ..., from+k-1 *)
| OFault (wmode : N).                (* the harness-owned stream changes the way it answers Write (no label of the endpoint):
                                        0 healthy, 1 (0, closed pipe), 2 (7, error), 3 (0, EOF), 4 (0, nil), 5 five bytes per call,
                                        6 (len, EOF), 7 blocks until the stream is closed, then (0, closed pipe) *)

(* closer calls, class of the closer's argument (0 never called, 1 nil, 2 error), queue closed, ids received *)
Definition hobs := (N * N * bool * list N)%type.
(* the two most frequent observations, by name (case files are read at ~20k characters/s) *)
Definition hc1 : hobs := (1, 1, true, []).   (* closer called once with nil, queue closed, nothing received *)
Definition hc0 : hobs := (0, 0, true, []).   (* no closer, queue closed, nothing received *)

(* run-length forms written out *)
Fixpoint makes_seq (f : fdesc) (fre : bool) (cl cap from : N) (k : nat) : list oop :=
  match k with
  | O => []
  | S k' => OMake f fre cl cap from :: makes_seq f fre cl cap (from + 1) k'
  end.
Fixpoint go_seq (from : N) (k : nat) : list oop :=
  match k with
  | O => []
  | S k' => OGoCloser from :: OGoClose from :: go_seq (from + 1) k'
  end.
Definition expand1 (o : oop) : list oop :=
  match o with
  | OMakes f fre cl cap from k => makes_seq f fre cl cap from (N.to_nat k)
  | OGoRange from k => go_seq from (N.to_nat k)
  | _ => [o]
  end.
Definition expand (ops : list oop) : list oop := flat_map expand1 ops.

Record ocase := {
  c_ops : list oop;
  c_end : N;                 (* 0: all operations returned; 1: the last one panicked; 2: the last one never returned *)
  c_hs : list hobs;
  c_sent : list string;      (* frames the endpoint handed to the stream's Write, whatever Write answered *)
  c_wire : string;           (* bytes the stream accepted (what the peer received) *)
  c_sclose : N               (* stream.Close() calls *)
}.

Definition label_of (o : oop) : label :=
  match o with
  | OMake f fre cl cap _ =>
      LMake (mk_filter f) fre (match cl with 0 => None | 1 => Some false | _ => Some true end) (N.to_nat cap)
  | ORemove id _ => LRemove id
  | OMsg m _ => LDispatch (msg_of m)
  | OCloseAll err byproc => LCloseAll (if err then CErr else CNil) byproc
  | OGoCloser hid => LGoCloser (N.to_nat hid)
  | OGoClose hid => LGoClose (N.to_nat hid)
  | ORecv hid _ => LRecv (N.to_nat hid)
  | OFault _ => LRemove (-1)          (* not used: replay skips OFault *)
  | OMakes _ _ _ _ _ _ | OGoRange _ _ => LRemove (-1)   (* not used: case_ok expands them; ret_ok rejects them *)
  end.

Definition dcode (d : dres) : N := match d with DNil => 0 | DNoMatch => 1 | DBlocked => 2 | DNoHandler => 3 end.

(* does the value the model returns agree with the observed one?  [s] is the state before the step *)
Definition ret_ok (s : state) (o : oop) (r : ret) : bool :=
  match o, r with
  | OMake _ _ _ _ got, RId i => N.of_nat i =? got
  | ORemove _ ok, ROk => ok
  | ORemove _ ok, RInvalid => negb ok
  | OMsg _ d, RDisp x => (d =? 9) || (d =? dcode x)
  | OCloseAll _ _, RNone => true
  | OGoCloser _, RNone => true
  | OGoClose _, RNone => true
  | ORecv hid id, RNone =>
      match nth_error (st_hs s) (N.to_nat hid) with
      | Some h => match h_buf h with m :: _ => h_id (m_header m) =? id | [] => false end
      | None => false
      end
  | _, _ => false
  end.

(* what the harness-owned stream accepts of one frame under write fault [wmode] (basic.WriteN gives up at the
   first error or call without progress) *)
Definition wire_part (wmode : N) (b : bytes) : bytes :=
  match wmode with
  | 0 | 5 | 6 => b
  | 2 => firstn 7%nat b
  | _ => []
  end.

(* 0 ran to the end, 1 panic at the last operation, 2 deadlock at the last operation, 3 disagreement.
   The write fault in force does not influence the endpoint's steps (dispatch ignores what Send returns):
   it only decides which part of the frames handed to Send reaches the wire. *)
Fixpoint replay (s : state) (wmode : N) (wire : bytes) (ops : list oop) : N * state * bytes :=
  match ops with
  | [] => (0, s, wire)
  | OFault m :: r => replay s m wire r
  | o :: r =>
      match step s (label_of o) with
      | Run s' x =>
          if ret_ok s o x then
            let fresh := skipn (List.length (st_sent s)) (st_sent s') in
            replay s' wmode (wire ++ List.concat (map (fun m => wire_part wmode (enc_msg m)) fresh)) r
          else (3, s, wire)
      | Panic _ => match r with [] => (1, s, wire) | _ => (3, s, wire) end
      | Deadlock => match r with [] => (2, s, wire) | _ => (3, s, wire) end
      | Disabled => (3, s, wire)
      end
  end.

Definition eqb_listN (a b : list N) : bool :=
  (Nat.eqb (List.length a) (List.length b)) && forallb (fun p => fst p =? snd p) (combine a b).

Fixpoint closer_arg (l : list hev) : N :=
  match l with
  | [] => 0
  | HCloser CNil :: _ => 1
  | HCloser CErr :: _ => 2
  | _ :: r => closer_arg r
  end.

Definition hobs_ok (h : handler) (o : hobs) : bool :=
  let '(cc, ca, qc, ids) := o in
  (N.of_nat (closer_calls (h_log h)) =? cc) && (closer_arg (h_log h) =? ca) &&
  Bool.eqb (h_closed h) qc && (N.of_nat (queue_closes (h_log h)) =? (if qc then 1 else 0)) &&
  eqb_listN (map (fun m => h_id (m_header m)) (h_recvd h ++ h_buf h)) ids.

Fixpoint all2 {A B} (f : A -> B -> bool) (a : list A) (b : list B) : bool :=
  match a, b with
  | [], [] => true
  | x :: a', y :: b' => f x y && all2 f a' b'
  | _, _ => false
  end.

(* the bytes the endpoint wrote on the stream (whatever the number of Write calls they came in) *)
Definition sent_ok (ms : list msg) (fs : list string) : bool :=
  eqb_bytes (List.concat (map enc_msg ms)) (List.concat (map unhex fs)).

Definition case_ok (c : ocase) : bool :=
  let '(e, s, wire) := replay init 0 [] (expand (c_ops c)) in
  (e =? c_end c) &&
  (if e =? 0 then all2 hobs_ok (st_hs s) (c_hs c) && sent_ok (st_sent s) (c_sent c) &&
                  eqb_bytes wire (unhex (c_wire c)) &&
                  (N.of_nat (st_sclose s) =? c_sclose c)
   else true).

Fixpoint bad_idx {A} (f : A -> bool) (l : list A) (i : nat) : list nat :=
  match l with
  | [] => []
  | x :: r => if f x then bad_idx f r (S i) else i :: bad_idx f r (S i)
  end.

Definition mismatches (cs : list ocase) : list nat := bad_idx case_ok cs 0.
