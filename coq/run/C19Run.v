(* C19Run.v — executable comparison of Session.v with what the real session did in a forced
   scenario.  Evaluated by vm_compute on case files written by the Go harness (qv C19). *)
From Coq Require Import List Arith Bool String.
From QV Require Import Session SessionLife SessionView Facts.
Import ListNotations.

(* one scenario run in a child process.
   sc_eps: for each goroutine the endpoint index of the service it asks for (its service has
   that single address); sc_warm: goroutines (by index) that run to completion, one after the
   other, before the others start; the others are all held between their first lookup and the
   end of their dial (the harness listeners delay the authentication reply until all of them
   are connected), then run.
   Observed: whether the process died of the runtime's fatal error; per goroutine the identity
   class of the client it got (None: not observed / error); per endpoint the number of
   connections accepted and the number still open at the end. *)
Record scase := { sc_eps : list nat; sc_warm : list nat;
                  sc_fatal : bool; sc_ids : list (option nat);
                  sc_accepted : list nat; sc_open : list nat }.

(* run thread i alone until it has returned (at most fuel steps); dials pick its address *)
Fixpoint run_thread (fuel : nat) (a : nat) (s : st) (i : nat) : outcome :=
  match fuel with
  | O => Run s
  | S f =>
      match nth_error (st_thr s) i with
      | Some t =>
          match t_res t with
          | Running => match step s (i, Some a) with Run s' => run_thread f a s' i | o => o end
          | _ => Run s
          end
      | None => Stuck
      end
  end.

Fixpoint run_steps (n : nat) (a : nat) (s : st) (i : nat) : outcome :=
  match n with
  | O => Run s
  | S m => match step s (i, Some a) with Run s' => run_steps m a s' i | o => o end
  end.

Definition bind (o : outcome) (f : st -> outcome) : outcome := match o with Run s => f s | x => x end.

Fixpoint seq_threads (f : st -> nat -> outcome) (is : list nat) (s : st) : outcome :=
  match is with
  | [] => Run s
  | i :: r => bind (f s i) (seq_threads f r)
  end.

Definition addr_of (eps : list nat) (i : nat) : nat := nth i eps 0.

(* the forced schedule: warm threads one after the other to completion; then every other thread
   up to and including its dial (5 instructions when the first lookup misses; a thread whose
   lookup hits simply finishes earlier and further labels for it are skipped); then each of them
   to completion in index order *)
Definition fuel := 40.
Definition held (c : scase) : list nat :=
  filter (fun i => negb (existsb (Nat.eqb i) (sc_warm c))) (seq 0 (List.length (sc_eps c))).
Definition upto_dial (eps : list nat) (s : st) (i : nat) : outcome :=
  (* len test, RLock, lookup, RUnlock, dial — stop early if the call has returned *)
  (fix go (n : nat) (s : st) : outcome :=
     match n with
     | O => Run s
     | S m => match nth_error (st_thr s) i with
              | Some t => match t_res t with
                          | Running => match step s (i, Some (addr_of eps i)) with Run s' => go m s' | o => o end
                          | _ => Run s
                          end
              | None => Stuck
              end
     end) 5 s.
Definition model_run (cf : cfg) (c : scase) : outcome :=
  let eps := sc_eps c in
  let s0 := init cf (map (fun a => [a]) eps) in
  bind (seq_threads (fun s i => run_thread fuel (addr_of eps i) s i) (sc_warm c) s0) (fun s1 =>
  bind (seq_threads (upto_dial eps) (held c) s1) (fun s2 =>
  seq_threads (fun s i => run_thread fuel (addr_of eps i) s i) (held c) s2)).

Definition count_sel (s : st) (a : nat) (only_open : bool) : nat :=
  List.length (filter (fun it : nat * thread =>
                         match t_sel (snd it) with
                         | Some b => (b =? a) && (negb only_open || mem (fst it) (s_open (st_sh s)))
                         | None => false
                         end) (combine (seq 0 (List.length (st_thr s))) (st_thr s))).

Fixpoint list_eqb_nat (a b : list nat) : bool :=
  match a, b with
  | [], [] => true
  | x :: a', y :: b' => (x =? y) && list_eqb_nat a' b'
  | _, _ => false
  end.

(* observed identity classes agree with the model's clients: two goroutines whose identity was
   observed got the same client iff the model says so *)
Definition ids_ok (s : st) (ids : list (option nat)) : bool :=
  let rs := map t_res (st_thr s) in
  let both := combine ids rs in
  forallb (fun p : option nat * tresult =>
             forallb (fun q : option nat * tresult =>
                        match fst p, fst q, snd p, snd q with
                        | Some x, Some y, Returned c1, Returned c2 => Bool.eqb (x =? y) (c1 =? c2)
                        | Some _, _, r, _ => match r with Returned _ => true | _ => false end
                        | _, _, _, _ => true
                        end) both) both.

Definition nendpoints (c : scase) : nat := List.length (sc_accepted c).

Definition case_ok (cf : cfg) (c : scase) : bool :=
  match model_run cf c with
  | Fatal => sc_fatal c
  | Stuck => false
  | Run s =>
      negb (sc_fatal c) && all_done s && ids_ok s (sc_ids c) &&
      list_eqb_nat (map (fun a => count_sel s a false) (seq 0 (nendpoints c))) (sc_accepted c) &&
      list_eqb_nat (map (fun a => count_sel s a true) (seq 0 (nendpoints c))) (sc_open c)
  end.

(* ---------- lives: bursts of requests interleaved with losses of pooled connections ---------- *)

(* a phase of a life.
   PBurst eps sequential: one request per entry of eps (the endpoint its service lives behind AT
   THAT MOMENT: a service that moved shows up with its new endpoint); sequential: the requests run
   one after the other; otherwise they are all held between their first lookup and the end of their
   dial and then released, like the requests of an scase.
   PLose a: the pooled connection to endpoint a is lost and the session has noticed it (the
   harness waits until the closer has run).
   After each phase the harness records, per endpoint, the connections accepted so far, the
   connections still open and whether the pool holds a client for it. *)
(* PRegs ops: a burst of changes of the directory, microseconds apart (RAdd s e g: service s
   becomes ready behind endpoint e, its g-th registration; RDel s: it is removed), while the session
   refreshes its list; then the directory stays quiet and the harness records the session's list
   (lo_view: service -> (endpoint, registration count)) once it matches, or 3 s later.  The pool is
   not touched.  lc_view0: the services registered when the session was created. *)
Inductive rop := RAdd (s e g : nat) | RDel (s : nat).
Inductive lphase := PBurst (eps : list nat) (sequential : bool) | PLose (a : nat) | PRegs (ops : list rop).
Record lobs := { lo_accepted : list nat; lo_open : list nat; lo_pooled : list bool; lo_view : dir }.
Record lcase := { lc_fatal : bool; lc_view0 : dir; lc_phases : list (lphase * lobs); lc_ids : list (option nat) }.

Definition upto_dial_at (a : nat) (s : st) (i : nat) : outcome :=
  (fix go (n : nat) (s : st) : outcome :=
     match n with
     | O => Run s
     | S m => match nth_error (st_thr s) i with
              | Some t => match t_res t with
                          | Running => match step s (i, Some a) with Run s' => go m s' | o => o end
                          | _ => Run s
                          end
              | None => Stuck
              end
     end) 5 s.

Definition burst_run (cf : cfg) (eps : list nat) (sequential : bool) (s : st) : outcome :=
  let n := List.length (st_thr s) in
  bind (lstep cf s (LSpawn (map (fun a => [a]) eps))) (fun s0 =>
  let is := seq n (List.length eps) in
  let addr := fun i => nth (i - n) eps 0 in
  let finish := seq_threads (fun s i => run_thread fuel (addr i) s i) is in
  if sequential then finish s0
  else bind (seq_threads (fun s i => upto_dial_at (addr i) s i) is s0) finish).

Definition phase_run (cf : cfg) (p : lphase) (s : st) : outcome :=
  match p with
  | PBurst eps sequential => burst_run cf eps sequential s
  | PLose a => lstep cf s (LLose a)
  | PRegs _ => Run s
  end.

Fixpoint list_eqb_bool (a b : list bool) : bool :=
  match a, b with
  | [], [] => true
  | x :: a', y :: b' => Bool.eqb x y && list_eqb_bool a' b'
  | _, _ => false
  end.

Definition obs_ok (s : st) (o : lobs) : bool :=
  let es := seq 0 (List.length (lo_accepted o)) in
  list_eqb_nat (map (fun a => count_sel s a false) es) (lo_accepted o) &&
  list_eqb_nat (map (fun a => count_sel s a true) es) (lo_open o) &&
  list_eqb_bool (map (fun a => match lookup a (s_pool (st_sh s)) with Some _ => true | None => false end) es) (lo_pooled o).

(* runs the phases; the observations are compared after every phase (not when the process died:
   then there are none).  None: some observation differs *)
Fixpoint life_go (cf : cfg) (cmp : bool) (ps : list (lphase * lobs)) (s : st) : option outcome :=
  match ps with
  | [] => Some (Run s)
  | (p, o) :: r =>
      match phase_run cf p s with
      | Run s' => if negb cmp || (all_done s' && obs_ok s' o) then life_go cf cmp r s' else None
      | x => Some x
      end
  end.

(* ---------- the session's view of the directory along a life (SessionView.v) ---------- *)

Definition apply_rop (d : dir) (o : rop) : dir :=
  match o with RAdd s e g => dir_add s (e, g) d | RDel s => dir_del s d end.

Definition vbind (o : option vst) (f : vst -> option vst) : option vst := match o with Some s => f s | None => None end.

Fixpoint changes (ops : list rop) (v : vst) : option vst :=
  match ops with
  | [] => Some v
  | o :: r => vbind (vstep loop_prog v (VChange (apply_rop (v_dir v) o))) (changes r)
  end.

(* the burst as the machine sees it: the first change, its signal is delivered, the loop takes it and
   sends its Services() call, the directory answers; every further change happens after that
   snapshot, its signal travels behind the reply; then the directory is silent (`settle`).  By
   SessionViewProofs.view_quiescent the list at quiescence does not depend on this choice. *)
Definition view_fuel := 200.
Definition regs_run (ops : list rop) (v : vst) : option vst :=
  match ops with
  | [] => Some v
  | o :: r =>
      vbind (changes [o] v) (fun v1 =>
      vbind (vexec loop_prog v1 [VDeliver; VLoop; VLoop; VAnswer]) (fun v2 =>
      vbind (changes r v2) (settle loop_prog view_fuel)))
  end.

Fixpoint view_go (ps : list (lphase * lobs)) (v : vst) : bool :=
  match ps with
  | [] => true
  | (PRegs ops, o) :: r =>
      match regs_run ops v with
      | Some v' => quiet v' && dir_eqb (v_list v') (v_dir v') && dir_eqb (v_list v') (lo_view o) && view_go r v'
      | None => false
      end
  | _ :: r => view_go r v
  end.

Definition lcase_ok (cf : cfg) (c : lcase) : bool :=
  match life_go cf (negb (lc_fatal c)) (lc_phases c) linit with
  | Some Fatal => lc_fatal c
  | Some (Run s) => negb (lc_fatal c) && all_done s && ids_ok s (lc_ids c) && view_go (lc_phases c) (vinit (lc_view0 c))
  | _ => false
  end.

Fixpoint bad_idx {A} (f : A -> bool) (l : list A) (i : nat) : list nat :=
  match l with
  | [] => []
  | x :: r => if f x then bad_idx f r (S i) else i :: bad_idx f r (S i)
  end.

Fixpoint list_eqb_str (a b : list string) : bool :=
  match a, b with
  | [], [] => true
  | x :: a', y :: b' => String.eqb x y && list_eqb_str a' b'
  | _, _ => false
  end.

(* what the source text says about the switch *)
Definition source_says_defect : bool := list_eqb_str f_session_client (render (prog cfg_pinned)).

(* what the source text says about the refresh loop *)
Definition source_loop_is_model : bool := list_eqb_str f_session_update_loop (render_loop loop_prog).

Definition mismatches (cf : cfg) (cs : list scase) (ls : list lcase) : list nat * list nat * list nat :=
  (bad_idx (case_ok cf) cs 0,
   bad_idx (lcase_ok cf) ls 0,
   (if Bool.eqb (runlock_after_lock cf) source_says_defect then [] else [0]) ++
   (if source_loop_is_model then [] else [1])).
