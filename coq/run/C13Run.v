(* C13Run.v — executable comparison of Signals.v with what the implementation did.
   A case is the label sequence the driver of `qv C13` performed on the real code together with
   what it observed; the model replays the labels (every one must be enabled) and the projections
   of its final state must equal the observation; the final state must be quiescent, as the
   implementation's was. *)
From QV Require Import Signals.
Local Open Scope N_scope.

Record kcase := {
  k_labels : list label;
  k_subs : list (N * list N);              (* per subscriber: state code, payloads read *)
  k_down : list (list (N * N * N * N));    (* per connection: frames written by the object: type, action, id, payload *)
  k_up : list (list (N * N * N * N));      (* per connection: calls of SubscribeID: action, id, signal, handler id *)
  k_dead : bool }.                         (* a request of the run was never answered *)

Definition pc_code (p : pc) : N :=
  match p with
  | PInstalled | PNeedReg | PWaitReg _ => 0
  | PAcked => 1
  | PClosed => 2
  | PFailed => 3
  | PNeedUnreg | PWaitUnreg _ | PAborting => 4
  end.
Definition dobs (e : dframe * option N) : N * N * N * N :=
  match fst e with
  | DReply a m => (2, a, m, 0)
  | DError a m => (3, a, m, 0)
  | DEvent s m p => (5, s, m, p)
  end.
Definition uobs (f : uframe) : N * N * N * N :=
  match f with
  | UReg m s u => (0, m, s, u)
  | UUnreg m s u => (1, m, s, u)
  end.

Definition eqb_ln (a b : list N) : bool :=
  Nat.eqb (List.length a) (List.length b) && forallb (fun p => fst p =? snd p) (combine a b).
Definition eqb_q (a b : N * N * N * N) : bool :=
  let '(a1, a2, a3, a4) := a in let '(b1, b2, b3, b4) := b in (a1 =? b1) && (a2 =? b2) && (a3 =? b3) && (a4 =? b4).
Definition eqb_lq (a b : list (N * N * N * N)) : bool :=
  Nat.eqb (List.length a) (List.length b) && forallb (fun p => eqb_q (fst p) (snd p)) (combine a b).
Definition eqb_sub (x : sub) (o : N * list N) : bool := (pc_code (s_pc x) =? fst o) && eqb_ln (s_got x) (snd o).

Definition case_ok (g : scfg) (k : kcase) : bool :=
  match run g init (k_labels k) with
  | None => false
  | Some st =>
      Nat.eqb (List.length (subs st)) (List.length (k_subs k)) &&
      forallb (fun p => eqb_sub (fst p) (snd p)) (combine (subs st) (k_subs k)) &&
      forallb (fun p => eqb_lq (map dobs (dlog st (fst p))) (snd p)) (combine (seq 0 (List.length (k_down k))) (k_down k)) &&
      forallb (fun p => eqb_lq (map uobs (ulog st (fst p))) (snd p)) (combine (seq 0 (List.length (k_up k))) (k_up k)) &&
      Bool.eqb (dead st) (k_dead k) &&
      quiescent g st
  end.

Fixpoint bad_idx {A} (f : A -> bool) (l : list A) (i : nat) : list nat :=
  match l with
  | [] => []
  | x :: r => if f x then bad_idx f r (S i) else i :: bad_idx f r (S i)
  end.
Definition mismatches (g : scfg) (ks : list kcase) : list nat := bad_idx (case_ok g) ks 0.

(* ---- raw registerEvent / unregisterEvent sequences with caller-chosen ids (SignalsRaw.v): every
        answer and, per emission, the Event frames written (connection, message id, in order) ---- *)
From QV Require Import SignalsRaw.
Record rcase := { rc_ops : list (rop * robs) }.
Definition raw_mismatches (g : scfg) (ks : list rcase) : list nat :=
  bad_idx (fun k => raw_agrees g rinit (rc_ops k)) ks 0.

(* ---- the client side of subscriptions on one client, with readers that read only when the harness
        says so (SignalsFwd.v): the operations with what each receive attempt found are replayed (every
        one must be explained by the model); at the end every subscriber's channel state and what it
        received must be the model's ---- *)
From QV Require Import SignalsFwd.
Record fcase := { fk_ops : list fop; fk_subs : list (bool * list N) }.
Definition fcase_ok (k : fcase) : bool :=
  match freplay finit (fk_ops k) with
  | None => false
  | Some st =>
      Nat.eqb (List.length (fsubs st)) (List.length (fk_subs k)) &&
      forallb (fun p => Bool.eqb (f_done (fst p)) (fst (snd p)) && eqb_ln (f_got (fst p)) (snd (snd p)))
              (combine (fsubs st) (fk_subs k)) &&
      negb (fover st)
  end.
Definition fwd_mismatches (ks : list fcase) : list nat := bad_idx fcase_ok ks 0.
