(* C12Run.v — executable comparison of Hostile.v with what the server in the child process did.
   A case is the list of frames (with the connection that sent each) of a compared script — every
   frame was followed by a barrier call whose answer was awaited, so the server was at rest — the
   frames each connection received, and what two probe clients got from the directory and from
   the generic object.  The model settles after every frame. *)
From QV Require Import Hostile.
Local Open Scope N_scope.

Record hcase := {
  h_frames : list (nat * hframe);
  h_got : list (list (N * N * N));   (* per connection: type, action, id *)
  h_probes : N * N * N;              (* directory, generic object 1, generic object 2: 0 no answer, 2 reply, 3 error *)
  h_obj2 : N }.                      (* id of the second object of the generic service *)

Definition fr (t s o a i pl : N) : hframe := {| f_type := t; f_svc := s; f_obj := o; f_act := a; f_id := i; f_pl := pl |}.

Definition Fuel : nat := 400.
Definition send_settle (g : hcfg) (st : hstate) (cf : nat * hframe) : hstate :=
  match hstep std_cls g st (HSend (fst cf) (snd cf)) with
  | Some st' => hsettle std_cls g Fuel st'
  | None => st
  end.
Fixpoint connect (g : hcfg) (n : nat) (st : hstate) : hstate :=
  match n with
  | O => st
  | S k => match hstep std_cls g st HConnect with Some st' => connect g k st' | None => st end
  end.
Definition dobs (d : dframe) : N * N * N :=
  match d with DReply a i => (2, a, i) | DError a i => (3, a, i) | DEvent s m _ => (5, s, m) end.
Definition received (x : conn) : list (N * N * N) := map dobs (c_got x ++ c_out x).

Definition eqb_t (a b : N * N * N) : bool :=
  let '(a1, a2, a3) := a in let '(b1, b2, b3) := b in (a1 =? b1) && (a2 =? b2) && (a3 =? b3).
Definition eqb_lt (a b : list (N * N * N)) : bool :=
  Nat.eqb (List.length a) (List.length b) && forallb (fun p => eqb_t (fst p) (snd p)) (combine a b).

Definition probe_code (g : hcfg) (st : hstate) (o : nat) : N :=
  match nth_error (objs st) o with
  | None => 0
  | Some x =>
      let p := List.length (conns st) in
      let st1 := connect g 1 st in
      let st2 := send_settle g st1 (p, probe_frame x (pack_args (o_id x) 0 0)) in
      match nth_error (conns st2) p with
      | Some y => match c_out y with
                  | DReply _ _ :: _ => 2
                  | DError _ _ :: _ => 3
                  | _ => 0
                  end
      | None => 0
      end
  end.

Definition hcase_ok (g : hcfg) (k : hcase) : bool :=
  let st := fold_left (send_settle g) (h_frames k) (connect g (List.length (h_got k)) (hinit_of (h_obj2 k))) in
  forallb (fun p => match nth_error (conns st) (fst p) with
                    | Some x => eqb_lt (received x) (snd p)
                    | None => false
                    end) (combine (seq 0 (List.length (h_got k))) (h_got k)) &&
  (probe_code g st 1 =? fst (fst (h_probes k))) && (probe_code g st 2 =? snd (fst (h_probes k))) &&
  (probe_code g st 3 =? snd (h_probes k)).

Fixpoint bad_idx {A} (f : A -> bool) (l : list A) (i : nat) : list nat :=
  match l with
  | [] => []
  | x :: r => if f x then bad_idx f r (S i) else i :: bad_idx f r (S i)
  end.
Definition hmismatches (g : hcfg) (ks : list hcase) : list nat := bad_idx (hcase_ok g) ks 0.
