(* C12Run.v — executable comparison of Hostile.v with what the server in the child process did.
   A case is the list of frames (with the connection that sent each) of a compared script — every
   frame was followed by a barrier call whose answer was awaited, so the server was at rest — the
   frames each connection received, and what two probe clients got from the directory and from
   the generic object.  The model settles after every frame. *)
From QV Require Import Hostile.
From QV Require C12AuthRun.   (* service 0's own volleys (model Auth.v): built with this file, imported by the C12z case files *)
Local Open Scope N_scope.

Record hcase := {
  h_frames : list (nat * hframe);
  h_got : list (list (N * N * N));   (* per connection: type, action, id *)
  h_probes : N * N * N;              (* directory, generic object 1, generic object 2: 0 no answer, 2 reply, 3 error *)
  h_obj2 : N }.                      (* id of the second object of the generic service *)

Definition fr (t s o a i pl : N) : hframe := {| f_type := t; f_svc := s; f_obj := o; f_act := a; f_id := i; f_pl := pl |}.

Definition Fuel : nat := 400.
Definition send_settle (g : hcfg) (st : hstate) (cf : nat * hframe) : hstate :=
  match hstep std_cls g st (HSend (fst cf) (snd cf)) with
  | Some st' => hsettle std_cls g Fuel st'
  | None => st
  end.
Fixpoint connect (g : hcfg) (n : nat) (st : hstate) : hstate :=
  match n with
  | O => st
  | S k => match hstep std_cls g st HConnect with Some st' => connect g k st' | None => st end
  end.
Definition dobs (d : dframe) : N * N * N :=
  match d with DReply a i => (2, a, i) | DError a i => (3, a, i) | DEvent s m _ => (5, s, m) end.
Definition received (x : conn) : list (N * N * N) := map dobs (c_got x ++ c_out x).

Definition eqb_t (a b : N * N * N) : bool :=
  let '(a1, a2, a3) := a in let '(b1, b2, b3) := b in (a1 =? b1) && (a2 =? b2) && (a3 =? b3).
Definition eqb_lt (a b : list (N * N * N)) : bool :=
  Nat.eqb (List.length a) (List.length b) && forallb (fun p => eqb_t (fst p) (snd p)) (combine a b).

Definition probe_code (g : hcfg) (st : hstate) (o : nat) : N :=
  match nth_error (objs st) o with
  | None => 0
  | Some x =>
      let p := List.length (conns st) in
      let st1 := connect g 1 st in
      let st2 := send_settle g st1 (p, probe_frame x (pack_args (o_id x) 0 0)) in
      match nth_error (conns st2) p with
      | Some y => match c_out y with
                  | DReply _ _ :: _ => 2
                  | DError _ _ :: _ => 3
                  | _ => 0
                  end
      | None => 0
      end
  end.

Definition hcase_ok (g : hcfg) (k : hcase) : bool :=
  let st := fold_left (send_settle g) (h_frames k) (connect g (List.length (h_got k)) (hinit_of (h_obj2 k))) in
  forallb (fun p => match nth_error (conns st) (fst p) with
                    | Some x => eqb_lt (received x) (snd p)
                    | None => false
                    end) (combine (seq 0 (List.length (h_got k))) (h_got k)) &&
  (probe_code g st 1 =? fst (fst (h_probes k))) && (probe_code g st 2 =? snd (fst (h_probes k))) &&
  (probe_code g st 3 =? snd (h_probes k)).

(* scripts whose clients disconnect before their answers are written (go/cmd/qv/c12lost.go: every
   transport, then fresh clients on every transport): what such a connection received depends on
   where the race between the server's write and the client's close ended, so only the probes are
   compared; the model runs the frames (a disconnect is an unreadable frame) and has no notion of
   transport: a connection accepted from any listener is a fresh connection *)
Definition hcase_probes_ok (g : hcfg) (k : hcase) : bool :=
  let st := fold_left (send_settle g) (h_frames k) (connect g (List.length (h_got k)) (hinit_of (h_obj2 k))) in
  (probe_code g st 1 =? fst (fst (h_probes k))) && (probe_code g st 2 =? snd (fst (h_probes k))) &&
  (probe_code g st 3 =? snd (h_probes k)).

Fixpoint bad_idx {A} (f : A -> bool) (l : list A) (i : nat) : list nat :=
  match l with
  | [] => []
  | x :: r => if f x then bad_idx f r (S i) else i :: bad_idx f r (S i)
  end.
Definition hmismatches (g : hcfg) (ks : list hcase) : list nat := bad_idx (hcase_ok g) ks 0.
Definition pmismatches (g : hcfg) (ks : list hcase) : list nat := bad_idx (hcase_probes_ok g) ks 0.

(* ---- bursts: frames of one connection written back to back, the message type varied ----

   A burst case: connection 0 first makes the calls of [b_setup] one by one (each answered before
   the next is written), then writes [b_burst] back to back without reading, all of it addressed
   to ONE object, and then reads: it repeats a barrier call to that object until the object itself
   answers it (a barrier refused by dispatch is repeated), so every answer to the burst has arrived.
   [b_got] is what it read after the setup, barrier answers left out.

   Which frames of a burst find the consumer queue full depends on the schedule, so the model is
   run on ONE schedule — the slow client: every frame is settled and the answers read before the
   next one is sent, nothing is refused — and the observation is accepted when, frame by frame, it
   is what that schedule gives or what the rule of [hstep] for a full queue gives ([LProc]: a
   call is answered with an error by dispatch, every other type is dropped without an answer),
   which needs at least [ConsumerCap] earlier frames in the burst.  The harness builds bursts whose
   frames do not depend on each other (every user id at most once), so that an object's answer to a
   frame does not depend on which other frames were refused.  Events are left out of the
   accounting (bursts do not emit).  The probes do not depend on the schedule at all
   (C12_holds_probe): they must be what the model gives. *)
Record hburst := {
  b_setup : list hframe;
  b_burst : list hframe;
  b_got : list (N * N * N);
  b_probes : N * N * N;
  b_obj2 : N }.

Fixpoint drain (g : hcfg) (fuel : nat) (c : nat) (st : hstate) : hstate :=
  match fuel with
  | O => st
  | S k => match hstep std_cls g st (HRead c) with Some st' => drain g k c st' | None => st end
  end.
Definition out_len (st : hstate) (c : nat) : nat :=
  match nth_error (conns st) c with Some x => List.length (c_out x) | None => O end.
Definition send_read (g : hcfg) (st : hstate) (f : hframe) : hstate :=
  let st' := send_settle g st (O, f) in drain g (out_len st' O) O st'.
Definition received_of (st : hstate) (c : nat) : list (N * N * N) :=
  match nth_error (conns st) c with Some x => received x | None => [] end.

Definition ans_of (i : N) (l : list (N * N * N)) : list (N * N * N) :=
  filter (fun a => (snd a =? i) && negb (fst (fst a) =? 5)) l.
Definition frame_ok (model obs : list (N * N * N)) (jf : nat * hframe) : bool :=
  let f := snd jf in
  let o := ans_of (f_id f) obs in
  eqb_lt o (ans_of (f_id f) model) ||
  (Nat.leb ConsumerCap (fst jf) &&
   (if f_type f =? T_call then eqb_lt o [(3, f_act f, f_id f)] else match o with [] => true | _ => false end)).

Definition hburst_ok (g : hcfg) (k : hburst) : bool :=
  let st1 := fold_left (send_read g) (b_setup k) (connect g 1 (hinit_of (b_obj2 k))) in
  let st2 := fold_left (send_read g) (b_burst k) st1 in
  let model := skipn (List.length (received_of st1 O)) (received_of st2 O) in
  forallb (frame_ok model (b_got k)) (combine (seq 0 (List.length (b_burst k))) (b_burst k)) &&
  forallb (fun a => (fst (fst a) =? 5) || existsb (fun f => f_id f =? snd a) (b_burst k)) (b_got k) &&
  (probe_code g st2 1 =? fst (fst (b_probes k))) && (probe_code g st2 2 =? snd (fst (b_probes k))) &&
  (probe_code g st2 3 =? snd (b_probes k)).
Definition bmismatches (g : hcfg) (ks : list hburst) : list nat := bad_idx (hburst_ok g) ks 0.
