(* C15Run.v — executable comparison of Directory.v with what the implementation did.
   Evaluated by vm_compute on case files written by the Go harness (qv C15).

   scase: one sequential operation sequence run directly on the implementation object
          (bus/directory serviceDirectory through the verif hook), from an initial lastID
          [sc_last0]; every step carries the result class and the signals the
          implementation emitted; the final maps (sorted by id) and counter are recorded.
          Compared step by step with [cstep cfg] and — when the counter cannot reach its
          limit — with the abstract spec [astep].
   hcase: one concurrent history recorded against a real server (remote clients through
          the mailbox + local Namespace calls), as operation records with logical time
          stamps; checked with [hist_wf] and [lin_check] against the abstract spec. *)
From Coq Require Import List NArith Bool String.
From QV Require Import Lin Directory.
Import ListNotations.
Local Open Scope N_scope.

Definition I := Build_info.
Definition obs := (dop * dres * list devent)%type.

Record scase := { sc_last0 : N; sc_ops : list obs;
                  sc_staging : list info; sc_services : list info; sc_last : N }.
Record hcase := { hc_ops : list (orec dop dres) }.

Definition H (t : N) (o : dop) (i u : N) (r : dres) : orec dop dres :=
  {| o_tid := t; o_op := o; o_inv := i; o_ret := Some (u, r) |}.
Definition HP (t : N) (o : dop) (i : N) : orec dop dres :=
  {| o_tid := t; o_op := o; o_inv := i; o_ret := None |}.

Definition obs_eqb (a b : obs) : bool :=
  dres_eqb (snd (fst a)) (snd (fst b)) && list_eqb devent_eqb (snd a) (snd b).

Definition scase_ok (g : cfg) (c : scase) : bool :=
  let '(c', tr) := run (cstep g) {| staging := []; services := []; lastID := sc_last0 c |} (map (fun x => fst (fst x)) (sc_ops c)) in
  list_eqb obs_eqb tr (sc_ops c) &&
  list_eqb info_eqb (isort (map snd (staging c'))) (sc_staging c) &&
  list_eqb info_eqb (isort (map snd (services c'))) (sc_services c) &&
  (lastID c' =? sc_last c).

(* the abstract spec against the implementation, directly *)
Definition scase_spec_ok (c : scase) : bool :=
  if (sc_last0 c =? 0) then
    let '(a', tr) := run astep ainit (map (fun x => fst (fst x)) (sc_ops c)) in
    list_eqb obs_eqb tr (sc_ops c) &&
    list_eqb info_eqb (isort (map a_info (filter (fun e => negb (a_ready e)) (a_entries a')))) (sc_staging c) &&
    list_eqb info_eqb (isort (map a_info (filter a_ready (a_entries a')))) (sc_services c) &&
    (a_next a' =? sc_last c)
  else true.

(* ids first: a duplicate identifier is decided without any search (and implied by
   lin_check = true: DirectoryProofs.lin_ids_distinct) *)
Definition hcase_ok (c : hcase) : bool :=
  if hist_wf (hc_ops c) && nodupb (hist_ids (hc_ops c)) then lin_check astep_r dres_eqb ainit (hc_ops c) else false.

Fixpoint bad_idx {A} (f : A -> bool) (l : list A) (i : nat) : list nat :=
  match l with
  | [] => []
  | x :: r => if f x then bad_idx f r (S i) else i :: bad_idx f r (S i)
  end.

(* index lists: sequential cases where the implementation left the concrete model or the
   abstract spec; histories that are ill-formed or not linearizable *)
Definition mismatches (g : cfg) (ss : list scase) (hs : list hcase) : list nat * list nat :=
  (bad_idx (fun c => scase_ok g c && scase_spec_ok c) ss 0, bad_idx hcase_ok hs 0).
