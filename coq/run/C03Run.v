(* C03Run.v — compares Wire.v (sig_read, refl_enc, refl_dec) with what the implementation did. *)
From QV Require Import Wire ParseOpt.
From Coq Require Import String.
Local Open Scope N_scope.

Record c03case := {
  k_ty : ty; k_val : tval;           (* map entries in the order the encoder wrote them *)
  k_refl : bool;                     (* Type() usable: reflection encoder/decoder were run *)
  k_enc : string;                    (* bytes the reflection encoder produced (or the documented bytes when k_refl = false) *)
  k_input : string;                  (* what the decoders were fed: k_enc ++ trailing bytes, or a mutation/cut of it *)
  k_rd : N; k_rd_data : string; k_rd_left : N;      (* signature reader: 0 ok / 1 error / 2 panic *)
  k_dec : N; k_dec_val : tval; k_dec_left : N       (* reflection decoder *)
}.

(* unordered comparison of maps *)
Fixpoint tval_equiv (a b : tval) : bool :=
  match a, b with
  | VNum w x, VNum w' y => Nat.eqb w w' && (x =? y)
  | VBool x, VBool y => Bool.eqb x y
  | VStr x, VStr y => eqb_bytes x y
  | VList l1, VList l2 | VTup l1, VTup l2 =>
      (fix go (l1 l2 : list tval) : bool :=
         match l1, l2 with
         | [], [] => true
         | x :: r1, y :: r2 => tval_equiv x y && go r1 r2
         | _, _ => false
         end) l1 l2
  | VMap l1, VMap l2 =>
      Nat.eqb (List.length l1) (List.length l2) &&
      (fix all (l : list (tval * tval)) : bool :=
         match l with
         | [] => true
         | (k, v) :: r =>
             (fix any (m : list (tval * tval)) : bool :=
                match m with
                | [] => false
                | (k', v') :: m' => (tval_equiv k k' && tval_equiv v v') || any m'
                end) l2 && all r
         end) l1
  | VDyn t x, VDyn t' y => ty_eqb t t' && tval_equiv x y
  | _, _ => false
  end.

Definition code {A} (r : res A) : N := match r with ROk _ => 0 | RErr _ => 1 | RPanic => 2 | RFuel => 3 end.

Section WithCfg.
  Variable c : wcfg.
  Definition fuel_of (bs : bytes) : nat := S (List.length bs).

  Definition rd_ok (k : c03case) : bool :=
    let input := unhex (k_input k) in
    match sig_read parse_opt c (fuel_of input) (k_ty k) input with
    | ROk (d, rest) => (k_rd k =? 0) && eqb_bytes d (unhex (k_rd_data k)) && (N.of_nat (List.length rest) =? k_rd_left k)
    | r => code r =? k_rd k
    end.
  Definition enc_ok (k : c03case) : bool :=
    negb (k_refl k) || eqb_bytes (refl_enc c (k_val k)) (unhex (k_enc k)).
  Definition dec_ok (k : c03case) : bool :=
    negb (k_refl k) ||
    let input := unhex (k_input k) in
    match refl_dec c tval_eqb (k_ty k) input with
    | ROk (v, rest) => (k_dec k =? 0) && tval_equiv v (k_dec_val k) && (N.of_nat (List.length rest) =? k_dec_left k)
    | r => code r =? k_dec k
    end.
  Definition typed_ok (k : c03case) : bool := has_ty (k_val k) (k_ty k).

  Fixpoint bad_idx {A} (f : A -> bool) (l : list A) (i : nat) : list nat :=
    match l with [] => [] | x :: r => if f x then bad_idx f r (S i) else i :: bad_idx f r (S i) end.

  (* four index lists: ill-typed generator output, encoder, signature reader, decoder *)
  Definition mismatches (l : list c03case) :=
    (bad_idx typed_ok l 0, bad_idx enc_ok l 0, bad_idx rd_ok l 0, bad_idx dec_ok l 0).
End WithCfg.
