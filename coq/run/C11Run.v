(* C11Run.v — executable comparison of ConnLoss.v with what the implementation did.
   A case is a scenario (n calls, m subscriptions, d callbacks), the label sequence the harness
   forced on the real client through its own net.Stream (up to and including the fault and the
   I/O results it injected), and what it then observed once everything had returned:
   per call Ok / Err / never started, per subscription whether the events channel was closed and
   how many payloads were read from it, per callback how many times it ran. *)
From QV Require Import ConnLoss.
From Coq Require Import List Arith Bool.
Import ListNotations.

Record ccase := {
  k_n : nat; k_m : nat; k_d : nat;
  k_trace : list label;
  k_calls : list (option bool);      (* None: not started; Some true: nil error; Some false: error *)
  k_subs : list (bool * nat);        (* events closed?, payloads read *)
  k_cbs : list nat                   (* invocations *)
}.

(* [fillsub i n]: n events for subscription i are read and dispatched one after the other (the
   harness feeds them to the reader in one piece; written as a function to keep the case files small) *)
Fixpoint fillsub (i n : nat) : list label :=
  match n with
  | 0 => []
  | S k => LPeerMsg (MFor (OSub i) TEvent) :: LDispatch :: fillsub i k
  end.

Definition call_obs (s : state) (c : nat) : option (option bool) :=
  match cp s c with
  | CIdle => Some None
  | CDone b => Some (Some b)
  | _ => None                         (* still running: never equal to an observation *)
  end.
Definition ob_eqb (a b : option bool) : bool :=
  match a, b with
  | None, None => true
  | Some x, Some y => Bool.eqb x y
  | _, _ => false
  end.

Fixpoint calls_ok (s : state) (c : nat) (l : list (option bool)) : bool :=
  match l with
  | [] => true
  | o :: r => match call_obs s c with Some o' => ob_eqb o o' | None => false end && calls_ok s (S c) r
  end.
Fixpoint subs_ok (s : state) (i : nat) (l : list (bool * nat)) : bool :=
  match l with
  | [] => true
  | (cl, k) :: r => Bool.eqb (evclosed s i) cl && Nat.eqb (delivered s i) k && subs_ok s (S i) r
  end.
Fixpoint cbs_ok (s : state) (j : nat) (l : list nat) : bool :=
  match l with
  | [] => true
  | k :: r => Nat.eqb (cbcount s j) k && cbs_ok s (S j) r
  end.

Definition quiescent (s : state) : bool :=
  match first_enabled s (drain_labels s) with None => true | Some _ => false end.

Definition fuel_of (c : ccase) : nat := 40 * (1 + k_n c + k_m c + k_d c) + 4 * length (k_trace c).

Definition ccase_ok (c : ccase) : bool :=
  Nat.eqb (length (k_calls c)) (k_n c) && Nat.eqb (length (k_subs c)) (k_m c) && Nat.eqb (length (k_cbs c)) (k_d c) &&
  match run (k_trace c) (init (k_n c) (k_m c) (k_d c)) with
  | None => false                      (* the model does not accept the forced schedule *)
  | Some s =>
      let s' := drain (fuel_of c) s in
      quiescent s' && negb (panicked s') &&
      calls_ok s' 0 (k_calls c) && subs_ok s' 0 (k_subs c) && cbs_ok s' 0 (k_cbs c)
  end.

Fixpoint bad_idx {A} (f : A -> bool) (l : list A) (i : nat) : list nat :=
  match l with
  | [] => []
  | x :: r => if f x then bad_idx f r (S i) else i :: bad_idx f r (S i)
  end.

Definition mismatches (cs : list ccase) : list nat * list nat := (bad_idx ccase_ok cs 0, []).

(* smoke test: two calls, reply to the first, connection dies, second call errs *)
Example smoke : ccase_ok {| k_n := 2; k_m := 1; k_d := 1;
  k_trace := [LOnDisc 0; LSubscribe 0; LCallMake 0; LCallSend 0; LCallMake 1; LCallSend 1;
              LPeerMsg (MFor (OCall 0) TReply); LDispatch; LPeerMsg (MFor (OSub 0) TEvent); LDispatch; LConnDie; LReadFail];
  k_calls := [Some true; Some false]; k_subs := [(true, 1)]; k_cbs := [1] |} = true.
Proof. vm_compute. reflexivity. Qed.

(* the loss seen first by the endpoint's own Write: subscription 0 is full (one event read, one in
   the hands of its goroutine, 99 and a frame of type Call queued), another frame of type Call for
   it arrives, dispatch answers "consumer blocked" and that Write fails (its result is discarded:
   part of LDispatch), then the reads fail *)
Example smoke_blocked : ccase_ok {| k_n := 1; k_m := 1; k_d := 1;
  k_trace := [LOnDisc 0; LSubscribe 0; LCallMake 0; LCallSend 0; LPeerMsg (MFor (OSub 0) TEvent); LDispatch; LSubTake 0; LSubRead 0]
             ++ fillsub 0 100 ++ [LSubTake 0; LPeerMsg (MFor (OSub 0) TOther); LDispatch;
                                  LPeerMsg (MFor (OSub 0) TOther); LConnDie; LDispatch; LReadFail];
  k_calls := [Some false]; k_subs := [(true, 101)]; k_cbs := [1] |} = true.
Proof. vm_compute. reflexivity. Qed.
