(* C04Run.v — executable comparison of Call.v with a real bus server carrying generated stubs
   (examples/pong PingPong as services 1 and 3, examples/clock Timestamp as service 2) and real
   bus clients (qv C04).
   rcase: one raw frame of any type aimed at any target on a fresh authenticated harness
          connection; observed: how often the method body ran for it, the frames sent back.
   tcase: the frames of one connection during a concurrent run (client -> server in the order
          the client wrote them, server -> client in the order the server wrote them), checked
          against the property over traces: every Reply answers exactly one earlier Call of that
          connection with the result of that call's own payload, no Call is answered twice, nothing
          answers a Post.  The runs include calls whose arguments and results have several hundred
          KiB; payloads are written run-length compressed (zpay) and expanded here.
   dcase: one loss of a connection (part viii of the harness): the calls that goroutines of their
          own issued before the loss / while the reader held its error / inside stream.Close() /
          after it, each with what it ended with (0 nothing, 1 a result, 2 an error), compared with
          what Teardown.v allows for that scenario under the order of the source (stream.Close()
          first): the outcome without an answer, or the outcome when its answer arrives right
          after the call was written. *)
From QV Require Import Auth Call Facts.
From QV Require Teardown.
From Coq Require Import String.
Local Open Scope N_scope.

(* ---- the harness's services ---- *)
Definition pong (s : N) : bool := (s =? 1) || (s =? 3).
Definition target (s o a : N) : tgt :=
  if pong s then (if o =? 1 then (if (a =? 100) || (a =? 101) then Meth else NoAct) else NoObj)
  else if s =? 2 then (if o =? 1 then (if a =? 100 then Meth else NoAct) else NoObj)
  else NoSvc.

Definition enc_str (s : bytes) : bytes := le 4 (N.of_nat (List.length s)) ++ s.
Definition arg_of (p : bytes) : option bytes := match read_string p with DOk s _ => Some s | _ => None end.
Definition prefix_err (s : bytes) : bool := eqb_bytes (firstn 3 s) (bs "ERR").

(* Hello(a) returns "re:" a "#" n, n = how often the body has run for a (1 when C04 holds);
   Ping(a) returns nothing; Nanoseconds() returns 42 *)
(* service 4 (registered after the raw-frame part, hence not in `target`): the factory object and the
   children it adds to its own service answer action 100 like Hello *)
(* service 5 (part xii, registered last): object 1 is the registrar, which returns the object id the
   service chose for the published object (any reply); every other object of the service is a relay
   (bus.NewClientObject) to an object hosted by a client, which answers action 100 like Hello.  The same
   check is run on the hosting connection with the directions swapped (the relay's Calls, the hosting
   client's Replies). *)
Definition fres (s o a : N) (p : bytes) : bytes :=
  if pong s || (s =? 4) || (s =? 5) then
    (if a =? 100 then match arg_of p with Some x => enc_str (bs "re:" ++ x ++ bs "#1") | None => [] end else [])
  else le 8 42.
(* the generic actions every object built with NewBasicObject answers itself (bus/object_stub_gen.go),
   used by part (x) of the harness to switch the per-object statistics and traces on and off while
   several connections call the object: unregisterEvent 1, enableStats 81, clearStats 83, enableTrace 85
   return nothing; registerEvent 0 returns the user id it was given (payload: object, signal, user id);
   isStatsEnabled 80 / isTraceEnabled 84 return one boolean and stats 82 a map: results that depend on
   the calls made before (the harness checks the booleans against what was last set) *)
Definition generic_void (a : N) : bool := (a =? 1) || (a =? 81) || (a =? 83) || (a =? 85).
Definition generic_bool (a : N) : bool := (a =? 80) || (a =? 84).
Definition reply_ok (s o a : N) (p r : bytes) : bool :=
  if (s =? 5) && (o =? 1) then true
  else if generic_void a then eqb_bytes r []
  else if a =? 0 then eqb_bytes r (skipn 8 p)
  else if generic_bool a then eqb_bytes r [byte_of_N 0] || eqb_bytes r [byte_of_N 1]
  else if a =? 82 then true
  else eqb_bytes r (fres s o a p).

Definition okargs (s o a : N) (p : bytes) : bool :=
  if pong s then match arg_of p with Some _ => true | None => false end else true.
Definition callerr (s o a : N) (p : bytes) : bool :=
  pong s && (a =? 100) && match arg_of p with Some x => prefix_err x | None => false end.

(* ---- raw frame cases ---- *)
Record rcase := { rc_hdr : list N;       (* type service object action id *)
                  rc_payload : string;
                  rc_exec : N;           (* observed executions of the method body for this frame *)
                  rc_back : list (list N * string) }.  (* frames sent back: type svc obj act id, payload (Reply only) *)

Definition frame_obs (g : frame) : list N * bytes :=
  ([f_type g; f_svc g; f_obj g; f_act g; f_id g], if f_type g =? T_Reply then f_payload g else []).

Definition eqb_listN (a b : list N) : bool :=
  (Nat.eqb (List.length a) (List.length b)) && forallb (fun p => fst p =? snd p) (combine a b).

Fixpoint back_match (ms : list frame) (os : list (list N * string)) : bool :=
  match ms, os with
  | [], [] => true
  | g :: ms', (h, p) :: os' =>
      eqb_listN (fst (frame_obs g)) h && eqb_bytes (snd (frame_obs g)) (unhex p) && back_match ms' os'
  | _, _ => false
  end.

(* the connection filter as read from bus/server.go by srcfacts *)
Definition src_filter_pass (t : N) : bool := negb (existsb (N.eqb t) f_c04_filter_dropped).

Section WithCfg.
Variable cf : cfg.

Definition rcase_ok (c : rcase) : bool :=
  let h := rc_hdr c in
  let ty := nth 0 h 0 in let s := nth 1 h 0 in let o := nth 2 h 0 in let a := nth 3 h 0 in let id := nth 4 h 0 in
  let st := exec cf src_filter_pass target fres okargs callerr init [LRaw 0 ty s o a id (unhex (rc_payload c)); LSrv 0; LMbox s o] in
  (N.of_nat (ex st (TRaw 0 0)) =? rc_exec c) && back_match (s2c st 0) (rc_back c).
End WithCfg.

(* ---- traces of one connection ---- *)
(* payloads in traces are run-length compressed by the harness (calls with arguments and results of
   several hundred KiB are part of the runs): a list of segments (hex text, byte, count) standing
   for the bytes of the hex text followed by `count` copies of `byte` *)
Definition zpay := list (string * N * N).
Definition unz (z : zpay) : bytes :=
  flat_map (fun sg => unhex (fst (fst sg)) ++ repeat (byte_of_N (snd (fst sg))) (N.to_nat (snd sg))) z.

Record tcase := { tc_c2s : list (list N * zpay); tc_s2c : list (list N * zpay) }.

Definition hkey (h : list N) : list N := skipn 1 h.
Definition htype (h : list N) : N := nth 0 h 0.

(* how many frames with this key and a type among `tys` *)
Definition count_key (tys : list N) (k : list N) (l : list (list N * zpay)) : nat :=
  List.length (filter (fun e => eqb_listN (hkey (fst e)) k && existsb (N.eqb (htype (fst e))) tys) l).

Definition find_call (k : list N) (l : list (list N * zpay)) : option zpay :=
  match filter (fun e => eqb_listN (hkey (fst e)) k && (htype (fst e) =? T_Call)) l with
  | e :: _ => Some (snd e)
  | [] => None
  end.

Definition resp_types : list N := [T_Reply; T_Error; T_Cancelled].

(* every answer frame: its key is the key of exactly one Call frame of this connection (ids
   are not reused inside the run), it is the only answer to it (see below), and a Reply carries the result of
   that call's own payload; no answer carries the key of a Post *)
Definition answer_ok (cf : cfg) (t : tcase) (e : list N * zpay) : bool :=
  let k := hkey (fst e) in
  if existsb (N.eqb (htype (fst e))) resp_types then
    Nat.eqb (count_key [T_Call] k (tc_c2s t)) 1 &&
    (* with the noncall_runs defect the client's Cancel frame is dispatched like a call and is
       answered as well *)
    Nat.leb (count_key resp_types k (tc_s2c t))
            (1 + if noncall_runs cf then count_key [T_Cancel] k (tc_c2s t) else 0) &&
    Nat.eqb (count_key [T_Post] k (tc_c2s t)) 0 &&
    (if htype (fst e) =? T_Reply then
       match find_call k (tc_c2s t) with
       | Some p => reply_ok (nth 1 (fst e) 0) (nth 2 (fst e) 0) (nth 3 (fst e) 0) (unz p) (unz (snd e))
       | None => false
       end
     else true)
  else true.

Definition tcase_ok (cf : cfg) (t : tcase) : bool := forallb (answer_ok cf t) (tc_s2c t).

Fixpoint bad_idx {A} (f : A -> bool) (l : list A) (i : nat) : list nat :=
  match l with
  | [] => []
  | x :: r => if f x then bad_idx f r (S i) else i :: bad_idx f r (S i)
  end.

(* ---- calls issued during the loss of the connection ---- *)
Record dcase := { dc_local : bool;              (* the loss is a local EndPoint.Close() *)
                  dc_calls : list (N * N) }.    (* phase 0..3, observed outcome 0/1/2 *)

Fixpoint dcalls_ok (local : bool) (ps : list nat) (os : list N) (i : nat) : bool :=
  match os with
  | [] => true
  | o :: r => existsb (Nat.eqb (N.to_nat o)) (Teardown.allowed true local ps i) && dcalls_ok local ps r (S i)
  end.
Definition dcase_ok (d : dcase) : bool :=
  dcalls_ok (dc_local d) (map (fun c => N.to_nat (fst c)) (dc_calls d)) (map snd (dc_calls d)) 0.

Definition mismatches (cf : cfg) (rs : list rcase) (ts : list tcase) (ds : list dcase)
  : list nat * list nat * list nat :=
  (bad_idx (rcase_ok cf) rs 0, bad_idx (tcase_ok cf) ts 0, bad_idx dcase_ok ds 0).
