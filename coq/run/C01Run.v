(* C01Run.v — executable comparison of Message.v with what the implementation did.
   Evaluated by vm_compute on case files written by the Go harness (qv C01). *)
From QV Require Import Reader Message.
From Coq Require Import String.
Local Open Scope N_scope.

(* observation of one decoded message: the nine header fields and the payload *)
Definition omsg := (list N * string)%type.
Record rcase := { rc_data : string; rc_sched : list (N * N * bool) (* run-length: count, k, eof *);
                  rc_msgs : list omsg; rc_err : N (* 0 = io.EOF, 1 = other *);
                  rc_left : N (* bytes the reader still holds *);
                  rc_sleft : N (* schedule entries not used *) }.
Record wcase := { wc_hdr : list N; wc_payload : string; wc_sched : list N;
                  wc_ok : bool; wc_calls : list string }.

Definition hdr_fields (h : header) : list N :=
  [h_magic h; h_id h; h_size h; h_version h; h_type h; h_flags h; h_service h; h_object h; h_action h].
Definition hdr_of (l : list N) : header :=
  {| h_magic := nth 0 l 0; h_id := nth 1 l 0; h_size := nth 2 l 0; h_version := nth 3 l 0; h_type := nth 4 l 0;
     h_flags := nth 5 l 0; h_service := nth 6 l 0; h_object := nth 7 l 0; h_action := nth 8 l 0 |}.

Definition eqb_listN (a b : list N) : bool :=
  (Nat.eqb (List.length a) (List.length b)) && forallb (fun p => fst p =? snd p) (combine a b).

Definition eqb_omsg (m : msg) (o : omsg) : bool :=
  eqb_listN (hdr_fields (m_header m)) (fst o) && eqb_bytes (m_payload m) (unhex (snd o)).

Fixpoint eqb_msgs (ms : list msg) (os : list omsg) : bool :=
  match ms, os with
  | [], [] => true
  | m :: ms', o :: os' => eqb_omsg m o && eqb_msgs ms' os'
  | _, _ => false
  end.

Definition expand_sched (l : list (N * N * bool)) : list (nat * bool) :=
  flat_map (fun e => let '(n, k, b) := e in repeat (N.to_nat k, b) (N.to_nat n)) l.

Definition errcode (e : err) : N := match e with EEOF => 0 | EOther => 1 end.

Definition rcase_ok (c : rcase) : bool :=
  match read_all (S (S (List.length (rc_msgs c))))
          {| s_data := unhex (rc_data c); s_sched := expand_sched (rc_sched c) |} with
  | None => false
  | Some (ms, e, s) =>
      eqb_msgs ms (rc_msgs c) && (errcode e =? rc_err c) &&
      (N.of_nat (List.length (s_data s)) =? rc_left c) && (N.of_nat (List.length (s_sched s)) =? rc_sleft c)
  end.

Fixpoint eqb_calls (a : list bytes) (b : list string) : bool :=
  match a, b with
  | [], [] => true
  | x :: a', y :: b' => eqb_bytes x (unhex y) && eqb_calls a' b'
  | _, _ => false
  end.

Definition wcase_ok (c : wcase) : bool :=
  match write_msg {| m_header := hdr_of (wc_hdr c); m_payload := unhex (wc_payload c) |}
          {| w_calls := []; w_sched := map N.to_nat (wc_sched c) |} with
  | None => false
  | Some (Ok w) => wc_ok c && eqb_calls (w_calls w) (wc_calls c)
  | Some (Err _) => negb (wc_ok c)
  end.

Fixpoint bad_idx {A} (f : A -> bool) (l : list A) (i : nat) : list nat :=
  match l with
  | [] => []
  | x :: r => if f x then bad_idx f r (S i) else i :: bad_idx f r (S i)
  end.

Definition mismatches (rs : list rcase) (ws : list wcase) : list nat * list nat :=
  (bad_idx rcase_ok rs 0, bad_idx wcase_ok ws 0).
