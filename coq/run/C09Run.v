(* C09Run.v — executable comparison of SigParse.v with what signature.Parse, Signature(),
   SignatureIDL() and Type() did on the strings the harness generated (qv C09). *)
From QV Require Import Sig SigParse Facts.
From Coq Require Import String.
Local Open Scope string_scope.

(* ---------- which grammar init() builds (fact f_sig_grammar, regenerated from /repo) ---------- *)
(* the pinned grammar: struct alternative before the tuple alternative on the same prefix
   (model: decl / parse) *)
Definition sig_grammar_pinned : list string :=
  ["declarationType := OrdChoice(nil basicType() mapType arrayType structType tupleType)";
   "arrayType := And(nodifyArrayType atom:[ declarationType atom:])";
   "listType := Kleene(nil declarationType)";
   "typeMemberList := Kleene(nil And(nodifyTypeMember atom:, typeName()))";
   "tupleType := And(nodifyTupleType atom:( listType atom:))";
   "structType := And(nodifyStrucType atom:( listType atom:) atom:< structName() typeMemberList atom:>)";
   "mapType := And(nodifyMap atom:{ declarationType declarationType atom:})";
   "typeSignature := declarationType"].
(* the repaired grammar (design/C07.grammar.fix.diff): the prefix once, the struct definition
   optional (model: decl_m / parse_m) *)
Definition sig_grammar_merged : list string :=
  ["declarationType := OrdChoice(nil basicType() mapType arrayType tupleOrStructType)";
   "arrayType := And(nodifyArrayType atom:[ declarationType atom:])";
   "listType := Kleene(nil declarationType)";
   "typeMemberList := Kleene(nil And(nodifyTypeMember atom:, typeName()))";
   "tupleOrStructType := And(nodifyTupleOrStruct atom:( listType atom:) Maybe(nil And(nil atom:< structName() typeMemberList atom:>)))";
   "mapType := And(nodifyMap atom:{ declarationType declarationType atom:})";
   "typeSignature := declarationType"].

Fixpoint strs_eqb (a b : list string) : bool :=
  match a, b with
  | [], [] => true
  | x :: a', y :: b' => String.eqb x y && strs_eqb a' b'
  | _, _ => false
  end.

(* what the source text says: true = the repaired grammar (TieC09.tie_grammar_switch: then
   f_sig_grammar is sig_grammar_merged, otherwise it is sig_grammar_pinned) *)
Definition source_says_merged : bool := strs_eqb f_sig_grammar sig_grammar_merged.

(* reflect kind tree, written by the harness in the same notation from reflect.Type *)
Fixpoint shape_str (s : shape) : string :=
  match s with
  | KInt8 => "c" | KUint8 => "C" | KInt16 => "w" | KUint16 => "W" | KInt32 => "i" | KUint32 => "I"
  | KInt64 => "l" | KUint64 => "L" | KFloat32 => "f" | KFloat64 => "d" | KBool => "b" | KString => "s"
  | KPtrAny => "m" | KPtrError => "X"
  | KSlice e => "[" ++ shape_str e ++ "]"
  | KMap k v => "{" ++ shape_str k ++ shape_str v ++ "}"
  | KStruct fs => "(" ++ String.concat "" (map (fun f => fst f ++ ":" ++ shape_str (snd f) ++ ";") fs) ++ ")"
  end.

Definition shape_ObjectReference_str := Eval vm_compute in shape_str shape_ObjectReference.

(* the harness abbreviates the ObjectReference struct as "o" *)
Fixpoint shape_str' (s : shape) : string :=
  match s with
  | KSlice e => "[" ++ shape_str' e ++ "]"
  | KMap k v => "{" ++ shape_str' k ++ shape_str' v ++ "}"
  | KStruct fs =>
      let full := shape_str s in
      if String.eqb full shape_ObjectReference_str then "o"
      else "(" ++ String.concat "" (map (fun f => fst f ++ ":" ++ shape_str' (snd f) ++ ";") fs) ++ ")"
  | _ => shape_str s
  end.

Record pcase := mk { pc_in : string; pc_ok : bool; pc_print : string; pc_idl : string;
                     pc_shape : string (* "!" = Type() panicked *) }.
Definition R (s : string) : pcase := mk s false "" "" "".
Definition hx (h : string) : string := string_of_bytes (unhex h).

(* [merged]: which grammar the harness observed at work (growth of the work Parse does with the
   nesting depth); the implementation is compared with parse_m then, with parse otherwise *)
Definition pcase_ok (cfg : sig_cfg) (merged : bool) (c : pcase) : bool :=
  match parse_g merged (pc_in c) with
  | POk t =>
      pc_ok c && String.eqb (print t) (pc_print c) && String.eqb (idl_name t) (pc_idl c) &&
      match go_type_result cfg t with
      | None => String.eqb (pc_shape c) "!"
      | Some sh => String.eqb (shape_str' sh) (pc_shape c) || String.eqb (shape_str sh) (pc_shape c)
      end
  | PErr => negb (pc_ok c)
  | PFuel => false
  end.

Fixpoint bad_idx {A} (f : A -> bool) (l : list A) (i : nat) : list nat :=
  match l with
  | [] => []
  | x :: r => if f x then bad_idx f r (S i) else i :: bad_idx f r (S i)
  end.

(* index list of the cases on which model and implementation differ; second list: [0] when the
   grammar observed by the harness contradicts the source text *)
Definition mismatches (cfg : sig_cfg) (merged : bool) (cs : list pcase) : list nat * list nat :=
  (bad_idx (pcase_ok cfg merged) cs 0,
   if Bool.eqb merged source_says_merged then [] else [0%nat]).
