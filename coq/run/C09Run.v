(* C09Run.v — executable comparison of SigParse.v with what signature.Parse, Signature(),
   SignatureIDL() and Type() did on the strings the harness generated (qv C09). *)
From QV Require Import Sig SigParse.
From Coq Require Import String.
Local Open Scope string_scope.

(* reflect kind tree, written by the harness in the same notation from reflect.Type *)
Fixpoint shape_str (s : shape) : string :=
  match s with
  | KInt8 => "c" | KUint8 => "C" | KInt16 => "w" | KUint16 => "W" | KInt32 => "i" | KUint32 => "I"
  | KInt64 => "l" | KUint64 => "L" | KFloat32 => "f" | KFloat64 => "d" | KBool => "b" | KString => "s"
  | KPtrAny => "m" | KPtrError => "X"
  | KSlice e => "[" ++ shape_str e ++ "]"
  | KMap k v => "{" ++ shape_str k ++ shape_str v ++ "}"
  | KStruct fs => "(" ++ String.concat "" (map (fun f => fst f ++ ":" ++ shape_str (snd f) ++ ";") fs) ++ ")"
  end.

Definition shape_ObjectReference_str := Eval vm_compute in shape_str shape_ObjectReference.

(* the harness abbreviates the ObjectReference struct as "o" *)
Fixpoint shape_str' (s : shape) : string :=
  match s with
  | KSlice e => "[" ++ shape_str' e ++ "]"
  | KMap k v => "{" ++ shape_str' k ++ shape_str' v ++ "}"
  | KStruct fs =>
      let full := shape_str s in
      if String.eqb full shape_ObjectReference_str then "o"
      else "(" ++ String.concat "" (map (fun f => fst f ++ ":" ++ shape_str' (snd f) ++ ";") fs) ++ ")"
  | _ => shape_str s
  end.

Record pcase := mk { pc_in : string; pc_ok : bool; pc_print : string; pc_idl : string;
                     pc_shape : string (* "!" = Type() panicked *) }.
Definition R (s : string) : pcase := mk s false "" "" "".
Definition hx (h : string) : string := string_of_bytes (unhex h).

Definition pcase_ok (cfg : sig_cfg) (c : pcase) : bool :=
  match parse (pc_in c) with
  | POk t =>
      pc_ok c && String.eqb (print t) (pc_print c) && String.eqb (idl_name t) (pc_idl c) &&
      match go_type_result cfg t with
      | None => String.eqb (pc_shape c) "!"
      | Some sh => String.eqb (shape_str' sh) (pc_shape c) || String.eqb (shape_str sh) (pc_shape c)
      end
  | PErr => negb (pc_ok c)
  | PFuel => false
  end.

Fixpoint bad_idx {A} (f : A -> bool) (l : list A) (i : nat) : list nat :=
  match l with
  | [] => []
  | x :: r => if f x then bad_idx f r (S i) else i :: bad_idx f r (S i)
  end.

Definition mismatches (cfg : sig_cfg) (cs : list pcase) : list nat := bad_idx (pcase_ok cfg) cs 0.
