(* C12AuthRun.v — hostile traffic aimed at service 0 itself (go/cmd/qv/c12svc0.go), compared with
   Auth.v (the model of bus/server.go's connection goroutines and bus/authenticate.go).

   A case is one VOLLEY: the frames hostile connections wrote for service 0 (authenticate calls
   with wrong / wrongly typed / empty / cut credentials for their own and for other user names,
   other actions and objects of service 0, every message type; an unauthenticated connection may
   end with one frame for another service: the firewall answers and closes), followed by the
   authenticate requests of FRESH clients that carry valid credentials.  The server had served other
   volleys before: the model is run from its initial state all the same — by
   C12_service0_stateless nothing an earlier request leaves behind can change an answer.

   [z_got] lists the connections whose client wrote one frame at a time and read its answer before
   the next (all fresh clients; the hostile ones of a "one by one" volley) with everything they
   received: (type, action, id, body), body = 10 reply with __qi_auth_state = 3 (done), 11 reply
   with state 1 (refused), 12 any other reply, 0 an Error frame.  The model settles after every
   frame.  [z_probes]: what each fresh client got for metaObject from the directory, the generic
   object and the second generic object (2 = Reply) — by C12_holds_probe all Replies. *)
From QV Require Import Auth.
From Coq Require Import String.
Local Open Scope N_scope.

Record zcase := {
  z_yes : bool;                              (* the authenticator accepts everybody (bus.Yes) *)
  z_accept : list (string * string);         (* otherwise: its table (hex user, hex token) *)
  z_frames : list (nat * (list N * string)); (* connection, [type; svc; obj; act; id], payload (hex) *)
  z_got : list (nat * list (N * N * N * N));
  z_probes : list (N * N * N) }.

Definition mk_frame (hdr : list N) (p : string) : frame :=
  {| f_type := nth 0 hdr 0; f_svc := nth 1 hdr 0; f_obj := nth 2 hdr 0; f_act := nth 3 hdr 0;
     f_id := nth 4 hdr 0; f_payload := unhex p |}.

(* the volleys contain only values of the kinds Auth.dec_value decodes itself *)
Definition skip_none (_ _ : bytes) : option bytes := None.
(* connections that pass the firewall send nothing but service-0 frames in a volley *)
Definition no_objs (_ _ : N) : option bool := None.

Definition auth_of (yes : bool) (tbl : list (string * string)) (u t : bytes) : bool :=
  yes || existsb (fun p => eqb_bytes (unhex (fst p)) u && eqb_bytes (unhex (snd p)) t) tbl.

Section Run.
Variable yes : bool.
Variable tbl : list (string * string).
Notation stepm := (step skip_none pinned_filter_pass (auth_of yes tbl) no_objs).

(* the consumer goroutine of c, then service 0's goroutine, until both have nothing to do: one
   frame was written, so two rounds suffice; four are run *)
Definition settle (c : nat) (st : state) : state * list out :=
  let '(s1, o1) := stepm st (LConn c) in
  let '(s2, o2) := stepm s1 LMbox in
  let '(s3, o3) := stepm s2 (LConn c) in
  let '(s4, o4) := stepm s3 LMbox in
  (s4, o1 ++ o2 ++ o3 ++ o4).

Fixpoint run (st : state) (fs : list (nat * (list N * string))) : list out :=
  match fs with
  | [] => []
  | (c, (h, p)) :: r =>
      let '(s1, o1) := stepm st (LArrive c (mk_frame h p)) in
      let '(s2, o2) := settle c s1 in
      o1 ++ o2 ++ run s2 r
  end.
End Run.

Definition bodycode (b : body) : N := match b with BErr _ => 0 | BAuthDone => 10 | BAuthRefused => 11 end.

Fixpoint seen_by (c : nat) (os : list out) : list (N * N * N * N) :=
  match os with
  | [] => []
  | OFrame c' ty _ _ a i b :: r => if Nat.eqb c c' then (ty, a, i, bodycode b) :: seen_by c r else seen_by c r
  | _ :: r => seen_by c r
  end.

Definition eqb_q (a b : N * N * N * N) : bool :=
  let '(a1, a2, a3, a4) := a in let '(b1, b2, b3, b4) := b in (a1 =? b1) && (a2 =? b2) && (a3 =? b3) && (a4 =? b4).
Fixpoint eqb_lq (a b : list (N * N * N * N)) : bool :=
  match a, b with
  | [], [] => true
  | x :: a', y :: b' => eqb_q x y && eqb_lq a' b'
  | _, _ => false
  end.

Definition zcase_ok (k : zcase) : bool :=
  let os := run (z_yes k) (z_accept k) init (z_frames k) in
  forallb (fun g => eqb_lq (seen_by (fst g) os) (snd g)) (z_got k) &&
  forallb (fun p => let '(a, b, c) := p in (a =? 2) && (b =? 2) && (c =? 2)) (z_probes k).

Fixpoint bad_idx {A} (f : A -> bool) (l : list A) (i : nat) : list nat :=
  match l with
  | [] => []
  | x :: r => if f x then bad_idx f r (S i) else i :: bad_idx f r (S i)
  end.
Definition zmismatches (ks : list zcase) : list nat := bad_idx zcase_ok ks 0.
