(* C08Run.v — every cut position of a valid encoding, model vs implementation. *)
From QV Require Import Reader Message Value GenDec ParseOpt.
From Coq Require Import String Ascii.
Local Open Scope N_scope.

Record c08case := { p_kind : N; p_ty : ty; p_enc : string; p_cuts : string }.

Section WithCfg.
  Variable c : wcfg.
  Definition code {A} (r : res A) : N := match r with ROk _ => 0 | RErr _ => 1 | RPanic => 2 | RFuel => 3 end.
  Definition msg_code (bs : bytes) : N :=
    match read_msg {| s_data := bs; s_sched := [] |} with
    | Some (Ok _, _) => 0 | Some (Err _, _) => 1 | None => 3
    end.
  Definition decode_code (kind : N) (t : ty) (bs : bytes) : N :=
    match kind with
    | 0 => msg_code bs
    | 1 => code (new_value parse_opt c bs)
    | 2 => code (sig_read parse_opt c (S (List.length bs)) t bs)
    | 3 => code (refl_dec c tval_eqb t bs)
    | 4 | 5 | 6 => code (gen_dec parse_opt t bs)
    | _ => code (dec_capmap parse_opt c bs)
    end.
  Fixpoint digits (s : string) : list N :=
    match s with EmptyString => [] | String a r => (N_of_ascii a - 48) :: digits r end.
  (* cut k = 0 .. len-1 *)
  Fixpoint cuts_ok (kind : N) (t : ty) (enc : bytes) (k : nat) (ds : list N) : bool :=
    match ds with
    | [] => true
    | d :: ds' => (decode_code kind t (firstn k enc) =? d) && cuts_ok kind t enc (S k) ds'
    end.
  Definition case_ok (k : c08case) : bool :=
    let enc := unhex (p_enc k) in
    let ds := digits (p_cuts k) in
    Nat.eqb (List.length ds) (List.length enc) && cuts_ok (p_kind k) (p_ty k) enc 0 ds.
  Fixpoint bad_idx {A} (f : A -> bool) (l : list A) (i : nat) : list nat :=
    match l with [] => [] | x :: r => if f x then bad_idx f r (S i) else i :: bad_idx f r (S i) end.
  Definition mismatches (l : list c08case) := (bad_idx case_ok l 0, @nil nat).
End WithCfg.
