(* C06Run.v — executable comparison of Auth.v with what a real bus server did on the
   harness's scripts (qv C06).  A script is a list of harness actions; after every action the
   harness waits until the server is quiescent (barrier frames), which fixes the schedule:
   the model runs every enabled LConn/LMbox label to exhaustion after each action.  While the
   harness holds its authenticator (AHold … ARelease), service 0's mailbox goroutine is blocked
   inside the first mail that consults the authenticator; LMbox is then not run. *)
From QV Require Import Auth Facts.
From Coq Require Import String.
Local Open Scope N_scope.

Inductive action :=
| ASend (c : N) (hdr : list N) (payload : string)   (* type svc obj act id; then the barrier frame *)
| ABurst (c : N) (frames : list (list N * string))  (* several frames written at once, then the barrier *)
| AGarbage (c : N)                                   (* bytes that are not a frame *)
| AHold | ARelease.

(* what the harness can see *)
Inductive oev :=
| EFrame (c ty svc obj act id body : N)
| EClose (c : N)
| EInvoke (c ty svc obj act id : N) (payload : string)
| EAuth (u t : string) (ans : bool).

Record ccase := { cc_accept : list (string * string);     (* the authenticator's table (hex) *)
                  cc_perconn : bool;
                  cc_script : list action;
                  cc_obs : list (list oev * list oev * list oev) }.
   (* cc_perconn = false: the harness owns the streams and sees every Write and Close of the server
      when it happens.  cc_perconn = true: the server listens on a transport of bus/net (unix://,
      tcp://, tcps://, pipe://) and the connections were dialled; what the server writes reaches
      the harness through one socket per connection, so the order of two events is observed only
      when they concern the same connection (and, for the authenticator calls, among these).
      The model has no notion of transport: a connection accepted from any listener is a fresh
      connection name. *)
   (* per action, each in order of occurrence: what the reader and consumer goroutines of the
      connections did, what service 0's mailbox goroutine did, probe invocations.  The order
      between two goroutines (a barrier answer against an authenticate reply) is a race in the
      implementation and is not compared. *)

Definition mk_frame (hdr : list N) (p : string) : frame :=
  {| f_type := nth 0 hdr 0; f_svc := nth 1 hdr 0; f_obj := nth 2 hdr 0; f_act := nth 3 hdr 0;
     f_id := nth 4 hdr 0; f_payload := unhex p |}.

(* the harness's services: 1 and 2 exist, each with the single object 1 *)
Definition exists_obj (s o : N) : option bool :=
  if (s =? 1) || (s =? 2) then Some (o =? 1) else None.
(* the scripts contain only values of the kinds decoded by the model itself *)
Definition skip_none (_ _ : bytes) : option bytes := None.

Definition auth_of (tbl : list (string * string)) (u t : bytes) : bool :=
  existsb (fun p => eqb_bytes (unhex (fst p)) u && eqb_bytes (unhex (snd p)) t) tbl.

(* the connection filter as read from bus/server.go by srcfacts *)
Definition src_filter_pass (t : N) : bool := negb (existsb (N.eqb t) f_c06_filter_dropped).

Definition barrier_obj : N := 30583.  (* 0x7777 *)
Definition barrier_frame (k : N) : frame :=
  {| f_type := T_Call; f_svc := 0; f_obj := barrier_obj; f_act := 0; f_id := k; f_payload := [] |}.

Section Run.
Variable tbl : list (string * string).
Notation stepm := (step skip_none src_filter_pass (auth_of tbl) exists_obj).

(* does the head mail reach the authenticator? *)
Definition head_consults (st : state) : bool :=
  match s_mbox st with
  | (_, f) :: _ =>
      (f_act f =? AuthenticateActionID) &&
      match dec_capmap skip_none (f_payload f) with
      | DOk m _ => match creds m with Some _ => true | None => false end
      | _ => false
      end
  | [] => false
  end.

Fixpoint conn_pass (cs : list nat) (st : state) : state * list out :=
  match cs with
  | [] => (st, [])
  | c :: r => let '(st1, o1) := stepm st (LConn c) in
              let '(st2, o2) := conn_pass r st1 in (st2, o1 ++ o2)
  end.

Fixpoint settle (fuel : nat) (hold : bool) (cs : list nat) (st : state) : state * list out :=
  match fuel with
  | O => (st, [])
  | S n =>
      let '(st1, o1) := conn_pass cs st in
      let '(st2, o2) := if hold && head_consults st1 then (st1, []) else stepm st1 LMbox in
      let '(st3, o3) := settle n hold cs st2 in (st3, o1 ++ o2 ++ o3)
  end.

Definition passes : nat := 14.

Fixpoint arrive_all (c : nat) (fs : list frame) (st : state) : state * list out :=
  match fs with
  | [] => (st, [])
  | f :: r => let '(st1, o1) := stepm st (LArrive c f) in
              let '(st2, o2) := arrive_all c r st1 in (st2, o1 ++ o2)
  end.

Definition with_barrier (c : nat) (k : N) (hold : bool) (cs : list nat) (st : state) (o0 : list out) :=
  let '(st1, o1) := settle passes hold cs st in
  let '(st2, o2) := stepm st1 (LArrive c (barrier_frame k)) in
  let '(st3, o3) := settle passes hold cs st2 in
  (st3, o0 ++ o1 ++ o2 ++ o3).

Definition do_action (k : N) (hold : bool) (cs : list nat) (st : state) (a : action) : state * bool * list out :=
  match a with
  | ASend c hdr p =>
      let c := N.to_nat c in
      let '(st0, o0) := stepm st (LArrive c (mk_frame hdr p)) in
      let '(st1, o) := with_barrier c k hold cs st0 o0 in (st1, hold, o)
  | ABurst c fs =>
      let c := N.to_nat c in
      let '(st0, o0) := arrive_all c (map (fun e => mk_frame (fst e) (snd e)) fs) st in
      let '(st1, o) := with_barrier c k hold cs st0 o0 in (st1, hold, o)
  | AGarbage c =>
      let '(st0, o0) := stepm st (LGarbage (N.to_nat c)) in
      let '(st1, o1) := settle passes hold cs st0 in (st1, hold, o0 ++ o1)
  | AHold => (st, true, [])
  | ARelease => let '(st1, o1) := settle passes false cs st in (st1, false, o1)
  end.

Fixpoint run_script (k : N) (hold : bool) (cs : list nat) (st : state) (s : list action) : list (list out) :=
  match s with
  | [] => []
  | a :: r => let '(st1, hold1, o) := do_action k hold cs st a in o :: run_script (k + 1) hold1 cs st1 r
  end.
End Run.

Definition action_conn (a : action) : list nat :=
  match a with ASend c _ _ => [N.to_nat c] | ABurst c _ => [N.to_nat c] | AGarbage c => [N.to_nat c] | _ => [] end.
Definition script_conns (s : list action) : list nat := nodup Nat.eq_dec (flat_map action_conn s).

(* ---- comparison ---- *)
Definition errcode (e : errclass) : N :=
  match e with ENotAuth => 1 | ESvcNotFound => 2 | EObjNotFound => 3 | EActNotFound => 4 | EBadPayload => 5 | EBlocked => 6 end.
Definition bodycode (b : body) : N :=
  match b with BErr e => errcode e | BAuthDone => 10 | BAuthRefused => 11 end.

Definition eqb_hexbytes (h : string) (b : bytes) : bool := eqb_bytes (unhex h) b.

Definition ev_match (o : out) (e : oev) : bool :=
  match o, e with
  | OFrame c ty s ob a i b, EFrame c' ty' s' ob' a' i' b' =>
      (N.of_nat c =? c') && (ty =? ty') && (s =? s') && (ob =? ob') && (a =? a') && (i =? i') && (bodycode b =? b')
  | OClose c, EClose c' => N.of_nat c =? c'
  | ODeliver c f, EInvoke c' ty s ob a i p =>
      (N.of_nat c =? c') && (f_type f =? ty) && (f_svc f =? s) && (f_obj f =? ob) && (f_act f =? a) && (f_id f =? i)
      && eqb_hexbytes p (f_payload f)
  | OAuthCall u t ans, EAuth u' t' ans' => eqb_hexbytes u' u && eqb_hexbytes t' t && Bool.eqb ans ans'
  | _, _ => false
  end.

Fixpoint evs_match (os : list out) (es : list oev) : bool :=
  match os, es with
  | [], [] => true
  | o :: os', e :: es' => ev_match o e && evs_match os' es'
  | _, _ => false
  end.

(* one observation channel per connection, one for the authenticator *)
Definition oev_conn (e : oev) : option N :=
  match e with EFrame c _ _ _ _ _ _ => Some c | EClose c => Some c | EInvoke c _ _ _ _ _ _ => Some c | EAuth _ _ _ => None end.
Definition on_conn_o (c : option nat) (o : out) : bool :=
  match out_conn o, c with Some a, Some b => Nat.eqb a b | None, None => true | _, _ => false end.
Definition on_conn_e (c : option nat) (e : oev) : bool :=
  match oev_conn e, c with Some a, Some b => N.of_nat b =? a | None, None => true | _, _ => false end.
Definition seq_match (perconn : bool) (cs : list nat) (os : list out) (es : list oev) : bool :=
  if perconn then
    Nat.eqb (List.length os) (List.length es)
    && forallb (fun c => evs_match (filter (on_conn_o c) os) (filter (on_conn_e c) es)) (None :: map Some cs)
  else evs_match os es.

Definition is_deliver (o : out) : bool := match o with ODeliver _ _ => true | _ => false end.
(* a delivery is seen by the harness when the addressed object is one of its probes *)
Definition is_invoke (o : out) : bool :=
  match o with
  | ODeliver _ f => match exists_obj (f_svc f) (f_obj f) with Some true => true | _ => false end
  | _ => false
  end.

(* events produced by service 0's mailbox goroutine, recognised by content: authenticator
   consultations, replies, ActionNotFound and payload errors *)
Definition is_mbox (o : out) : bool :=
  match o with
  | OAuthCall _ _ _ => true
  | OFrame _ ty _ _ _ _ b => (ty =? T_Reply) || (bodycode b =? 4) || (bodycode b =? 5)
  | _ => false
  end.

(* the two probe services have a mailbox goroutine each: invocations are compared per service *)
Definition oev_svc (e : oev) : N := match e with EInvoke _ _ s _ _ _ _ => s | _ => 0 end.
Definition out_svc (o : out) : N := match o with ODeliver _ f => f_svc f | _ => 0 end.
Definition inv_match (s : N) (m : list out) (inv : list oev) : bool :=
  evs_match (filter (fun o => is_invoke o && (out_svc o =? s)) m) (filter (fun e => oev_svc e =? s) inv).

Fixpoint steps_match (pc : bool) (cs : list nat) (ms : list (list out)) (obs : list (list oev * list oev * list oev)) : bool :=
  match ms, obs with
  | [], [] => true
  | m :: ms', (es, mb, inv) :: obs' =>
      seq_match pc cs (filter (fun o => negb (is_deliver o) && negb (is_mbox o)) m) es
      && seq_match pc cs (filter is_mbox m) mb
      && inv_match 1 m inv && inv_match 2 m inv
      && Nat.eqb (List.length (filter is_invoke m)) (List.length inv)
      && steps_match pc cs ms' obs'
  | _, _ => false
  end.

Definition ccase_ok (c : ccase) : bool :=
  let cs := script_conns (cc_script c) in
  steps_match (cc_perconn c) cs (run_script (cc_accept c) 0 false cs init (cc_script c)) (cc_obs c).

Fixpoint bad_idx {A} (f : A -> bool) (l : list A) (i : nat) : list nat :=
  match l with
  | [] => []
  | x :: r => if f x then bad_idx f r (S i) else i :: bad_idx f r (S i)
  end.

Definition mismatches (cs : list ccase) : list nat * list nat := (bad_idx ccase_ok cs 0, []).
