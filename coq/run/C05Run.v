(* C05Run.v — compares GenCodec.v (the four paths through generated code) with the payloads
   observed on the tapped connection between a generated proxy and a generated stub. *)
From QV Require Import Wire Value GenDec ParseOpt GenCodec GenSeq.
From Coq Require Import String List.
Import ListNotations.
Local Open Scope N_scope.

(* one step of a sequence on one stub / proxy pair (GenSeq.v) with what was observed *)
Record seqstep := {
  s_op : N;                (* 0 Update<P> (helper), 1 Set<P> (proxy), 2 Signal<S> (helper), 3 Get<P> (proxy) *)
  s_id : N;                (* action id of the property / signal *)
  s_ty : ty;               (* its declared type *)
  s_val : tval;            (* the value passed in (ignored for 3) *)
  s_bytes : string         (* 0-2: payload of the event seen by the subscriber; 3: payload of the getter's reply *)
}.

Record c05case := {
  k_kind : N;              (* 0 proxy->stub arguments; 1 stub->proxy result; 2 generated marshal -> generated unmarshal;
                              3 a result the proxy refused; 4 a sequence *)
  k_tys : list ty;         (* declared types (one per argument; exactly one for kinds 1, 2, 3) *)
  k_vals : list tval;      (* the values passed in; map entries in the order seen on the wire *)
  k_bytes : string;        (* payload observed (hex) *)
  k_seq : list seqstep     (* kind 4 *)
}.

(* long containers of numbers are written by the harness as their little-endian bytes *)
Fixpoint nums_aux (fuel w : nat) (bs : bytes) : list tval :=
  match fuel, bs with
  | S f, _ :: _ => VNum w (unle (firstn w bs)) :: nums_aux f w (skipn w bs)
  | _, _ => []
  end.
Definition nums (w : nat) (bs : bytes) : list tval := nums_aux (List.length bs) w bs.
Fixpoint numpairs_aux (fuel wk wv : nat) (bs : bytes) : list (tval * tval) :=
  match fuel, bs with
  | S f, _ :: _ => (VNum wk (unle (firstn wk bs)), VNum wv (unle (firstn wv (skipn wk bs))))
                   :: numpairs_aux f wk wv (skipn (wk + wv) bs)
  | _, _ => []
  end.
Definition numpairs (wk wv : nat) (bs : bytes) : list (tval * tval) := numpairs_aux (List.length bs) wk wv bs.

Fixpoint all2 {A B} (f : A -> B -> bool) (l : list A) (m : list B) : bool :=
  match l, m with
  | [], [] => true
  | x :: l', y :: m' => f x y && all2 f l' m'
  | _, _ => false
  end.

Definition same_vals (a b : list tval) : bool := all2 tval_eqb a b.

Section WithCfg.
  Variable c : wcfg.

  (* arguments that hold a dynamic value leave the reflection encoder through the value's own
     Write method (outside refl_domain): compared with the documented encoding *)
  Definition send_model (tys : list ty) (vals : list tval) : bytes :=
    if forallb refl_domain tys then proxy_send c vals else flat_map spec_enc vals.

  Definition step_typed (s : seqstep) : bool :=
    good_ty (s_ty s) && ((s_op s =? 3) || has_ty (s_val s) (s_ty s)).

  Definition typed_ok (k : c05case) : bool :=
    all2 has_ty (k_vals k) (k_tys k) && forallb good_ty (k_tys k) && forallb step_typed (k_seq k).

  Definition op_of (s : seqstep) : sop :=
    match s_op s with
    | 0 => SUpdate (s_id s) (s_val s)
    | 1 => SSet (s_id s) (s_val s)
    | 2 => SSignal (s_id s) (s_val s)
    | _ => SGet (s_id s)
    end.

  (* every observation of the sequence is the one GenSeq.srun computes from an empty store,
     and the generated subscriber / getter of the declared type reads the value back from it *)
  Definition obs_ok (s : seqstep) (m : option bytes) : bool :=
    let bs := unhex (s_bytes s) in
    match m with
    | Some b =>
        eqb_bytes b bs &&
        ((s_op s =? 3) ||
         match subscriber_recv (s_ty s) bs with ROk (v', []) => tval_eqb v' (s_val s) | _ => false end)
    | None => false
    end.
  Definition seq_ok (l : list seqstep) : bool := all2 obs_ok l (srun [] (map op_of l)).

  Definition model_ok (k : c05case) : bool :=
    let bs := unhex (k_bytes k) in
    match k_kind k, k_tys k, k_vals k with
    | 0, tys, vals =>
        eqb_bytes (send_model tys vals) bs &&
        match stub_recv tys bs with ROk (vs, []) => same_vals vs vals | _ => false end
    | 1, [t], [r] =>
        eqb_bytes (stub_reply r) bs &&
        (negb (refl_domain t) ||
         match proxy_recv c t bs with ROk (v, []) => tval_eqb v r | _ => false end)
    | 2, [t], [v] =>
        eqb_bytes (emit v) bs &&
        match subscriber_recv t bs with ROk (v', []) => tval_eqb v' v | _ => false end
    | 3, [t], [r] =>
        (* the stub wrote the documented encoding; the reflection decoder of the proxy refuses it *)
        eqb_bytes (stub_reply r) bs &&
        match proxy_recv c t bs with RErr _ => true | _ => false end
    | 4, [], [] => seq_ok (k_seq k)
    | _, _, _ => false
    end.

  Fixpoint bad_idx {A} (f : A -> bool) (l : list A) (i : nat) : list nat :=
    match l with [] => [] | x :: r => if f x then bad_idx f r (S i) else i :: bad_idx f r (S i) end.

  (* two index lists: ill-typed harness output, model differs from the observed payload *)
  Definition mismatches (l : list c05case) := (bad_idx typed_ok l 0, bad_idx model_ok l 0).
End WithCfg.
