(* C05Run.v — compares GenCodec.v (the four paths through generated code) with the payloads
   observed on the tapped connection between a generated proxy and a generated stub. *)
From QV Require Import Wire Value GenDec ParseOpt GenCodec.
From Coq Require Import String List.
Import ListNotations.
Local Open Scope N_scope.

Record c05case := {
  k_kind : N;              (* 0 proxy->stub arguments; 1 stub->proxy result; 2 generated marshal -> generated unmarshal *)
  k_tys : list ty;         (* declared types (one per argument; exactly one for kinds 1 and 2) *)
  k_vals : list tval;      (* the values passed in; map entries in the order seen on the wire *)
  k_bytes : string         (* payload observed (hex) *)
}.

Fixpoint all2 {A B} (f : A -> B -> bool) (l : list A) (m : list B) : bool :=
  match l, m with
  | [], [] => true
  | x :: l', y :: m' => f x y && all2 f l' m'
  | _, _ => false
  end.

Definition same_vals (a b : list tval) : bool := all2 tval_eqb a b.

Section WithCfg.
  Variable c : wcfg.

  (* arguments that hold a dynamic value leave the reflection encoder through the value's own
     Write method (outside refl_domain): compared with the documented encoding *)
  Definition send_model (tys : list ty) (vals : list tval) : bytes :=
    if forallb refl_domain tys then proxy_send c vals else flat_map spec_enc vals.

  Definition typed_ok (k : c05case) : bool := all2 has_ty (k_vals k) (k_tys k) && forallb good_ty (k_tys k).

  Definition model_ok (k : c05case) : bool :=
    let bs := unhex (k_bytes k) in
    match k_kind k, k_tys k, k_vals k with
    | 0, tys, vals =>
        eqb_bytes (send_model tys vals) bs &&
        match stub_recv tys bs with ROk (vs, []) => same_vals vs vals | _ => false end
    | 1, [t], [r] =>
        eqb_bytes (stub_reply r) bs &&
        (negb (refl_domain t) ||
         match proxy_recv c t bs with ROk (v, []) => tval_eqb v r | _ => false end)
    | 2, [t], [v] =>
        eqb_bytes (emit v) bs &&
        match subscriber_recv t bs with ROk (v', []) => tval_eqb v' v | _ => false end
    | _, _, _ => false
    end.

  Fixpoint bad_idx {A} (f : A -> bool) (l : list A) (i : nat) : list nat :=
    match l with [] => [] | x :: r => if f x then bad_idx f r (S i) else i :: bad_idx f r (S i) end.

  (* two index lists: ill-typed harness output, model differs from the observed payload *)
  Definition mismatches (l : list c05case) := (bad_idx typed_ok l 0, bad_idx model_ok l 0).
End WithCfg.
