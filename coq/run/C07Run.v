(* C07Run.v — hostile inputs: outcome class and bytes left of every decoder model against the
   implementation; the cost model's allocation magnitude against what the runtime measured; and
   the instrumented decoder (Cost.v) against the plain one on the same inputs. *)
From QV Require Import Reader Message Value GenDec Cost ParseOpt.
From Coq Require Import String.
Local Open Scope N_scope.

Record c07case := { h_entry : N; h_ty : ty; h_input : string; h_class : N; h_left : N; h_big : N }.

Section WithCfg.
  Variable c : wcfg.
  (* what generated decoders do with a count: PGen = allocate from it (pinned), PSig = grow with
     the elements read (after the template repair); observed by the harness on the witness input *)
  Variable gen_pol : policy.
  Definition code {A} (r : res A) : N := match r with ROk _ => 0 | RErr _ => 1 | RPanic => 2 | RFuel => 3 end.
  Definition left {A} (r : res (A * bytes)) : N := match r with ROk (_, l) => N.of_nat (List.length l) | _ => 0 end.
  Definition msg_code (bs : bytes) : N :=
    match read_msg {| s_data := bs; s_sched := [] |} with
    | Some (Ok _, _) => 0 | Some (Err _, _) => 1 | None => 3
    end.
  Definition budget : N := 100000.

  Fixpoint plain_t (t : ty) : bool :=
    match t with
    | TS SValue | TS SObject => false
    | TS _ => true
    | TList t => plain_t t
    | TMap k v => plain_t k && plain_t v
    | TTuple ts => forallb plain_t ts
    | TStruct _ fs => forallb (fun f => plain_t (snd f)) fs
    end.

  (* model outcome class / bytes left per entry point *)
  Definition model (k : c07case) : N * N :=
    let bs := unhex (h_input k) in
    match h_entry k with
    | 0 => (msg_code bs, 0)
    | 1 => let r := new_value parse_opt c bs in (code r, left r)
    | 2 => let r := sig_read parse_opt c (S (List.length bs)) (h_ty k) bs in (code r, left r)
    | 3 => let r := refl_dec c tval_eqb (h_ty k) bs in (code r, left r)
    | 4 | 5 | 6 => (code (gen_dec parse_opt (h_ty k) bs), 0)
    | 7 => (code (dec_capmap parse_opt c bs), 0)
    | _ => ((match parse_opt (string_of_bytes bs) with Some _ => 0 | None => 1 end), 0)
    end.
  Definition class_ok (k : c07case) : bool :=
    let '(cl, lf) := model k in (cl =? h_class k) && ((negb (h_class k =? 0)) || (lf =? h_left k)).

  (* allocation magnitude of generated decoders: a model allocation above 256 MiB must show up
     as a large measured allocation, one below 4 MiB must not *)
  Definition alloc_ok (k : c07case) : bool :=
    match h_entry k with
    | 4 | 5 | 6 =>
        let a := alloc (snd (cdec gen_pol false (h_ty k) (unhex (h_input k)) budget)) in
        if 268435456 <? a then h_big k =? 1 else if a <? 4194304 then h_big k =? 0 else true
    | 3 =>
        let a := alloc (snd (cdec PRefl (refl_neg_len_panics c) (h_ty k) (unhex (h_input k)) budget)) in
        if a <? 4194304 then h_big k =? 0 else true
    | _ => true
    end.

  (* the instrumented decoder agrees with the plain one (class, bytes left) where both apply *)
  Definition cost_consistent (k : c07case) : bool :=
    let bs := unhex (h_input k) in
    match h_entry k with
    | 4 | 5 | 6 =>
        let r := cdec gen_pol false (h_ty k) bs budget in
        (class_of (fst r) =? code (gen_dec parse_opt (h_ty k) bs))
    | 3 => if plain_t (h_ty k)
           then let r := cdec PRefl (refl_neg_len_panics c) (h_ty k) bs budget in
                let m := refl_dec c tval_eqb (h_ty k) bs in
                (class_of (fst r) =? code m) && (left_of (fst r) =? left m)
           else true
    | 2 => if plain_t (h_ty k) && wfz (h_ty k) && negb (string_reader_drops_err c)
           then let r := cdec PSig false (h_ty k) bs budget in
                let m := sig_read parse_opt c (S (List.length bs)) (h_ty k) bs in
                (class_of (fst r) =? code m) && (left_of (fst r) =? left m)
           else true
    | _ => true
    end.

  Fixpoint bad_idx {A} (f : A -> bool) (l : list A) (i : nat) : list nat :=
    match l with [] => [] | x :: r => if f x then bad_idx f r (S i) else i :: bad_idx f r (S i) end.
  Definition mismatches (l : list c07case) :=
    (bad_idx class_ok l 0, bad_idx alloc_ok l 0, bad_idx cost_consistent l 0).
End WithCfg.
