(* C10Run.v — executable comparison of the concurrent-senders system and of dispatch (Endpoint.v)
   with what real endpoints did.
   A sender case: the lists the N senders were given, and the order in which the receiving side saw
   the messages (sender, id) — the observed schedule.  The model run over that schedule must consume
   every message, produce exactly the observed sequence, one Write call per message (compared with
   the calls recorded by the harness stream when there is one), and the model's reader must decode
   the concatenation of those calls to the same sequence; the header the receiving side reports for
   the k-th message equals, field by field, the header of the k-th message of the model run.
   A dispatch case is a C17Run.ocase (operation sequence on one endpoint). *)
From QV Require Import Reader Message Endpoint C17Run.
From Coq Require Import String.
Local Open Scope N_scope.

(* a message of a sender: the header's flags byte, then (type, service, object, action, id, payload):
   every header field the reader accepts a free value for is free here *)
Definition fomsg := (N * omsg)%type.
Definition msg_of_f (p : fomsg) : msg :=
  let m := msg_of (snd p) in
  let h := m_header m in
  {| m_header := {| h_magic := h_magic h; h_id := h_id h; h_size := h_size h; h_version := h_version h;
                    h_type := h_type h; h_flags := fst p; h_service := h_service h; h_object := h_object h;
                    h_action := h_action h |};
     m_payload := m_payload m |}.

(* the header fields as the receiving side reports them *)
Definition hdr_fields (h : header) : list N :=
  [h_magic h; h_id h; h_size h; h_version h; h_type h; h_flags h; h_service h; h_object h; h_action h].

Record scase := {
  sc_senders : list (list fomsg);
  sc_order : list N;              (* sender of the k-th message received *)
  sc_recv : list (N * N);         (* (sender, id) of the k-th message received *)
  sc_rhdr : list (list N);        (* every field of the header of the k-th message received (hdr_fields) *)
  sc_has_calls : bool;
  sc_calls : list string          (* Write calls seen by the harness-owned stream *)
}.

Fixpoint eqb_pairs (a b : list (N * N)) : bool :=
  match a, b with
  | [], [] => true
  | (x, y) :: a', (u, v) :: b' => (x =? u) && (y =? v) && eqb_pairs a' b'
  | _, _ => false
  end.

Fixpoint eqb_calls (a : list bytes) (b : list string) : bool :=
  match a, b with
  | [], [] => true
  | x :: a', y :: b' => eqb_bytes x (unhex y) && eqb_calls a' b'
  | _, _ => false
  end.

Fixpoint eqb_msgs (a b : list msg) : bool :=
  match a, b with
  | [], [] => true
  | x :: a', y :: b' => eqb_bytes (enc_msg x) (enc_msg y) && eqb_msgs a' b'
  | _, _ => false
  end.

Definition scase_ok (c : scase) : bool :=
  let ls := map (map msg_of_f) (sc_senders c) in
  match send_run (map N.to_nat (sc_order c)) ls {| w_calls := []; w_sched := [] |} [] with
  | Some (Ok (w', rest, tagged)) =>
      forallb (fun l => match l with [] => true | _ => false end) rest &&
      eqb_pairs (map (fun p => (N.of_nat (fst p), h_id (m_header (snd p)))) tagged) (sc_recv c) &&
      all2 (fun p r => eqb_listN (hdr_fields (m_header (snd p))) r) tagged (sc_rhdr c) &&
      (if sc_has_calls c then eqb_calls (w_calls w') (sc_calls c) else true) &&
      match read_all (S (List.length tagged)) {| s_data := List.concat (w_calls w'); s_sched := [(7%nat, false); (1%nat, true); (28%nat, false)] |} with
      | Some (ms, EEOF, _) => eqb_msgs ms (map snd tagged)
      | _ => false
      end
  | _ => false
  end.

Definition mismatches (ss : list scase) (ds : list ocase) : list nat * list nat :=
  (bad_idx scase_ok ss 0, bad_idx case_ok ds 0).
