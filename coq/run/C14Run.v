(* C14Run.v — compares what the harness observed on a real object with a property
   (examples/space Bomb: "delay", int32, validator owned by the harness) with Property.v:
   sequential operation sequences step by step, sequences that also register and unregister with
   client-chosen user ids (PropertySubs.v) step by step, and concurrent histories through the
   linearizability checker of Lin.v instantiated at the register specification; concurrent
   histories on an object with several properties (built by the harness with bus.NewBasicObject)
   through the same checker instantiated at the family of registers of PropertyMulti.v. *)
From Coq Require Import NArith List Bool String.
From QV Require Import Bytes Property PropertySubs PropertyMulti Lin.
Import ListNotations.
Local Open Scope N_scope.

Definition nonneg (x : N) : bool := x <? 2 ^ 31.     (* the harness validator: duration >= 0 *)

Definition mkv (sig hex : string) : cval := {| cv_sig := sig; cv_data := unhex hex |}.

(* ---------- sequential ---------- *)
Inductive sres := SVal (sig hex : string) | SFail | SDone
                | STyped (r : option N).   (* a get through the generated proxy: Some x or an error *)
Record sobs := { so_res : sres; so_events : list (nat * N * string) (* connection, message id, payload *) }.
Record scase := { sc_ops : list (pop * sobs) }.

Definition eqb_cval (a b : cval) : bool := String.eqb (cv_sig a) (cv_sig b) && eqb_bytes (cv_data a) (cv_data b).
Definition eqb_optN (a b : option N) : bool :=
  match a, b with Some x, Some y => x =? y | None, None => true | _, _ => false end.

Definition res_ok (r : pres) (o : sres) : bool :=
  match o with
  | SVal sig hex => match r with RVal v => eqb_cval v (mkv sig hex) | _ => false end
  | SFail => match r with RFail => true | _ => false end
  | SDone => match r with RDone => true | _ => false end
  | STyped x => eqb_optN (getter r) x
  end.

Fixpoint eqb_events (a : list pevent) (b : list (nat * N * string)) : bool :=
  match a, b with
  | [], [] => true
  | ((c1, m1), d1) :: a', (c2, m2, h2) :: b' =>
      Nat.eqb c1 c2 && (m1 =? m2) && eqb_bytes d1 (unhex h2) && eqb_events a' b'
  | _, _ => false
  end.

(* events are compared per connection (the order between connections is not observable) *)
Definition ev_by_conn (ev : list pevent) : list pevent :=
  flat_map (fun c => filter (fun e => Nat.eqb (fst (fst e)) c) ev) [0; 1; 2; 3]%nat.

Fixpoint sreplay (c : pcfg) (s : pstate) (l : list (pop * sobs)) (i : nat) : option nat :=
  match l with
  | [] => None
  | (o, ob) :: r =>
      let '(s1, res, ev) := pstep c nonneg s o in
      if res_ok res (so_res ob) && eqb_events (ev_by_conn ev) (so_events ob) then sreplay c s1 r (S i) else Some i
  end.
Definition scase_ok (c : pcfg) (t : scase) : bool :=
  match sreplay c pinit (sc_ops t) 0 with None => true | Some _ => false end.

(* ---------- sequential, with the subscriber table ---------- *)
Record robs := { ro_res : sres; ro_events : list (nat * N * N * string) (* connection, action, message id, payload *) }.
Record rcase := { rc_ops : list (sop * robs) }.

Fixpoint eqb_sevents (a : list sevent) (b : list (nat * N * N * string)) : bool :=
  match a, b with
  | [], [] => true
  | (a1, ((c1, m1), d1)) :: a', (c2, a2, m2, h2) :: b' =>
      Nat.eqb c1 c2 && (a1 =? a2) && (m1 =? m2) && eqb_bytes d1 (unhex h2) && eqb_sevents a' b'
  | _, _ => false
  end.
(* per connection, in the order the frames arrived on it *)
Definition sev_by_conn (ev : list sevent) : list sevent :=
  flat_map (fun c => filter (fun e => Nat.eqb (fst (fst (snd e))) c) ev) [0; 1; 2; 3]%nat.

Fixpoint rreplay (c : pcfg) (s : sstate) (l : list (sop * robs)) (i : nat) : option nat :=
  match l with
  | [] => None
  | (o, ob) :: r =>
      let '(s1, res, ev) := sstep c nonneg s o in
      if res_ok res (ro_res ob) && eqb_sevents (sev_by_conn ev) (ro_events ob) then rreplay c s1 r (S i) else Some i
  end.
Definition rcase_ok (c : pcfg) (t : rcase) : bool :=
  match rreplay c sinit (rc_ops t) 0 with None => true | Some _ => false end.

(* ---------- concurrent ---------- *)
Record ccase := {
  cc_init : list pop;                       (* run before the threads start: subscriptions, first value *)
  cc_hist : list (orec pop pres);           (* invocation / response stamps from one atomic counter *)
  cc_events : list (nat * N * list string)  (* per subscriber: the payloads it received meanwhile *)
}.

Definition count_bytes (x : bytes) (l : list bytes) : nat := List.length (filter (eqb_bytes x) l).
Definition perm_bytes (a b : list bytes) : bool :=
  Nat.eqb (List.length a) (List.length b) && forallb (fun x => Nat.eqb (count_bytes x a) (count_bytes x b)) a.

(* the data of the writes the history reports as accepted *)
Definition accepted_data (c : pcfg) (h : list (orec pop pres)) : list bytes :=
  flat_map (fun x => match o_ret x with
                     | Some (_, RDone) => match check c nonneg (o_op x) with Some v => [cv_data v] | None => [] end
                     | _ => []
                     end) h.

Definition ccase_ok (c : pcfg) (t : ccase) : bool :=
  let s0 := fst (prun c nonneg pinit (cc_init t)) in
  hist_wf (cc_hist t) &&
  lin_check (rstep c nonneg) pres_eqb s0 (cc_hist t) &&
  forallb (fun e => let '(cn, mid, pl) := e in
                    existsb (fun s => Nat.eqb (fst s) cn && (snd s =? mid)) (p_subs s0) &&
                    perm_bytes (map unhex pl) (accepted_data c (cc_hist t)))
          (cc_events t).

(* ---------- concurrent, an object with several properties ---------- *)
Record mcase := {
  mc_props : ptable;                             (* the declared properties: name, uid *)
  mc_init : list mop;                            (* run before the threads start: subscriptions, first values *)
  mc_hist : list (orec mop pres);                (* invocation / response stamps from one atomic counter *)
  mc_events : list (N * nat * N * list string)   (* per subscription (property uid, connection, message id): the payloads received *)
}.

(* the data of the writes to the property [uid] the history reports as accepted *)
Definition maccepted_data (c : pcfg) (t : ptable) (uid : N) (h : list (orec mop pres)) : list bytes :=
  flat_map (fun x => match o_ret x with
                     | Some (_, RDone) =>
                         match localize t (o_op x) with
                         | Some (k, po) =>
                             if uid_of t k =? uid
                             then match check c nonneg po with Some v => [cv_data v] | None => [] end
                             else []
                         | None => []
                         end
                     | _ => []
                     end) h.

(* the whole recorded history — every property — is linearizable with respect to the family of
   registers, and each subscription received exactly the accepted writes of ITS property *)
Definition mcase_ok (c : pcfg) (m : mcase) : bool :=
  let t := mc_props m in
  let s0 := fst (mrun t c nonneg (minit t) (mc_init m)) in
  hist_wf (mc_hist m) &&
  lin_check (mrstep t c nonneg) pres_eqb s0 (mc_hist m) &&
  forallb (fun e => let '(uid, cn, mid, pl) := e in
                    match idx_uid t uid with
                    | Some k => existsb (fun s => Nat.eqb (fst s) cn && (snd s =? mid)) (p_subs (mreg s0 k))
                    | None => false
                    end &&
                    perm_bytes (map unhex pl) (maccepted_data c t uid (mc_hist m)))
          (mc_events m).

Fixpoint bad_idx {A} (f : A -> bool) (l : list A) (i : nat) : list nat :=
  match l with
  | [] => []
  | x :: r => if f x then bad_idx f r (S i) else i :: bad_idx f r (S i)
  end.

Definition mismatches (c : pcfg) (ss : list scase) (cs : list ccase) (rs : list rcase) (ms : list mcase)
  : list nat * list nat * list nat * list nat :=
  (bad_idx (scase_ok c) ss 0, bad_idx (ccase_ok c) cs 0, bad_idx (rcase_ok c) rs 0, bad_idx (mcase_ok c) ms 0).

Definition mkcfg (b : bool) : pcfg := {| store_untyped := b |}.
Definition ro (r : sres) (ev : list (nat * N * N * string)) : robs := {| ro_res := r; ro_events := ev |}.
Definition so (r : sres) (ev : list (nat * N * string)) : sobs := {| so_res := r; so_events := ev |}.
Definition orc (t : N) (o : pop) (inv : N) (ret : option (N * pres)) : orec pop pres :=
  {| o_tid := t; o_op := o; o_inv := inv; o_ret := ret |}.
Definition orm (t : N) (o : mop) (inv : N) (ret : option (N * pres)) : orec mop pres :=
  {| o_tid := t; o_op := o; o_inv := inv; o_ret := ret |}.
