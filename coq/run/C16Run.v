(* C16Run.v — replays what the harness did to a real bus.Service on the model of Service.v and
   compares, operation by operation, everything the harness observed: the index Add chose, return
   values, panics, the frames each connection received, and the implementor-side counters. *)
From Coq Require Import NArith List Bool String.
From QV Require Import Service.
Import ListNotations.
Local Open Scope N_scope.

(* operations of the harness: a scheduler over the labels of the model *)
Inductive op :=
| PAddBegin (k : nat) (draws : list N)      (* Service.Add started; the harness is inside Activate *)
| PAddEnd (k : nat) (ok : bool)             (* Activate returns (nil iff ok); Add returns *)
| PRemove (i : N)
| PSend (c : nat) (f : frame) (deliver : bool)   (* frame written on connection c; deliver = the mailbox is not held *)
| PDrain (k : nat)                          (* the harness releases actor k's method: its mailbox drains *)
| PEmit (k : nat) (sg : N).

(* frame as observed: connection, type code, object, action, message id *)
Definition oframe := (nat * N * N * N * N)%type.

Record obs := {
  ob_defer : bool;          (* effects are observed together with the next operation's *)
  ob_index : option N;
  ob_ret : option bool;
  ob_panic : bool;
  ob_frames : list oframe;  (* grouped by connection 0,1,2,3; in arrival order per connection *)
  ob_hooks : list N;        (* OnTerminate count per actor *)
  ob_execs : list N         (* method executions per actor *)
}.

(* tc_actors: number of harness slots.  A slot (= model actor) is ONE LIFE of an object value: when the
   harness hands the object of a removed actor, or of one whose activation failed, to Service.Add
   again, the new life is another actor k of the model, starting as fresh_actor.  Agreement on such
   a case says that a value that lived before behaves like a new object. *)
Record tcase := { tc_actors : nat; tc_ops : list (op * obs) }.

Definition tcode (t : otype) : N :=
  match t with
  | TReply => 0
  | TError ENotFound => 1 | TError ETerminated => 2 | TError EWrongID => 3
  | TError EActionNotFound => 4 | TError EOther => 5
  | TEvent => 6
  end.

Fixpoint drain (c : cfg) (fuel : nat) (s : state) (k : nat) : option (state * list out) :=
  match fuel with
  | O => Some (s, [])
  | S n =>
      match a_queue (actors s k) with
      | [] => Some (s, [])
      | _ =>
          match step c s (LDeliver k) with
          | None => if crashed s then Some (s, []) else None
          | Some (s1, o1) =>
              match drain c n s1 k with
              | None => None
              | Some (s2, o2) => Some (s2, o1 ++ o2)
              end
          end
      end
  end.

Definition exec_op (c : cfg) (s : state) (p : op) : option (state * list out) :=
  match p with
  | PAddBegin k d => step c s (LAddBegin k d)
  | PAddEnd k ok => step c s (LAddEnd k ok)
  | PRemove i => step c s (LRemove i)
  | PEmit k sg => step c s (LEmit k sg)
  | PDrain k => drain c (List.length (a_queue (actors s k))) s k
  | PSend cn f deliver =>
      match step c s (LRecv cn f) with
      | None => None
      | Some (s1, o1) =>
          if deliver then
            match boxes s (f_obj f) with
            | Some (TObj k) =>
                match drain c (List.length (a_queue (actors s1 k))) s1 k with
                | None => None
                | Some (s2, o2) => Some (s2, o1 ++ o2)
                end
            | _ => Some (s1, o1)
            end
          else Some (s1, o1)
      end
  end.

Definition frames_of (outs : list out) : list oframe :=
  flat_map (fun o => match o with OFrame c t ob ac id => [(c, tcode t, ob, ac, id)] | _ => [] end) outs.
Definition by_conn (fs : list oframe) : list oframe :=
  flat_map (fun c => filter (fun f => Nat.eqb (fst (fst (fst (fst f)))) c) fs) [0; 1; 2; 3]%nat.

Definition eqb_oframe (a b : oframe) : bool :=
  let '(c1, t1, o1, a1, i1) := a in let '(c2, t2, o2, a2, i2) := b in
  Nat.eqb c1 c2 && (t1 =? t2) && (o1 =? o2) && (a1 =? a2) && (i1 =? i2).
Fixpoint eqb_list {A} (e : A -> A -> bool) (a b : list A) : bool :=
  match a, b with
  | [], [] => true
  | x :: a', y :: b' => e x y && eqb_list e a' b'
  | _, _ => false
  end.
Definition eqb_optN (a b : option N) : bool :=
  match a, b with Some x, Some y => x =? y | None, None => true | _, _ => false end.
Definition eqb_optb (a b : option bool) : bool :=
  match a, b with Some x, Some y => Bool.eqb x y | None, None => true | _, _ => false end.

Definition last_index (outs : list out) : option N :=
  fold_left (fun acc o => match o with OIndex i => Some i | _ => acc end) outs None.
Definition last_ret (outs : list out) : option bool :=
  fold_left (fun acc o => match o with ORet b => Some b | _ => acc end) outs None.
Definition has_panic (outs : list out) : bool :=
  existsb (fun o => match o with OPanic => true | _ => false end) outs.

Definition counters (s : state) (n : nat) (f : astate -> N) : list N := map (fun k => f (actors s k)) (seq 0 n).

Definition obs_ok (n : nat) (s : state) (outs : list out) (o : obs) : bool :=
  eqb_optN (last_index outs) (ob_index o) && eqb_optb (last_ret outs) (ob_ret o) &&
  Bool.eqb (has_panic outs) (ob_panic o) &&
  eqb_list eqb_oframe (by_conn (frames_of outs)) (ob_frames o) &&
  eqb_list N.eqb (counters s n a_hooks) (ob_hooks o) &&
  eqb_list N.eqb (counters s n a_execs) (ob_execs o).

(* index of the first operation whose observation differs from the model (None: all agree) *)
Fixpoint replay (c : cfg) (n : nat) (s : state) (pend : list out) (l : list (op * obs)) (i : nat) : option nat :=
  match l with
  | [] => None
  | (p, o) :: r =>
      match exec_op c s p with
      | None => Some i
      | Some (s1, o1) =>
          let outs := pend ++ o1 in
          if ob_defer o then replay c n s1 outs r (S i)
          else if obs_ok n s1 outs o then replay c n s1 [] r (S i) else Some i
      end
  end.

Definition tcase_ok (c : cfg) (t : tcase) : bool :=
  match replay c (tc_actors t) init [] (tc_ops t) 0 with None => true | Some _ => false end.

Fixpoint bad_idx {A} (f : A -> bool) (l : list A) (i : nat) : list nat :=
  match l with
  | [] => []
  | x :: r => if f x then bad_idx f r (S i) else i :: bad_idx f r (S i)
  end.

Definition mismatches (c : cfg) (ts : list tcase) : list nat := bad_idx (tcase_ok c) ts 0.

(* frame constructors used by the case files *)
Definition fr (kind : N) (obj : N) (act : faction) (id : N) : frame :=
  {| f_kind := if kind =? 0 then KCall else KPost; f_obj := obj; f_act := act; f_id := id |}.
Definition ob (defer : bool) (idx : option N) (ret : option bool) (panic : bool)
  (frames : list oframe) (hooks execs : list N) : obs :=
  {| ob_defer := defer; ob_index := idx; ob_ret := ret; ob_panic := panic; ob_frames := frames;
     ob_hooks := hooks; ob_execs := execs |}.
Definition mkcfg (a b c d e : bool) : cfg :=
  {| keep_box_on_remove := a; zero_index_untested := b; nil_slot_on_failed_activate := c; remove_pending_slot := d;
     terminate_by_index := e |}.
