(* C02Run.v — compares Value.v (enc_dval, new_value) with what value.Write / value.NewValue did. *)
From QV Require Import Value ParseOpt.
From Coq Require Import String.
Local Open Scope N_scope.

Record c02case := { v_val : dval; v_enc : string; v_input : string; v_class : N; v_dec : dval; v_left : N }.

Section WithCfg.
  Variable c : wcfg.
  Definition code {A} (r : res A) : N := match r with ROk _ => 0 | RErr _ => 1 | RPanic => 2 | RFuel => 3 end.
  Definition enc_ok (k : c02case) : bool := eqb_bytes (enc_dval (v_val k)) (unhex (v_enc k)).
  Definition dec_ok (k : c02case) : bool :=
    match new_value parse_opt c (unhex (v_input k)) with
    | ROk (v, rest) => (v_class k =? 0) && dval_eqb v (v_dec k) && (N.of_nat (List.length rest) =? v_left k)
    | r => code r =? v_class k
    end.
  Fixpoint bad_idx {A} (f : A -> bool) (l : list A) (i : nat) : list nat :=
    match l with [] => [] | x :: r => if f x then bad_idx f r (S i) else i :: bad_idx f r (S i) end.
  Definition mismatches (l : list c02case) := (bad_idx enc_ok l 0, bad_idx dec_ok l 0).
End WithCfg.
