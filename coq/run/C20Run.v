(* C20Run.v — executable comparison of Conv.v with what conversion.ConvertFrom, conversion.DecodeFrom
   and bus.Proxy.Call2 did.
   Evaluated by vm_compute on case files written by the Go harness (qv C20). *)
From Coq Require Import List ZArith NArith Bool String.
From QV Require Import Conv Facts.
Import ListNotations.

(* one conversion the implementation performed: source type, target type, source value, whether
   the harness judged the pair compatible, whether it judged that kinds of different classes are
   reached, and the deep structure found in the target
   afterwards (None: ConvertFrom returned an error) *)
Record ccase := { c_from : gotype; c_to : gotype; c_val : val; c_compat : bool; c_other : bool; c_res : option val;
                  (* None: the target was freshly allocated.  Some old: the target held `old` (deep
                     structure, slices with their length and whole backing array) when ConvertFrom was called *)
                  c_old : option dval;
                  (* the entry point the implementation was called through (Conv.entry) *)
                  c_entry : entry }.

(* equality of observed trees; maps are compared as finite maps (the harness lists entries sorted
   by key, the model in insertion order); the sign of a zero float key is not compared: Go keeps
   one entry for +0 and -0 and which sign survives depends on its iteration order *)
Fixpoint val_equiv (a b : val) {struct a} : bool :=
  match a, b with
  | VSlice x, VSlice y => list_eqb val_equiv x y
  | VStruct x, VStruct y => list_eqb val_equiv x y
  | VMap x, VMap y =>
      Nat.eqb (List.length x) (List.length y) &&
      forallb (fun kv : val * val =>
                 let (k, e) := kv in
                 existsb (fun kv' : val * val => (key_eqb k (fst kv') || val_equiv k (fst kv')) && val_equiv e (snd kv')) y) x
  | _, _ => val_eqb a b
  end.

Definition case_ok (c : cfg) (x : ccase) : bool :=
  Bool.eqb (compatb (c_from x) (c_to x)) (c_compat x) &&
  Bool.eqb (other_kind_reached (c_to x) (c_from x) (c_val x)) (c_other x) &&
  has_typeb (c_from x) (c_val x) &&
  match enter (c_entry x) c (c_from x) (c_to x) (c_val x) (c_old x), c_res x with
  | COk v', Some o => val_equiv v' o
  | CErr, None => true
  | _, _ => false
  end &&
  (* the model of a fresh target is the model of a target holding zero values *)
  match c_old x with
  | None => match enter (c_entry x) c (c_from x) (c_to x) (c_val x) (Some (dzero (c_to x))), c_res x with
            | COk v', Some o => val_equiv v' o
            | CErr, None => true
            | _, _ => false
            end
  | Some _ => true
  end &&
  (* a reply read directly (same signature) is a conversion like any other: for compatible types
     the conversion the model describes gives that very value (the harness only reads replies
     directly into fresh variables) *)
  match c_entry x with
  | ECall2 => negb (same_sigb (c_from x) (c_to x) && compatb (c_from x) (c_to x)) ||
              match convert c (c_from x) (c_to x) (c_val x), c_res x with
              | COk v', Some o => val_equiv v' o
              | _, _ => false
              end
  | _ => true
  end.

Fixpoint bad_idx {A} (f : A -> bool) (l : list A) (i : nat) : list nat :=
  match l with
  | [] => []
  | x :: r => if f x then bad_idx f r (S i) else i :: bad_idx f r (S i)
  end.

(* what the source text says about the defect switch: the second convertFrom call of convertMap
   writes into `key` (fact regenerated from /repo) *)
Definition source_says_defect : bool :=
  list_eqb String.eqb f_c20_map_calls ["key, k"%string; "key, w.MapIndex(k)"%string].

(* the statement of convertMap that decides which map receives the entries (fact regenerated from
   /repo): the pinned text keeps a map that is not nil, the repaired one never does *)
Definition map_prepare_pinned : string := "if v.IsNil() { v.Set(reflect.MakeMapWithSize(v.Type(), l)) }".
Definition map_prepare_repaired : string :=
  "if v.CanSet() { v.Set(reflect.MakeMapWithSize(v.Type(), l)) } else { for _, k := range v.MapKeys() { v.SetMapIndex(k, reflect.Value{}) } }".
Definition source_says_keeps : bool := String.eqb (nth 4 f_c20_map_stmts ""%string) map_prepare_pinned.

(* index list of the cases on which model and implementation differ; second list: [0] / [1] when a
   switch observed by the probes contradicts the source text *)
Definition mismatches (c : cfg) (cs : list ccase) : list nat * list nat :=
  (bad_idx (case_ok c) cs 0,
   (if Bool.eqb (map_value_into_key c) source_says_defect then [] else [0%nat]) ++
   (if Bool.eqb (map_keeps_old_entries c) source_says_keeps then [] else [1%nat])).
