(* C18Run.v — executable comparison of Idl.v with what idl.GenerateIDL and idl.ParseIDL did on the
   cases the harness generated (qv C18). *)
From QV Require Import Sig SigParse Idl.
From Coq Require Import String NArith.
Local Open Scope string_scope.

Definition M := Build_mmethod.
Definition S_ := Build_msignal.
Definition MO := Build_mobject.
Definition hx (h : string) : string := string_of_bytes (unhex h).

(* ----- canonical form of a list of meta-objects: actions sorted by uid ----- *)
Fixpoint insert_by {A} (key : A -> N) (x : A) (l : list A) : list A :=
  match l with
  | [] => [x]
  | y :: r => if (key x <=? key y)%N then x :: l else y :: insert_by key x r
  end.
Definition sort_by {A} (key : A -> N) (l : list A) : list A := fold_right (insert_by key) [] l.

Definition eqb_list {A} (eq : A -> A -> bool) : list A -> list A -> bool :=
  fix go l1 l2 := match l1, l2 with
                  | [], [] => true
                  | x :: r1, y :: r2 => eq x y && go r1 r2
                  | _, _ => false
                  end.
Definition eqb_opt_names (a b : option (list string)) : bool :=
  match a, b with
  | Some x, Some y => eqb_list String.eqb x y
  | None, None => true
  | _, _ => false
  end.
Definition eqb_method (a b : mmethod) : bool :=
  N.eqb (mm_uid a) (mm_uid b) && String.eqb (mm_name a) (mm_name b) && String.eqb (mm_params a) (mm_params b) &&
  String.eqb (mm_ret a) (mm_ret b) && eqb_opt_names (mm_pnames a) (mm_pnames b).
Definition eqb_signal (a b : msignal) : bool :=
  N.eqb (ms_uid a) (ms_uid b) && String.eqb (ms_name a) (ms_name b) && String.eqb (ms_sig a) (ms_sig b).
Definition eqb_object (a b : mobject) : bool :=
  String.eqb (mo_name a) (mo_name b) &&
  eqb_list eqb_method (sort_by mm_uid (mo_methods a)) (sort_by mm_uid (mo_methods b)) &&
  eqb_list eqb_signal (sort_by ms_uid (mo_signals a)) (sort_by ms_uid (mo_signals b)) &&
  eqb_list eqb_signal (sort_by ms_uid (mo_props a)) (sort_by ms_uid (mo_props b)).

(* ----- ParseIDL ----- *)
(* observed: 0 = error, 1 = meta-objects, 2 = the process died of a stack overflow *)
Record pcase := P { pc_text : string; pc_res : N; pc_objs : list mobject }.

Definition pcase_ok (cfg : icfg) (c : pcase) : bool :=
  match parse_idl_cfg cfg (pc_text c) with
  | IOk objs => N.eqb (pc_res c) 1 && eqb_list eqb_object objs (pc_objs c)
  | IErr => N.eqb (pc_res c) 0
  | ICrash => N.eqb (pc_res c) 2
  | IFuel | IHang => false
  end.

(* ----- GenerateIDL ----- *)
Record gcase := G { gc_pkg : string; gc_objs : list mobject; gc_ok : bool; gc_text : string }.

Definition gcase_ok (c : gcase) : bool :=
  match gen_idl (gc_pkg c) (gc_objs c) with
  | Some text => gc_ok c && String.eqb text (gc_text c)
  | None => negb (gc_ok c)
  end.

Fixpoint bad_idx {A} (f : A -> bool) (l : list A) (i : nat) : list nat :=
  match l with
  | [] => []
  | x :: r => if f x then bad_idx f r (S i) else i :: bad_idx f r (S i)
  end.

(* cfg: which repairs of design/C18.fix.*.diff the parser has (observed by the harness on probe texts) *)
Definition mismatches (cfg : icfg) (gs : list gcase) (ps : list pcase) : list nat * list nat :=
  (bad_idx gcase_ok gs 0, bad_idx (pcase_ok cfg) ps 0).
