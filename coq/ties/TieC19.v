(* TieC19.v — the skeleton of Session.client regenerated from /repo/bus/session/session.go
   (gen/Facts.v) is the program the machine of Session.v runs. *)
From Coq Require Import List String.
From QV Require Import Session SessionLife SessionView Facts.
Import ListNotations.
Local Open Scope string_scope.

(* the body of Session.client is the model's program: with the pinned exit (RUnlock after Lock,
   switch runlock_after_lock) or with the repaired one (Unlock) *)
Lemma tie_session_client :
  f_session_client = render (prog cfg_pinned) \/ f_session_client = render (prog cfg_clean).
Proof. (left; reflexivity) || (right; reflexivity). Qed.

(* the only other code that touches the pool: the closer registered on the pooled endpoint (runs
   when a pooled connection is lost: the program `closer_prog` of the LLose event of
   SessionLife.v) and Terminate (Lock; range; Unlock); NewAuthSession only allocates the map *)
Lemma tie_session_closer : f_session_closer = render_closer closer_prog.
Proof. reflexivity. Qed.
Lemma tie_session_pool_users : f_session_pool_users = ["NewAuthSession"; "Terminate"; "client"].
Proof. reflexivity. Qed.
Lemma tie_session_terminate : f_session_terminate_pool_ops = ["Lock"; "range(s.poll){"; "Unlock"].
Proof. reflexivity. Qed.

(* the loop that keeps the session's service list up to date (updateLoop with updateServiceList
   inlined) is the program of SessionView.v: one refresh per received signal, nothing discarded;
   nobody else writes the list or reads the two signal channels *)
Lemma tie_session_update_loop : f_session_update_loop = render_loop loop_prog.
Proof. reflexivity. Qed.
Lemma tie_session_list_users :
  f_session_list_users = ["NewAuthSession"; "findServiceID"; "findServiceName"; "updateServiceList"].
Proof. reflexivity. Qed.
Lemma tie_session_signal_users : f_session_signal_users = ["NewAuthSession"; "updateLoop"].
Proof. reflexivity. Qed.
