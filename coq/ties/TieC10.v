(* TieC10.v — facts regenerated from bus/net (gen/Facts.v) that the C10 models rest on. *)
From Coq Require Import String.
From QV Require Import Message Endpoint Facts.
Local Open Scope string_scope.

(* EndPoint.Send is Message.Write on the endpoint's stream                      -> one step of send_run *)
Lemma tie_c10_Send : f_c10_skel_Send = "return m.Write(e.stream)". Proof. reflexivity. Qed.

(* Message.Write: size test, header and payload into a buffer, then ONE WriteN of the buffer on the stream
   (write_msg in Message.v; write_msg_once: with a writer that takes everything that is one Write call) *)
Lemma tie_c10_Message_Write : f_c10_skel_Message_Write =
  "if(uint32(len(m.Payload)) != m.Header.Size){return};m.Header.Write(buf);if(err != nil){return};basic.WriteN(buf,m.Payload,int(m.Header.Size));if(err != nil){return};basic.WriteN(w,buf.Bytes(),int(m.Header.Size + HeaderSize));if(err != nil){if(err == io.EOF){return};return};return".
Proof. reflexivity. Qed.
Lemma tie_c10_single_stream_write : f_msg_write_stream_writes = 1%nat. Proof. reflexivity. Qed.

(* the streams hand Write straight to the connection / the pipe's write end: no splitting of a call *)
Lemma tie_c10_connStream : f_c10_skel_connStream = "gonet.Conn;ctx context.Context". Proof. reflexivity. Qed.
Lemma tie_c10_pipeStream_Write : f_c10_skel_pipeStream_Write = "return p.w.Write(d)". Proof. reflexivity. Qed.

(* process: one message read, dispatched before the next is read                 -> LDispatch in arrival order *)
Lemma tie_c10_process : f_c10_skel_process =
  "for(){msg.Read(e.stream);if(err != nil){e.closeWith(err);return};e.dispatch(msg)}". Proof. reflexivity. Qed.

(* dispatch: the whole walk over the handler table under handlersMutex, non-blocking enqueue *)
Lemma tie_c10_dispatch : f_c10_skel_dispatch =
  "e.handlersMutex.Lock();defer e.handlersMutex.Unlock();if(len(e.handlers) == 0){return};range(e.handlers){if(h == nil){continue};h.filter(&msg.Header);if(matched){select{send h.consumer{}|default{if(msg.Header.Type == Call){e.Send(NewMessage(hdr, buf.Bytes()))}}}};if(!keep){h.closeWith(nil);set e.handlers[i]=nil}};return".
Proof. reflexivity. Qed.

(* the handler flavours built on MakeHandler (send-then-end cases of C10Run: an AddHandler is replayed as an
   LMake with a queue of 10 whose consumer takes a message, LRecv, each time the callback is entered):
   AddHandler's goroutine ranges over the queue until it is CLOSED - it has no other way out, so whatever was
   queued reaches the consumer; ReceiveAny is MakeHandler with its own one-shot filter and a nil closer;
   Handler.closeWith calls the closer (if any), then closes the queue                   -> close_with *)
Lemma tie_c10_AddHandler : f_c10_skel_AddHandler = "go{range(ch){c(msg)}};return e.MakeHandler(f,ch,cl)". Proof. reflexivity. Qed.
Lemma tie_c10_ReceiveAny : f_c10_skel_ReceiveAny = "e.MakeHandler(filter,consumer,nil);return". Proof. reflexivity. Qed.
Lemma tie_c10_Handler_closeWith : f_c10_skel_Handler_closeWith = "if(h.closer != nil){h.closer(err)};close(h.consumer)". Proof. reflexivity. Qed.
