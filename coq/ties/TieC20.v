(* TieC20.v — facts regenerated from /repo/type/conversion/conversion.go and bus/proxy.go (gen/Facts.v) equal what
   the model Conv.v was written from. *)
From Coq Require Import List String ZArith NArith Bool.
From QV Require Import Conv Facts C20Run.
Import ListNotations.
Local Open Scope string_scope.

(* reflect.Kind names of the model's integer kinds, in the order the source lists them *)
Definition go_kind (k : ikind) : string :=
  match k with
  | I8 => "Int8" | I16 => "Int16" | I32 => "Int32" | I64 => "Int64" | IInt => "Int"
  | U8 => "Uint8" | U16 => "Uint16" | U32 => "Uint32" | U64 => "Uint64" | UInt => "Uint"
  end.
Definition signed_kinds : list ikind := [IInt; I8; I16; I32; I64].
Definition unsigned_kinds : list ikind := [UInt; U8; U16; U32; U64].

(* the two lists are exactly the model's signed / unsigned kinds *)
Lemma tie_signed_kinds : forall k, In k signed_kinds <-> isigned k = true.
Proof. intro k; destruct k; cbn; intuition congruence. Qed.
Lemma tie_unsigned_kinds : forall k, In k unsigned_kinds <-> isigned k = false.
Proof. intro k; destruct k; cbn; intuition congruence. Qed.

Lemma tie_int_size : Z.of_N f_c20_int_size = int_size.
Proof. reflexivity. Qed.

(* convertFrom: one branch per class; integers go through AsInt64 then SetInt / SetUint(uint64(.)),
   floats through w.Float()/SetFloat, containers to their own function *)
Lemma tie_kind_switch : f_c20_kind_switch =
  [ (["Bool"], ["w.Kind"; "v.SetBool"; "w.Bool"]);
    (["String"], ["w.Kind"; "v.SetString"; "w.String"]);
    (map go_kind signed_kinds, ["AsInt64"; "v.SetInt"]);
    (map go_kind unsigned_kinds, ["AsInt64"; "v.SetUint"; "uint64"]);
    (["Float32"; "Float64"], ["w.Kind"; "w.Kind"; "v.SetFloat"; "w.Float"]);
    (["Ptr"], ["v.Elem"; "v.Kind"; "convertSlice"; "convertMap"; "convertStruct"; "convertFrom"]);
    (["Slice"], ["convertSlice"]); (["Map"], ["convertMap"]); (["Struct"], ["convertStruct"]) ].
Proof. reflexivity. Qed.

(* AsInt64: w.Int() for the signed kinds, int64(w.Uint()) for the unsigned ones, refusal otherwise *)
Lemma tie_asint64_switch : f_c20_asint64_switch =
  [ (map go_kind signed_kinds, ["w.Int"]); (map go_kind unsigned_kinds, ["int64"; "w.Uint"]);
    (["default"], ["return 0, false"]) ].
Proof. reflexivity. Qed.

(* convertSlice converts index i from index i *)
Lemma tie_slice_calls : f_c20_slice_calls = ["v.Index(i), w.Index(i)"].
Proof. reflexivity. Qed.

(* convertMap: key from k; then either the pinned shape (the element is converted into `key`,
   switch map_value_into_key) or the repaired one (into `el`); the entry stored is (key, el) *)
Lemma tie_map_calls :
  f_c20_map_calls = ["key, k"; "key, w.MapIndex(k)"] \/ f_c20_map_calls = ["key, k"; "el, w.MapIndex(k)"].
Proof. (left; reflexivity) || (right; reflexivity). Qed.
Lemma tie_map_set :
  (f_c20_map_set = ["key.Elem(), el.Elem()"] \/ f_c20_map_set = ["k, reflect.Value{}"; "key.Elem(), el.Elem()"]) /\
  f_c20_map_new = ["v.Type().Key()"; "v.Type().Elem()"].
Proof. split; [(left; reflexivity) || (right; reflexivity) | reflexivity]. Qed.

(* which array convertSlice goes on to fill (conv_slice_into / convert_into): a nil pointer gets a
   new slice; a slice whose capacity is too short is replaced by a new zeroed one; otherwise the
   length of the SAME array is set to the source's; then index by index; no other way out *)
Lemma tie_slice_stmts : f_c20_slice_stmts =
  [ "if w.Kind() != reflect.Slice { return fmt.Errorf("""", v.Type(), w.Type()) }";
    "l := w.Len()";
    "if v.Kind() == reflect.Ptr && v.IsNil() { if !v.CanSet() { return fmt.Errorf("""", v) } v.Set(reflect.MakeSlice(v.Elem().Type(), l, l)) v = v.Elem() }";
    "if v.Kind() != reflect.Slice { return fmt.Errorf("""", v) }";
    "if v.Cap() < l { if v.CanSet() == false { return fmt.Errorf("""", v.Cap()) } v.Set(reflect.MakeSlice(v.Type(), l, l)) }";
    "v.SetLen(l)";
    "for i := 0; i < l; i++";
    "return nil" ].
Proof. reflexivity. Qed.

(* which map convertMap goes on to fill: the pinned text makes a new map only when the destination
   is nil (switch map_keeps_old_entries), the repaired one (design/C20.fix2.diff) never keeps an
   entry; then one SetMapIndex per source key; no other way out *)
Lemma tie_map_stmts :
  exists prepare, (prepare = map_prepare_pinned \/ prepare = map_prepare_repaired) /\ f_c20_map_stmts =
  [ "if w.Kind() != reflect.Map { return fmt.Errorf("""", v.Type(), w.Type()) }";
    "l := w.Len()";
    "if v.Kind() == reflect.Ptr && v.IsNil() { if !v.CanSet() { return fmt.Errorf("""", v) } v.Set(reflect.MakeMapWithSize(v.Elem().Type(), l)) v = v.Elem() }";
    "if v.Kind() != reflect.Map { return fmt.Errorf("""", v) }";
    prepare;
    "for _, k := range w.MapKeys()";
    "return nil" ].
Proof.
  (exists map_prepare_pinned; split; [left; reflexivity | reflexivity]) ||
  (exists map_prepare_repaired; split; [right; reflexivity | reflexivity]).
Qed.

(* convertStruct: for each field of the target, the first field of the source with the same
   lower-cased name (inner loop left by `break`), converted field to field *)
Lemma tie_struct_shape : f_c20_struct_shape =
  [ "for0 i := 0; i < v.NumField(); i++"; "name1 := strings.ToLower(v.Type().Field(i).Name)";
    "for1 j := 0; j < w.NumField(); j++"; "if2 name == strings.ToLower(w.Type().Field(j).Name)";
    "if2 err != nil"; "break2" ].
Proof. reflexivity. Qed.
Lemma tie_struct_calls : f_c20_struct_calls = ["v.Field(i), w.Field(j)"].
Proof. reflexivity. Qed.

(* ---------- the entry points (Conv.enter) ---------- *)

(* ConvertFrom is convertFrom on the two values *)
Lemma tie_convertfrom_stmts : f_c20_convertfrom_stmts =
  [ "return convertFrom(reflect.ValueOf(me), reflect.ValueOf(you))" ].
Proof. reflexivity. Qed.

(* DecodeFrom: a freshly allocated value of the remote type receives the decoded bytes and is
   converted; nothing is kept from one call to the next (EDecodeFrom: the intermediate value is the
   value that was encoded) *)
Lemma tie_decodefrom_stmts : f_c20_decodefrom_stmts =
  [ "from := reflect.New(typ)";
    "if err := d.Decode(from.Interface()); err != nil { return err }";
    "return convertFrom(reflect.ValueOf(x), from)" ].
Proof. reflexivity. Qed.

(* Call2, once the reply is there: read directly when the advertised signature is the caller's own
   text, otherwise DecodeFrom with the type of the parsed advertised signature, whose refusal is
   returned (ECall2: same_sigb ? COk w : convert); no other way out *)
Lemma tie_call2_stmts : rev (firstn 4 (rev f_c20_call2_stmts)) =
  [ "buf2 := bytes.NewBuffer(res)";
    "dec := encoding.NewDecoder(permission, buf2)";
    "if sig == ret.Signature() { err = ret.Read(dec) if err != nil { return fmt.Errorf("""", err) } } else { typ, err := signature.Parse(sig) if err != nil { return fmt.Errorf("""", err) } err = conversion.DecodeFrom(dec, ret.resp, typ.Type()) if err != nil { return fmt.Errorf("""", sig, ret.Signature(), err) } }";
    "return nil" ].
Proof. reflexivity. Qed.
