(* TieC20.v — facts regenerated from /repo/type/conversion/conversion.go (gen/Facts.v) equal what
   the model Conv.v was written from. *)
From Coq Require Import List String ZArith NArith Bool.
From QV Require Import Conv Facts.
Import ListNotations.
Local Open Scope string_scope.

(* reflect.Kind names of the model's integer kinds, in the order the source lists them *)
Definition go_kind (k : ikind) : string :=
  match k with
  | I8 => "Int8" | I16 => "Int16" | I32 => "Int32" | I64 => "Int64" | IInt => "Int"
  | U8 => "Uint8" | U16 => "Uint16" | U32 => "Uint32" | U64 => "Uint64" | UInt => "Uint"
  end.
Definition signed_kinds : list ikind := [IInt; I8; I16; I32; I64].
Definition unsigned_kinds : list ikind := [UInt; U8; U16; U32; U64].

(* the two lists are exactly the model's signed / unsigned kinds *)
Lemma tie_signed_kinds : forall k, In k signed_kinds <-> isigned k = true.
Proof. intro k; destruct k; cbn; intuition congruence. Qed.
Lemma tie_unsigned_kinds : forall k, In k unsigned_kinds <-> isigned k = false.
Proof. intro k; destruct k; cbn; intuition congruence. Qed.

Lemma tie_int_size : Z.of_N f_c20_int_size = int_size.
Proof. reflexivity. Qed.

(* convertFrom: one branch per class; integers go through AsInt64 then SetInt / SetUint(uint64(.)),
   floats through w.Float()/SetFloat, containers to their own function *)
Lemma tie_kind_switch : f_c20_kind_switch =
  [ (["Bool"], ["w.Kind"; "v.SetBool"; "w.Bool"]);
    (["String"], ["w.Kind"; "v.SetString"; "w.String"]);
    (map go_kind signed_kinds, ["AsInt64"; "v.SetInt"]);
    (map go_kind unsigned_kinds, ["AsInt64"; "v.SetUint"; "uint64"]);
    (["Float32"; "Float64"], ["w.Kind"; "w.Kind"; "v.SetFloat"; "w.Float"]);
    (["Ptr"], ["v.Elem"; "v.Kind"; "convertSlice"; "convertMap"; "convertStruct"; "convertFrom"]);
    (["Slice"], ["convertSlice"]); (["Map"], ["convertMap"]); (["Struct"], ["convertStruct"]) ].
Proof. reflexivity. Qed.

(* AsInt64: w.Int() for the signed kinds, int64(w.Uint()) for the unsigned ones, refusal otherwise *)
Lemma tie_asint64_switch : f_c20_asint64_switch =
  [ (map go_kind signed_kinds, ["w.Int"]); (map go_kind unsigned_kinds, ["int64"; "w.Uint"]);
    (["default"], ["return 0, false"]) ].
Proof. reflexivity. Qed.

(* convertSlice converts index i from index i *)
Lemma tie_slice_calls : f_c20_slice_calls = ["v.Index(i), w.Index(i)"].
Proof. reflexivity. Qed.

(* convertMap: key from k; then either the pinned shape (the element is converted into `key`,
   switch map_value_into_key) or the repaired one (into `el`); the entry stored is (key, el) *)
Lemma tie_map_calls :
  f_c20_map_calls = ["key, k"; "key, w.MapIndex(k)"] \/ f_c20_map_calls = ["key, k"; "el, w.MapIndex(k)"].
Proof. (left; reflexivity) || (right; reflexivity). Qed.
Lemma tie_map_set : f_c20_map_set = ["key.Elem(), el.Elem()"] /\ f_c20_map_new = ["v.Type().Key()"; "v.Type().Elem()"].
Proof. split; reflexivity. Qed.

(* convertStruct: for each field of the target, the first field of the source with the same
   lower-cased name (inner loop left by `break`), converted field to field *)
Lemma tie_struct_shape : f_c20_struct_shape =
  [ "for0 i := 0; i < v.NumField(); i++"; "name1 := strings.ToLower(v.Type().Field(i).Name)";
    "for1 j := 0; j < w.NumField(); j++"; "if2 name == strings.ToLower(w.Type().Field(j).Name)";
    "if2 err != nil"; "break2" ].
Proof. reflexivity. Qed.
Lemma tie_struct_calls : f_c20_struct_calls = ["v.Field(i), w.Field(j)"].
Proof. reflexivity. Qed.
