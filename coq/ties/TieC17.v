(* TieC17.v — facts regenerated from bus/net/endpoint.go (gen/Facts.v) equal what Endpoint.v assumes.
   The skeletons are the synchronisation-relevant structure of each function (mutex calls, defer, go,
   close, sends, select/default, loops, writes to the handler table, calls other than logging and
   constructors); each one is what makes the corresponding label of Endpoint.v one atomic action. *)
From Coq Require Import String.
From QV Require Import Endpoint Facts.
Local Open Scope string_scope.

(* the table starts with 10 empty slots, whichever constructor is used *)
Lemma tie_c17_slots_NewEndPoint : f_c17_slots_NewEndPoint = initial_slots. Proof. reflexivity. Qed.
Lemma tie_c17_slots_EndPointFinalizer : f_c17_slots_EndPointFinalizer = initial_slots. Proof. reflexivity. Qed.
Lemma tie_c17_fields : f_c17_endPoint_fields = "stream Stream;handlers []*Handler;handlersMutex sync.Mutex". Proof. reflexivity. Qed.

(* text of the error a dropped Call is answered with *)
Lemma tie_c17_blocked_text : f_c17_blocked_text = blocked_text. Proof. reflexivity. Qed.

(* Handler.closeWith: closer if there is one, then close(queue)              -> call_closer ; close_queue *)
Lemma tie_c17_handler_closeWith : f_c17_skel_handler_closeWith =
  "if(h.closer != nil){h.closer(err)};close(h.consumer)". Proof. reflexivity. Qed.

(* endPoint.closeWith: stream.Close, then under the mutex every slot: go closeWith, slot := nil -> LCloseAll *)
Lemma tie_c17_closeWith : f_c17_skel_closeWith =
  "e.stream.Close();e.handlersMutex.Lock();defer e.handlersMutex.Unlock();range(e.handlers){if(handler != nil){go handler.closeWith(err);set e.handlers[id]=nil}};return".
Proof. reflexivity. Qed.
Lemma tie_c17_Close : f_c17_skel_Close = "return e.closeWith(nil)". Proof. reflexivity. Qed.

(* RemoveHandler: under the mutex, range test, closeWith in place, slot := nil        -> LRemove *)
Lemma tie_c17_RemoveHandler : f_c17_skel_RemoveHandler =
  "e.handlersMutex.Lock();defer e.handlersMutex.Unlock();if(id >= 0 && id < len(e.handlers) && e.handlers[id] != nil){e.handlers[id].closeWith(nil);set e.handlers[id]=nil;return};return".
Proof. reflexivity. Qed.

(* MakeHandler: under the mutex, first nil slot, else append                           -> LMake *)
Lemma tie_c17_MakeHandler : f_c17_skel_MakeHandler =
  "e.handlersMutex.Lock();defer e.handlersMutex.Unlock();range(e.handlers){if(handler == nil){set e.handlers[i]=newHandler;return}};set e.handlers=append(e.handlers, newHandler);return".
Proof. reflexivity. Qed.

(* dispatch: entirely under the mutex; per slot: filter, non-blocking send or drop (+ reply to a Call),
   closeWith in place and slot := nil when keep is false                               -> LDispatch *)
Lemma tie_c17_dispatch : f_c17_skel_dispatch =
  "e.handlersMutex.Lock();defer e.handlersMutex.Unlock();if(len(e.handlers) == 0){return};range(e.handlers){if(h == nil){continue};h.filter(&msg.Header);if(matched){select{send h.consumer{}|default{if(msg.Header.Type == Call){e.Send(NewMessage(hdr, buf.Bytes()))}}}};if(!keep){h.closeWith(nil);set e.handlers[i]=nil}};return".
Proof. reflexivity. Qed.

(* process: read one message, on error closeWith(err) and return, else dispatch it, then the next *)
Lemma tie_c17_process : f_c17_skel_process =
  "for(){msg.Read(e.stream);if(err != nil){e.closeWith(err);return};e.dispatch(msg)}". Proof. reflexivity. Qed.
Lemma tie_c17_NewEndPoint : f_c17_skel_NewEndPoint = "go e.process();return". Proof. reflexivity. Qed.
