(* TieC07.v — the limits every bound of C07 is built from. *)
From QV Require Import Message GenDec Facts.
Lemma tie_MaxPayloadSize : f_MaxPayloadSize = MaxPayloadSize. Proof. reflexivity. Qed.
Lemma tie_MaxStringSize : f_MaxStringSize = MaxStringSize. Proof. reflexivity. Qed.
Lemma tie_rawValueMaxSize : f_rawValueMaxSize = rawValueMaxSize. Proof. reflexivity. Qed.
Lemma tie_listValueMaxSize : f_listValueMaxSize = listValueMaxSize. Proof. reflexivity. Qed.
Lemma tie_encListValueMaxSize : f_encListValueMaxSize = listValueMaxSize. Proof. reflexivity. Qed.
Lemma tie_capabilityMapSizeMax : f_capabilityMapSizeMax = capabilityMapSizeMax. Proof. reflexivity. Qed.

(* the source files the models used by this property transliterate have not been rewritten since the models
   were read against them (per-function digests, see WireSrcPins.v) *)
From QV Require Import WireSrcPins.
Lemma tie_src_reader_go : f_src_reader_go = pin_src_reader_go. Proof. reflexivity. Qed.
Lemma tie_src_encoding_go : f_src_encoding_go = pin_src_encoding_go. Proof. reflexivity. Qed.
Lemma tie_src_value_go : f_src_value_go = pin_src_value_go. Proof. reflexivity. Qed.
Lemma tie_src_basic_go : f_src_basic_go = pin_src_basic_go. Proof. reflexivity. Qed.
Lemma tie_src_message_go : f_src_message_go = pin_src_message_go. Proof. reflexivity. Qed.
Lemma tie_src_metaobject_gen_go : f_src_metaobject_gen_go = pin_src_metaobject_gen_go. Proof. reflexivity. Qed.
Lemma tie_src_authenticate_go : f_src_authenticate_go = pin_src_authenticate_go. Proof. reflexivity. Qed.
Lemma tie_src_type_go : f_src_type_go = pin_src_type_go. Proof. reflexivity. Qed.
Lemma tie_src_signature_go : f_src_signature_go = pin_src_signature_go. Proof. reflexivity. Qed.
