(* TieC07.v — the limits every bound of C07 is built from. *)
From QV Require Import Message GenDec Facts.
Lemma tie_MaxPayloadSize : f_MaxPayloadSize = MaxPayloadSize. Proof. reflexivity. Qed.
Lemma tie_MaxStringSize : f_MaxStringSize = MaxStringSize. Proof. reflexivity. Qed.
Lemma tie_rawValueMaxSize : f_rawValueMaxSize = rawValueMaxSize. Proof. reflexivity. Qed.
Lemma tie_listValueMaxSize : f_listValueMaxSize = listValueMaxSize. Proof. reflexivity. Qed.
Lemma tie_encListValueMaxSize : f_encListValueMaxSize = listValueMaxSize. Proof. reflexivity. Qed.
Lemma tie_capabilityMapSizeMax : f_capabilityMapSizeMax = capabilityMapSizeMax. Proof. reflexivity. Qed.
