(* TieC06.v — facts regenerated from /repo (gen/Facts.v) against the model (Auth.v).
   Constants and tables are compared with the model's definitions; for the functions the model
   transliterates, the normalised source text (string literals blanked, whitespace collapsed)
   is pinned: an edit to one of them must be followed by a look at the model. *)
From Coq Require Import String NArith List.
From QV Require Import Auth Facts.
Import ListNotations.
Local Open Scope string_scope.

Lemma tie_c06_KeyState : bs f_c06_KeyState = KeyState. Proof. reflexivity. Qed.
Lemma tie_c06_KeyUser : bs f_c06_KeyUser = KeyUser. Proof. reflexivity. Qed.
Lemma tie_c06_KeyToken : bs f_c06_KeyToken = KeyToken. Proof. reflexivity. Qed.
Lemma tie_c06_StateError : f_c06_StateError = StateError. Proof. reflexivity. Qed.
Lemma tie_c06_StateDone : f_c06_StateDone = StateDone. Proof. reflexivity. Qed.
Lemma tie_c06_AuthenticateActionID : f_c06_AuthenticateActionID = AuthenticateActionID. Proof. reflexivity. Qed.
Lemma tie_c06_MaxStringSize : f_c06_MaxStringSize = MaxStringSize. Proof. reflexivity. Qed.
Lemma tie_c06_capabilityMapSizeMax : f_c06_capabilityMapSizeMax = capabilityMapSizeMax. Proof. reflexivity. Qed.
(* the message-type filter of server.handle is a parameter of the model (no C06 statement depends
   on it); run/C06Run.v instantiates it from f_c06_filter_dropped, so it is not pinned here *)
(* value.NewValue's table: which signatures are read by which function (dec_value follows it;
   "[m]", "r" and everything outside the table go through skip_other) *)
Lemma tie_c06_value_table : f_c06_value_table =
  [("C", "newUint8"); ("I", "newUint"); ("L", "newUlong"); ("W", "newUint16"); ("[m]", "newList"); ("b", "newBool");
   ("c", "newInt8"); ("f", "newFloat"); ("i", "newInt"); ("l", "newLong"); ("m", "NewValue"); ("r", "newRaw");
   ("s", "newString"); ("v", "newVoid"); ("w", "newInt16")].
Proof. reflexivity. Qed.
(* server.handle, consumer goroutine = label LConn: firewall first; on refusal SendError, stream.Close, return; otherwise Router.Receive *)
Lemma tie_c06_consumer_text : f_c06_consumer_text =
  "{ for msg := range consumer { err := firewall(msg, context) if err != nil { log.Printf("""", context.EndPoint().String(), msg.Header) context.SendError(msg, err) stream.Close() return } err = s.Router.Receive(msg, context) if err != nil { log.Printf("""", msg.Header, err) } } }".
Proof. reflexivity. Qed.
(* how a connection starts = conn0 (c_authed := false): the context of server.handle is a fresh channel with
   the default capability map; it is marked authenticated only on the flag parameter; the accept loop
   (every listener transport) passes false; the only caller that passes true is Client(), the
   in-process pipe that never comes from a listener (not a connection of the model) *)
Lemma tie_c06_handle_start_text : f_c06_handle_start_text =
  "func(stream net.Stream, authenticated bool) ; context := &channel{ capability: DefaultCap(), } ; if authenticated { context.SetAuthenticated() }".
Proof. reflexivity. Qed.
Lemma tie_c06_accept_text : f_c06_accept_text =
  "func (s *server) run() { for { stream, err := s.listen.Accept() if err != nil { select { case <-s.closeChan: default: s.listen.Close() s.stoppedWith(err) } break } s.handle(stream, false) } }".
Proof. reflexivity. Qed.
Lemma tie_c06_handle_callers : f_c06_handle_callers = ["Client:true"; "run:false"].
Proof. reflexivity. Qed.
Lemma tie_c06_local_client_text : f_c06_local_client_text =
  "func (s *server) Client() Client { ctl, srv := gonet.Pipe() s.handle(net.ConnStream(srv), true) return NewClient(NewChannel(net.ConnEndPoint(ctl), DefaultCap())) }".
Proof. reflexivity. Qed.
(* firewall: not authenticated and service <> 0 *)
Lemma tie_c06_firewall_text : f_c06_firewall_text =
  "func firewall(m *net.Message, from Channel) error { if from.Authenticated() == false && m.Header.Service != 0 { return ErrNotAuthenticated } return nil }".
Proof. reflexivity. Qed.
(* Router.Receive: unknown service -> ServiceNotFound error *)
Lemma tie_c06_router_receive_text : f_c06_router_receive_text =
  "func (r *Router) Receive(m *net.Message, from Channel) error { r.RLock() s, ok := r.services[m.Header.Service] r.RUnlock() if ok { return s.Receive(m, from) } return from.SendError(m, ErrServiceNotFound) }".
Proof. reflexivity. Qed.
(* serviceImpl.Receive: unknown object -> ObjectNotFound error, else blocking send to the mailbox *)
Lemma tie_c06_service_receive_text : f_c06_service_receive_text =
  "func (s *serviceImpl) Receive(m *net.Message, from Channel) error { s.RLock() box, ok := s.boxes[m.Header.Object] s.RUnlock() if !ok { return from.SendError(m, ErrObjectNotFound) } box <- NewMail(m, from) return nil }".
Proof. reflexivity. Qed.
(* NewMailBox: capacity 10, one goroutine = label LMbox *)
Lemma tie_c06_mailbox_text : f_c06_mailbox_text =
  "func NewMailBox(r Receiver) MailBox { box := MailBox(make(chan Mail, 10)) go func() { for { mail, ok := <-box if !ok { return } err := r.Receive(mail.Msg, mail.From) if err != nil { log.Printf("""", mail.Msg.Header, err) } } }() return box }".
Proof. reflexivity. Qed.
(* serviceAuthenticate.Receive: action test, error or reply *)
Lemma tie_c06_auth_receive_text : f_c06_auth_receive_text =
  "func (s *serviceAuthenticate) Receive(m *net.Message, from Channel) error { if m.Header.Action != object.AuthenticateActionID { return from.SendError(m, ErrActionNotFound) } response, err := s.wrapAuthenticate(from, m.Payload) if err != nil { return from.SendError(m, err) } return from.SendReply(m, response) }".
Proof. reflexivity. Qed.
Lemma tie_c06_auth_wrap_text : f_c06_auth_wrap_text =
  "func (s *serviceAuthenticate) wrapAuthenticate(from Channel, payload []byte) ([]byte, error) { buf := bytes.NewBuffer(payload) m, err := ReadCapabilityMap(buf) if err != nil { return nil, err } ret := s.Authenticate(from, m) var out bytes.Buffer err = WriteCapabilityMap(ret, &out) if err != nil { return nil, err } return out.Bytes(), nil }".
Proof. reflexivity. Qed.
(* serviceAuthenticate.Authenticate: only KeyUser/KeyToken are read; SetAuthenticated only inside the accepting branch *)
Lemma tie_c06_auth_authenticate_text : f_c06_auth_authenticate_text =
  "func (s *serviceAuthenticate) Authenticate(from Channel, cap CapabilityMap) CapabilityMap { var user, token string if userValue, ok := cap[KeyUser]; ok { if userStr, ok := userValue.(value.StringValue); ok { user = userStr.Value() } else { return s.capError() } } if tokenValue, ok := cap[KeyToken]; ok { if tokenStr, ok := tokenValue.(value.StringValue); ok { token = tokenStr.Value() } else { return s.capError() } } if s.auth.Authenticate(user, token) { from.SetAuthenticated() return from.Cap() } return s.capError() }".
Proof. reflexivity. Qed.
Lemma tie_c06_readcapmap_text : f_c06_readcapmap_text =
  "func ReadCapabilityMap(in io.Reader) (m CapabilityMap, err error) { size, err := basic.ReadUint32(in) if err != nil { return m, fmt.Errorf("""", err) } if size > capabilityMapSizeMax { return m, ErrCapabilityTooLong } m = make(map[string]value.Value, size) for i := 0; i < int(size); i++ { k, err := basic.ReadString(in) if err != nil { return m, fmt.Errorf("""", err) } v, err := value.NewValue(in) if err != nil { return m, fmt.Errorf("""", err) } m[k] = v } return m, nil }".
Proof. reflexivity. Qed.
Lemma tie_c06_cap_authenticated_text : f_c06_cap_authenticated_text =
  "func (c CapabilityMap) Authenticated() bool { statusValue, ok := c[KeyState] if !ok { return false } status, ok := statusValue.(value.UintValue) if !ok { status2, ok := statusValue.(value.IntValue) if !ok { return false } status = value.UintValue(uint32(status2.Value())) } if uint32(status) == StateDone { return true } return false }".
Proof. reflexivity. Qed.
Lemma tie_c06_cap_setauthenticated_text : f_c06_cap_setauthenticated_text =
  "func (c CapabilityMap) SetAuthenticated() { c[KeyState] = value.Uint(StateDone) }".
Proof. reflexivity. Qed.
(* the pinned accessors, or the ones repaired by 318b549: the same read and the same write of the
   connection's capability map, now under the connection's stateMutex (the model's steps on c_authed
   are atomic: the repair is what makes the implementation sequentially consistent there) *)
Lemma tie_c06_chan_authenticated_text :
  f_c06_chan_authenticated_text =
  "func (c *channel) Authenticated() bool { return c.capability.Authenticated() }"
  \/ f_c06_chan_authenticated_text =
  "func (c *channel) Authenticated() bool { c.stateMutex.RLock() defer c.stateMutex.RUnlock() return c.capability.Authenticated() }".
Proof. first [left; reflexivity | right; reflexivity]. Qed.
Lemma tie_c06_chan_setauthenticated_text :
  f_c06_chan_setauthenticated_text =
  "func (c *channel) SetAuthenticated() { c.capability.SetAuthenticated() }"
  \/ f_c06_chan_setauthenticated_text =
  "func (c *channel) SetAuthenticated() { c.stateMutex.Lock() defer c.stateMutex.Unlock() c.capability.SetAuthenticated() }".
Proof. first [left; reflexivity | right; reflexivity]. Qed.
Lemma tie_c06_chan_senderror_text : f_c06_chan_senderror_text =
  "func (c *channel) SendError(msg *net.Message, err error) error { hdr := net.NewHeader(net.Error, msg.Header.Service, msg.Header.Object, msg.Header.Action, msg.Header.ID) mError := net.NewMessage(hdr, errorPaylad(err)) return c.Send(&mError) }".
Proof. reflexivity. Qed.
Lemma tie_c06_chan_sendreply_text : f_c06_chan_sendreply_text =
  "func (c *channel) SendReply(msg *net.Message, response []byte) error { hdr := msg.Header hdr.Type = net.Reply reply := net.NewMessage(hdr, response) return c.Send(&reply) }".
Proof. reflexivity. Qed.
Lemma tie_c06_readstring_text : f_c06_readstring_text =
  "func ReadString(r io.Reader) (string, error) { size, err := ReadUint32(r) if err != nil { return """", fmt.Errorf("""", err) } if size == 0 { return """", nil } if size > MaxStringSize { return """", fmt.Errorf("""", size) } buf := make([]byte, size) err = ReadN(r, buf, int(size)) if err != nil { return """", fmt.Errorf("""", err) } return string(buf), nil }".
Proof. reflexivity. Qed.
