(* TieC05.v — obligations on facts regenerated from /repo (gen/Facts.v): what
   signature.CleanVarName returns for each of the 25 keywords of the Go specification. *)
From Coq Require Import String List Bool.
From QV Require Import Facts.
Import ListNotations.
Local Open Scope string_scope.

Definition is_keyword (s : string) : bool := existsb (String.eqb s) f_c05_go_keywords.

(* the table has one row per keyword *)
Lemma tie_c05_table_covers_keywords : map fst f_c05_cleanvar = f_c05_go_keywords /\ List.length f_c05_go_keywords = 25%nat.
Proof. split; reflexivity. Qed.

(* no keyword comes out of CleanVarName as a keyword: each is renamed *)
Lemma tie_c05_keywords_renamed : forallb (fun p => negb (is_keyword (snd p)) && negb (String.eqb (fst p) (snd p))) f_c05_cleanvar = true.
Proof. reflexivity. Qed.

(* the new name is the old one plus a suffix made of the parameter's position *)
Lemma tie_c05_suffix_is_position : forallb (fun p => String.eqb (snd p) (fst p ++ "_7")) f_c05_cleanvar = true.
Proof. reflexivity. Qed.

Lemma tie_c05_plain_untouched : f_c05_cleanvar_plain = "speed" /\ f_c05_cleanvar_empty = "P7".
Proof. split; reflexivity. Qed.
