(* TieC14.v — facts regenerated from /repo (gen/Facts.v) equal what Property.v assumes. *)
From Coq Require Import String List NArith.
From QV Require Import Property Facts.
Import ListNotations.
Local Open Scope string_scope.

(* a write is validate ; save ; notify — for clients and for the service itself (the phases of
   Property.qstep: QCheck, QSave, QNotify) *)
Lemma tie_setproperty_order : f_setproperty_seq = ["validate"; "save"; "notify"]. Proof. reflexivity. Qed.
Lemma tie_updateproperty_order : f_updateproperty_seq = ["validate"; "save"; "notify"]. Proof. reflexivity. Qed.
(* the save and the read are the only regions under propertiesMutex, and they are whole functions *)
Lemma tie_save_locked : f_saveproperty_seq = ["Lock"; "Unlock"] /\ f_saveproperty_defer = ["o.propertiesMutex.Unlock"].
Proof. split; reflexivity. Qed.
Lemma tie_read_locked : f_property_seq = ["RLock"; "RUnlock"] /\ f_property_defer = ["o.propertiesMutex.RUnlock"].
Proof. split; reflexivity. Qed.
Lemma tie_save_text : f_saveproperty_text =
  "func (o *objectImpl) saveProperty(name string, newValue value.Value) error { o.propertiesMutex.Lock() defer o.propertiesMutex.Unlock() o.properties[name] = newValue return nil }".
Proof. reflexivity. Qed.
Lemma tie_read_text : f_property_text =
  "func (o *objectImpl) Property(name value.Value) (value.Value, error) { stringValue, ok := name.(value.StringValue) if !ok { return nil, fmt.Errorf("""") } nameStr := stringValue.Value() o.propertiesMutex.RLock() defer o.propertiesMutex.RUnlock() val, ok := o.properties[nameStr] if !ok { return nil, fmt.Errorf("""", nameStr, o.properties) } return val, nil }".
Proof. reflexivity. Qed.
(* notification = one UpdateSignal on the property's uid with the data bytes *)
Lemma tie_notify_text : f_signal_updateproperty_text =
  "func (o *signalHandler) UpdateProperty(id uint32, sig string, data []byte) error { return o.UpdateSignal(id, data) }".
Proof. reflexivity. Qed.
(* the generated validator decodes the payload with the declared type and asks the implementor *)
Lemma tie_validator_text : f_bomb_validator_text =
  "func (p *stubBomb) onPropertyChange(name string, data []byte) error { switch name { case """": buf := bytes.NewBuffer(data) prop, err := basic.ReadInt32(buf) if err != nil { return fmt.Errorf("""", err) } return p.impl.OnDelayChange(prop) default: return fmt.Errorf("""", name) } }".
Proof. reflexivity. Qed.
Lemma tie_update_helper_text : f_bomb_update_text =
  "func (p *stubBomb) UpdateDelay(duration int32) error { var buf bytes.Buffer if err := basic.WriteInt32(duration, &buf); err != nil { return fmt.Errorf("""", err) } err := p.signal.UpdateProperty(101, """", buf.Bytes()) if err != nil { return fmt.Errorf("""", err) } return nil }".
Proof. reflexivity. Qed.
Lemma tie_getter_checks_signature : f_bomb_getter_checks_signature = true. Proof. reflexivity. Qed.
Lemma tie_templates : f_stub_template_decodes_declared_type = true /\ f_proxy_template_checks_signature = true.
Proof. split; reflexivity. Qed.
(* name, uid, signature of the property; action numbers *)
Definition has (hay needle : string) : bool :=
  (fix go (n : nat) (h : string) : bool :=
     match n with O => false | S n' =>
       if String.prefix needle h then true else match h with EmptyString => false | String _ t => go n' t end end)
    (S (String.length hay)) hay.
Lemma tie_meta : has f_bomb_meta_text
  ("Properties: map[uint32]object.MetaProperty{101: { Name: """ ++ prop_name ++ """, Signature: """ ++ prop_sig ++ """, Uid: 101, }}") = true
  /\ prop_uid = 101%N.
Proof. split; reflexivity. Qed.
Lemma tie_actions : f_action_property = 5%N /\ f_action_setproperty = 6%N. Proof. split; reflexivity. Qed.
