(* TieC14.v — facts regenerated from /repo (gen/Facts.v) equal what Property.v assumes. *)
From Coq Require Import String List NArith.
From QV Require Import Property PropertySubs Facts.
Import ListNotations.
Local Open Scope string_scope.

(* a write is validate ; save ; notify — for clients and for the service itself (the phases of
   Property.qstep: QCheck, QSave, QNotify) *)
Lemma tie_setproperty_order : f_setproperty_seq = ["validate"; "save"; "notify"]. Proof. reflexivity. Qed.
Lemma tie_updateproperty_order : f_updateproperty_seq = ["validate"; "save"; "notify"]. Proof. reflexivity. Qed.
(* the save and the read are the only regions under propertiesMutex, and they are whole functions *)
Lemma tie_save_locked : f_saveproperty_seq = ["Lock"; "Unlock"] /\ f_saveproperty_defer = ["o.propertiesMutex.Unlock"].
Proof. split; reflexivity. Qed.
Lemma tie_read_locked : f_property_seq = ["RLock"; "RUnlock"] /\ f_property_defer = ["o.propertiesMutex.RUnlock"].
Proof. split; reflexivity. Qed.
Lemma tie_save_text : f_saveproperty_text =
  "func (o *objectImpl) saveProperty(name string, newValue value.Value) error { o.propertiesMutex.Lock() defer o.propertiesMutex.Unlock() o.properties[name] = newValue return nil }".
Proof. reflexivity. Qed.
Lemma tie_read_text : f_property_text =
  "func (o *objectImpl) Property(name value.Value) (value.Value, error) { stringValue, ok := name.(value.StringValue) if !ok { return nil, fmt.Errorf("""") } nameStr := stringValue.Value() o.propertiesMutex.RLock() defer o.propertiesMutex.RUnlock() val, ok := o.properties[nameStr] if !ok { return nil, fmt.Errorf("""", nameStr, o.properties) } return val, nil }".
Proof. reflexivity. Qed.
(* notification = one UpdateSignal on the property's uid with the data bytes *)
Lemma tie_notify_text : f_signal_updateproperty_text =
  "func (o *signalHandler) UpdateProperty(id uint32, sig string, data []byte) error { return o.UpdateSignal(id, data) }".
Proof. reflexivity. Qed.
(* the generated validator decodes the payload with the declared type and asks the implementor *)
Lemma tie_validator_text : f_bomb_validator_text =
  "func (p *stubBomb) onPropertyChange(name string, data []byte) error { switch name { case """": buf := bytes.NewBuffer(data) prop, err := basic.ReadInt32(buf) if err != nil { return fmt.Errorf("""", err) } return p.impl.OnDelayChange(prop) default: return fmt.Errorf("""", name) } }".
Proof. reflexivity. Qed.
Lemma tie_update_helper_text : f_bomb_update_text =
  "func (p *stubBomb) UpdateDelay(duration int32) error { var buf bytes.Buffer if err := basic.WriteInt32(duration, &buf); err != nil { return fmt.Errorf("""", err) } err := p.signal.UpdateProperty(101, """", buf.Bytes()) if err != nil { return fmt.Errorf("""", err) } return nil }".
Proof. reflexivity. Qed.
Lemma tie_getter_checks_signature : f_bomb_getter_checks_signature = true. Proof. reflexivity. Qed.
Lemma tie_templates : f_stub_template_decodes_declared_type = true /\ f_proxy_template_checks_signature = true.
Proof. split; reflexivity. Qed.
(* name, uid, signature of the property; action numbers *)
Definition has (hay needle : string) : bool :=
  (fix go (n : nat) (h : string) : bool :=
     match n with O => false | S n' =>
       if String.prefix needle h then true else match h with EmptyString => false | String _ t => go n' t end end)
    (S (String.length hay)) hay.
Lemma tie_meta : has f_bomb_meta_text
  ("Properties: map[uint32]object.MetaProperty{101: { Name: """ ++ prop_name ++ """, Signature: """ ++ prop_sig ++ """, Uid: 101, }}") = true
  /\ prop_uid = 101%N.
Proof. split; reflexivity. Qed.
Lemma tie_actions : f_action_property = 5%N /\ f_action_setproperty = 6%N. Proof. split; reflexivity. Qed.

(* the subscriber table (PropertySubs.v).  add_user: a (user id, endpoint) pair already in the table is
   refused before anything is changed, otherwise the entry is appended; remove_user: first entry with
   this (user id, endpoint), the last entry is moved into its slot; subs_of: UpdateSignal sends to the
   entries of that signal id, in table order; SignalBoom is UpdateSignal(100, le32 x) *)
(* the pinned text, or the text after repair acc48f8 (the closer only forgets the table entry: same table, same order) *)
Lemma tie_add_user_text : f_c14_addsignaluser_text =
  "func (o *signalHandler) addSignalUser(userID uint64, signalID, messageID uint32, from Channel) error { newUser := signalUser{ signalID: signalID, messageID: messageID, userID: userID, context: from, contextID: 0, } o.signalsMutex.Lock() for _, user := range o.signals { if user.userID == userID && user.context.EndPoint() == from.EndPoint() { o.signalsMutex.Unlock() return fmt.Errorf("""", userID) } } o.signalsMutex.Unlock() e := from.EndPoint() f := func(hdr *net.Header) (bool, bool) { return false, true } q := make(chan<- *net.Message) cl := func(err error) { o.removeSignalUser(userID, from) } newUser.contextID = e.MakeHandler(f, q, cl) o.signalsMutex.Lock() o.signals = append(o.signals, newUser) o.signalsMutex.Unlock() return nil }"
  \/ f_c14_addsignaluser_text =
  "func (o *signalHandler) addSignalUser(userID uint64, signalID, messageID uint32, from Channel) error { newUser := signalUser{ signalID: signalID, messageID: messageID, userID: userID, context: from, contextID: 0, } o.signalsMutex.Lock() for _, user := range o.signals { if user.userID == userID && user.context.EndPoint() == from.EndPoint() { o.signalsMutex.Unlock() return fmt.Errorf("""", userID) } } o.signalsMutex.Unlock() e := from.EndPoint() f := func(hdr *net.Header) (bool, bool) { return false, true } q := make(chan<- *net.Message) cl := func(err error) { o.forgetSignalUser(userID, from) } newUser.contextID = e.MakeHandler(f, q, cl) o.signalsMutex.Lock() o.signals = append(o.signals, newUser) o.signalsMutex.Unlock() return nil }".
Proof. first [left; reflexivity | right; reflexivity]. Qed.
Lemma tie_remove_user_text : f_c14_removesignaluser_text =
  "func (o *signalHandler) removeSignalUser(userID uint64, from Channel) error { o.signalsMutex.Lock() for i, user := range o.signals { if user.userID == userID { if from.EndPoint() == user.context.EndPoint() { o.signals[i] = o.signals[len(o.signals)-1] o.signals = o.signals[:len(o.signals)-1] o.signalsMutex.Unlock() user.context.EndPoint().RemoveHandler(user.contextID) return nil } } } o.signalsMutex.Unlock() return fmt.Errorf("""", userID) }".
Proof. reflexivity. Qed.
Lemma tie_update_signal_text : f_c14_updatesignal_text =
  "func (o *signalHandler) UpdateSignal(signalID uint32, data []byte) error { var ret error signals := make([]signalUser, 0) o.signalsMutex.RLock() for _, user := range o.signals { if user.signalID == signalID { signals = append(signals, user) } } o.signalsMutex.RUnlock() for _, user := range signals { err := o.replyEvent(&user, signalID, data) if err == io.EOF { err := o.removeSignalUser(user.userID, user.context) if err != nil && ret == nil { ret = err } } else if err != nil { ret = err } } return ret }".
Proof. reflexivity. Qed.
Lemma tie_signalboom_text : f_bomb_signalboom_text =
  "func (p *stubBomb) SignalBoom(energy int32) error { var buf bytes.Buffer if err := basic.WriteInt32(energy, &buf); err != nil { return fmt.Errorf("""", err) } err := p.signal.UpdateSignal(100, buf.Bytes()) if err != nil { return fmt.Errorf("""", err) } return nil }"
  /\ boom_uid = 100%N.
Proof. split; reflexivity. Qed.
Lemma tie_register_actions : f_action_registerevent = 0%N /\ f_action_unregisterevent = 1%N. Proof. split; reflexivity. Qed.

(* objects with several properties (PropertyMulti.v): one table — the single map write of tie_save_text,
   keyed by the property's name, under the one mutex —; a generated object IS bus.NewBasicObject(actor,
   meta object, onPropertyChange), which is how the harness builds its several-property object; a numeric
   name is looked up in the declared properties (localize: idx_uid) *)
Lemma tie_multi_object : f_bomb_object_is_newbasicobject = true /\ f_setproperty_uid_in_meta_properties = true.
Proof. split; reflexivity. Qed.

(* the optional per-object features (PropertySubs.v: SAux changes nothing; a registration made while they
   are on is the registration of the connection the message came from).  Tracer wraps the channel of an
   incoming message in a wrapper allocated for THAT message — so the context a registration keeps is never
   re-pointed by a later message —, and the wrappers hand every frame to the channel they wrap (EndPoint is
   the embedded channel's); the entry the closer of a registration forgets is found by (user id, endpoint),
   as in remove_user (or, before repair acc48f8, there is no such function: the closer calls
   removeSignalUser) *)
Lemma tie_tracer_text : f_c14_tracer_text =
  "func (o *objectImpl) Tracer(msg *net.Message, from Channel) Channel { if o.statsEnabled { from = &statChannel{from, time.Now(), o} } if !o.traceEnabled { return from } traceID := o.nextTrace o.nextTrace++ o.Trace(msg, traceID) return &tracedChannel{from, o, traceID} }".
Proof. reflexivity. Qed.
Lemma tie_wrapper_send_text :
  f_c14_statchannel_send_text =
  "func (c *statChannel) Send(msg *net.Message) error { c.o.updateMethodStatistics(msg.Header.Action, time.Since(c.since)) return c.Channel.Send(msg) }"
  /\ f_c14_tracedchannel_send_text =
  "func (c *tracedChannel) Send(msg *net.Message) error { c.tracer.Trace(msg, c.id) return c.Channel.Send(msg) }".
Proof. split; reflexivity. Qed.
Lemma tie_forget_user_text : f_c14_forgetsignaluser_text =
  "func (o *signalHandler) forgetSignalUser(userID uint64, from Channel) { o.signalsMutex.Lock() defer o.signalsMutex.Unlock() for i, user := range o.signals { if user.userID == userID && from.EndPoint() == user.context.EndPoint() { o.signals[i] = o.signals[len(o.signals)-1] o.signals = o.signals[:len(o.signals)-1] return } } }"
  \/ f_c14_forgetsignaluser_text = "<missing bus/signal.go:signalHandler.forgetSignalUser>".
Proof. first [left; reflexivity | right; reflexivity]. Qed.
Lemma tie_feature_actions : f_action_enablestats = 81%N /\ f_action_enabletrace = 85%N. Proof. split; reflexivity. Qed.
