(* TieC04.v — facts regenerated from /repo (gen/Facts.v) against the model (Call.v).  The
   message-type filter of server.handle is a parameter of the model (run/C04Run.v instantiates it
   from f_c04_filter_dropped) and is therefore not pinned.  f_c04_generator_switch_on (the header fields the stub generator's Receive template looks at) is
   what a repair of the noncall_runs defect is expected to change: it is emitted for the record and
   not pinned; the switch tags of the generated Receive methods are. *)
From Coq Require Import String NArith List.
From QV Require Import Call Facts.
From QV Require Teardown.
Import ListNotations.
Local Open Scope string_scope.

(* the ids of the model are those of a counter that starts at 1 and advances by 2 modulo 2^32 *)
Lemma tie_c04_id_sequence : map id_of_index [0; 1; 2]%nat = [3; 5; 7]%N /\ next_id 4294967295 = 1%N /\ mid init 0%nat = 1%N.
Proof. repeat split. Qed.
(* client.nextMessageID: Lock, deferred Unlock, += 2, return (label LAlloc is atomic under the mutex) *)
Lemma tie_c04_nextid_skeleton : f_c04_nextid_skeleton =
  "c.messageIDMutex.Lock ; defer c.messageIDMutex.Unlock ; c.messageID += 2 ; return c.messageID".
Proof. reflexivity. Qed.
(* NewClient: messageID starts at 1 (id_of_index) *)
Lemma tie_c04_newclient_text : f_c04_newclient_text =
  "func NewClient(channel Channel) Client { return &client{ endpoint: channel.EndPoint(), messageID: 1, state: map[string]int{}, capability: channel.Cap(), } }".
Proof. reflexivity. Qed.
Lemma tie_c04_newmessage_text : f_c04_newmessage_text =
  "func (c *client) newMessage(serviceID uint32, objectID uint32, actionID uint32, payload []byte) net.Message { header := net.NewHeader(net.Call, serviceID, objectID, actionID, c.nextMessageID()) return net.NewMessage(header, payload) }".
Proof. reflexivity. Qed.
Lemma tie_c04_cancelmessage_text : f_c04_cancelmessage_text =
  "func (c *client) cancelMessage(hdr net.Header) net.Message { msg := net.NewMessage(hdr, []byte{}) msg.Header.Type = net.Cancel return msg }".
Proof. reflexivity. Qed.
(* the single-shot filter of client.Call: service, object, action and id; keep = false *)
Lemma tie_c04_call_filter_text : f_c04_call_filter_text =
  "{ if hdr.Service == serviceID && hdr.Object == objectID && hdr.Action == actionID && hdr.ID == messageID { return true, false } return false, true }".
Proof. reflexivity. Qed.
(* client.Call: newMessage, MakeHandler, Send, select on errors/reply/cancel, analysis of the response type *)
Lemma tie_c04_call_text : f_c04_call_text =
  "func (c *client) Call(cancel <-chan struct{}, serviceID, objectID, actionID uint32, payload []byte) ([]byte, error) { if cancel != nil { select { case <-cancel: return nil, ErrCancelled default: } } msg := c.newMessage(serviceID, objectID, actionID, payload) messageID := msg.Header.ID reply := make(chan *net.Message, 1) errors := make(chan error, 1) filter := func(hdr *net.Header) (matched bool, keep bool) { if hdr.Service == serviceID && hdr.Object == objectID && hdr.Action == actionID && hdr.ID == messageID { return true, false } return false, true } closer := func(err error) { if err != nil { errors <- err } } id := c.endpoint.MakeHandler(filter, reply, closer) if err := c.endpoint.Send(msg); err != nil { c.endpoint.RemoveHandler(id) return nil, fmt.Errorf( """", serviceID, objectID, actionID, err) } var ( ok bool response *net.Message ) if cancel == nil { cancel = make(chan struct{}) } select { case err := <-errors: return nil, err case response, ok = <-reply: if !ok { return nil, fmt.Errorf("""") } case <-cancel: msg := c.cancelMessage(msg.Header) if err := c.endpoint.Send(msg); err != nil { return nil, fmt.Errorf( """", serviceID, objectID, actionID, err) } return nil, ErrCancelled } switch response.Header.Type { case net.Reply: return response.Payload, nil case net.Error: buf := bytes.NewBuffer(response.Payload) v, err := value.NewValue(buf) if err != nil { return nil, fmt.Errorf( """", err) } strVal, ok := v.(value.StringValue) if !ok { return nil, fmt.Errorf("""") } return nil, fmt.Errorf(strVal.Value()) case net.Cancelled: return nil, ErrCancelled default: return nil, fmt.Errorf("""", response.Header.Type) } }".
Proof. reflexivity. Qed.
(* endPoint.dispatch: every matching handler gets the frame (non-blocking), not-kept handlers are closed and removed *)
Lemma tie_c04_dispatch_text : f_c04_dispatch_text =
  "func (e *endPoint) dispatch(msg *Message) error { e.handlersMutex.Lock() defer e.handlersMutex.Unlock() if len(e.handlers) == 0 { return ErrNoHandler } ret := ErrNoMatch for i, h := range e.handlers { if h == nil { continue } matched, keep := h.filter(&msg.Header) if matched { select { case h.consumer <- msg: if ret == ErrNoMatch { ret = nil } default: ret = ErrConsumerBlocked if msg.Header.Type == Call { hdr := NewHeader(Error, msg.Header.Service, msg.Header.Object, msg.Header.Action, msg.Header.ID) var buf bytes.Buffer val := value.String(ret.Error()) val.Write(&buf) e.Send(NewMessage(hdr, buf.Bytes())) } } } if !keep { h.closeWith(nil) e.handlers[i] = nil } } return ret }".
Proof. reflexivity. Qed.
Lemma tie_c04_sendreply_text : f_c04_sendreply_text =
  "func (c *channel) SendReply(msg *net.Message, response []byte) error { hdr := msg.Header hdr.Type = net.Reply reply := net.NewMessage(hdr, response) return c.Send(&reply) }".
Proof. reflexivity. Qed.
Lemma tie_c04_senderror_text : f_c04_senderror_text =
  "func (c *channel) SendError(msg *net.Message, err error) error { hdr := net.NewHeader(net.Error, msg.Header.Service, msg.Header.Object, msg.Header.Action, msg.Header.ID) mError := net.NewMessage(hdr, errorPaylad(err)) return c.Send(&mError) }".
Proof. reflexivity. Qed.
Lemma tie_c04_router_receive_text : f_c04_router_receive_text =
  "func (r *Router) Receive(m *net.Message, from Channel) error { r.RLock() s, ok := r.services[m.Header.Service] r.RUnlock() if ok { return s.Receive(m, from) } return from.SendError(m, ErrServiceNotFound) }".
Proof. reflexivity. Qed.
Lemma tie_c04_service_receive_text : f_c04_service_receive_text =
  "func (s *serviceImpl) Receive(m *net.Message, from Channel) error { s.RLock() box, ok := s.boxes[m.Header.Object] s.RUnlock() if !ok { return from.SendError(m, ErrObjectNotFound) } box <- NewMail(m, from) return nil }".
Proof. reflexivity. Qed.
Lemma tie_c04_mailbox_text : f_c04_mailbox_text =
  "func NewMailBox(r Receiver) MailBox { box := MailBox(make(chan Mail, 10)) go func() { for { mail, ok := <-box if !ok { return } err := r.Receive(mail.Msg, mail.From) if err != nil { log.Printf("""", mail.Msg.Header, err) } } }() return box }".
Proof. reflexivity. Qed.
(* the optional wrappers of the reply channel: Tracer builds a fresh one around the channel of the
   message at hand (statistics and/or traces enabled), and their Send ends in that channel's Send: the
   answer of LMbox goes to the connection the mail came from, whatever the settings of the object *)
Lemma tie_c04_tracer_text : f_c04_tracer_text =
  "func (o *objectImpl) Tracer(msg *net.Message, from Channel) Channel { if o.statsEnabled { from = &statChannel{from, time.Now(), o} } if !o.traceEnabled { return from } traceID := o.nextTrace o.nextTrace++ o.Trace(msg, traceID) return &tracedChannel{from, o, traceID} }".
Proof. reflexivity. Qed.
Lemma tie_c04_statchannel_send_text : f_c04_statchannel_send_text =
  "func (c *statChannel) Send(msg *net.Message) error { c.o.updateMethodStatistics(msg.Header.Action, time.Since(c.since)) return c.Channel.Send(msg) }".
Proof. reflexivity. Qed.
Lemma tie_c04_tracedchannel_send_text : f_c04_tracedchannel_send_text =
  "func (c *tracedChannel) Send(msg *net.Message) error { c.tracer.Trace(msg, c.id) return c.Channel.Send(msg) }".
Proof. reflexivity. Qed.
(* generated Receive methods switch on the action only (this is what makes noncall_runs a defect of the stubs) *)
Lemma tie_c04_stub_switch_object : f_c04_stub_switch_object =
  "msg.Header.Action".
Proof. reflexivity. Qed.
Lemma tie_c04_stub_switch_pingpong : f_c04_stub_switch_pingpong =
  "msg.Header.Action".
Proof. reflexivity. Qed.
Lemma tie_c04_stub_switch_timestamp : f_c04_stub_switch_timestamp =
  "msg.Header.Action".
Proof. reflexivity. Qed.
Lemma tie_c04_stub_hello_text : f_c04_stub_hello_text =
  "func (p *stubPingPong) Hello(msg *net.Message, c bus.Channel) error { buf := bytes.NewBuffer(msg.Payload) a, err := basic.ReadString(buf) if err != nil { return c.SendError(msg, fmt.Errorf("""", err)) } ret, callErr := p.impl.Hello(a) if msg.Header.Type == net.Post { return nil } if callErr != nil { return c.SendError(msg, callErr) } var out bytes.Buffer errOut := basic.WriteString(ret, &out) if errOut != nil { return c.SendError(msg, fmt.Errorf("""", errOut)) } return c.SendReply(msg, out.Bytes()) }".
Proof. reflexivity. Qed.
Lemma tie_c04_stub_nanoseconds_text : f_c04_stub_nanoseconds_text =
  "func (p *stubTimestamp) Nanoseconds(msg *net.Message, c bus.Channel) error { ret, callErr := p.impl.Nanoseconds() if msg.Header.Type == net.Post { return nil } if callErr != nil { return c.SendError(msg, callErr) } var out bytes.Buffer errOut := basic.WriteInt64(ret, &out) if errOut != nil { return c.SendError(msg, fmt.Errorf("""", errOut)) } return c.SendReply(msg, out.Bytes()) }".
Proof. reflexivity. Qed.
(* what the generator emits after the call of the method: Post test before error/reply *)
Lemma tie_c04_generator_post_block : f_c04_generator_post_block =
  "// do not respond to post messages. if msg.Header.Type == net.Post { return nil } if callErr != nil { return c.SendError(msg, callErr) }".
Proof. reflexivity. Qed.
(* endPoint.closeWith: stream.Close() first, then (under the mutex) every handler is closed and removed:
   the order of the two halves of a tear-down in Teardown.v (close_first = true), for which
   C04_teardown_every_call_returns is stated and with which the scenarios of the harness are compared *)
Lemma tie_c04_closewith_order : f_c04_closewith_order =
  "e.stream.Close ; e.handlersMutex.Lock ; defer e.handlersMutex.Unlock ; range e.handlers ; go handler.closeWith ; e.handlers[id] = nil".
Proof. reflexivity. Qed.
Lemma tie_c04_closewith_close_first : f_c04_closewith_close_first = true.
Proof. reflexivity. Qed.
