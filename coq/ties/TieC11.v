(* TieC11.v — facts regenerated from /repo (gen/Facts.v) equal what ConnLoss.v was written from.
   The function texts (string literals blanked, whitespace collapsed) are the code the labels of the
   LTS transliterate: any edit to a statement of one of them breaks the corresponding obligation. *)
From Coq Require Import String List.
Import ListNotations.
From QV Require Import ConnLoss Facts.
Local Open Scope string_scope.

Lemma tie_c11_text_client_Call : f_c11_text_client_Call =
  "func (c *client) Call(cancel <-chan struct{}, serviceID, objectID, actionID uint32, payload []byte) ([]byte, error) { if cancel != nil { select { case <-cancel: return nil, ErrCancelled default: } } msg := c.newMessage(serviceID, objectID, actionID, payload) messageID := msg.Header.ID reply := make(chan *net.Message, 1) errors := make(chan error, 1) filter := func(hdr *net.Header) (matched bool, keep bool) { if hdr.Service == serviceID && hdr.Object == objectID && hdr.Action == actionID && hdr.ID == messageID { return true, false } return false, true } closer := func(err error) { if err != nil { errors <- err } } id := c.endpoint.MakeHandler(filter, reply, closer) if err := c.endpoint.Send(msg); err != nil { c.endpoint.RemoveHandler(id) return nil, fmt.Errorf( """", serviceID, objectID, actionID, err) } var ( ok bool response *net.Message ) if cancel == nil { cancel = make(chan struct{}) } select { case err := <-errors: return nil, err case response, ok = <-reply: if !ok { return nil, fmt.Errorf("""") } case <-cancel: msg := c.cancelMessage(msg.Header) if err := c.endpoint.Send(msg); err != nil { return nil, fmt.Errorf( """", serviceID, objectID, actionID, err) } return nil, ErrCancelled } switch response.Header.Type { case net.Reply: return response.Payload, nil case net.Error: buf := bytes.NewBuffer(response.Payload) v, err := value.NewValue(buf) if err != nil { return nil, fmt.Errorf( """", err) } strVal, ok := v.(value.StringValue) if !ok { return nil, fmt.Errorf("""") } return nil, fmt.Errorf(strVal.Value()) case net.Cancelled: return nil, ErrCancelled default: return nil, fmt.Errorf("""", response.Header.Type) } }".
Proof. reflexivity. Qed.
Lemma tie_c11_text_client_Subscribe : f_c11_text_client_Subscribe =
  "func (c *client) Subscribe(serviceID, objectID, actionID uint32) ( cancel func(), events chan []byte, err error) { abort := make(chan struct{}) events = make(chan []byte) cancel = func() { close(abort) } filter := func(hdr *net.Header) (matched bool, keep bool) { if hdr.Service == serviceID && hdr.Object == objectID && hdr.Action == actionID { if hdr.Type == net.Error { return true, false } return true, true } return false, true } queue := make(chan *net.Message, 100) go func(id int) { for { select { case msg, ok := <-queue: if !ok { close(events) return } else if msg.Header.Type == net.Event { events <- msg.Payload } case <-abort: c.endpoint.RemoveHandler(id) close(events) return } } }(c.endpoint.MakeHandler(filter, queue, nil)) return cancel, events, nil }".
Proof. reflexivity. Qed.
Lemma tie_c11_text_client_OnDisconnect : f_c11_text_client_OnDisconnect =
  "func (c *client) OnDisconnect(closer func(error)) error { if closer == nil { return nil } filter := func(hdr *net.Header) (bool, bool) { return false, true } consumer := make(chan *net.Message) c.endpoint.MakeHandler(filter, consumer, closer) return nil }".
Proof. reflexivity. Qed.
Lemma tie_c11_text_endPoint_closeWith : f_c11_text_endPoint_closeWith =
  "func (e *endPoint) closeWith(err error) error { ret := e.stream.Close() e.handlersMutex.Lock() defer e.handlersMutex.Unlock() for id, handler := range e.handlers { if handler != nil { go handler.closeWith(err) e.handlers[id] = nil } } return ret }".
Proof. reflexivity. Qed.
Lemma tie_c11_text_Handler_closeWith : f_c11_text_Handler_closeWith =
  "func (h *Handler) closeWith(err error) { if h.closer != nil { h.closer(err) } close(h.consumer) }".
Proof. reflexivity. Qed.
Lemma tie_c11_text_endPoint_process : f_c11_text_endPoint_process =
  "func (e *endPoint) process() { var err error for { msg := new(Message) err = msg.Read(e.stream) if err != nil { e.closeWith(err) return } err = e.dispatch(msg) if err != nil { if msg.Header.Type == Error { log.Printf("""", err, msg.Header, readError(msg)) } else { log.Printf("""", err, msg.Header) } } } }".
Proof. reflexivity. Qed.
Lemma tie_c11_text_endPoint_Send : f_c11_text_endPoint_Send =
  "func (e *endPoint) Send(m Message) error { return m.Write(e.stream) }".
Proof. reflexivity. Qed.
Lemma tie_c11_text_endPoint_Close : f_c11_text_endPoint_Close =
  "func (e *endPoint) Close() error { return e.closeWith(nil) }".
Proof. reflexivity. Qed.
Lemma tie_c11_text_endPoint_dispatch : f_c11_text_endPoint_dispatch =
  "func (e *endPoint) dispatch(msg *Message) error { e.handlersMutex.Lock() defer e.handlersMutex.Unlock() if len(e.handlers) == 0 { return ErrNoHandler } ret := ErrNoMatch for i, h := range e.handlers { if h == nil { continue } matched, keep := h.filter(&msg.Header) if matched { select { case h.consumer <- msg: if ret == ErrNoMatch { ret = nil } default: ret = ErrConsumerBlocked if msg.Header.Type == Call { hdr := NewHeader(Error, msg.Header.Service, msg.Header.Object, msg.Header.Action, msg.Header.ID) var buf bytes.Buffer val := value.String(ret.Error()) val.Write(&buf) e.Send(NewMessage(hdr, buf.Bytes())) } } } if !keep { h.closeWith(nil) e.handlers[i] = nil } } return ret }".
Proof. reflexivity. Qed.
Lemma tie_c11_text_endPoint_MakeHandler : f_c11_text_endPoint_MakeHandler =
  "func (e *endPoint) MakeHandler(f Filter, queue chan<- *Message, cl Closer) int { newHandler := NewHandler(f, queue, cl) e.handlersMutex.Lock() defer e.handlersMutex.Unlock() for i, handler := range e.handlers { if handler == nil { e.handlers[i] = newHandler return i } } e.handlers = append(e.handlers, newHandler) return len(e.handlers) - 1 }".
Proof. reflexivity. Qed.
Lemma tie_c11_text_endPoint_RemoveHandler : f_c11_text_endPoint_RemoveHandler =
  "func (e *endPoint) RemoveHandler(id int) error { e.handlersMutex.Lock() defer e.handlersMutex.Unlock() if id >= 0 && id < len(e.handlers) && e.handlers[id] != nil { e.handlers[id].closeWith(nil) e.handlers[id] = nil return nil } return fmt.Errorf("""", id) }".
Proof. reflexivity. Qed.
Lemma tie_c11_text_NewEndPoint : f_c11_text_NewEndPoint =
  "func NewEndPoint(stream Stream) EndPoint { e := &endPoint{ stream: stream, handlers: make([]*Handler, 10), } go e.process() return e }".
Proof. reflexivity. Qed.

(* the handler is registered before the message is sent; a failed Send removes it *)
Lemma tie_c11_call_order : f_c11_call_endpoint_calls = ["MakeHandler"; "Send"; "RemoveHandler"; "Send"].
Proof. reflexivity. Qed.
(* the caller waits on the error channel, the reply channel and the cancel channel: LCallSel BErr/BReply/BCancel *)
Lemma tie_c11_call_select : f_c11_call_select = ["err := <-errors"; "response, ok = <-reply"; "<-cancel"].
Proof. reflexivity. Qed.

Definition cap_str (n : nat) : string :=
  match n with 0 => "0" | 1 => "1" | 100 => "100" | _ => "?" end.
(* channel capacities: reply = capacity (OCall _), errors = one place (errs is a boolean),
   Subscribe's queue = capacity (OSub _), events unbuffered (pc SSend), OnDisconnect's consumer = capacity (OCb _) *)
Lemma tie_c11_call_chans : f_c11_call_chans = ["reply:" ++ cap_str (capacity (OCall 0)); "errors:1"; "cancel:0"].
Proof. reflexivity. Qed.
Lemma tie_c11_subscribe_chans : f_c11_subscribe_chans = ["abort:0"; "events:0"; "queue:" ++ cap_str (capacity (OSub 0))].
Proof. reflexivity. Qed.
Lemma tie_c11_ondisconnect_chans : f_c11_ondisconnect_chans = ["consumer:" ++ cap_str (capacity (OCb 0))].
Proof. reflexivity. Qed.
(* The stream wrappers of bus/net/stream.go, between the transport and the endpoint.  LReadFail /
   LCallSendFail / LProcClose1 are "the transport's Read / Write failed / Close was called": that is
   what e.stream.Read/Write/Close are only as long as the wrappers hand every result through
   unchanged, whatever the kind of the error.  connStream declares String and Context only (Read,
   Write, Close are those of the embedded net.Conn, promoted); pipeStream's are one call each.
   A wrapper that interprets an error (retries it, maps it to nil, delays it) changes this list or
   one of the texts. *)
Lemma tie_c11_stream_methods : f_c11_stream_methods =
  ["*pipeStream.Close"; "*pipeStream.Context"; "*pipeStream.Read"; "*pipeStream.String"; "*pipeStream.Write";
   "connStream.Context"; "connStream.String"].
Proof. reflexivity. Qed.
Lemma tie_c11_stream_fields : f_c11_stream_fields =
  ["connStream{gonet.Conn; ctx context.Context}"; "pipeStream{r *os.File; w *os.File; ctx context.Context}"].
Proof. reflexivity. Qed.
Lemma tie_c11_text_pipeStream_Read : f_c11_text_pipeStream_Read =
  "func (p *pipeStream) Read(d []byte) (int, error) { return p.r.Read(d) }".
Proof. reflexivity. Qed.
Lemma tie_c11_text_pipeStream_Write : f_c11_text_pipeStream_Write =
  "func (p *pipeStream) Write(d []byte) (int, error) { return p.w.Write(d) }".
Proof. reflexivity. Qed.
Lemma tie_c11_text_pipeStream_Close : f_c11_text_pipeStream_Close =
  "func (p *pipeStream) Close() error { p.r.Close() p.w.Close() return nil }".
Proof. reflexivity. Qed.
Lemma tie_c11_text_ConnStream : f_c11_text_ConnStream =
  "func ConnStream(conn gonet.Conn) Stream { return connStream{ conn, context.TODO(), } }".
Proof. reflexivity. Qed.
Lemma tie_c11_text_PipeStream : f_c11_text_PipeStream =
  "func PipeStream(r, w *os.File) Stream { return &pipeStream{ r: r, w: w, ctx: context.TODO(), } }".
Proof. reflexivity. Qed.
Lemma tie_c11_text_ConnEndPoint : f_c11_text_ConnEndPoint =
  "func ConnEndPoint(conn gonet.Conn) EndPoint { return NewEndPoint(ConnStream(conn)) }".
Proof. reflexivity. Qed.

(* the table starts with ten empty slots *)
Lemma tie_c11_table_init : length (table (init 0 0 0)) = 10.
Proof. reflexivity. Qed.
