(* TieC13.v — facts regenerated from /repo (gen/Facts.v) that the granularity and constants of
   Signals.v rest on.  Lock skeletons: the sequence of Lock/Unlock/RLock/RUnlock, handler-table
   calls and sends of a function, in source order.  Where a repair of a known defect changes a
   skeleton, the repaired shape is listed as an alternative (the harness observes which one the
   tree has and evaluates the model with that switch). *)
From Coq Require Import String List.
From QV Require Import Signals Facts.
Import ListNotations.
Local Open Scope string_scope.

(* client.Subscribe: queue := make(chan *net.Message, 100) *)
Lemma tie_queue_cap : f_client_subscribe_queue = QueueCap. Proof. reflexivity. Qed.

(* Client.State is one critical section: LCount / LCancel / the two State calls of LSendReg are atomic *)
Lemma tie_state_atomic : f_client_State = "c.stateMutex.Lock ; defer c.stateMutex.Unlock". Proof. reflexivity. Qed.
Lemma tie_state_text : f_client_State_text =
  "func (c *client) State(signal string, add int) int { c.stateMutex.Lock() defer c.stateMutex.Unlock() previous, ok := c.state[signal] if !ok && add != 0 { c.state[signal] = add return add } next := previous + add if next == 0 { delete(c.state, signal) return 0 } c.state[signal] = next return next }".
Proof. reflexivity. Qed.

(* removeSignalUser: table operation under signalsMutex, RemoveHandler after Unlock (LMbox, one step) *)
Lemma tie_removeSignalUser : f_sig_removeSignalUser =
  "o.signalsMutex.Lock ; o.signalsMutex.Unlock ; user.context.EndPoint().RemoveHandler ; o.signalsMutex.Unlock".
Proof. reflexivity. Qed.

(* addSignalUser: pinned shape (MakeHandler first; on a known id Unlock then RemoveHandler of the
   EXISTING user: switch dup_relock), or the repaired shape (check first, no RemoveHandler) *)
Lemma tie_addSignalUser : In f_sig_addSignalUser
  [ "e.MakeHandler ; o.signalsMutex.Lock ; o.signalsMutex.Unlock ; user.context.EndPoint().RemoveHandler ; o.signalsMutex.Unlock";
    "o.signalsMutex.Lock ; o.signalsMutex.Unlock ; o.signalsMutex.Unlock ; e.MakeHandler ; o.signalsMutex.Lock ; o.signalsMutex.Unlock" ].
Proof. cbv; auto. Qed.

(* UpdateSignal: snapshot under RLock, sends after RUnlock (switch snapshot_send: LEmitSnap / LEmitSend),
   or sends before RUnlock (repaired) *)
Lemma tie_UpdateSignal : In f_sig_UpdateSignal
  [ "o.signalsMutex.RLock ; o.signalsMutex.RUnlock ; o.replyEvent ; o.removeSignalUser";
    "o.signalsMutex.RLock ; o.replyEvent ; o.signalsMutex.RUnlock ; o.removeSignalUser" ].
Proof. cbv; auto. Qed.

(* UpdateSignal's delivery loop visits every entry of its snapshot, whatever a send returned: no return, goto
   or break inside a loop of the function (SignalsRaw.emit_go goes on after a failed write) *)
Lemma tie_UpdateSignal_visits_all : f_sig_UpdateSignal_loop_exits = 0%nat. Proof. reflexivity. Qed.

(* replyEvent: Event frame, action = signal id, message id = id of the register call *)
Lemma tie_replyEvent : f_sig_replyEvent_text =
  "func (o *signalHandler) replyEvent(user *signalUser, signal uint32, value []byte) error { hdr := o.newHeader(net.Event, signal, user.messageID) msg := net.NewMessage(hdr, value) o.trace(&msg) return user.context.Send(&msg) }".
Proof. reflexivity. Qed.

(* client.Subscribe (SignalsFwd.v): the cancel function does nothing but close(abort) (FCancel); the
   forwarder, started with the id MakeHandler returned (FSub), receives from the queue (FTake; on a
   closed queue close(events): FQClosed), sends on events (until FRead), and on abort calls
   RemoveHandler(id) and closes events (FAbort) — the only RemoveHandler of the function *)
Lemma tie_client_Subscribe : f_client_Subscribe =
  "close abort ; go ; recv queue ; close events ; send events ; recv abort ; c.endpoint.RemoveHandler ; close events ; c.endpoint.MakeHandler".
Proof. reflexivity. Qed.
