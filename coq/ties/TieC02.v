(* TieC02.v — facts regenerated from /repo equal the dynamic-value model's (Value.v). *)
From Coq Require Import String.
From QV Require Import Value Facts.
Local Open Scope string_scope.

Lemma tie_rawValueMaxSize : f_rawValueMaxSize = rawValueMaxSize. Proof. reflexivity. Qed.
Lemma tie_listValueMaxSize : f_listValueMaxSize = listValueMaxSize. Proof. reflexivity. Qed.
Lemma tie_MaxStringSize : f_MaxStringSize = MaxStringSize. Proof. reflexivity. Qed.
Lemma tie_ObjectReferenceSignature : f_ObjectReferenceSignature = print ty_ObjectReference. Proof. reflexivity. Qed.

(* NewValue's dispatch table: every entry of the source maps its signature to the reader the
   model uses for it, and there are as many entries as in the model *)
Definition disp_of_fname (f : string) : dispatch :=
  if String.eqb f "newInt8" then DKind KI8 else if String.eqb f "newUint8" then DKind KU8
  else if String.eqb f "newInt16" then DKind KI16 else if String.eqb f "newUint16" then DKind KU16
  else if String.eqb f "newInt" then DKind KI32 else if String.eqb f "newUint" then DKind KU32
  else if String.eqb f "newLong" then DKind KI64 else if String.eqb f "newUlong" then DKind KU64
  else if String.eqb f "newString" then DString else if String.eqb f "newBool" then DKind KBool
  else if String.eqb f "newFloat" then DKind KF32 else if String.eqb f "newList" then DListM
  else if String.eqb f "newRaw" then DRawD else if String.eqb f "newVoid" then DVoidD
  else if String.eqb f "NewValue" then DNested else DOther.
Definition dispatch_eqb (a b : dispatch) : bool :=
  match a, b with
  | DKind k, DKind k' => String.eqb (dkind_letter k) (dkind_letter k')
  | DString, DString | DListM, DListM | DRawD, DRawD | DVoidD, DVoidD | DNested, DNested | DOther, DOther => true
  | _, _ => false
  end.
Lemma tie_dispatch :
  (Nat.eqb (List.length f_value_dispatch) (List.length dispatch_table) &&
   forallb (fun kf => dispatch_eqb (lookup (fst kf) dispatch_table) (disp_of_fname (snd kf))) f_value_dispatch)%bool = true.
Proof. reflexivity. Qed.

(* what each newXxx reads *)
Lemma tie_value_readers : f_value_readers =
  [("newBool", "ReadBool"); ("newFloat", "ReadFloat32"); ("newInt", "ReadInt32"); ("newInt16", "ReadInt16");
   ("newInt8", "ReadInt8"); ("newList", "ReadUint32"); ("newLong", "ReadInt64"); ("newOpaque", "");
   ("newRaw", "ReadUint32,ReadN"); ("newString", "ReadString"); ("newUint", "ReadUint32"); ("newUint16", "ReadUint16");
   ("newUint8", "ReadUint8"); ("newUlong", "ReadUint64"); ("newVoid", "")].
Proof. reflexivity. Qed.

(* the source files the models used by this property transliterate have not been rewritten since the models
   were read against them (per-function digests, see WireSrcPins.v) *)
From QV Require Import WireSrcPins.
Lemma tie_src_reader_go : f_src_reader_go = pin_src_reader_go. Proof. reflexivity. Qed.
Lemma tie_src_value_go : f_src_value_go = pin_src_value_go. Proof. reflexivity. Qed.
Lemma tie_src_basic_go : f_src_basic_go = pin_src_basic_go. Proof. reflexivity. Qed.
Lemma tie_src_type_go : f_src_type_go = pin_src_type_go. Proof. reflexivity. Qed.
Lemma tie_src_signature_go : f_src_signature_go = pin_src_signature_go. Proof. reflexivity. Qed.
