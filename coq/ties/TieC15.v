(* TieC15.v — facts regenerated from /repo (gen/Facts.v) against the model (Directory.v). *)
From Coq Require Import String List NArith Bool.
From QV Require Import Directory Facts.
Import ListNotations.
Local Open Scope string_scope.

(* the directory methods each local Namespace adapter calls: one method, no map touched directly *)
Lemma tie_adapters : f_dir_adapters =
  [("directoryNamespace.Reserve", ["RegisterService"]); ("directoryNamespace.Remove", ["UnregisterService"]);
   ("directoryNamespace.Enable", ["ServiceReady"]); ("directoryNamespace.Resolve", ["Service"]);
   ("directorySession.Proxy", ["Service"]); ("directorySession.Object", ["info"])].
Proof. reflexivity. Qed.

(* the stub's action table: each action calls one implementation method once *)
Lemma tie_stub : f_dir_stub =
  [(100%N, "Service", 1%nat); (101%N, "Services", 1%nat); (102%N, "RegisterService", 1%nat);
   (103%N, "UnregisterService", 1%nat); (104%N, "ServiceReady", 1%nat); (105%N, "UpdateServiceInfo", 1%nat);
   (108%N, "MachineId", 1%nat); (109%N, "_socketOfService", 1%nat)].
Proof. reflexivity. Qed.

(* lock skeleton: either no method synchronises (the pinned code: switch unsync_local, the
   hypothesis of atomic_lin is not met) or every method that touches the registry is one
   critical section of one mutex *)
Lemma tie_sync : xorb f_dir_all_locked f_dir_none_locked = true.
Proof. reflexivity. Qed.
