(* TieC15.v — facts regenerated from /repo (gen/Facts.v) against the model (Directory.v).
   The facts pin what sampling is bad at: which registry accesses each method makes and in
   which order (the shape the transliteration in Directory.v follows), where the signals are
   emitted, that each local Namespace adapter and each stub action is exactly one call of one
   directory method (so that a call is one operation of the model), and the lock skeleton
   (the hypothesis of atomic_lin: one critical section per method, or none at all on the
   pinned tree — switch unsync_local). *)
From Coq Require Import String List NArith Bool.
From QV Require Import Directory Facts.
Import ListNotations.
Local Open Scope string_scope.

(* registry accesses and signal calls per method, in source order.  RegisterService has two
   accepted shapes: the pinned one, and the one with the exhaustion test before lastID++
   (design/C15.fix.diff; switch id_wrap off). *)
Definition reg_access_pinned :=
  ["check"; "range staging"; "range services"; "lastID++"; "lastID"; "staging[]="; "lastID"; "lastID"].
Definition reg_access_guarded :=
  ["check"; "range staging"; "range services"; "lastID"; "lastID++"; "lastID"; "staging[]="; "lastID"; "lastID"].
Definition access_table (reg : list string) : list (string * list string) :=
  [("info", ["services[]"]);
   ("Service", ["range services"]);                                   (* c_service / c_resolve: find_name over services *)
   ("Services", ["len services"; "range services"]);                  (* c_services *)
   ("RegisterService", reg);                                          (* reg_check ; reg_commit *)
   ("UnregisterService", ["services[]"; "delete services"; "SignalServiceRemoved"; "staging[]"; "delete staging"]);
   ("ServiceReady", ["staging[]"; "delete staging"; "services[]="; "SignalServiceAdded"]);
   ("UpdateServiceInfo", ["check"; "services[]"; "services[]="])].

Lemma tie_access : f_dir_access = access_table reg_access_pinned \/ f_dir_access = access_table reg_access_guarded.
Proof. first [left; reflexivity | right; reflexivity]. Qed.

(* the directory methods each local Namespace adapter calls: one method, no map touched directly *)
Lemma tie_adapters : f_dir_adapters =
  [("directoryNamespace.Reserve", ["RegisterService"]); ("directoryNamespace.Remove", ["UnregisterService"]);
   ("directoryNamespace.Enable", ["ServiceReady"]); ("directoryNamespace.Resolve", ["Service"]);
   ("directorySession.Proxy", ["Service"]); ("directorySession.Object", ["info"])].
Proof. reflexivity. Qed.

(* the stub's action table: each action calls one implementation method once *)
Lemma tie_stub : f_dir_stub =
  [(100%N, "Service", 1%nat); (101%N, "Services", 1%nat); (102%N, "RegisterService", 1%nat);
   (103%N, "UnregisterService", 1%nat); (104%N, "ServiceReady", 1%nat); (105%N, "UpdateServiceInfo", 1%nat);
   (108%N, "MachineId", 1%nat); (109%N, "_socketOfService", 1%nat)].
Proof. reflexivity. Qed.

(* lock skeleton.  Either no method synchronises at all (pinned tree; the check then reports
   the known finding unsync_local and C15_holds does not apply), or every method is one
   critical section — Lock; defer Unlock before its first registry access — of one and the
   same mutex, exclusive for the methods that write. *)
Definition sync_row := (string * string * string * string * bool)%type.
Definition row_kind (r : sync_row) := let '(_, k, _, _, _) := r in k.
Definition row_mutex (r : sync_row) := let '(_, _, m, _, _) := r in m.
Definition row_op (r : sync_row) := let '(_, _, _, o, _) := r in o.
Definition row_writes (r : sync_row) := let '(_, _, _, _, w) := r in w.
Definition sync_none (t : list sync_row) : bool := forallb (fun r => String.eqb (row_kind r) "none") t.
Definition sync_whole (t : list sync_row) : bool :=
  match t with
  | [] => false
  | r0 :: _ =>
      forallb (fun r => String.eqb (row_kind r) "whole" && String.eqb (row_mutex r) (row_mutex r0) &&
                        (String.eqb (row_op r) "Lock" || (negb (row_writes r) && String.eqb (row_op r) "RLock"))) t
  end.

Lemma tie_sync : xorb (sync_none f_dir_sync) (sync_whole f_dir_sync) = true.
Proof. reflexivity. Qed.
Lemma tie_sync_methods : map (fun r : sync_row => let '(n, _, _, _, _) := r in n) f_dir_sync = map fst (access_table []).
Proof. reflexivity. Qed.
(* the harness derives the value of the switch unsync_local from the same analysis *)
Lemma tie_sync_switch : f_dir_all_locked = sync_whole f_dir_sync /\ f_dir_none_locked = sync_none f_dir_sync.
Proof. split; reflexivity. Qed.
