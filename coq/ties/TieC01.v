(* TieC01.v — facts regenerated from /repo (gen/Facts.v) equal the model's (Message.v). *)
From Coq Require Import String.
From QV Require Import Message Facts.
Local Open Scope string_scope.

Definition hfield_name (f : hfield) : string :=
  match f with
  | FMagic => "Magic" | FID => "ID" | FSize => "Size" | FVersion => "Version" | FType => "Type"
  | FFlags => "Flags" | FService => "Service" | FObject => "Object" | FAction => "Action"
  end.
Definition layout_names := map (fun e : hfield * nat * bool => let '(f, w, b) := e in (hfield_name f, w, b)) header_layout.

Lemma tie_Magic : f_Magic = Magic. Proof. reflexivity. Qed.
Lemma tie_MaxPayloadSize : f_MaxPayloadSize = MaxPayloadSize. Proof. reflexivity. Qed.
Lemma tie_Version : f_Version = Version. Proof. reflexivity. Qed.
Lemma tie_HeaderSize : f_HeaderSize = HeaderSize. Proof. reflexivity. Qed.
Lemma tie_types : [f_T_Unknown; f_T_Call; f_T_Reply; f_T_Error; f_T_Post; f_T_Event; f_T_Capability; f_T_Cancel; f_T_Cancelled]
                = [T_Unknown; T_Call; T_Reply; T_Error; T_Post; T_Event; T_Capability; T_Cancel; T_Cancelled].
Proof. reflexivity. Qed.
Lemma tie_write_layout : f_header_write_layout = layout_names. Proof. reflexivity. Qed.
Lemma tie_read_layout : f_header_read_layout = layout_names. Proof. reflexivity. Qed.
Lemma tie_read_checks : f_header_read_checks = "h.Magic != Magic ; h.Version != Version ; h.Type == Unknown || h.Type > Cancelled".
Proof. reflexivity. Qed.
Lemma tie_single_stream_write : f_msg_write_stream_writes = 1%nat. Proof. reflexivity. Qed.

(* the functions the hand-written model transliterates, statement for statement (string literals blanked,
   layout collapsed): a rewrite of any of them must be re-read against Message.v / Reader.v *)
(* Message.Read = Message.v read_msg: 28 bytes through ReadN, Header.Read on them, the size test, a fresh payload of Header.Size bytes through ReadN *)
Lemma tie_msg_read_text : f_msg_read_text =
  "func (m *Message) Read(r io.Reader) error { b := make([]byte, HeaderSize) if err := basic.ReadN(r, b, HeaderSize); err != nil { if err == io.EOF { return err } return fmt.Errorf("""", err) } if err := m.Header.Read(bytes.NewBuffer(b)); err != nil { return fmt.Errorf("""", err) } if m.Header.Size > MaxPayloadSize { return fmt.Errorf("""", m.Header.Size) } else if m.Header.Size == 0 { m.Payload = make([]byte, 0) return nil } m.Payload = make([]byte, m.Header.Size) err := basic.ReadN(r, m.Payload, int(m.Header.Size)) if err != nil { return fmt.Errorf("""", err) } return nil }".
Proof. reflexivity. Qed.
(* Message.Write = Message.v write_msg: size test, header and payload assembled in a buffer of its own, one WriteN on the stream *)
Lemma tie_msg_write_text : f_msg_write_text =
  "func (m *Message) Write(w io.Writer) error { if uint32(len(m.Payload)) != m.Header.Size { return fmt.Errorf("""", len(m.Payload), m.Header.Size) } buf := bytes.NewBuffer(make([]byte, 0, HeaderSize+m.Header.Size)) if err := m.Header.Write(buf); err != nil { return fmt.Errorf("""", err) } if err := basic.WriteN(buf, m.Payload, int(m.Header.Size)); err != nil { return fmt.Errorf("""", err) } err := basic.WriteN(w, buf.Bytes(), int(m.Header.Size+HeaderSize)) if err != nil { if err == io.EOF { return err } if m.Header.Type == Error { err = fmt.Errorf("""", readError(m), err) } return fmt.Errorf("""", m.Header, err) } return nil }".
Proof. reflexivity. Qed.
(* basic.ReadN = Reader.v readN (loop until length bytes; EOF classes) *)
Lemma tie_readN_text : f_readN_text =
  "func ReadN(r io.Reader, buf []byte, length int) error { size := 0 for size < length { read, err := r.Read(buf[size:]) size += read if err == nil && read != 0 { continue } else if err == io.EOF && size == length { break } else if err == io.EOF && size == 0 { return io.EOF } else { if err == nil { err = fmt.Errorf("""") } return fmt.Errorf("""", size, length, err) } } return nil }".
Proof. reflexivity. Qed.
(* basic.WriteN = Reader.v writeN_loop *)
Lemma tie_writeN_text : f_writeN_text =
  "func WriteN(w io.Writer, buf []byte, length int) error { size := 0 for size < length { write, err := w.Write(buf[size:]) size += write if err == nil && write != 0 { continue } else if err == io.EOF && size == length { break } else if err == io.EOF && size == 0 { return io.EOF } else { if err == nil { err = fmt.Errorf("""") } return fmt.Errorf("""", size, length, err) } } return nil }".
Proof. reflexivity. Qed.
(* Header.Read: the nine fields in order with the three validity tests *)
Lemma tie_header_read_text : f_header_read_text =
  "func (h *Header) Read(r io.Reader) (err error) { if err = h.readMagic(r); err != nil { return fmt.Errorf("""", err) } else if h.Magic != Magic { return fmt.Errorf("""", h.Magic) } if h.ID, err = basic.ReadUint32(r); err != nil { return fmt.Errorf("""", err) } if h.Size, err = basic.ReadUint32(r); err != nil { return fmt.Errorf("""", err) } if h.Version, err = basic.ReadUint16(r); err != nil { return fmt.Errorf("""", err) } else if h.Version != Version { return fmt.Errorf("""", h.Version) } if h.Type, err = basic.ReadUint8(r); err != nil { return fmt.Errorf("""", err) } else if h.Type == Unknown || h.Type > Cancelled { return fmt.Errorf("""", h.Type) } if h.Flags, err = basic.ReadUint8(r); err != nil { return fmt.Errorf("""", err) } if h.Service, err = basic.ReadUint32(r); err != nil { return fmt.Errorf("""", err) } if h.Object, err = basic.ReadUint32(r); err != nil { return fmt.Errorf("""", err) } if h.Action, err = basic.ReadUint32(r); err != nil { return fmt.Errorf("""", err) } return nil }".
Proof. reflexivity. Qed.
(* Header.Write: the nine fields in order *)
Lemma tie_header_write_text : f_header_write_text =
  "func (h *Header) Write(w io.Writer) (err error) { wrap := func(field string, err error) error { return fmt.Errorf("""", field, err) } if err = h.writeMagic(w); err != nil { return wrap("""", err) } if err = basic.WriteUint32(h.ID, w); err != nil { return wrap("""", err) } if err = basic.WriteUint32(h.Size, w); err != nil { return wrap("""", err) } if err = basic.WriteUint16(h.Version, w); err != nil { return wrap("""", err) } if err = basic.WriteUint8(h.Type, w); err != nil { return wrap("""", err) } if err = basic.WriteUint8(h.Flags, w); err != nil { return wrap("""", err) } if err = basic.WriteUint32(h.Service, w); err != nil { return wrap("""", err) } if err = basic.WriteUint32(h.Object, w); err != nil { return wrap("""", err) } if err = basic.WriteUint32(h.Action, w); err != nil { return wrap("""", err) } return nil }".
Proof. reflexivity. Qed.
