(* TieC01.v — facts regenerated from /repo (gen/Facts.v) equal the model's (Message.v). *)
From Coq Require Import String.
From QV Require Import Message Facts.
Local Open Scope string_scope.

Definition hfield_name (f : hfield) : string :=
  match f with
  | FMagic => "Magic" | FID => "ID" | FSize => "Size" | FVersion => "Version" | FType => "Type"
  | FFlags => "Flags" | FService => "Service" | FObject => "Object" | FAction => "Action"
  end.
Definition layout_names := map (fun e : hfield * nat * bool => let '(f, w, b) := e in (hfield_name f, w, b)) header_layout.

Lemma tie_Magic : f_Magic = Magic. Proof. reflexivity. Qed.
Lemma tie_MaxPayloadSize : f_MaxPayloadSize = MaxPayloadSize. Proof. reflexivity. Qed.
Lemma tie_Version : f_Version = Version. Proof. reflexivity. Qed.
Lemma tie_HeaderSize : f_HeaderSize = HeaderSize. Proof. reflexivity. Qed.
Lemma tie_types : [f_T_Unknown; f_T_Call; f_T_Reply; f_T_Error; f_T_Post; f_T_Event; f_T_Capability; f_T_Cancel; f_T_Cancelled]
                = [T_Unknown; T_Call; T_Reply; T_Error; T_Post; T_Event; T_Capability; T_Cancel; T_Cancelled].
Proof. reflexivity. Qed.
Lemma tie_write_layout : f_header_write_layout = layout_names. Proof. reflexivity. Qed.
Lemma tie_read_layout : f_header_read_layout = layout_names. Proof. reflexivity. Qed.
Lemma tie_read_checks : f_header_read_checks = "h.Magic != Magic ; h.Version != Version ; h.Type == Unknown || h.Type > Cancelled".
Proof. reflexivity. Qed.
Lemma tie_single_stream_write : f_msg_write_stream_writes = 1%nat. Proof. reflexivity. Qed.
