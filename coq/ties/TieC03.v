(* TieC03.v — the signature-letter table of meta/signature/type.go and the codec limits. *)
From Coq Require Import String.
From QV Require Import Wire Facts.
Local Open Scope string_scope.

Lemma tie_encListValueMaxSize : f_encListValueMaxSize = listValueMaxSize. Proof. reflexivity. Qed.
Lemma tie_MaxStringSize : f_MaxStringSize = MaxStringSize. Proof. reflexivity. Qed.
Lemma tie_ObjectSignature : f_wire_ObjectSignature = print ty_ObjectReference. Proof. reflexivity. Qed.
Lemma tie_MetaObjectSignature : f_wire_MetaObjectSignature = print ty_MetaObject. Proof. reflexivity. Qed.

Definition reader_text (s : scalar) : string :=
  match s with
  | SStr => "stringReader{}" | SValue => "valueReader{}" | SUnknown => "UnknownReader(""X"")"
  | SObject => "reader" | SVoid => "constReader(0)" | SBool => "constReader(1)"
  | _ => match scalar_width s with
         | Some 1 => "constReader(1)" | Some 2 => "constReader(2)" | Some 4 => "constReader(4)"
         | Some 8 => "constReader(8)" | _ => "?"
         end%nat
  end.
Definition all_scalars := [SU8; SU32; SU64; SU16; SUnknown; SBool; SI8; SF64; SF32; SI32; SI64; SValue; SObject; SStr; SVoid; SI16].
Lemma tie_sig_letters : f_sig_letters = map (fun s => (scalar_letter s, reader_text s)) all_scalars.
Proof. reflexivity. Qed.

(* the source files the models used by this property transliterate have not been rewritten since the models
   were read against them (per-function digests, see WireSrcPins.v) *)
From QV Require Import WireSrcPins.
Lemma tie_src_reader_go : f_src_reader_go = pin_src_reader_go. Proof. reflexivity. Qed.
Lemma tie_src_encoding_go : f_src_encoding_go = pin_src_encoding_go. Proof. reflexivity. Qed.
Lemma tie_src_basic_go : f_src_basic_go = pin_src_basic_go. Proof. reflexivity. Qed.
Lemma tie_src_type_go : f_src_type_go = pin_src_type_go. Proof. reflexivity. Qed.
Lemma tie_src_signature_go : f_src_signature_go = pin_src_signature_go. Proof. reflexivity. Qed.
