(* TieC09.v — facts regenerated from /repo (gen/Facts.v) against the model (Sig.v, SigParse.v). *)
From Coq Require Import String List Bool.
From QV Require Import Sig Peg SigParse Facts C09Run.
Import ListNotations.
Local Open Scope string_scope.

(* the combinator model (Peg.v) was read from this version of goparsec *)
Lemma tie_goparsec_version : f_goparsec_version = "v0.0.0-20211219142520-daac0e635e7e".
Proof. reflexivity. Qed.

(* the signature constants are the printed form of the ASTs in Sig.v *)
Lemma tie_MetaObjectSignature : f_MetaObjectSignature = print ty_MetaObject.
Proof. reflexivity. Qed.
Lemma tie_ObjectSignature : f_ObjectSignature = print ty_ObjectReference.
Proof. reflexivity. Qed.

(* basicType(): the atoms, in order, are the model's *)
Lemma tie_basic_letters : f_sig_basic_letters = basic_letters.
Proof. reflexivity. Qed.

(* nodifyBasicType maps each letter to the constructor whose Signature() is that letter and whose
   SignatureIDL() is the model's idl name for the scalar the model maps the letter to *)
Fixpoint split_eq (s : string) : string * string :=
  match s with
  | EmptyString => (EmptyString, EmptyString)
  | String c r => if Ascii.eqb c "=" then (EmptyString, r) else let (a, b) := split_eq r in (String c a, b)
  end.
Definition ctor_row (ctors : list string) (name : string) : option (string * string) :=
  match find (fun row => String.eqb (fst (split_eq row)) name) ctors with
  | Some row => Some (split_eq (snd (split_eq row)))
  | None => None
  end.
Definition basic_row_ok (ctors : list string) (row : string) : bool :=
  let (letter, ctor) := split_eq row in
  match scalar_of_letter letter, ctor_row ctors ctor with
  | Some s, Some (sig, idl) => String.eqb (scalar_letter s) letter && String.eqb sig letter && String.eqb (scalar_idl s) idl
  | _, _ => false
  end.
Lemma tie_basic_table :
  forallb (basic_row_ok f_sig_scalar_ctors) f_sig_basic_table = true /\
  map (fun row => fst (split_eq row)) f_sig_basic_table =
  ["i"; "I"; "l"; "L"; "s"; "b"; "f"; "d"; "v"; "m"; "o"; "X"; "c"; "C"; "w"; "W"].
Proof. split; reflexivity. Qed.

(* the grammar of init(): alternatives and sequences in the order the model uses.  Either the
   pinned text (decl: array_type, list_type, member_list, tuple_type, struct_type, map_type,
   struct before tuple) or the repaired one of design/C07.grammar.fix.diff (decl_m:
   tuple_or_struct_type with the optional struct_def); both texts are in run/C09Run.v *)
Lemma tie_grammar : f_sig_grammar = sig_grammar_pinned \/ f_sig_grammar = sig_grammar_merged.
Proof. (left; reflexivity) || (right; reflexivity). Qed.

(* which of the two: the boolean the correspondence run uses (C09Run.source_says_merged), with
   the callback of the merged alternative: absent from the pinned source; in the repaired source
   it passes nodes 0..2 to nodifyTupleType when node 3 is MaybeNone and otherwise the seven nodes
   "(" list ")" "<" name members ">" to nodifyStrucType (nodify_tuple_or_struct) *)
Lemma tie_grammar_switch :
  (source_says_merged = false /\ f_sig_grammar = sig_grammar_pinned /\
   f_sig_nodifyTupleOrStruct_text = "<missing meta/signature/signature.go:.nodifyTupleOrStruct>") \/
  (source_says_merged = true /\ f_sig_grammar = sig_grammar_merged /\
   f_sig_nodifyTupleOrStruct_text =
   "func nodifyTupleOrStruct(nodes []Node) Node { if _, ok := nodes[3].(parsec.MaybeNone); ok { return nodifyTupleType(nodes[:3]) } definition := nodes[3].([]Node)[0].([]Node) return nodifyStrucType(append(nodes[:3:3], definition...)) }").
Proof. (left; repeat split; reflexivity) || (right; repeat split; reflexivity). Qed.

Lemma tie_nodifyTupleType : f_sig_nodifyTupleType_text =
  "func nodifyTupleType(nodes []Node) Node { types, err := extractMembersTypes(nodes[1]) if err != nil { return fmt.Errorf("""", err) } return NewTupleType(types) }".
Proof. reflexivity. Qed.

Lemma tie_structName : f_sig_structName_lits =
  ["[A-Za-z][0-9a-zA-Z_]*\<[A-Za-z][0-9a-zA-Z_]*>"; "[A-Za-z][0-9a-zA-Z_]*"; "structTemplateName"; "structName"].
Proof. reflexivity. Qed.
Lemma tie_typeName : f_sig_typeName_text = "func typeName() parsec.Parser { return parsec.Ident() }".
Proof. reflexivity. Qed.

Lemma tie_Parse : f_sig_Parse_text =
  "func Parse(input string) (Type, error) { text := []byte(input) root, rest := typeSignature(parsec.NewScanner(text)) if root == nil { return nil, fmt.Errorf("""", input) } if !rest.Endof() { return nil, fmt.Errorf("""", text) } types, ok := root.([]Node) if !ok { err, ok := root.(error) if !ok { return nil, fmt.Errorf("""", reflect.TypeOf(root)) } return nil, err } if len(types) != 1 { return nil, fmt.Errorf("""", root) } constructor, ok := types[0].(Type) if !ok { return nil, fmt.Errorf("""", reflect.TypeOf(types[0])) } return constructor, nil }".
Proof. reflexivity. Qed.
Lemma tie_extractValue : f_sig_extractValue_text =
  "func extractValue(object interface{}) (Type, error) { nodes, ok := object.([]Node) if !ok { return nil, fmt.Errorf("""", reflect.TypeOf(object)) } value, ok := nodes[0].(Type) if !ok { return nil, fmt.Errorf("""", reflect.TypeOf(nodes[0])) } return value, nil }".
Proof. reflexivity. Qed.
Lemma tie_nodifyStrucType : f_sig_nodifyStrucType_text =
  "func nodifyStrucType(nodes []Node) Node { terminal, ok := nodes[4].(*parsec.Terminal) if !ok { return fmt.Errorf("""", reflect.TypeOf(nodes[4])) } name := terminal.GetValue() members, err := extractMembers(nodes[1], nodes[5]) if err != nil { return fmt.Errorf("""", err) } return NewStructType(name, members) }".
Proof. reflexivity. Qed.
Lemma tie_extractMembers : f_sig_extractMembers_text =
  "func extractMembers(typesNode, namesNode Node) ([]MemberType, error) { types, err := extractMembersTypes(typesNode) if err != nil { return nil, fmt.Errorf("""", err) } names, err := extractMembersName(namesNode) if err != nil { return nil, fmt.Errorf("""", err) } if len(types) != len(names) { return nil, fmt.Errorf("""", types, names) } members := make([]MemberType, len(names)) for i := range types { members[i] = NewMemberType(names[i], types[i]) } return members, nil }".
Proof. reflexivity. Qed.

(* the printers: the model's print / idl_name are the source's format strings applied to the
   printed parts *)
Fixpoint sprintf (f : string) (args : list string) : string :=
  match f with
  | EmptyString => EmptyString
  | String "%" (String "s" r) =>
      match args with
      | a :: rest => a ++ sprintf r rest
      | [] => "%s" ++ sprintf r []
      end
  | String c r => String c (sprintf r args)
  end.

Lemma tie_print_list : forall t, print (TList t) = sprintf (nth 0 f_sig_print_list "") [print t].
Proof. reflexivity. Qed.
Lemma tie_print_map : forall k v, print (TMap k v) = sprintf (nth 0 f_sig_print_map "") [print k; print v].
Proof. reflexivity. Qed.
Lemma tie_print_tuple : forall ts,
  print (TTuple ts) = nth 0 f_sig_print_tuple "" ++ String.concat "" (map print ts) ++ nth 1 f_sig_print_tuple "".
Proof. reflexivity. Qed.
Lemma tie_print_struct_empty : forall n, print (TStruct n []) = sprintf (nth 0 f_sig_print_struct "") [n].
Proof. reflexivity. Qed.
Lemma tie_print_struct : forall n f fs,
  print (TStruct n (f :: fs)) =
  sprintf (nth 2 f_sig_print_struct "")
          [String.concat "" (map (fun f => print (snd f)) (f :: fs)); n; join (nth 3 f_sig_print_struct "") (map fst (f :: fs))].
Proof. reflexivity. Qed.
Lemma tie_print_tuple_text : f_sig_print_tuple_text =
  "func (t *TupleType) Signature() string { sig := """" for _, m := range t.Members { sig += m.Type.Signature() } sig += """" return sig }".
Proof. reflexivity. Qed.
Lemma tie_print_struct_text : f_sig_print_struct_text =
  "func (s *StructType) Signature() string { if len(s.Members) == 0 { return fmt.Sprintf("""", s.Name) } types := """" names := make([]string, 0, len(s.Members)) for _, v := range s.Members { names = append(names, v.Name) types += v.Type.Signature() } return fmt.Sprintf("""", types, s.Name, strings.Join(names, """")) }".
Proof. reflexivity. Qed.

Lemma tie_idl_list : forall t, idl_name (TList t) = sprintf (nth 0 f_sig_idl_list "") [idl_name t].
Proof. reflexivity. Qed.
Lemma tie_idl_map : forall k v, idl_name (TMap k v) = sprintf (nth 0 f_sig_idl_map "") [idl_name k; idl_name v].
Proof. reflexivity. Qed.
Lemma tie_idl_tuple : forall ts,
  idl_name (TTuple ts) = sprintf (nth 1 f_sig_idl_tuple "") [join (nth 0 f_sig_idl_tuple "") (map idl_name ts)].
Proof. reflexivity. Qed.
Lemma tie_idl_struct : f_sig_idl_struct_text = "func (s *StructType) SignatureIDL() string { return s.Name }".
Proof. reflexivity. Qed.
Lemma tie_tuple_member_names : f_sig_NewTupleType_lits = ["P%d"].
Proof. reflexivity. Qed.

(* Type() of maps and structs: the pinned text (reflect.MapOf / reflect.StructOf on whatever the
   members give: the panics of go_type_result with c_key_panic / c_dup_panic) or the repaired one
   (design/C09.fix.type_panics_*.diff: placeholder for an uncomparable key; clashing member names
   renamed N_0, N_1, ...) *)
Lemma tie_MapType_Type : f_sig_MapType_Type_text =
  "func (m *MapType) Type() reflect.Type { return reflect.MapOf(m.key.Type(), m.value.Type()) }"%string \/
  f_sig_MapType_Type_text =
  "func (m *MapType) Type() reflect.Type { key := m.key.Type() if !key.Comparable() { return reflect.TypeOf((*error)(nil)) } return reflect.MapOf(key, m.value.Type()) }"%string.
Proof. (left; reflexivity) || (right; reflexivity). Qed.
Lemma tie_StructType_Type : f_sig_StructType_Type_text =
  "func (s *StructType) Type() reflect.Type { fields := make([]reflect.StructField, len(s.Members)) var offset uintptr = 0 for i, m := range s.Members { typ := m.Type.Type() fields[i] = reflect.StructField{ Name: CleanName(m.Name), PkgPath: typ.PkgPath(), Type: typ, Index: []int{i}, Offset: offset, Anonymous: false, } offset += typ.Size() } return reflect.StructOf(fields) }"%string \/
  f_sig_StructType_Type_text =
  "func (s *StructType) Type() reflect.Type { fields := make([]reflect.StructField, len(s.Members)) var offset uintptr = 0 names := make(map[string]bool) for i, m := range s.Members { typ := m.Type.Type() name := CleanName(m.Name) for j := 0; names[name]; j++ { name = fmt.Sprintf("""", CleanName(m.Name), j) } names[name] = true fields[i] = reflect.StructField{ Name: name, PkgPath: typ.PkgPath(), Type: typ, Index: []int{i}, Offset: offset, Anonymous: false, } offset += typ.Size() } return reflect.StructOf(fields) }"%string.
Proof. (left; reflexivity) || (right; reflexivity). Qed.
