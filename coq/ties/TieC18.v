(* TieC18.v — facts regenerated from /repo (gen/Facts.v) against the model (Idl.v).
   The grammar of meta/idl/parser.go function by function (combinators, atoms, regular expressions,
   callbacks in order), the texts of the callbacks and of the generator that the model transliterates,
   and — structurally — the atoms of basicType(), the uid format, the first default id and the format
   strings of the generated lines applied to the model's line texts. *)
From Coq Require Import String List NArith Bool.
From QV Require Import Sig Peg SigParse Idl Facts.
Import ListNotations.
Local Open Scope string_scope.

(* ---------- structural ties ---------- *)
Lemma tie_idl_basic_atoms : f_idl_basic_atoms = idl_basic_names \/ f_idl_basic_atoms = ["int8"; "uint8"; "int16"; "uint16"; "int32"; "uint32"; "int64"; "uint64"; "float32"; "float64"; "bool"; "str"; "obj"; "any"; "unknown"] \/
  f_idl_basic_atoms = (idl_basic_names ++ ["nothing"])%list \/
  f_idl_basic_atoms = ["int8"; "uint8"; "int16"; "uint16"; "int32"; "uint32"; "int64"; "uint64"; "float32"; "float64"; "bool"; "str"; "obj"; "any"; "unknown"; "nothing"].
Proof. solve [left; reflexivity | right; left; reflexivity | right; right; left; reflexivity | right; right; right; reflexivity]. Qed.
(* basicType(): atoms matching a prefix (pinned) or Token(name+`\b`) in a loop over the names (design/C18.fix.keyword_prefix_struct_name.diff) *)
Lemma tie_idl_basicType_text : f_idl_basicType_text =
  "func basicType() parsec.Parser { return parsec.OrdChoice(nodifyBasicType, parsec.Atom("""", """"), parsec.Atom("""", """"), parsec.Atom("""", """"), parsec.Atom("""", """"), parsec.Atom("""", """"), parsec.Atom("""", """"), parsec.Atom("""", """"), parsec.Atom("""", """"), parsec.Atom("""", """"), parsec.Atom("""", """"), parsec.Atom("""", """"), parsec.Atom("""", """"), parsec.Atom("""", """"), parsec.Atom("""", """"), parsec.Atom("""", """"), parsec.Atom("""", """"), parsec.Atom("""", """")) }"%string \/
  f_idl_basicType_text =
  "func basicType() parsec.Parser { names := []string{ """", """", """", """", """", """", """", """", """", """", """", """", """", """", """", } parsers := make([]interface{}, len(names)) for i, name := range names { parsers[i] = parsec.Token(name+"""", """") } return parsec.OrdChoice(nodifyBasicType, parsers...) }"%string \/
  f_idl_basicType_text =
  "func basicType() parsec.Parser { return parsec.OrdChoice(nodifyBasicType, parsec.Atom("""", """"), parsec.Atom("""", """"), parsec.Atom("""", """"), parsec.Atom("""", """"), parsec.Atom("""", """"), parsec.Atom("""", """"), parsec.Atom("""", """"), parsec.Atom("""", """"), parsec.Atom("""", """"), parsec.Atom("""", """"), parsec.Atom("""", """"), parsec.Atom("""", """"), parsec.Atom("""", """"), parsec.Atom("""", """"), parsec.Atom("""", """"), parsec.Atom("""", """"), parsec.Atom("""", """"), parsec.Atom("""", """")) }"%string \/
  (* both repairs together: the word-boundary tokens over sixteen names *)
  f_idl_basicType_text =
  "func basicType() parsec.Parser { names := []string{ """", """", """", """", """", """", """", """", """", """", """", """", """", """", """", """", } parsers := make([]interface{}, len(names)) for i, name := range names { parsers[i] = parsec.Token(name+"""", """") } return parsec.OrdChoice(nodifyBasicType, parsers...) }"%string.
Proof. solve [left; reflexivity | right; left; reflexivity | right; right; left; reflexivity | right; right; right; reflexivity]. Qed.

(* every name nodifyBasicType switches on is mapped by the model, to the scalar with that IDL name *)
(* (with "nothing" -> void in the source of design/C18.fix.empty_tuple_or_void_in_container.diff) *)
Definition void_cfg (b : bool) : icfg := {| c_guard := false; c_word := false; c_void := b; c_uid0 := false |}.
Definition basic_table_ok (b : bool) : bool :=
  forallb (fun k => match scalar_of_idl_g (void_cfg b) k with Some s => String.eqb (scalar_idl s) k | None => false end)
          (removelast (tl f_idl_nodifyBasicType_lits)) &&
  forallb (fun k => existsb (String.eqb k) (removelast (tl f_idl_nodifyBasicType_lits))) (idl_basic_names_g (void_cfg b)) &&
  forallb (fun k => existsb (String.eqb k) (idl_basic_names_g (void_cfg b))) (removelast (tl f_idl_nodifyBasicType_lits)).
Lemma tie_idl_basic_table : basic_table_ok false = true \/ basic_table_ok true = true.
Proof. (left; reflexivity) || (right; reflexivity). Qed.

Fixpoint sprintf (f : string) (args : list string) : string :=
  match f with
  | EmptyString => EmptyString
  | String "%" (String c r) =>
      match args with
      | a :: rest => a ++ sprintf r rest
      | [] => String "%" (String c (sprintf r []))
      end
  | String c r => String c (sprintf r args)
  end.

Lemma tie_method_line : forall name ps rs uid,
  method_line name ps rs uid = sprintf (last f_idl_generateMethod_lits "") [name; ps; rs; N_to_string uid].
Proof. reflexivity. Qed.
Lemma tie_signal_line : forall name ps uid,
  sigprop_line "sig" name ps uid = sprintf (last f_idl_generateSignal_lits "") [name; ps; N_to_string uid].
Proof. reflexivity. Qed.
Lemma tie_property_line : forall name ps uid,
  sigprop_line "prop" name ps uid = sprintf (last f_idl_generateProperty_lits "") [name; ps; N_to_string uid].
Proof. reflexivity. Qed.
Lemma tie_property_single_member : nth 1 f_idl_generateProperty_lits "" = "param".
Proof. reflexivity. Qed.
(* gen_struct writes "struct " ++ name ++ nl, one line tab ++ member ++ ": " ++ type ++ nl per member, "end" ++ nl *)
Lemma tie_struct_block_head : forall name, "struct " ++ name ++ nl = sprintf (nth 0 f_idl_generateStructure_lits "") [name].
Proof. reflexivity. Qed.
Lemma tie_struct_block_member : forall a b : string, tab ++ a ++ ": " ++ b ++ nl = sprintf (nth 1 f_idl_generateStructure_lits "") [a; b].
Proof. reflexivity. Qed.
Lemma tie_struct_block_end : "end" ++ nl = nth 2 f_idl_generateStructure_lits "".
Proof. reflexivity. Qed.
Lemma tie_interface_head : forall name, "interface " ++ name ++ nl = sprintf (nth 2 f_idl_GenerateIDL_lits "") [name].
Proof. reflexivity. Qed.
Lemma tie_package_head : forall name, "package " ++ name ++ nl = sprintf (nth 0 f_idl_GenerateIDL_lits "") [name].
Proof. reflexivity. Qed.
Lemma tie_param_idl : forall members,
  param_idl members = join (nth 1 f_idl_ParamIDL_lits "") (map (fun m => fst m ++ nth 0 f_idl_ParamIDL_lits "" ++ idl_name (snd m)) members).
Proof. reflexivity. Qed.
Lemma tie_uid_format : f_idl_commentContent_lits = ["uid:%d"].
Proof. reflexivity. Qed.
Lemma tie_custom_action_start : f_idl_customAction_start = "uint32(100)".
Proof. reflexivity. Qed.
Lemma tie_unresolved_reference : f_idl_searchLocal_lits = ["not found in scope: %s"] /\
  forall n, isig 1 [] (IRef n) = Some ("()<not found in scope: " ++ n ++ ">").
Proof. split; reflexivity. Qed.
Lemma tie_collision_rename : f_idl_ResolveCollision_lits = ["%s_%d"; "can_not_register_name_"].
Proof. reflexivity. Qed.
Lemma tie_register_event : nth 0 f_idl_nodifyActionList_lits "" = "registerEvent".
Proof. reflexivity. Qed.

(* ---------- the source texts the model transliterates ---------- *)

Lemma tie_idl_basicType : f_idl_basicType =
  "OrdChoice(nodifyBasicType atom:int8 atom:uint8 atom:int16 atom:uint16 atom:int32 atom:uint32 atom:int64 atom:uint64 atom:float32 atom:float64 atom:int64 atom:uint64 atom:bool atom:str atom:obj atom:any atom:unknown)"%string \/
  f_idl_basicType =
  "OrdChoice(nodifyBasicType parsers)"%string \/
  f_idl_basicType =
  "OrdChoice(nodifyBasicType atom:int8 atom:uint8 atom:int16 atom:uint16 atom:int32 atom:uint32 atom:int64 atom:uint64 atom:float32 atom:float64 atom:int64 atom:uint64 atom:bool atom:str atom:obj atom:any atom:unknown atom:nothing)"%string.
Proof. solve [left; reflexivity | right; reflexivity | right; left; reflexivity | right; right; reflexivity | right; right; left; reflexivity | right; right; right; reflexivity]. Qed.

Lemma tie_idl_mapType : f_idl_mapType =
  "And(nodifyMap atom:Map< ctx.typeParser atom:, ctx.typeParser atom:>)"%string.
Proof. reflexivity. Qed.

Lemma tie_idl_tupleType : f_idl_tupleType =
  "And(nodifyTuple atom:Tuple< Many(nodifyList ctx.typeParser atom:,) atom:>)"%string \/
  f_idl_tupleType =
  "And(nodifyTuple atom:Tuple< Kleene(nodifyList ctx.typeParser atom:,) atom:>)"%string.
Proof. solve [left; reflexivity | right; reflexivity | right; left; reflexivity | right; right; reflexivity | right; right; left; reflexivity | right; right; right; reflexivity]. Qed.

Lemma tie_idl_vecType : f_idl_vecType =
  "And(nodifyVec atom:Vec< ctx.typeParser atom:>)"%string.
Proof. reflexivity. Qed.

Lemma tie_idl_typeParser : f_idl_typeParser =
  "OrdChoice(nodifyType basicType() mapType(ctx) tupleType(ctx) vecType(ctx) referenceType(ctx))"%string.
Proof. reflexivity. Qed.

Lemma tie_idl_comments : f_idl_comments =
  "And(nodifyComment Maybe(nodifyMaybeComment And(nodifyCommentContent atom:// token:.*)))"%string.
Proof. reflexivity. Qed.

Lemma tie_idl_returns : f_idl_returns =
  "And(nodifyReturns Maybe(nodifyMaybeReturns And(nodifyReturnsType atom:-> ctx.typeParser)))"%string.
Proof. reflexivity. Qed.

Lemma tie_idl_parameter : f_idl_parameter =
  "And(nodifyParam ident() atom:: ctx.typeParser)"%string.
Proof. reflexivity. Qed.

Lemma tie_idl_parameters : f_idl_parameters =
  "And(nodifyAndParams Maybe(nodifyMaybeParams Many(nodifyParams parameter(ctx) atom:,)))"%string.
Proof. reflexivity. Qed.

Lemma tie_idl_ident : f_idl_ident =
  "token:[_A-Za-z][0-9a-zA-Z_]*"%string.
Proof. reflexivity. Qed.

Lemma tie_idl_typeIdent : f_idl_typeIdent =
  "OrdTokens([[_A-Za-z][0-9a-zA-Z_]*<[0-9a-zA-Z_]*> | [_A-Za-z][0-9a-zA-Z_]*] [TYPE_IDENT_CPP | TYPE_IDENT])"%string.
Proof. reflexivity. Qed.

Lemma tie_idl_method : f_idl_method =
  "And(nodifyMethod atom:fn ident() atom:( parameters(ctx) atom:) returns(ctx) comments())"%string.
Proof. reflexivity. Qed.

Lemma tie_idl_signal : f_idl_signal =
  "And(nodifySignal atom:sig ident() atom:( parameters(ctx) atom:) comments())"%string.
Proof. reflexivity. Qed.

Lemma tie_idl_property : f_idl_property =
  "And(nodifyProperty atom:prop ident() atom:( parameters(ctx) atom:) comments())"%string.
Proof. reflexivity. Qed.

Lemma tie_idl_action : f_idl_action =
  "OrdChoice(nodifyAction method(ctx) signal(ctx) property(ctx))"%string.
Proof. reflexivity. Qed.

Lemma tie_idl_interfaceParser : f_idl_interfaceParser =
  "And(makeNodifyInterface(ctx.scope) atom:interface ident() comments() Kleene(nodifyActionList action(ctx)) atom:end comments())"%string.
Proof. reflexivity. Qed.

Lemma tie_idl_referenceType : f_idl_referenceType =
  "And(makeNodifyTypeReference(ctx.scope) typeIdent())"%string.
Proof. reflexivity. Qed.

Lemma tie_idl_member : f_idl_member =
  "And(nodifyMember ident() atom:: ctx.typeParser comments())"%string.
Proof. reflexivity. Qed.

Lemma tie_idl_constValue : f_idl_constValue =
  "Int()"%string.
Proof. reflexivity. Qed.

Lemma tie_idl_enumConst : f_idl_enumConst =
  "And(nodifyEnumConst ident() atom:= constValue() comments())"%string.
Proof. reflexivity. Qed.

Lemma tie_idl_enum : f_idl_enum =
  "And(nodifyEnum atom:enum ident() comments() Kleene(nodifyEnumMembers enumConst()) atom:end comments())"%string.
Proof. reflexivity. Qed.

Lemma tie_idl_structure : f_idl_structure =
  "And(makeNodifyStructure(ctx.scope) atom:struct typeIdent() comments() Kleene(nodifyMemberList member(ctx)) atom:end comments())"%string.
Proof. reflexivity. Qed.

Lemma tie_idl_declaration : f_idl_declaration =
  "OrdChoice(nodifyDeclaration structure(ctx) enum() interfaceParser(ctx))"%string.
Proof. reflexivity. Qed.

Lemma tie_idl_declarationsList : f_idl_declarationsList =
  "Kleene(nodifyDeclarationList declaration(ctx))"%string.
Proof. reflexivity. Qed.

Lemma tie_idl_packageName : f_idl_packageName =
  "And(nodifyPackageName Maybe(nodifyPackageNameMaybe And(nodifyPackageNameAnd atom:package token:[_A-Za-z][0-9a-zA-Z-._]* comments())))"%string.
Proof. reflexivity. Qed.

Lemma tie_idl_packageParser : f_idl_packageParser =
  "And(nodifyPackage packageName() declarationsList(ctx))"%string.
Proof. reflexivity. Qed.

Lemma tie_idl_ParsePackage_text : f_idl_ParsePackage_text =
  "func ParsePackage(input []byte) (*PackageDeclaration, error) { context := NewContext() parser := packageParser(context) root, scanner := parser(parsec.NewScanner(input).TrackLineno()) _, scanner = scanner.SkipWS() if !scanner.Endof() { return nil, fmt.Errorf("""", scanner.Lineno()) } if root == nil { return nil, fmt.Errorf("""", input) } definitions, ok := root.(*PackageDeclaration) if !ok { if err, ok := root.(error); ok { return nil, err } return nil, fmt.Errorf("""", reflect.TypeOf(root)) } return definitions, nil }"%string \/
  f_idl_ParsePackage_text =
  "func ParsePackage(input []byte) (*PackageDeclaration, error) { context := NewContext() parser := packageParser(context) root, scanner := parser(parsec.NewScanner(input).TrackLineno()) _, scanner = scanner.SkipWS() if !scanner.Endof() { return nil, fmt.Errorf("""", scanner.Lineno()) } if root == nil { return nil, fmt.Errorf("""", input) } definitions, ok := root.(*PackageDeclaration) if !ok { if err, ok := root.(error); ok { return nil, err } return nil, fmt.Errorf("""", reflect.TypeOf(root)) } for _, decl := range definitions.Types { if s, ok := decl.(*signature.StructType); ok && strings.Contains(s.Signature(), """"+recursiveMark) { return nil, fmt.Errorf("""", s.Name) } } return definitions, nil }"%string.
Proof. (left; reflexivity) || (right; reflexivity). Qed.

Lemma tie_idl_nodifyActionList_text : f_idl_nodifyActionList_text =
  "func nodifyActionList(nodes []signature.Node) signature.Node { var itf InterfaceType itf.Methods = make(map[uint32]Method) itf.Signals = make(map[uint32]Signal) itf.Properties = make(map[uint32]Property) var customAction = uint32(100) for _, node := range nodes { if err, ok := node.(error); ok { return err } if method, ok := node.(Method); ok { if method.ID == 0 && method.Name != """" { method.ID = customAction customAction++ } itf.Methods[method.ID] = method } else if signal, ok := node.(Signal); ok { if signal.ID == 0 { signal.ID = customAction customAction++ } itf.Signals[signal.ID] = signal } else if property, ok := node.(Property); ok { if property.ID == 0 { property.ID = customAction customAction++ } itf.Properties[property.ID] = property } else { return fmt.Errorf("""", reflect.TypeOf(node), node) } } return &itf }"%string \/
  f_idl_nodifyActionList_text =
  "func nodifyActionList(nodes []signature.Node) signature.Node { var itf InterfaceType itf.Methods = make(map[uint32]Method) itf.Signals = make(map[uint32]Signal) itf.Properties = make(map[uint32]Property) var customAction = uint32(100) for _, node := range nodes { if err, ok := node.(error); ok { return err } if method, ok := node.(Method); ok { if !method.explicitID && method.Name != """" { method.ID = customAction customAction++ } itf.Methods[method.ID] = method } else if signal, ok := node.(Signal); ok { if !signal.explicitID { signal.ID = customAction customAction++ } itf.Signals[signal.ID] = signal } else if property, ok := node.(Property); ok { if !property.explicitID { property.ID = customAction customAction++ } itf.Properties[property.ID] = property } else { return fmt.Errorf("""", reflect.TypeOf(node), node) } } return &itf }"%string.
Proof. (left; reflexivity) || (right; reflexivity). Qed.

Lemma tie_idl_generateMethod_lits : f_idl_generateMethod_lits =
  ["parse parms of %s: %s"%string; "parse return of %s: %s"%string; ""%string; ""%string; ","%string; ": "%string; "-> "%string; " "%string; "v"%string; ""%string; "	fn %s(%s) %s//uid:%d
"%string].
Proof. reflexivity. Qed.

Lemma tie_idl_generateMethod_text : f_idl_generateMethod_text =
  "func generateMethod(writer io.Writer, set *signature.TypeSet, m object.MetaMethod, methodName string) error { paramType, err := signature.Parse(m.ParametersSignature) if err != nil { return fmt.Errorf("""", m.Name, err) } retType, err := signature.Parse(m.ReturnSignature) if err != nil { return fmt.Errorf("""", m.Name, err) } tupleType, ok := paramType.(*signature.TupleType) if !ok { tupleType = signature.NewTupleType([]signature.Type{paramType}) } paramSignature := """" if m.Para" ++ "meters == nil || len(m.Para" ++ "meters) != len(tupleType.Members) { paramSignature = tupleType.ParamIDL() } else { for i, p := range m.Para" ++ "meters { if paramSignature != """" { paramSignature += """" } name := signature.CleanVarName(i, p.Name) paramSignature += name + """" + tupleType.Members[i].Type.SignatureIDL() } } returnSignature := """" + retType.SignatureIDL() + """" if retType.Signature() == """" { returnSignature = """" } fmt.Fprintf(writer, """", m.Name, paramSignature, returnSignature, m.Uid) paramType.RegisterTo(set) retType.RegisterTo(set) return nil }"%string.
Proof. reflexivity. Qed.

Lemma tie_idl_generateProperty_lits : f_idl_generateProperty_lits =
  ["parse property of %s: %s"%string; "param"%string; "	prop %s(%s) //uid:%d
"%string].
Proof. reflexivity. Qed.

Lemma tie_idl_generateProperty_text : f_idl_generateProperty_text =
  "func generateProperty(writer io.Writer, set *signature.TypeSet, p object.MetaProperty, propertyName string) error { propertyType, err := signature.Parse(p.Signature) if err != nil { return fmt.Errorf("""", p.Name, err) } propertyType.RegisterTo(set) tupleType, ok := propertyType.(*signature.TupleType) if !ok { tupleType = &signature.TupleType{ Members: []signature.MemberType{ signature.MemberType{ Name: """", Type: propertyType, }, }, } } fmt.Fprintf(writer, """", p.Name, tupleType.ParamIDL(), p.Uid) return nil }"%string.
Proof. reflexivity. Qed.

Lemma tie_idl_generateSignal_lits : f_idl_generateSignal_lits =
  ["parse signal of %s: %s"%string; "	sig %s(%s) //uid:%d
"%string].
Proof. reflexivity. Qed.

Lemma tie_idl_generateSignal_text : f_idl_generateSignal_text =
  "func generateSignal(writer io.Writer, set *signature.TypeSet, s object.MetaSignal, methodName string) error { signalType, err := signature.Parse(s.Signature) if err != nil { return fmt.Errorf("""", s.Name, err) } signalType.RegisterTo(set) tupleType, ok := signalType.(*signature.TupleType) if !ok { tupleType = signature.NewTupleType([]signature.Type{signalType}) } fmt.Fprintf(writer, """", s.Name, tupleType.ParamIDL(), s.Uid) return nil }"%string.
Proof. reflexivity. Qed.

Lemma tie_idl_generateStructure_lits : f_idl_generateStructure_lits =
  ["struct %s
"%string; "	%s: %s
"%string; "end
"%string].
Proof. reflexivity. Qed.

Lemma tie_idl_generateStructure_text : f_idl_generateStructure_text =
  "func generateStructure(writer io.Writer, s *signature.StructType) error { fmt.Fprintf(writer, """", s.Name) for _, mem := range s.Members { fmt.Fprintf(writer, """", mem.Name, mem.Type.SignatureIDL()) } fmt.Fprintf(writer, """") return nil }"%string.
Proof. reflexivity. Qed.

Lemma tie_idl_GenerateIDL_lits : f_idl_GenerateIDL_lits =
  ["package %s
"%string; "o"%string; "interface %s
"%string; "Subscribe"%string; "generate proxy object %s: %s"%string; "end
"%string; "generate structures: %s"%string].
Proof. reflexivity. Qed.

Lemma tie_idl_GenerateIDL_text : f_idl_GenerateIDL_text =
  "func GenerateIDL(writer io.Writer, packageName string, objs map[string]object.MetaObject) error { set := signature.NewTypeSet() fmt.Fprintf(writer, """", packageName) scope := NewScope() for name, meta := range objs { name = set.ResolveCollision(name, """") set.Types = append(set.Types, NewRefType(name, scope)) set.Names = append(set.Names, name) fmt.Fprintf(writer, """", name) method := func(m object.MetaMethod, methodName string) error { return generateMethod(writer, set, m, methodName) } signal := func(s object.MetaSignal, signalName string) error { return generateSignal(writer, set, s, """"+signalName) } property := func(p object.MetaProperty, propertyName string) error { return generateProperty(writer, set, p, propertyName) } if err := meta.ForEachMethodAndSignal(method, signal, property); err != nil { return fmt.Errorf("""", name, err) } fmt.Fprintf(writer, """") } if err := generateStructures(writer, set); err != nil { return fmt.Errorf("""", err) } return nil }"%string.
Proof. reflexivity. Qed.

Lemma tie_idl_ResolveCollision_text : f_idl_ResolveCollision_text =
  "func (s *TypeSet) ResolveCollision(originalName, signature string) string { name := originalName for i := 0; i < 100; i++ { ok := true for i, n := range s.Names { if n == name { if s.Types[i].Signature() == signature { return name } ok = false break } } if ok { return name } name = fmt.Sprintf("""", originalName, i) } return """" + originalName }"%string.
Proof. reflexivity. Qed.

Lemma tie_idl_StructRegisterTo_text : f_idl_StructRegisterTo_text =
  "func (s *StructType) RegisterTo(set *TypeSet) { for _, v := range s.Members { v.Type.RegisterTo(set) } s.Name = set.ResolveCollision(s.Name, s.Signature()) if set.Search(s.Name) == nil { set.Types = append(set.Types, s) set.Names = append(set.Names, s.Name) } }"%string.
Proof. reflexivity. Qed.

Lemma tie_idl_scopeAdd_text : f_idl_scopeAdd_text =
  "func (s *scopeImpl) Add(name string, typ signature.Type) error { _, ok := s.local[name] if !ok { s.local[name] = typ return nil } return fmt.Errorf("""", name) }"%string.
Proof. reflexivity. Qed.

Lemma tie_idl_RefSignature_text : f_idl_RefSignature_text =
  "func (r *RefType) Signature() string { t, err := r.Scope.Search(r.Name) if err == nil { return t.Signature() } return signature.NewStructType(err.Error(), nil).Signature() }"%string \/
  f_idl_RefSignature_text =
  "func (r *RefType) Signature() string { if r.busy { return signature.NewStructType(recursiveMark+r.Name, nil).Signature() } r.busy = true defer func() { r.busy = false }() t, err := r.Scope.Search(r.Name) if err == nil { return t.Signature() } return signature.NewStructType(err.Error(), nil).Signature() }"%string.
Proof. (left; reflexivity) || (right; reflexivity). Qed.

Lemma tie_idl_MethodMeta_text : f_idl_MethodMeta_text =
  "func (m Method) Meta(id uint32) object.MetaMethod { var meta object.MetaMethod meta.Uid = id meta.Name = m.Name meta.ReturnSignature = m.Return.Signature() meta.ReturnDescription = m.Return.SignatureIDL() params := make([]signature.Type, 0) meta.Para" ++ "meters = make([]object.MetaMethodParameter, 0) for _, p := range m.Params { var param object.MetaMethodParameter param.Name = p.Name param.Description = p.Type.SignatureIDL() meta.Para" ++ "meters = append(meta.Para" ++ "meters, param) params = append(params, p.Type) } meta.ParametersSignature = signature.NewTupleType(params).Signature() return meta }"%string.
Proof. reflexivity. Qed.

Lemma tie_idl_SignalMeta_text : f_idl_SignalMeta_text =
  "func (s Signal) Meta(id uint32) object.MetaSignal { var meta object.MetaSignal meta.Uid = id meta.Name = s.Name types := make([]signature.Type, 0) for _, p := range s.Params { types = append(types, p.Type) } meta.Signature = signature.NewTupleType(types).Signature() return meta }"%string.
Proof. reflexivity. Qed.

Lemma tie_idl_PropertyMeta_text : f_idl_PropertyMeta_text =
  "func (p Property) Meta(id uint32) object.MetaProperty { var meta object.MetaProperty meta.Uid = id meta.Name = p.Name types := make([]signature.Type, 0) for _, p := range p.Params { types = append(types, p.Type) } meta.Signature = signature.NewTupleType(types).Signature() return meta }"%string.
Proof. reflexivity. Qed.

Lemma tie_idl_ForEach_text : f_idl_ForEach_text =
  "func (m *MetaObject) ForEachMethodAndSignal( methodCall func(m MetaMethod, methodName string) error, signalCall func(s MetaSignal, signalName string) error, propertyCall func(p MetaProperty, propertyName string) error) error { methodNames := make(map[string]bool) keys := make([]int, 0) for k := range m.Methods { keys = append(keys, int(k)) } sort.Ints(keys) for _, i := range keys { k := uint32(i) m := m.Methods[k] methodName := registerName(strings.Title(m.Name), methodNames) if err := methodCall(m, methodName); err != nil { return fmt.Errorf("""", m.Name, err) } } keys = make([]int, 0) for k := range m.Signals { keys = append(keys, int(k)) } sort.Ints(keys) for _, i := range keys { k := uint32(i) s := m.Signals[k] signalName := registerName(strings.Title(s.Name), methodNames) if err := signalCall(s, signalName); err != nil { return fmt.Errorf("""", s.Name, err) } } keys = make([]int, 0) for k := range m.Properties { keys = append(keys, int(k)) } sort.Ints(keys) for _, i := range keys { k := uint32(i) p := m.Properties[k] propertyName := registerName(strings.Title(p.Name), methodNames) if err := propertyCall(p, propertyName); err != nil { return fmt.Errorf("""", p.Name, err) } } return nil }"%string.
Proof. reflexivity. Qed.
