(* TieC12.v — facts regenerated from /repo that Hostile.v rests on. *)
From Coq Require Import String List.
From QV Require Import Hostile Facts.
Import ListNotations.
Local Open Scope string_scope.

Lemma tie_consumer_cap : f_consumer_cap = ConsumerCap. Proof. reflexivity. Qed.
Lemma tie_mailbox_cap : f_c12_mailbox_cap = MailboxCap. Proof. reflexivity. Qed.

(* serviceImpl.Receive: lookup under RLock, RUnlock, then the blocking send into the mailbox:
   the service lock is never held while a goroutine waits (LCons / LConsPut hold nothing) *)
Lemma tie_service_Receive : f_service_Receive = "s.RLock ; s.RUnlock ; from.SendError ; send box". Proof. reflexivity. Qed.
Lemma tie_router_Receive : f_router_Receive = "r.RLock ; r.RUnlock ; s.Receive ; from.SendError". Proof. reflexivity. Qed.

(* endpoint: dispatch (filter, non-blocking enqueue, "consumer blocked" error written by dispatch itself)
   and RemoveHandler (closer called inside) run under handlersMutex: c_hlock *)
Lemma tie_dispatch : f_endpoint_dispatch =
  "e.handlersMutex.Lock ; defer e.handlersMutex.Unlock ; send h.consumer ; e.Send ; h.closeWith". Proof. reflexivity. Qed.
Lemma tie_RemoveHandler : f_endpoint_RemoveHandler =
  "e.handlersMutex.Lock ; defer e.handlersMutex.Unlock ; e.handlers[id].closeWith". Proof. reflexivity. Qed.
(* closeWith: the handlers are closed by goroutines of their own, outside the mutex: LCloser *)
Lemma tie_closeWith : f_endpoint_closeWith =
  "e.stream.Close ; e.handlersMutex.Lock ; defer e.handlersMutex.Unlock ; go ; handler.closeWith". Proof. reflexivity. Qed.
(* one goroutine per mailbox, one mail at a time: LObj *)
Lemma tie_mailbox_loop : f_mailbox_loop = "go ; recv box ; r.Receive". Proof. reflexivity. Qed.

(* service 0 keeps nothing between two requests (AuthStateless.v, C12_service0_stateless): the struct of
   serviceAuthenticate holds the authenticator only, bus/authenticate.go has no package-level variable but its error value *)
Lemma tie_service0_stateless : (f_c12_service0_fields, f_c12_service0_package_vars) = ("auth Authenticator", "ErrCapabilityTooLong").
Proof. reflexivity. Qed.

(* the generated stubs: every decoding statement of a stub method is followed by an error answer; no panic *)
Lemma tie_stub_object : (f_stub_object_panics, f_stub_object_decode_errors_answered) = (0%nat, true). Proof. reflexivity. Qed.
Lemma tie_stub_directory : (f_stub_directory_panics, f_stub_directory_decode_errors_answered) = (0%nat, true). Proof. reflexivity. Qed.

(* addSignalUser: pinned shape (switch dup_relock) or repaired shape (check before MakeHandler) *)
Lemma tie_addSignalUser_c12 : In f_sig_addSignalUser
  [ "e.MakeHandler ; o.signalsMutex.Lock ; o.signalsMutex.Unlock ; user.context.EndPoint().RemoveHandler ; o.signalsMutex.Unlock";
    "o.signalsMutex.Lock ; o.signalsMutex.Unlock ; o.signalsMutex.Unlock ; e.MakeHandler ; o.signalsMutex.Lock ; o.signalsMutex.Unlock" ].
Proof. cbv; auto. Qed.
