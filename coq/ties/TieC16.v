(* TieC16.v — facts regenerated from /repo (gen/Facts.v) equal what Service.v assumes. *)
From Coq Require Import String List NArith.
From QV Require Import Service Facts.
Import ListNotations.
Local Open Scope string_scope.

(* lock regions and call-outs: the granularity of the labels *)
Lemma tie_add_skeleton : f_svc_add_skeleton = add_skeleton. Proof. reflexivity. Qed.
(* Remove: one lock region, then OnTerminate outside it; since 93e1db0 an earlier exit (Unlock, error)
   for the placeholder of an Add in progress *)
Lemma tie_remove_skeleton :
  f_svc_remove_skeleton = remove_skeleton \/
  f_svc_remove_skeleton = ["Lock"; "Unlock"; "Unlock"; "OnTerminate"; "Unlock"]%string.
Proof. (right; reflexivity) || (left; reflexivity). Qed.
Lemma tie_receive_skeleton : f_svc_receive_skeleton = receive_skeleton. Proof. reflexivity. Qed.
Lemma tie_add_index_expr : f_svc_add_index_expr = add_index_expr. Proof. reflexivity. Qed.
(* the placeholder object refuses silently (recv on TPending) *)
Lemma tie_pending_receive : f_pending_receive_text =
  "func (p pendingObject) Receive(m *net.Message, from Channel) error { return ErrObjectNotFound }".
Proof. reflexivity. Qed.
(* terminate action -> removal of the own index (pinned: whatever lives there; repaired: only itself),
   error dropped *)
Lemma tie_object_terminator :
  f_object_terminator_text =
    "func objectTerminator(service Service, objectID uint32) func() { return func() { service.Remove(objectID) } }" \/
  f_object_terminator_text =
    "func objectTerminator(service *serviceImpl, objectID uint32, obj Actor) func() { return func() { service.removeObject(objectID, obj) } }".
Proof. first [left; reflexivity | right; reflexivity]. Qed.
Lemma tie_impl_terminate : f_impl_terminate_text =
  "func (o *objectImpl) Terminate(objectID uint32) error { if objectID != 0 && o.objectID < (1<<31) && objectID != o.objectID { return ErrWrongObjectID } o.terminate() return nil }".
Proof. reflexivity. Qed.
Lemma tie_wrong_id_terminate : f_impl_terminate_conds = [wrong_id_cond]. Proof. reflexivity. Qed.
Lemma tie_wrong_id_register : f_register_id_cond = [wrong_id_cond]. Proof. reflexivity. Qed.
(* the mailbox: one goroutine, FIFO channel *)
Lemma tie_mailbox_cap : f_mailbox_cap = mailbox_cap. Proof. reflexivity. Qed.
Lemma tie_mailbox_text : f_mailbox_text =
  "func NewMailBox(r Receiver) MailBox { box := MailBox(make(chan Mail, 10)) go func() { for { mail, ok := <-box if !ok { return } err := r.Receive(mail.Msg, mail.From) if err != nil { log.Printf("""", mail.Msg.Header, err) } } }() return box }".
Proof. reflexivity. Qed.
(* action numbers *)
Definition lookup (l : list (N * string)) (n : N) : option string :=
  match find (fun e => N.eqb (fst e) n) l with Some e => Some (snd e) | None => None end.
Lemma tie_action_terminate : lookup f_object_actions act_terminate = Some "p.Terminate". Proof. reflexivity. Qed.
Lemma tie_action_register : lookup f_object_actions act_register = Some "p.RegisterEvent". Proof. reflexivity. Qed.
Lemma tie_action_unknown_generic : lookup f_object_actions act_unknown = None. Proof. reflexivity. Qed.
Lemma tie_action_hello : lookup f_pong_actions act_hello = Some "p.Hello". Proof. reflexivity. Qed.
Lemma tie_action_unknown_pong : lookup f_pong_actions act_unknown = None. Proof. reflexivity. Qed.
(* OnTerminate: the implementor's hook, then the termination notice to every subscriber *)
Lemma tie_stub_onterminate : f_stub_onterminate_text =
  "func (p *stubObject) OnTerminate() { p.obj.OnTerminate() p.impl.OnTerminate() p.signal.OnTerminate() }".
Proof. reflexivity. Qed.
Lemma tie_signal_onterminate : f_signal_onterminate_text =
  "func (o *signalHandler) OnTerminate() { o.signalsMutex.Lock() signals := o.signals o.signals = []signalUser{} o.signalsMutex.Unlock() for _, user := range signals { o.sendTerminate(&user, user.signalID) user.context.EndPoint().RemoveHandler(user.contextID) } }".
Proof. reflexivity. Qed.
Lemma tie_send_terminate : f_send_terminate_text =
  "func (o *signalHandler) sendTerminate(user *signalUser, signal uint32) error { var buf bytes.Buffer val := value.String(ErrTerminate.Error()) val.Write(&buf) hdr := o.newHeader(net.Error, user.signalID, user.messageID) msg := net.NewMessage(hdr, buf.Bytes()) o.trace(&msg) return user.context.Send(&msg) }".
Proof. reflexivity. Qed.
