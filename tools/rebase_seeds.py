#!/usr/bin/env python3
"""for every seeded/*/patch.diff that no longer applies to /repo HEAD: try a 3-way rebase onto HEAD (the
rebased patch replaces patch.diff, the original is kept as patch.orig.diff); if that conflicts, record the
latest /repo commit the patch applies to in meta.json (applies_to)"""
import glob, json, os, subprocess, shutil
root = os.path.dirname(os.path.dirname(os.path.abspath(__file__)))
def sh(c, cwd=None):
    p = subprocess.run(c, shell=True, cwd=cwd, stdout=subprocess.PIPE, stderr=subprocess.STDOUT, text=True)
    return p.returncode, p.stdout
revs = sh("git -C /repo rev-list HEAD")[1].split()
head = revs[0]
for d in sorted(glob.glob(os.path.join(root, "seeded", "*"))):
    pd = os.path.join(d, "patch.diff")
    if not os.path.exists(pd):
        continue
    mp = os.path.join(d, "meta.json")
    meta = json.load(open(mp)) if os.path.exists(mp) else {}
    if sh("git apply --check %s" % pd, cwd="/repo")[0] == 0:
        meta["applies_to"] = "HEAD (%s)" % head[:7]
        json.dump(meta, open(mp, "w"), indent=1)
        continue
    wt = "/work/rbs-%d" % os.getpid()
    sh("git -C /repo worktree add --detach -f %s HEAD" % wt)
    rc, out = sh("git apply --3way %s" % pd, cwd=wt)
    conflicts = sh("git diff --name-only --diff-filter=U", cwd=wt)[1].strip()
    if rc == 0 and not conflicts and sh("go build ./...", cwd=wt)[0] == 0:
        rc2, diff = sh("git diff HEAD", cwd=wt)
        shutil.copy(pd, os.path.join(d, "patch.orig.diff"))
        open(pd, "w").write(diff)
        meta["applies_to"] = "HEAD (%s), rebased by 3-way merge; original in patch.orig.diff" % head[:7]
        print("rebased", os.path.basename(d))
    else:
        base = None
        for r in revs:
            sh("git checkout -q --detach %s" % r, cwd=wt)
            sh("git checkout -q -- . ; git clean -fdq", cwd=wt)
            if sh("git apply --check %s" % pd, cwd=wt)[0] == 0:
                base = r
                break
        meta["applies_to"] = (base[:7] if base else "unknown") + " (conflicts with later fix commits of /repo; apply to a worktree at that commit)"
        print("kept at", meta["applies_to"][:7], os.path.basename(d))
    json.dump(meta, open(mp, "w"), indent=1)
    sh("git -C /repo worktree remove --force %s" % wt)
    shutil.rmtree(wt, ignore_errors=True)
sh("git -C /repo worktree prune")
