#!/usr/bin/env python3
"""tools/seedrun.py <seeded dir name> <Cxx> [Cyy ...]: runs the quick checks against seeded/<name>/patch.diff
(tools/mutcheck.sh) and records the verdicts in its meta.json under checks_run."""
import json, os, re, subprocess, sys
root = os.path.dirname(os.path.dirname(os.path.abspath(__file__)))
name, checks = sys.argv[1], sys.argv[2:]
d = os.path.join(root, "seeded", name)
m = json.load(open(os.path.join(d, "meta.json")))
res = m.get("checks_run", {})
for c in checks:
    p = subprocess.run("%s/tools/mutcheck.sh %s/patch.diff %s" % (root, d, c), shell=True, stdout=subprocess.PIPE, stderr=subprocess.STDOUT, text=True, timeout=3000)
    lines = [l for l in p.stdout.split("\n") if l.startswith("VIOLATION") or re.match(r"^C\d+ ", l)]
    res[c] = {"violation": any(l.startswith("VIOLATION") for l in lines), "verdict": lines[-1] if lines else p.stdout[-300:],
              "violation_lines": [l for l in lines if l.startswith("VIOLATION")][:3]}
    print(name, c, res[c]["violation"], res[c]["verdict"][:110])
m["checks_run"] = res
json.dump(m, open(os.path.join(d, "meta.json"), "w"), indent=1)
