#!/usr/bin/env python3
"""prints a markdown table of every change kept under seeded/: property, origin, what it needs to
manifest, whether the baseline tests stay green with it, and which check caught it how"""
import glob, json, os, re
root = os.path.dirname(os.path.dirname(os.path.abspath(__file__)))
rows = []
for d in sorted(glob.glob(os.path.join(root, "seeded", "*"))):
    mp = os.path.join(d, "meta.json")
    if not os.path.exists(mp):
        continue
    m = json.load(open(mp))
    name = os.path.basename(d)
    prop = m.get("property", "?")
    origin = "independent agent" if "independent" in m.get("origin", "") else ("lead" if "lead" in m.get("origin", "") else "property engineer")
    needs = (m.get("needs") or m.get("summary") or "").replace("|", "/").replace("\n", " ")
    if len(needs) > 150:
        needs = needs[:147] + "..."
    green = m.get("baseline_tests_pass")
    if green is None:
        green = (m.get("confirmed") or {}).get("baseline_tests_pass")
    if green is None:
        green = m.get("baseline_green", m.get("tests_green"))
    caught = ""
    if "checks_run" in m:
        parts = []
        for c, v in m["checks_run"].items():
            if v.get("violation"):
                how = "failing input" if "no-failing-input-found" not in json.dumps(v) else "broken obligation/correspondence"
                mm = re.search(r"mismatches (\d+), oracle failures (\d+)", v.get("verdict", ""))
                if mm:
                    how = ("oracle (failing input)" if int(mm.group(2)) > 0 else "correspondence/obligation only")
                parts.append("%s: %s" % (c, how))
            else:
                parts.append("%s: not caught" % c)
        caught = "; ".join(parts)
    else:
        cb = m.get("caught_by") or m.get("caught") or ""
        if isinstance(cb, (list, dict)):
            cb = json.dumps(cb)
        caught = str(cb).replace("|", "/")[:160]
    rows.append((prop, name, origin, needs, {True: "yes", False: "no", None: "?"}.get(green, str(green)), caught))
print("| property | change | by | needs to manifest | baseline tests green | caught by |")
print("|---|---|---|---|---|---|")
for r in sorted(rows):
    print("| %s | %s | %s | %s | %s | %s |" % r)
