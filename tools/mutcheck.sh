#!/bin/bash
# tools/mutcheck.sh <patch.diff> <Cxx> [Cyy ...]
# Applies a patch to a scratch worktree of /repo, copies this verif tree (with its build output) next to it,
# runs the quick checks there against the scratch tree and prints their verdict lines.  Nothing in
# /repo or /verif is touched; the scratch directories are removed afterwards.
set -u
patch=$(realpath "$1"); shift
VERIF=$(cd "$(dirname "$0")/.." && pwd)
id=$$-$RANDOM
W=/work/mut-$id
mkdir -p /work
git -C /repo worktree add --detach -f "$W/repo" HEAD >/dev/null 2>&1 || { echo "worktree failed"; exit 2; }
# carry uncommitted hook files of /repo into the scratch tree
(cd /repo && git ls-files --others --exclude-standard -z | xargs -0 -r -I{} cp --parents {} "$W/repo/" 2>/dev/null)
if ! git -C "$W/repo" apply "$patch"; then echo "patch does not apply"; git -C /repo worktree remove --force "$W/repo"; rm -rf "$W"; exit 2; fi
rsync -a --exclude .git --exclude evidence --exclude '_build/cases' --exclude '_build/go-alt' "$VERIF"/ "$W/verif/"
rc=0
for p in "$@"; do
  (cd "$W/verif" && VERIF_REPO="$W/repo" timeout 1800 ./check "$p" ${TIER:-quick} 2>&1 | grep -E "^(VIOLATION|KNOWN-FINDING|C[0-9]+ )" ) || true
  if [ -n "${KEEP_REPLAY:-}" ]; then mkdir -p "$KEEP_REPLAY"; cp -r "$W/verif/evidence/replay/." "$KEEP_REPLAY/" 2>/dev/null; fi
done
git -C /repo worktree remove --force "$W/repo" >/dev/null 2>&1
rm -rf "$W"
git -C /repo worktree prune
