#!/usr/bin/env python3
"""tools/mkmut.py <name> <property> <needs> -- file old new [file old new ...]
Creates seeded/<name>/patch.diff from textual replacements applied to a scratch worktree of /repo,
checks that the tree still builds and that `go test` of the touched packages (plus extra packages
given in MUT_TEST_PKGS) still passes, and records meta.json.  Nothing is left in /repo."""
import json, os, subprocess, sys, tempfile, shutil

def sh(cmd, cwd=None, timeout=600):
    p = subprocess.run(cmd, cwd=cwd, shell=True, stdout=subprocess.PIPE, stderr=subprocess.STDOUT, text=True, timeout=timeout)
    return p.returncode, p.stdout

def main():
    name, prop, needs = sys.argv[1:4]
    assert sys.argv[4] == "--"
    triples = sys.argv[5:]
    root = os.path.dirname(os.path.dirname(os.path.abspath(__file__)))
    wt = "/work/mk-%s-%d" % (name, os.getpid())
    os.makedirs("/work", exist_ok=True)
    rc, out = sh("git -C /repo worktree add --detach -f %s HEAD" % wt)
    if rc != 0:
        print(out); sys.exit(2)
    try:
        pkgs = set()
        for i in range(0, len(triples), 3):
            f, old, new = triples[i:i+3]
            p = os.path.join(wt, f)
            s = open(p).read()
            if s.count(old) < 1:
                print("pattern not found in", f, ":", old[:60]); sys.exit(2)
            open(p, "w").write(s.replace(old, new))
            pkgs.add("./" + os.path.dirname(f) + "/...")
        pkgs |= set(os.environ.get("MUT_TEST_PKGS", "").split())
        rc, out = sh("go build ./... 2>&1 | tail -5", cwd=wt)
        rcb, outb = sh("go vet ./... >/dev/null 2>&1; go build ./...", cwd=wt)
        if rcb != 0:
            print("does not build:\n", outb[-1500:]); sys.exit(3)
        rct, outt = sh("go test -count=1 %s 2>&1 | grep -v 'no test files' | tail -15" % " ".join(sorted(pkgs)), cwd=wt, timeout=900)
        ok = "FAIL" not in outt
        rc, diff = sh("git diff", cwd=wt)
        d = os.path.join(root, "seeded", name)
        os.makedirs(d, exist_ok=True)
        open(os.path.join(d, "patch.diff"), "w").write(diff)
        meta = {"property": prop, "needs": needs, "baseline_tests_pass": ok, "tested_packages": sorted(pkgs),
                "origin": "lead (DESIGN.md list of seeded mutations)"}
        json.dump(meta, open(os.path.join(d, "meta.json"), "w"), indent=1)
        print(name, "tests pass" if ok else "TESTS FAIL:\n" + outt[-800:])
    finally:
        sh("git -C /repo worktree remove --force %s" % wt)
        shutil.rmtree(wt, ignore_errors=True)
        sh("git -C /repo worktree prune")

main()
