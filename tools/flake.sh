#!/bin/bash
# tools/flake.sh N [props...]: runs each quick check N times with varying seeds and reports every run that is not ok
cd "$(dirname "$0")/.."
N=${1:-5}; shift
props=${@:-$(python3 -c "import json;print(' '.join(c['property_id'] for c in json.load(open('MANIFEST.json'))['checks']))")}
for p in $props; do
  for i in $(seq 1 $N); do
    out=$(VERIF_SEED=$((i*7+3)) timeout 1500 ./check $p quick 2>&1 | grep -E "^(VIOLATION|C[0-9]+ )" | tail -1)
    case "$out" in *": ok "*) ;; *) echo "FLAKE $p seed=$((i*7+3)): $out"; cp evidence/replay/${p}_*.json /tmp/flake_${p}_$i.json 2>/dev/null;; esac
  done
  echo "done $p"
done
