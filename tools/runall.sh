#!/bin/bash
# runs every claimed check's quick command and prints its verdict line
cd "$(dirname "$0")/.."
for p in $(python3 -c "import json;print(' '.join(c['property_id'] for c in json.load(open('MANIFEST.json'))['checks']))"); do
  timeout ${RUNALL_TIMEOUT:-1500} ./check $p ${1:-quick} 2>&1 | grep -E "^(VIOLATION|C[0-9]+ )" | tail -2
done
