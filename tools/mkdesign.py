#!/usr/bin/env python3
"""assembles DESIGN.md from design/DESIGN.in.md: fills the property table (claims + last evidence),
the defect table (KNOWN_FINDINGS.txt), the seeded-change table (seeded/*/meta.json) and the
hand-written per-property paragraphs design/_C05.md, design/_others.md"""
import glob, json, os, re, subprocess
root = os.path.dirname(os.path.dirname(os.path.abspath(__file__)))
src = open(os.path.join(root, "design", "DESIGN.in.md")).read()

def read(p):
    p = os.path.join(root, p)
    return open(p).read() if os.path.exists(p) else ""

titles = {json.loads(l)["id"]: json.loads(l)["title"] for l in open(os.path.join(root, "properties.jsonl"))}
rows = ["| id | title | obl. | cases (quick) | theorems in props/Cxx.v | notes |", "|---|---|---|---|---|---|"]
for pid in sorted(titles):
    ev = read("evidence/%s.json" % pid)
    claim = read("lib/claims/%s.json" % pid)
    if not claim:
        rows.append("| %s | %s | — | — | — | not claimed in this revision |" % (pid, titles[pid]))
        continue
    obl = cases = "?"
    thms = ""
    if ev:
        e = json.loads(ev)["coverage"]
        obl = "%s/%s" % (e.get("discharged"), e.get("obligations"))
        cases = str(e.get("evaluations"))
        thms = ", ".join(t.replace(pid + "_", "") for t in e.get("theorems", []))
        if len(thms) > 420:
            thms = thms[:417] + "..."
    note = "`design/%s.md`" % pid if os.path.exists(os.path.join(root, "design", pid + ".md")) else "below"
    rows.append("| %s | %s | %s | %s | %s | %s |" % (pid, titles[pid], obl, cases, thms, note))
ptable = "\n".join(rows)

drows = ["| property | status | what failed |", "|---|---|---|"]
for line in read("KNOWN_FINDINGS.txt").split("\n"):
    m = re.match(r"fixed:\s*property=(\w+)\s+(\w+)\s+(.*)", line)
    if m:
        drows.append("| %s | repaired: `%s` | %s |" % (m.group(1), m.group(2), m.group(3).replace("|", "/")))
    m = re.match(r"finding:\s*property=(\w+)\s+key=(\S+)\s+(.*)", line)
    if m:
        drows.append("| %s | finding `%s` | %s |" % (m.group(1), m.group(2), m.group(3).replace("|", "/")))
dtable = "\n".join(sorted(drows[2:]))
dtable = "\n".join(drows[:2]) + "\n" + dtable
stable = subprocess.run([os.path.join(root, "tools", "seedtable.py")], stdout=subprocess.PIPE, text=True).stdout
out = (src.replace("@@PROPERTY_TABLE@@", ptable).replace("@@DEFECT_TABLE@@", dtable).replace("@@SEED_TABLE@@", stable)
       .replace("@@C05@@", read("design/_C05.md") or "(merged with the C05 harness: see design/C05.md)")
       .replace("@@OTHERS@@", read("design/_others.md")))
open(os.path.join(root, "DESIGN.md"), "w").write(out)
print("DESIGN.md written:", len(out.split("\n")), "lines")
