#!/usr/bin/env python3
"""tools/evalbrk.py <Cxx> <k> [check ids...]
Confirms a change delivered by an independent breaker agent (/tmp/brk/<Cxx>/out/<k>) in a scratch
worktree of /repo (applies; builds; baseline tests of bus/meta/type still pass; the demonstration
passes without the change and fails with it), runs this framework's quick check(s) against it with
tools/mutcheck.sh, and files everything under seeded/<Cxx>_brk<k>/."""
import json, os, re, shutil, subprocess, sys

ENV = dict(os.environ, GOFLAGS="-mod=mod", GOPROXY="off", GOSUMDB="off", GOTOOLCHAIN="local")

def sh(cmd, cwd=None, timeout=1500):
    try:
        p = subprocess.run(cmd, cwd=cwd, shell=True, env=ENV, stdout=subprocess.PIPE, stderr=subprocess.STDOUT, text=True, timeout=timeout)
        return p.returncode, p.stdout
    except subprocess.TimeoutExpired as e:
        return 124, (e.stdout or b"").decode() if isinstance(e.stdout, bytes) else (e.stdout or "")

def main():
    prop, k = sys.argv[1], sys.argv[2]
    checks = sys.argv[3:] or [prop]
    root = os.path.dirname(os.path.dirname(os.path.abspath(__file__)))
    src = "%s/%s/out/%s" % (os.environ.get("BRK_BASE", "/tmp/brk"), prop, k)
    run = open(os.path.join(src, "RUN.txt")).read()
    m = re.search(r"cp\s+\S*demo_test\.go\s+(\S+)", run)
    t = re.search(r"(go test[^\n#]*)", run)
    if not m or not t:
        print("cannot parse RUN.txt"); sys.exit(2)
    dest, gotest = m.group(1), t.group(1).strip()
    if dest.startswith("repo/"):
        dest = dest[5:]
    gotest = gotest.split(";")[0].strip()
    wt = "/work/ev-%s-%s-%d" % (prop, k, os.getpid())
    os.makedirs("/work", exist_ok=True)
    rc, out = sh("git -C /repo worktree add --detach -f %s HEAD" % wt)
    res = {"applies": False}
    try:
        os.makedirs(os.path.dirname(os.path.join(wt, dest)) if not dest.endswith("/") else os.path.join(wt, dest), exist_ok=True)
        shutil.copy(os.path.join(src, "demo_test.go"), os.path.join(wt, dest))
        rc0, out0 = sh("timeout 600 " + gotest, cwd=wt)
        res["demo_passes_without_change"] = rc0 == 0
        os.remove(os.path.join(wt, dest, "demo_test.go") if dest.endswith("/") else os.path.join(wt, dest))
        sh("git checkout go.mod go.sum", cwd=wt)
        rc, out = sh("git apply %s" % os.path.join(src, "patch.diff"), cwd=wt)
        res["applies"] = rc == 0
        if rc != 0:
            print("patch does not apply:", out[-500:])
        else:
            rcb, outb = sh("go build ./...", cwd=wt)
            res["builds"] = rcb == 0
            rct, outt = sh("timeout 1200 go test -count=1 ./bus/... ./meta/... ./type/... ./examples/... 2>&1 | grep -v 'no test files'", cwd=wt)
            if "FAIL" in outt:
                rct, outt = sh("timeout 1200 go test -count=1 ./bus/... ./meta/... ./type/... ./examples/... 2>&1 | grep -v 'no test files'", cwd=wt)
            res["baseline_tests_pass"] = "FAIL" not in outt and rcb == 0
            if not res["baseline_tests_pass"]:
                res["baseline_failures"] = [l for l in outt.split("\n") if "FAIL" in l][:8]
            sh("git checkout go.mod go.sum", cwd=wt)
            os.makedirs(os.path.dirname(os.path.join(wt, dest)) if not dest.endswith("/") else os.path.join(wt, dest), exist_ok=True)
            shutil.copy(os.path.join(src, "demo_test.go"), os.path.join(wt, dest))
            rc1, out1 = sh("timeout 600 " + gotest, cwd=wt)
            res["demo_fails_with_change"] = rc1 != 0
            res["demo_output_with_change"] = out1[-600:]
    finally:
        sh("git -C /repo worktree remove --force %s" % wt)
        shutil.rmtree(wt, ignore_errors=True)
        sh("git -C /repo worktree prune")
    d = os.path.join(root, "seeded", "%s_%sbrk%s" % (prop, os.environ.get("BRK_TAG", ""), k))
    os.makedirs(d, exist_ok=True)
    for f in ("patch.diff", "demo_test.go", "RUN.txt"):
        shutil.copy(os.path.join(src, f), os.path.join(d, f))
    meta = json.load(open(os.path.join(src, "meta.json")))
    meta["origin"] = "independent sub-agent given only the property text and a scratch worktree"
    meta["confirmed"] = res
    caught = {}
    if res.get("applies") and res.get("builds"):
        for c in checks:
            rc, out = sh("KEEP_REPLAY=%s/replay_%s %s/tools/mutcheck.sh %s/patch.diff %s" % (d, c, root, d, c), timeout=2400)
            lines = [l for l in out.split("\n") if l.startswith("VIOLATION") or re.match(r"^C\d+ ", l)]
            caught[c] = {"violation": any(l.startswith("VIOLATION") for l in lines), "verdict": lines[-1] if lines else out[-300:]}
            rp = os.path.join(d, "replay_%s" % c)
            if os.path.isdir(rp):
                for f in os.listdir(rp):
                    if not f.startswith(c):
                        os.remove(os.path.join(rp, f))
    meta["checks_run"] = caught
    json.dump(meta, open(os.path.join(d, "meta.json"), "w"), indent=1)
    print(prop, k, {x: res.get(x) for x in ("applies", "builds", "baseline_tests_pass", "demo_passes_without_change", "demo_fails_with_change")},
          {c: v["violation"] for c, v in caught.items()})

main()
