// temporary: compile-only experiments with raw IDL text
package main

import (
	"fmt"
	"os"
	"os/exec"
	"path/filepath"

	"qv/internal/c05"
)

func main() {
	env, err := c05.NewEnv()
	if err != nil {
		panic(err)
	}
	for i, f := range os.Args[1:] {
		text, _ := os.ReadFile(f)
		id := fmt.Sprintf("t%02d", i)
		dir := filepath.Join(env.Root, "pkgs", id, "pk")
		os.MkdirAll(dir, 0o755)
		src, err := c05.Generate(string(text), "")
		if err != nil {
			fmt.Printf("%s: GEN FAIL %.200s\n", f, err)
			continue
		}
		os.WriteFile(filepath.Join(dir, "pk_gen.go"), src, 0o644)
		cmd := exec.Command("go", "build", "./pkgs/"+id+"/pk")
		cmd.Dir = env.Root
		cmd.Env = append(os.Environ(), "GOFLAGS=-mod=mod", "GOPROXY=off", "GOSUMDB=off", "GOTOOLCHAIN=local", "CGO_ENABLED=0")
		out, err := cmd.CombinedOutput()
		if err != nil {
			fmt.Printf("%s: BUILD FAIL %.400s\n", f, out)
		} else {
			fmt.Printf("%s: OK\n", f)
		}
	}
}
