package main

import (
	"fmt"
	"go/ast"
	"go/token"
	"strings"
)

func init() { factFns["C16"] = factsC16 }

// c16Skeleton lists, in source order, the synchronisation points and call-outs of a function:
// lock operations on the receiver, channel sends, `go` statements and the calls whose callee
// (rendered) is in `keep`.
func c16Skeleton(rel, recv, name string, keep map[string]string) []string {
	f, fd := funcDecl(rel, recv, name)
	if fd == nil {
		return []string{"<missing " + name + ">"}
	}
	type ev struct {
		pos token.Pos
		s   string
	}
	var evs []ev
	ast.Inspect(fd.Body, func(n ast.Node) bool {
		switch x := n.(type) {
		case *ast.CallExpr:
			callee := exprText(f.fset, x.Fun)
			if s, ok := keep[callee]; ok {
				evs = append(evs, ev{x.Pos(), s})
			}
		case *ast.SendStmt:
			evs = append(evs, ev{x.Pos(), "send " + exprText(f.fset, x.Chan)})
		case *ast.GoStmt:
			evs = append(evs, ev{x.Pos(), "go"})
		case *ast.DeferStmt:
			evs = append(evs, ev{x.Pos(), "defer"})
		}
		return true
	})
	// stable order by position
	for i := 1; i < len(evs); i++ {
		for j := i; j > 0 && evs[j].pos < evs[j-1].pos; j-- {
			evs[j], evs[j-1] = evs[j-1], evs[j]
		}
	}
	out := make([]string, len(evs))
	for i, e := range evs {
		out[i] = e.s
	}
	return out
}

func c16EmitStrList(name string, l []string) {
	it := make([]string, len(l))
	for i, s := range l {
		it[i] = "\"" + coqEscape(s) + "\"%string"
	}
	fmt.Fprintf(&out, "Definition %s : list string := [%s].\n", name, strings.Join(it, "; "))
}

// c16SwitchCases: the `case N: return p.Method(...)` table of a generated Receive
func c16SwitchCases(rel, recv string) string {
	f, fd := funcDecl(rel, recv, "Receive")
	if fd == nil {
		return "[]"
	}
	var items []string
	ast.Inspect(fd.Body, func(n ast.Node) bool {
		cc, ok := n.(*ast.CaseClause)
		if !ok || len(cc.List) != 1 || len(cc.Body) != 1 {
			return true
		}
		ret, ok := cc.Body[0].(*ast.ReturnStmt)
		if !ok || len(ret.Results) != 1 {
			return true
		}
		call, ok := ret.Results[0].(*ast.CallExpr)
		if !ok {
			return true
		}
		items = append(items, fmt.Sprintf("(%s%%N, \"%s\"%%string)", exprText(f.fset, cc.List[0]), coqEscape(exprText(f.fset, call.Fun))))
		return true
	})
	return "[" + strings.Join(items, "; ") + "]"
}

// c16IfConds: the conditions of the if statements of a function, as written
func c16IfConds(rel, recv, name string) []string {
	f, fd := funcDecl(rel, recv, name)
	var conds []string
	if fd != nil {
		ast.Inspect(fd.Body, func(n ast.Node) bool {
			if is, ok := n.(*ast.IfStmt); ok {
				conds = append(conds, strings.Join(strings.Fields(exprText(f.fset, is.Cond)), " "))
			}
			return true
		})
	}
	return conds
}

func factsC16() {
	svc := map[string]string{
		"s.Lock": "Lock", "s.Unlock": "Unlock", "s.RLock": "RLock", "s.RUnlock": "RUnlock",
		"obj.Activate": "Activate", "obj.OnTerminate": "OnTerminate", "s.Add": "Add",
		"from.SendError": "SendError",
	}
	c16EmitStrList("f_svc_add_skeleton", c16Skeleton("bus/service.go", "serviceImpl", "Add", svc))
	c16EmitStrList("f_svc_remove_skeleton", c16Skeleton("bus/service.go", "serviceImpl", "Remove", svc))
	c16EmitStrList("f_svc_receive_skeleton", c16Skeleton("bus/service.go", "serviceImpl", "Receive", svc))
	// the random index expression of Add
	f, fd := funcDecl("bus/service.go", "serviceImpl", "Add")
	idx := "<none>"
	if fd != nil {
		ast.Inspect(fd.Body, func(n ast.Node) bool {
			if as, ok := n.(*ast.AssignStmt); ok && len(as.Lhs) == 1 && len(as.Rhs) == 1 &&
				exprText(f.fset, as.Lhs[0]) == "index" && strings.Contains(exprText(f.fset, as.Rhs[0]), "rand.") {
				idx = strings.Join(strings.Fields(exprText(f.fset, as.Rhs[0])), " ")
			}
			return true
		})
	}
	emitStr("f_svc_add_index_expr", idx)
	emitStr("f_pending_receive_text", normText("bus/service.go", "pendingObject", "Receive"))
	emitStr("f_object_terminator_text", normText("bus/service.go", "", "objectTerminator"))
	// the mailbox: capacity and loop
	mb := normText("bus/mailbox.go", "", "NewMailBox")
	capN := 0
	if i := strings.Index(mb, "make(chan Mail, "); i >= 0 {
		fmt.Sscanf(mb[i+len("make(chan Mail, "):], "%d", &capN)
	}
	emitNat("f_mailbox_cap", capN)
	emitStr("f_mailbox_text", mb)
	// generic object: action table, termination order, identity checks
	fmt.Fprintf(&out, "Definition f_object_actions : list (N * string) := %s.\n", c16SwitchCases("bus/object_stub_gen.go", "stubObject"))
	emitStr("f_stub_onterminate_text", normText("bus/object_stub_gen.go", "stubObject", "OnTerminate"))
	emitStr("f_signal_onterminate_text", normText("bus/signal.go", "signalHandler", "OnTerminate"))
	emitStr("f_send_terminate_text", normText("bus/signal.go", "signalHandler", "sendTerminate"))
	c16EmitStrList("f_impl_terminate_conds", c16IfConds("bus/object.go", "objectImpl", "Terminate"))
	emitStr("f_impl_terminate_text", normText("bus/object.go", "objectImpl", "Terminate"))
	rc := c16IfConds("bus/signal.go", "signalHandler", "RegisterEvent")
	if len(rc) > 1 {
		rc = rc[1:2]
	}
	c16EmitStrList("f_register_id_cond", rc)
	fmt.Fprintf(&out, "Definition f_pong_actions : list (N * string) := %s.\n", c16SwitchCases("examples/pong/ping_stub_gen.go", "stubPingPong"))
}
