package main

import (
	"fmt"
	"go/token"
	"strings"

	"github.com/lugu/qiloop/meta/signature"
)

// C05: what signature.CleanVarName (the function that makes an IDL parameter name usable as a
// Go identifier) returns for every keyword of the Go specification, computed by calling it.
func init() {
	factFns["C05"] = func() {
		var kws, pairs []string
		for t := token.BREAK; t <= token.VAR; t++ {
			if !t.IsKeyword() {
				continue
			}
			k := t.String()
			kws = append(kws, fmt.Sprintf("\"%s\"%%string", k))
			pairs = append(pairs, fmt.Sprintf("(\"%s\"%%string, \"%s\"%%string)", k, coqEscape(signature.CleanVarName(7, k))))
		}
		fmt.Fprintf(&out, "Definition f_c05_go_keywords : list string := [%s].\n", strings.Join(kws, "; "))
		fmt.Fprintf(&out, "Definition f_c05_cleanvar : list (string * string) := [%s].\n", strings.Join(pairs, "; "))
		// an ordinary name is left alone, an empty one becomes P<i>
		emitStr("f_c05_cleanvar_plain", signature.CleanVarName(7, "speed"))
		emitStr("f_c05_cleanvar_empty", signature.CleanVarName(7, ""))
	}
}
