package main

func init() { factFns["C10"] = factsC10 }

// C10: Send is Message.Write on the stream; Message.Write issues one WriteN on it; process reads one
// message, dispatches it, then reads the next; dispatch runs entirely under handlersMutex.
func factsC10() {
	emitStr("f_c10_skel_Send", skeleton("bus/net/endpoint.go", "endPoint", "Send"))
	emitStr("f_c10_skel_Message_Write", skeleton("bus/net/message.go", "Message", "Write"))
	emitStr("f_c10_skel_process", skeleton("bus/net/endpoint.go", "endPoint", "process"))
	emitStr("f_c10_skel_dispatch", skeleton("bus/net/endpoint.go", "endPoint", "dispatch"))
	emitStr("f_c10_skel_connStream", structFields("bus/net/stream.go", "connStream"))
	emitStr("f_c10_skel_pipeStream_Write", skeleton("bus/net/stream.go", "pipeStream", "Write"))
}
