package main

func init() { factFns["C10"] = factsC10 }

// C10: Send is Message.Write on the stream; Message.Write issues one WriteN on it; process reads one
// message, dispatches it, then reads the next; dispatch runs entirely under handlersMutex.
func factsC10() {
	emitStr("f_c10_skel_Send", skeleton("bus/net/endpoint.go", "endPoint", "Send"))
	emitStr("f_c10_skel_Message_Write", skeleton("bus/net/message.go", "Message", "Write"))
	emitStr("f_c10_skel_process", skeleton("bus/net/endpoint.go", "endPoint", "process"))
	emitStr("f_c10_skel_dispatch", skeleton("bus/net/endpoint.go", "endPoint", "dispatch"))
	emitStr("f_c10_skel_connStream", structFields("bus/net/stream.go", "connStream"))
	emitStr("f_c10_skel_pipeStream_Write", skeleton("bus/net/stream.go", "pipeStream", "Write"))
	// the handler flavours built on MakeHandler (send-then-end scenarios: an AddHandler is a MakeHandler with a
	// queue of 10 whose goroutine ranges over the queue until it is closed; ReceiveAny is a one-shot catch-all
	// with a queue of 1; Handler.closeWith calls the closer, then closes the queue)
	emitStr("f_c10_skel_AddHandler", skeleton("bus/net/endpoint.go", "endPoint", "AddHandler"))
	emitStr("f_c10_skel_ReceiveAny", skeleton("bus/net/endpoint.go", "endPoint", "ReceiveAny"))
	emitStr("f_c10_skel_Handler_closeWith", skeleton("bus/net/endpoint.go", "Handler", "closeWith"))
}
