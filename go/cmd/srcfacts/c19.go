package main

// C19 — the lock / lookup / dial / insert skeleton of Session.client
// (bus/session/session.go) as a token list, the skeleton of the closer it registers, and the
// list of functions of the file that touch the pool or its mutex.

import (
	"fmt"
	"go/ast"
	"go/token"
	"sort"
	"strings"
)

func init() { factFns["C19"] = factsC19 }

const c19file = "bus/session/session.go"

// skeleton renders a statement list as tokens; a statement it does not recognise is kept
// verbatim ("stmt:<text>") so that any new statement changes the fact.
func c19Skeleton(f *file, stmts []ast.Stmt, closer *[]string) []string {
	var out []string
	txt := func(n ast.Node) string { return strings.Join(strings.Fields(exprText(f.fset, n)), " ") }
	for _, st := range stmts {
		switch s := st.(type) {
		case *ast.ExprStmt:
			c, ok := s.X.(*ast.CallExpr)
			if !ok {
				out = append(out, "stmt:"+txt(s))
				continue
			}
			callee := txt(c.Fun)
			switch {
			case strings.HasPrefix(callee, "s.pollMutex."):
				out = append(out, strings.TrimPrefix(callee, "s.pollMutex."))
			case callee == "endpoint.Close":
				out = append(out, "close-endpoint")
			case callee == "endpoint.AddHandler":
				out = append(out, "add-handler")
			case callee == "delete" && len(c.Args) == 2 && txt(c.Args[0]) == "s.poll":
				out = append(out, "delete")
			default:
				out = append(out, "stmt:"+txt(s))
			}
		case *ast.IfStmt:
			cond := txt(s.Cond)
			body := c19Skeleton(f, s.Body.List, closer)
			switch {
			case s.Init != nil || s.Else != nil:
				out = append(out, "stmt:"+txt(s))
			case cond == "len(info.Endpoints) == 0":
				out = append(out, "if-no-endpoints{")
				out = append(out, body...)
				out = append(out, "}")
			case cond == "ok":
				out = append(out, "if-ok{")
				out = append(out, body...)
				out = append(out, "}")
			case cond == "err != nil":
				out = append(out, "if-err{")
				out = append(out, body...)
				out = append(out, "}")
			default:
				out = append(out, "if("+cond+"){")
				out = append(out, body...)
				out = append(out, "}")
			}
		case *ast.RangeStmt:
			if txt(s.X) == "info.Endpoints" && txt(s.Value) == "addr" {
				out = append(out, "range-endpoints{")
			} else {
				out = append(out, "range("+txt(s.X)+"){")
			}
			out = append(out, c19Skeleton(f, s.Body.List, closer)...)
			out = append(out, "}")
		case *ast.ReturnStmt:
			switch {
			case len(s.Results) == 2 && txt(s.Results[0]) == "c" && txt(s.Results[1]) == "nil":
				out = append(out, "return-c")
			case len(s.Results) == 2 && txt(s.Results[0]) == "nil" && txt(s.Results[1]) != "nil":
				out = append(out, "return-err")
			default:
				out = append(out, "stmt:"+txt(s))
			}
		case *ast.AssignStmt:
			lhs := make([]string, len(s.Lhs))
			for i, l := range s.Lhs {
				lhs[i] = txt(l)
			}
			l := strings.Join(lhs, ",")
			rhs := ""
			if len(s.Rhs) == 1 {
				rhs = txt(s.Rhs[0])
			}
			_, isFunc := s.Rhs[0].(*ast.FuncLit)
			switch {
			case l == "c,ok" && rhs == "s.poll[addr]" && s.Tok == token.DEFINE:
				out = append(out, "lookup")
			case l == "addr,channel,err" && strings.HasPrefix(rhs, "bus.SelectEndPoint(info.Endpoints,"):
				out = append(out, "dial")
			case l == "c" && rhs == "bus.NewClient(channel)":
				out = append(out, "new-client")
			case l == "s.poll[addr]" && rhs == "c":
				out = append(out, "insert")
			case l == "closer" && isFunc:
				if closer != nil {
					*closer = c19Skeleton(f, s.Rhs[0].(*ast.FuncLit).Body.List, nil)
				}
			case (l == "filter" || l == "consumer") && isFunc:
				// closures that touch neither the pool nor the lock
				inner := c19Skeleton(f, s.Rhs[0].(*ast.FuncLit).Body.List, nil)
				for _, t := range inner {
					if t == "Lock" || t == "Unlock" || t == "RLock" || t == "RUnlock" || t == "insert" || t == "delete" || t == "lookup" {
						out = append(out, "stmt:"+l+" uses the pool")
					}
				}
			case l == "endpoint" && rhs == "channel.EndPoint()":
			default:
				out = append(out, "stmt:"+txt(s))
			}
		default:
			out = append(out, "stmt:"+txt(st))
		}
	}
	return out
}

func factsC19() {
	f, fd := funcDecl(c19file, "Session", "client")
	var closer []string
	var toks []string
	if fd != nil {
		toks = c19Skeleton(f, fd.Body.List, &closer)
	}
	fmt.Fprintf(&out, "Definition f_session_client : list string := %s.\n", strList(toks))
	fmt.Fprintf(&out, "Definition f_session_closer : list string := %s.\n", strList(closer))
	// every function of the file that mentions the pool or its mutex
	var users []string
	if ff := load(c19file); ff != nil {
		for _, d := range ff.f.Decls {
			fn, ok := d.(*ast.FuncDecl)
			if !ok || fn.Body == nil {
				continue
			}
			uses := false
			ast.Inspect(fn.Body, func(n ast.Node) bool {
				if se, ok := n.(*ast.SelectorExpr); ok && (se.Sel.Name == "poll" || se.Sel.Name == "pollMutex") {
					uses = true
				}
				return true
			})
			if uses {
				users = append(users, fn.Name.Name)
			}
		}
	}
	sort.Strings(users)
	fmt.Fprintf(&out, "Definition f_session_pool_users : list string := %s.\n", strList(users))
	// Terminate: what it does with the pool
	_, td := funcDecl(c19file, "Session", "Terminate")
	var term []string
	if td != nil {
		for _, t := range c19Skeleton(f, td.Body.List, nil) {
			if !strings.HasPrefix(t, "stmt:") && !strings.HasPrefix(t, "if(") && t != "}" {
				term = append(term, t)
			}
		}
	}
	fmt.Fprintf(&out, "Definition f_session_terminate_pool_ops : list string := %s.\n", strList(term))
	factsC19View()
}

// ---- the refresh loop of the service list (SessionView.v) ----

// c19ViewSkeleton renders the statements of updateLoop (with the methods of Session it calls
// inlined, at most 3 deep) as tokens; whatever it does not recognise is kept verbatim.
func c19ViewSkeleton(f *file, stmts []ast.Stmt, depth int) []string {
	var out []string
	txt := func(n ast.Node) string { return strings.Join(strings.Fields(exprText(f.fset, n)), " ") }
	closedReturn := func(s *ast.IfStmt) bool {
		if s.Init != nil || s.Else != nil || txt(s.Cond) != "!ok" || len(s.Body.List) != 1 {
			return false
		}
		r, ok := s.Body.List[0].(*ast.ReturnStmt)
		return ok && len(r.Results) == 0
	}
	for _, st := range stmts {
		switch s := st.(type) {
		case *ast.ForStmt:
			if s.Init != nil || s.Cond != nil || s.Post != nil {
				out = append(out, "stmt:"+txt(s))
				continue
			}
			out = append(out, "for{")
			out = append(out, c19ViewSkeleton(f, s.Body.List, depth)...)
			out = append(out, "}")
		case *ast.SelectStmt:
			out = append(out, "select{")
			for _, c := range s.Body.List {
				cc := c.(*ast.CommClause)
				switch {
				case cc.Comm == nil:
					out = append(out, "default{")
				default:
					as, ok := cc.Comm.(*ast.AssignStmt)
					if ok && len(as.Lhs) == 2 && txt(as.Lhs[0]) == "_" && txt(as.Lhs[1]) == "ok" && len(as.Rhs) == 1 && strings.HasPrefix(txt(as.Rhs[0]), "<-") {
						out = append(out, "recv("+strings.TrimPrefix(txt(as.Rhs[0]), "<-")+"){")
					} else {
						out = append(out, "comm("+txt(cc.Comm)+"){")
					}
				}
				out = append(out, c19ViewSkeleton(f, cc.Body, depth)...)
				out = append(out, "}")
			}
			out = append(out, "}")
		case *ast.IfStmt:
			switch {
			case closedReturn(s):
				out = append(out, "if-closed-return")
			case s.Init == nil && s.Else == nil && txt(s.Cond) == "err != nil":
				out = append(out, "if-err{")
				out = append(out, c19ViewSkeleton(f, s.Body.List, depth)...)
				out = append(out, "}")
			case s.Else == nil && s.Init != nil && txt(s.Init) == "err := s.Terminate()" && txt(s.Cond) == "err != nil":
				// the body only logs
				body := c19ViewSkeleton(f, s.Body.List, depth)
				out = append(out, "terminate")
				for _, t := range body {
					if t != "log" {
						out = append(out, t)
					}
				}
			default:
				out = append(out, "stmt:"+txt(s))
			}
		case *ast.ExprStmt:
			c, ok := s.X.(*ast.CallExpr)
			if !ok {
				out = append(out, "stmt:"+txt(s))
				continue
			}
			callee := txt(c.Fun)
			switch {
			case callee == "log.Printf":
				out = append(out, "log")
			case callee == "s.serviceListMutex.Lock":
				out = append(out, "Lock")
			case callee == "s.serviceListMutex.Unlock":
				out = append(out, "Unlock")
			case strings.HasPrefix(callee, "s.") && !strings.Contains(strings.TrimPrefix(callee, "s."), ".") && len(c.Args) == 0 && depth < 3:
				_, fd := funcDecl(c19file, "Session", strings.TrimPrefix(callee, "s."))
				if fd == nil || fd.Body == nil {
					out = append(out, "stmt:"+txt(s))
					continue
				}
				out = append(out, c19ViewSkeleton(f, fd.Body.List, depth+1)...)
			default:
				out = append(out, "stmt:"+txt(s))
			}
		case *ast.AssignStmt:
			lhs := make([]string, len(s.Lhs))
			for i, l := range s.Lhs {
				lhs[i] = txt(l)
			}
			l := strings.Join(lhs, ",")
			rhs := ""
			if len(s.Rhs) == 1 {
				rhs = txt(s.Rhs[0])
			}
			switch {
			case l == "services,err" && rhs == "s.Directory.Services()" && s.Tok == token.DEFINE:
				out = append(out, "call-services")
			case l == "s.serviceList" && rhs == "services" && s.Tok == token.ASSIGN:
				out = append(out, "store")
			default:
				out = append(out, "stmt:"+txt(s))
			}
		default:
			out = append(out, "stmt:"+txt(st))
		}
	}
	return out
}

// c19FieldUsers lists the functions of the file that mention one of the fields
func c19FieldUsers(fields ...string) []string {
	var users []string
	if ff := load(c19file); ff != nil {
		for _, d := range ff.f.Decls {
			fn, ok := d.(*ast.FuncDecl)
			if !ok || fn.Body == nil {
				continue
			}
			uses := false
			ast.Inspect(fn.Body, func(n ast.Node) bool {
				if se, ok := n.(*ast.SelectorExpr); ok {
					for _, fld := range fields {
						if se.Sel.Name == fld {
							uses = true
						}
					}
				}
				return true
			})
			if uses {
				users = append(users, fn.Name.Name)
			}
		}
	}
	sort.Strings(users)
	return users
}

func factsC19View() {
	f, fd := funcDecl(c19file, "Session", "updateLoop")
	var toks []string
	if fd != nil {
		toks = c19ViewSkeleton(f, fd.Body.List, 0)
	}
	fmt.Fprintf(&out, "Definition f_session_update_loop : list string := %s.\n", strList(toks))
	// who reads or writes the list, who touches the two signal channels
	fmt.Fprintf(&out, "Definition f_session_list_users : list string := %s.\n", strList(c19FieldUsers("serviceList")))
	fmt.Fprintf(&out, "Definition f_session_signal_users : list string := %s.\n", strList(c19FieldUsers("added", "removed")))
}
