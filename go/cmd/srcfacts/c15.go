package main

import (
	"fmt"
	"strings"

	"qv/internal/c15skel"
)

func init() { factFns["C15"] = factsC15 }

func coqStrList(l []string) string {
	it := make([]string, len(l))
	for i, s := range l {
		it[i] = "\"" + coqEscape(s) + "\"%string"
	}
	return "[" + strings.Join(it, "; ") + "]"
}

// C15: per directory method the order of its registry accesses and signal calls, its lock
// skeleton; the directory methods each local Namespace adapter calls; the stub's action table.
func factsC15() {
	r := c15skel.Analyse(repo)
	var acc, syn, ns, stub []string
	for _, m := range r.Methods {
		acc = append(acc, fmt.Sprintf("(\"%s\"%%string, %s)", m.Name, coqStrList(m.Access)))
		k, mu, op := m.SyncParts()
		syn = append(syn, fmt.Sprintf("(\"%s\"%%string, \"%s\"%%string, \"%s\"%%string, \"%s\"%%string, %v)", m.Name, k, coqEscape(mu), coqEscape(op), m.Writes))
	}
	for i, a := range r.AdapterFns {
		ns = append(ns, fmt.Sprintf("(\"%s\"%%string, %s)", a, coqStrList(r.AdapterTo[i])))
	}
	for _, s := range r.Stub {
		stub = append(stub, fmt.Sprintf("(%d%%N, \"%s\"%%string, %d%%nat)", s.Action, s.Impl, s.Calls))
	}
	fmt.Fprintf(&out, "Definition f_dir_access : list (string * list string) :=\n  [%s].\n", strings.Join(acc, ";\n   "))
	fmt.Fprintf(&out, "Definition f_dir_sync : list (string * string * string * string * bool) :=\n  [%s].\n", strings.Join(syn, "; "))
	fmt.Fprintf(&out, "Definition f_dir_adapters : list (string * list string) :=\n  [%s].\n", strings.Join(ns, ";\n   "))
	fmt.Fprintf(&out, "Definition f_dir_stub : list (N * string * nat) :=\n  [%s].\n", strings.Join(stub, "; "))
	emitBool("f_dir_all_locked", r.AllLocked)
	emitBool("f_dir_none_locked", r.NoneLocked)
}
