package main

import (
	"fmt"
	"go/ast"
	"go/parser"
	"go/token"
	"os"
	"path/filepath"
	"sort"
	"strconv"
	"strings"

	"github.com/lugu/qiloop/bus"
	"github.com/lugu/qiloop/bus/net"
	"github.com/lugu/qiloop/type/basic"
	"github.com/lugu/qiloop/type/object"
)

func init() { factFns["C06"] = factsC06 }

// constInt finds `name = <int literal>` in a const declaration of the file.
func constInt(rel, name string) (uint64, bool) {
	f := load(rel)
	if f == nil {
		return 0, false
	}
	var v uint64
	found := false
	ast.Inspect(f.f, func(n ast.Node) bool {
		vs, ok := n.(*ast.ValueSpec)
		if !ok {
			return true
		}
		for i, id := range vs.Names {
			if id.Name == name && i < len(vs.Values) {
				if bl, ok := vs.Values[i].(*ast.BasicLit); ok && bl.Kind == token.INT {
					if x, err := strconv.ParseUint(bl.Value, 0, 64); err == nil {
						v, found = x, true
					}
				}
			}
		}
		return true
	})
	return v, found
}

// funcLitAssigned returns the normalised text of the function literal assigned to `name` inside fn.
func funcLitAssigned(rel, recv, fn, name string) string {
	f, fd := funcDecl(rel, recv, fn)
	if fd == nil {
		return "<missing>"
	}
	txt := "<missing>"
	ast.Inspect(fd.Body, func(n ast.Node) bool {
		as, ok := n.(*ast.AssignStmt)
		if !ok || len(as.Lhs) != 1 || len(as.Rhs) != 1 {
			return true
		}
		if id, ok := as.Lhs[0].(*ast.Ident); ok && id.Name == name {
			if fl, ok := as.Rhs[0].(*ast.FuncLit); ok {
				txt = strings.Join(strings.Fields(exprText(f.fset, fl.Body)), " ")
			}
		}
		return true
	})
	return txt
}

// goFuncLitText: normalised body (string literals blanked) of the first `go func() {...}()` in fn.
func goFuncLitText(rel, recv, fn string) string {
	f, fd := funcDecl(rel, recv, fn)
	if fd == nil {
		return "<missing>"
	}
	txt := "<missing>"
	ast.Inspect(fd.Body, func(n ast.Node) bool {
		gs, ok := n.(*ast.GoStmt)
		if !ok || txt != "<missing>" {
			return true
		}
		if fl, ok := gs.Call.Fun.(*ast.FuncLit); ok {
			txt = blankedBody(exprText(f.fset, fl.Body))
		}
		return false
	})
	return txt
}

// blankedBody re-parses a printed block, blanks its string literals and collapses whitespace
// (the shared AST is left untouched).
func blankedBody(body string) string {
	fset := token.NewFileSet()
	g, err := parser.ParseFile(fset, "x.go", "package x\nfunc _() "+body, 0)
	if err != nil {
		return "<unparsable>"
	}
	ast.Inspect(g, func(m ast.Node) bool {
		if bl, ok := m.(*ast.BasicLit); ok && bl.Kind == token.STRING {
			bl.Value = `""`
		}
		return true
	})
	return strings.Join(strings.Fields(exprText(fset, g.Decls[0].(*ast.FuncDecl).Body)), " ")
}

// typesDroppedByFilter: the message types named in `hdr.Type == net.X` tests of the server filter.
func typesDroppedByFilter() []uint64 {
	names := map[string]uint64{"Call": uint64(net.Call), "Reply": uint64(net.Reply), "Error": uint64(net.Error), "Post": uint64(net.Post),
		"Event": uint64(net.Event), "Capability": uint64(net.Capability), "Cancel": uint64(net.Cancel), "Cancelled": uint64(net.Cancelled), "Unknown": uint64(net.Unknown)}
	f, fd := funcDecl("bus/server.go", "server", "handle")
	var out []uint64
	if fd == nil {
		return out
	}
	ast.Inspect(fd.Body, func(n ast.Node) bool {
		as, ok := n.(*ast.AssignStmt)
		if !ok || len(as.Lhs) != 1 || len(as.Rhs) != 1 {
			return true
		}
		id, ok := as.Lhs[0].(*ast.Ident)
		fl, ok2 := as.Rhs[0].(*ast.FuncLit)
		if !ok || !ok2 || id.Name != "filter" {
			return true
		}
		// the first if statement returns (false, true) for the listed types
		for _, st := range fl.Body.List {
			is, ok := st.(*ast.IfStmt)
			if !ok {
				continue
			}
			ast.Inspect(is.Cond, func(m ast.Node) bool {
				be, ok := m.(*ast.BinaryExpr)
				if ok && be.Op == token.EQL && exprText(f.fset, be.X) == "hdr.Type" {
					t := strings.TrimPrefix(exprText(f.fset, be.Y), "net.")
					if v, ok := names[t]; ok {
						out = append(out, v)
					}
				}
				return true
			})
			break
		}
		return false
	})
	sort.Slice(out, func(i, j int) bool { return out[i] < out[j] })
	return out
}

// valueTable: the keys of the `solve` map of value.NewValue with the function each selects.
func valueTable() string {
	f, fd := funcDecl("type/value/value.go", "", "NewValue")
	if fd == nil {
		return "[]"
	}
	var items []string
	ast.Inspect(fd.Body, func(n ast.Node) bool {
		cl, ok := n.(*ast.CompositeLit)
		if !ok {
			return true
		}
		if _, ok := cl.Type.(*ast.MapType); !ok {
			return true
		}
		for _, e := range cl.Elts {
			kv, ok := e.(*ast.KeyValueExpr)
			if !ok {
				continue
			}
			k, err := strconv.Unquote(exprText(f.fset, kv.Key))
			if err != nil {
				continue
			}
			items = append(items, fmt.Sprintf("(\"%s\"%%string, \"%s\"%%string)", coqEscape(k), coqEscape(exprText(f.fset, kv.Value))))
		}
		return false
	})
	sort.Strings(items)
	return "[" + strings.Join(items, "; ") + "]"
}

// handleStart: the parameters of server.handle and its statements up to the filter: how the
// context of a connection is created and which connections start authenticated.
func handleStart() string {
	f, fd := funcDecl("bus/server.go", "server", "handle")
	if fd == nil {
		return "<missing>"
	}
	parts := []string{exprText(f.fset, fd.Type)}
	found := false
	for _, st := range fd.Body.List {
		if as, ok := st.(*ast.AssignStmt); ok && len(as.Lhs) == 1 {
			if id, ok := as.Lhs[0].(*ast.Ident); ok && id.Name == "filter" {
				found = true
				break
			}
		}
		parts = append(parts, exprText(f.fset, st))
	}
	if !found {
		return "<no filter>"
	}
	return strings.Join(strings.Fields(strings.Join(parts, " ; ")), " ")
}

// handleCallers: every call `x.handle(a, b)` in the non-test files of package bus, as
// "<enclosing function>:<b>", sorted: who hands a stream to the server and with which flag.
func handleCallers() string {
	ents, err := os.ReadDir(filepath.Join(repo, "bus"))
	if err != nil {
		return "[]"
	}
	var items []string
	for _, e := range ents {
		n := e.Name()
		if e.IsDir() || !strings.HasSuffix(n, ".go") || strings.HasSuffix(n, "_test.go") {
			continue
		}
		f := load("bus/" + n)
		if f == nil {
			continue
		}
		for _, d := range f.f.Decls {
			fd, ok := d.(*ast.FuncDecl)
			if !ok || fd.Body == nil {
				continue
			}
			ast.Inspect(fd.Body, func(m ast.Node) bool {
				ce, ok := m.(*ast.CallExpr)
				if !ok {
					return true
				}
				if se, ok := ce.Fun.(*ast.SelectorExpr); ok && se.Sel.Name == "handle" {
					arg := "<none>"
					if len(ce.Args) == 2 {
						arg = exprText(f.fset, ce.Args[1])
					}
					items = append(items, fmt.Sprintf("\"%s\"%%string", coqEscape(fd.Name.Name+":"+arg)))
				}
				return true
			})
		}
	}
	sort.Strings(items)
	return "[" + strings.Join(items, "; ") + "]"
}

func emitNList(name string, vs []uint64) {
	it := make([]string, len(vs))
	for i, v := range vs {
		it[i] = fmt.Sprintf("%d%%N", v)
	}
	fmt.Fprintf(&out, "Definition %s : list N := [%s].\n", name, strings.Join(it, "; "))
}

func factsC06() {
	emitStr("f_c06_KeyState", bus.KeyState)
	emitStr("f_c06_KeyUser", bus.KeyUser)
	emitStr("f_c06_KeyToken", bus.KeyToken)
	emitN("f_c06_StateError", uint64(bus.StateError))
	emitN("f_c06_StateDone", uint64(bus.StateDone))
	emitN("f_c06_AuthenticateActionID", uint64(object.AuthenticateActionID))
	emitN("f_c06_MaxStringSize", uint64(basic.MaxStringSize))
	if v, ok := constInt("bus/authenticate.go", "capabilityMapSizeMax"); ok {
		emitN("f_c06_capabilityMapSizeMax", v)
	} else {
		emitN("f_c06_capabilityMapSizeMax", 0)
	}
	emitNList("f_c06_filter_dropped", typesDroppedByFilter())
	emitStr("f_c06_filter_text", funcLitAssigned("bus/server.go", "server", "handle", "filter"))
	fmt.Fprintf(&out, "Definition f_c06_value_table : list (string * string) := %s.\n", valueTable())
	emitStr("f_c06_firewall_text", normText("bus/server.go", "", "firewall"))
	emitStr("f_c06_consumer_text", goFuncLitText("bus/server.go", "server", "handle"))
	emitStr("f_c06_handle_start_text", handleStart())
	emitStr("f_c06_accept_text", normText("bus/server.go", "server", "run"))
	fmt.Fprintf(&out, "Definition f_c06_handle_callers : list string := %s.\n", handleCallers())
	emitStr("f_c06_local_client_text", normText("bus/server.go", "server", "Client"))
	emitStr("f_c06_router_receive_text", normText("bus/router.go", "Router", "Receive"))
	emitStr("f_c06_service_receive_text", normText("bus/service.go", "serviceImpl", "Receive"))
	emitStr("f_c06_mailbox_text", normText("bus/mailbox.go", "", "NewMailBox"))
	emitStr("f_c06_auth_receive_text", normText("bus/authenticate.go", "serviceAuthenticate", "Receive"))
	emitStr("f_c06_auth_wrap_text", normText("bus/authenticate.go", "serviceAuthenticate", "wrapAuthenticate"))
	emitStr("f_c06_auth_authenticate_text", normText("bus/authenticate.go", "serviceAuthenticate", "Authenticate"))
	emitStr("f_c06_readcapmap_text", normText("bus/authenticate.go", "", "ReadCapabilityMap"))
	emitStr("f_c06_cap_authenticated_text", normText("bus/auth.go", "CapabilityMap", "Authenticated"))
	emitStr("f_c06_cap_setauthenticated_text", normText("bus/auth.go", "CapabilityMap", "SetAuthenticated"))
	emitStr("f_c06_chan_authenticated_text", normText("bus/channel.go", "channel", "Authenticated"))
	emitStr("f_c06_chan_setauthenticated_text", normText("bus/channel.go", "channel", "SetAuthenticated"))
	emitStr("f_c06_chan_senderror_text", normText("bus/channel.go", "channel", "SendError"))
	emitStr("f_c06_chan_sendreply_text", normText("bus/channel.go", "channel", "SendReply"))
	emitStr("f_c06_readstring_text", normText("type/basic/basic.go", "", "ReadString"))
}
