package main

func factsMore() {}
