package main

// Facts for C11 (losing the connection fails calls promptly): the text of the functions the
// LTS of coq/theories/ConnLoss.v transliterates (string literals blanked, whitespace
// collapsed), the order of the endpoint calls inside client.Call, the cases of its select,
// and the capacities of the channels it, Subscribe and OnDisconnect create.

import (
	"fmt"
	"go/ast"
	"sort"
	"strings"
)

func init() { factFns["C11"] = factsC11 }

// chanMakes lists "name:cap" for every `name := make(chan T[, cap])` in fn, in source order.
func chanMakes(f *file, fd *ast.FuncDecl) []string {
	var out []string
	ast.Inspect(fd.Body, func(n ast.Node) bool {
		as, ok := n.(*ast.AssignStmt)
		if !ok || len(as.Lhs) != 1 || len(as.Rhs) != 1 {
			return true
		}
		c, ok := as.Rhs[0].(*ast.CallExpr)
		if !ok || exprText(f.fset, c.Fun) != "make" || len(c.Args) == 0 {
			return true
		}
		if _, ok := c.Args[0].(*ast.ChanType); !ok {
			return true
		}
		capa := "0"
		if len(c.Args) > 1 {
			capa = exprText(f.fset, c.Args[1])
		}
		out = append(out, exprText(f.fset, as.Lhs[0])+":"+capa)
		return true
	})
	return out
}

func factsC11() {
	for _, fn := range [][3]string{
		{"bus/client.go", "client", "Call"}, {"bus/client.go", "client", "Subscribe"}, {"bus/client.go", "client", "OnDisconnect"},
		{"bus/net/endpoint.go", "endPoint", "closeWith"}, {"bus/net/endpoint.go", "Handler", "closeWith"},
		{"bus/net/endpoint.go", "endPoint", "process"}, {"bus/net/endpoint.go", "endPoint", "Send"},
		{"bus/net/endpoint.go", "endPoint", "Close"}, {"bus/net/endpoint.go", "endPoint", "dispatch"},
		{"bus/net/endpoint.go", "endPoint", "MakeHandler"}, {"bus/net/endpoint.go", "endPoint", "RemoveHandler"},
		{"bus/net/endpoint.go", "", "NewEndPoint"},
	} {
		name := fn[2]
		if fn[1] != "" {
			name = fn[1] + "_" + fn[2]
		}
		emitStr("f_c11_text_"+name, normText(fn[0], fn[1], fn[2]))
	}
	// client.Call: endpoint methods in source order; select cases; channels
	f, fd := funcDecl("bus/client.go", "client", "Call")
	var epCalls, selCases []string
	if fd != nil {
		for _, c := range calls(f, fd.Body) {
			if t := exprText(f.fset, c.Fun); strings.HasPrefix(t, "c.endpoint.") {
				epCalls = append(epCalls, strings.TrimPrefix(t, "c.endpoint."))
			}
		}
		nsel := 0
		ast.Inspect(fd.Body, func(n ast.Node) bool {
			sel, ok := n.(*ast.SelectStmt)
			if !ok {
				return true
			}
			nsel++
			if nsel != 2 { // the first select is the non-blocking pre-check of cancel
				return true
			}
			for _, cl := range sel.Body.List {
				cc := cl.(*ast.CommClause)
				if cc.Comm == nil {
					selCases = append(selCases, "default")
				} else {
					selCases = append(selCases, strings.Join(strings.Fields(exprText(f.fset, cc.Comm)), " "))
				}
			}
			return true
		})
		fmt.Fprintf(&out, "Definition f_c11_call_chans : list string := %s.\n", strList(chanMakes(f, fd)))
	}
	fmt.Fprintf(&out, "Definition f_c11_call_endpoint_calls : list string := %s.\n", strList(epCalls))
	fmt.Fprintf(&out, "Definition f_c11_call_select : list string := %s.\n", strList(selCases))
	if f, fd := funcDecl("bus/client.go", "client", "Subscribe"); fd != nil {
		fmt.Fprintf(&out, "Definition f_c11_subscribe_chans : list string := %s.\n", strList(chanMakes(f, fd)))
	}
	if f, fd := funcDecl("bus/client.go", "client", "OnDisconnect"); fd != nil {
		fmt.Fprintf(&out, "Definition f_c11_ondisconnect_chans : list string := %s.\n", strList(chanMakes(f, fd)))
	}
	// bus/net/stream.go: the wrappers between a transport and the endpoint.  The methods each
	// wrapper declares itself (connStream must declare no Read/Write/Close: those of the embedded
	// net.Conn reach the endpoint unchanged), the fields of the wrappers, the text of pipeStream's
	// one-call Read/Write/Close and of the constructors.
	emitStrList("f_c11_stream_methods", streamMethods("bus/net/stream.go"))
	emitStrList("f_c11_stream_fields", streamFields("bus/net/stream.go"))
	for _, fn := range [][2]string{{"pipeStream", "Read"}, {"pipeStream", "Write"}, {"pipeStream", "Close"},
		{"", "ConnStream"}, {"", "PipeStream"}} {
		name := fn[1]
		if fn[0] != "" {
			name = fn[0] + "_" + fn[1]
		}
		emitStr("f_c11_text_"+name, normText("bus/net/stream.go", fn[0], fn[1]))
	}
	emitStr("f_c11_text_ConnEndPoint", normText("bus/net/endpoint.go", "", "ConnEndPoint"))
}

// streamMethods lists "Recv.Method" for every method declared in the file, sorted.
func streamMethods(rel string) []string {
	f := load(rel)
	if f == nil {
		return []string{"<missing " + rel + ">"}
	}
	var out []string
	for _, d := range f.f.Decls {
		fd, ok := d.(*ast.FuncDecl)
		if !ok || fd.Recv == nil || len(fd.Recv.List) != 1 {
			continue
		}
		out = append(out, strings.Join(strings.Fields(exprText(f.fset, fd.Recv.List[0].Type)), "")+"."+fd.Name.Name)
	}
	sort.Strings(out)
	return out
}

// streamFields lists "Type{field type; ...}" for every struct type declared in the file (an
// embedded field is its type alone), in source order.
func streamFields(rel string) []string {
	f := load(rel)
	if f == nil {
		return []string{"<missing " + rel + ">"}
	}
	var out []string
	for _, d := range f.f.Decls {
		gd, ok := d.(*ast.GenDecl)
		if !ok {
			continue
		}
		for _, sp := range gd.Specs {
			ts, ok := sp.(*ast.TypeSpec)
			if !ok {
				continue
			}
			st, ok := ts.Type.(*ast.StructType)
			if !ok {
				continue
			}
			var fs []string
			for _, fl := range st.Fields.List {
				t := exprText(f.fset, fl.Type)
				if len(fl.Names) == 0 {
					fs = append(fs, t)
				}
				for _, n := range fl.Names {
					fs = append(fs, n.Name+" "+t)
				}
			}
			out = append(out, ts.Name.Name+"{"+strings.Join(fs, "; ")+"}")
		}
	}
	return out
}
