package main

import (
	"fmt"
	"go/ast"
	"go/token"
	"strconv"
	"strings"

	"github.com/lugu/qiloop/bus/net"
)

// skeleton renders the synchronisation-relevant structure of a function body: mutex calls, defer,
// go, close, channel sends, select/default, loops, branches that contain any of those, writes to the
// handler table, calls other than logging/formatting/constructors, return/continue/break.
// Edits to log messages, error texts or local computations leave it unchanged.

var skelIgnoredCallPrefixes = []string{"log.", "fmt.", "value.", "val.", "buf.", "bytes.", "errors.", "strings."}
var skelIgnoredCalls = map[string]bool{"NewHeader": true, "NewMessage": true, "NewHandler": true, "readError": true,
	"len": true, "make": true, "new": true, "append": true, "ret.Error": true, "string": true, "int": true}

func skelCallName(fset *token.FileSet, c *ast.CallExpr) string {
	name := exprText(fset, c.Fun)
	if skelIgnoredCalls[name] {
		return ""
	}
	for _, p := range skelIgnoredCallPrefixes {
		if strings.HasPrefix(name, p) {
			return ""
		}
	}
	args := make([]string, len(c.Args))
	for i, a := range c.Args {
		args[i] = strings.Join(strings.Fields(exprText(fset, a)), " ")
	}
	return name + "(" + strings.Join(args, ",") + ")"
}

// callsIn lists the interesting calls of an expression or simple statement, outermost first.
func skelCallsIn(fset *token.FileSet, n ast.Node) []string {
	var out []string
	if n == nil {
		return nil
	}
	ast.Inspect(n, func(x ast.Node) bool {
		if _, ok := x.(*ast.FuncLit); ok {
			return false
		}
		if c, ok := x.(*ast.CallExpr); ok {
			if s := skelCallName(fset, c); s != "" {
				out = append(out, s)
			}
		}
		return true
	})
	return out
}

func skelBlock(fset *token.FileSet, stmts []ast.Stmt) string {
	var parts []string
	for _, s := range stmts {
		if t := skelStmt(fset, s); t != "" {
			parts = append(parts, t)
		}
	}
	return strings.Join(parts, ";")
}

func skelStmt(fset *token.FileSet, s ast.Stmt) string {
	txt := func(n ast.Node) string { return strings.Join(strings.Fields(exprText(fset, n)), " ") }
	switch st := s.(type) {
	case *ast.ExprStmt:
		return strings.Join(skelCallsIn(fset, st.X), ";")
	case *ast.DeferStmt:
		return "defer " + txt(st.Call)
	case *ast.GoStmt:
		if fl, ok := st.Call.Fun.(*ast.FuncLit); ok {
			return "go{" + skelBlock(fset, fl.Body.List) + "}"
		}
		return "go " + txt(st.Call)
	case *ast.SendStmt:
		return "send " + txt(st.Chan)
	case *ast.AssignStmt:
		var parts []string
		for _, r := range st.Rhs {
			parts = append(parts, skelCallsIn(fset, r)...)
		}
		lhs := make([]string, len(st.Lhs))
		table := false
		for i, l := range st.Lhs {
			lhs[i] = txt(l)
			if strings.Contains(lhs[i], "handlers") {
				table = true
			}
		}
		if table {
			rhs := make([]string, len(st.Rhs))
			for i, r := range st.Rhs {
				rhs[i] = txt(r)
			}
			return "set " + strings.Join(lhs, ",") + "=" + strings.Join(rhs, ",")
		}
		return strings.Join(parts, ";")
	case *ast.DeclStmt:
		return strings.Join(skelCallsIn(fset, st), ";")
	case *ast.ReturnStmt:
		c := skelCallsIn(fset, st)
		if len(c) > 0 {
			return "return " + strings.Join(c, ";")
		}
		return "return"
	case *ast.BranchStmt:
		return st.Tok.String()
	case *ast.BlockStmt:
		return skelBlock(fset, st.List)
	case *ast.IfStmt:
		pre := ""
		if st.Init != nil {
			pre = skelStmt(fset, st.Init)
		}
		body := skelBlock(fset, st.Body.List)
		els := ""
		if st.Else != nil {
			els = skelStmt(fset, st.Else)
		}
		condCalls := skelCallsIn(fset, st.Cond)
		if body == "" && els == "" && len(condCalls) == 0 && pre == "" {
			return ""
		}
		out := ""
		if pre != "" {
			out = pre + ";"
		}
		out += "if(" + txt(st.Cond) + "){" + body + "}"
		if els != "" {
			out += "else{" + els + "}"
		}
		return out
	case *ast.ForStmt:
		cond := ""
		if st.Cond != nil {
			cond = txt(st.Cond)
		}
		return "for(" + cond + "){" + skelBlock(fset, st.Body.List) + "}"
	case *ast.RangeStmt:
		return "range(" + txt(st.X) + "){" + skelBlock(fset, st.Body.List) + "}"
	case *ast.SelectStmt:
		var cs []string
		for _, c := range st.Body.List {
			cc := c.(*ast.CommClause)
			head := "default"
			if cc.Comm != nil {
				switch cm := cc.Comm.(type) {
				case *ast.SendStmt:
					head = "send " + txt(cm.Chan)
				default:
					head = "recv " + txt(cc.Comm)
				}
			}
			cs = append(cs, head+"{"+skelBlock(fset, cc.Body)+"}")
		}
		return "select{" + strings.Join(cs, "|") + "}"
	case *ast.SwitchStmt:
		var cs []string
		for _, c := range st.Body.List {
			cc := c.(*ast.CaseClause)
			b := skelBlock(fset, cc.Body)
			if b != "" {
				var l []string
				for _, e := range cc.List {
					l = append(l, txt(e))
				}
				cs = append(cs, "case("+strings.Join(l, ",")+"){"+b+"}")
			}
		}
		if len(cs) == 0 {
			return ""
		}
		return "switch{" + strings.Join(cs, "|") + "}"
	}
	return ""
}

func skeleton(rel, recv, name string) string {
	f, fd := funcDecl(rel, recv, name)
	if fd == nil || fd.Body == nil {
		return "<missing " + rel + ":" + recv + "." + name + ">"
	}
	return skelBlock(f.fset, fd.Body.List)
}

// initialSlots: the length given to make([]*Handler, n) in a constructor
func initialSlots(name string) int {
	f, fd := funcDecl("bus/net/endpoint.go", "", name)
	if fd == nil {
		return -1
	}
	n := -1
	ast.Inspect(fd.Body, func(x ast.Node) bool {
		if c, ok := x.(*ast.CallExpr); ok && exprText(f.fset, c.Fun) == "make" && len(c.Args) == 2 &&
			strings.Contains(exprText(f.fset, c.Args[0]), "Handler") {
			if v, err := strconv.Atoi(exprText(f.fset, c.Args[1])); err == nil {
				n = v
			}
		}
		return true
	})
	return n
}

func init() { factFns["C17"] = factsC17 }

func factsC17() {
	const ep = "bus/net/endpoint.go"
	emitNat("f_c17_slots_NewEndPoint", initialSlots("NewEndPoint"))
	emitNat("f_c17_slots_EndPointFinalizer", initialSlots("EndPointFinalizer"))
	emitStr("f_c17_blocked_text", net.ErrConsumerBlocked.Error())
	emitStr("f_c17_skel_handler_closeWith", skeleton(ep, "Handler", "closeWith"))
	emitStr("f_c17_skel_closeWith", skeleton(ep, "endPoint", "closeWith"))
	emitStr("f_c17_skel_Close", skeleton(ep, "endPoint", "Close"))
	emitStr("f_c17_skel_RemoveHandler", skeleton(ep, "endPoint", "RemoveHandler"))
	emitStr("f_c17_skel_MakeHandler", skeleton(ep, "endPoint", "MakeHandler"))
	emitStr("f_c17_skel_dispatch", skeleton(ep, "endPoint", "dispatch"))
	emitStr("f_c17_skel_process", skeleton(ep, "endPoint", "process"))
	emitStr("f_c17_skel_NewEndPoint", skeleton(ep, "", "NewEndPoint"))
	fmt.Fprintf(&out, "(* struct endPoint fields *)\n")
	emitStr("f_c17_endPoint_fields", structFields(ep, "endPoint"))
}

func structFields(rel, name string) string {
	f := load(rel)
	if f == nil {
		return "<missing>"
	}
	var out []string
	ast.Inspect(f.f, func(x ast.Node) bool {
		ts, ok := x.(*ast.TypeSpec)
		if !ok || ts.Name.Name != name {
			return true
		}
		if st, ok := ts.Type.(*ast.StructType); ok {
			for _, fl := range st.Fields.List {
				t := exprText(f.fset, fl.Type)
				if len(fl.Names) == 0 {
					out = append(out, t) // embedded
				}
				for _, n := range fl.Names {
					out = append(out, n.Name+" "+t)
				}
			}
		}
		return false
	})
	return strings.Join(out, ";")
}
