package main

import (
	"fmt"
	"go/ast"
	"strings"

	"github.com/lugu/qiloop/bus/net"
)

// endianness and width of basic.ReadUintN / WriteUintN, read from type/basic/basic.go
func basicRW(name string) (width int, little bool, ok bool) {
	f, fd := funcDecl("type/basic/basic.go", "", name)
	if fd == nil {
		return 0, false, false
	}
	txt := exprText(f.fset, fd)
	switch {
	case strings.Contains(name, "Uint8"):
		return 1, true, strings.Contains(txt, "N(") && strings.Contains(txt, ", 1)")
	case strings.Contains(name, "Uint16"):
		return 2, strings.Contains(txt, "binary.LittleEndian") && !strings.Contains(txt, "BigEndian"), strings.Contains(txt, ", 2)")
	case strings.Contains(name, "Uint32"):
		return 4, strings.Contains(txt, "binary.LittleEndian") && !strings.Contains(txt, "BigEndian"), strings.Contains(txt, ", 4)")
	case strings.Contains(name, "Uint64"):
		return 8, strings.Contains(txt, "binary.LittleEndian") && !strings.Contains(txt, "BigEndian"), strings.Contains(txt, ", 8)")
	}
	return 0, false, false
}

// layoutOf extracts the (field, width, bigendian) sequence of Header.Write / Header.Read
func layoutOf(method string) string {
	f, fd := funcDecl("bus/net/message.go", "Header", method)
	if fd == nil {
		return "[]"
	}
	var items []string
	for _, c := range calls(f, fd.Body) {
		callee := exprText(f.fset, c.Fun)
		switch {
		case callee == "h.writeMagic" || callee == "h.readMagic":
			_, mfd := funcDecl("bus/net/message.go", "Header", strings.TrimPrefix(callee, "h."))
			big := false
			w := 0
			if mfd != nil {
				t := exprText(f.fset, mfd)
				big = strings.Contains(t, "binary.BigEndian") && !strings.Contains(t, "LittleEndian")
				if strings.Contains(t, "N(w, buf, 4)") || strings.Contains(t, "N(r, buf, 4)") {
					w = 4
				}
			}
			items = append(items, fmt.Sprintf("(\"Magic\"%%string, %d%%nat, %v)", w, big))
		case strings.HasPrefix(callee, "basic.WriteUint") && len(c.Args) == 2:
			// basic.WriteUintN(h.Field, w)
			field := strings.TrimPrefix(exprText(f.fset, c.Args[0]), "h.")
			w, little, ok := basicRW(strings.TrimPrefix(callee, "basic."))
			if !ok {
				w = 0
			}
			items = append(items, fmt.Sprintf("(%s, %d%%nat, %v)", ctor(field), w, !little))
		case strings.HasPrefix(callee, "basic.ReadUint"):
			// h.Field, err = basic.ReadUintN(r): find the enclosing assignment
			field := "?"
			ast.Inspect(fd.Body, func(n ast.Node) bool {
				if as, ok := n.(*ast.AssignStmt); ok && len(as.Rhs) == 1 && as.Rhs[0] == ast.Expr(c) && len(as.Lhs) >= 1 {
					field = strings.TrimPrefix(exprText(f.fset, as.Lhs[0]), "h.")
				}
				return true
			})
			w, little, ok := basicRW(strings.TrimPrefix(callee, "basic."))
			if !ok {
				w = 0
			}
			items = append(items, fmt.Sprintf("(%s, %d%%nat, %v)", ctor(field), w, !little))
		}
	}
	return "[" + strings.Join(items, "; ") + "]"
}

func ctor(field string) string {
	return "\"" + field + "\"%string"
}

func init() { factFns["C01"] = factsC01 }

func factsC01() {
	emitN("f_Magic", uint64(net.Magic))
	emitN("f_MaxPayloadSize", uint64(net.MaxPayloadSize))
	emitN("f_Version", uint64(net.Version))
	emitNat("f_HeaderSize", net.HeaderSize)
	emitN("f_T_Unknown", uint64(net.Unknown))
	emitN("f_T_Call", uint64(net.Call))
	emitN("f_T_Reply", uint64(net.Reply))
	emitN("f_T_Error", uint64(net.Error))
	emitN("f_T_Post", uint64(net.Post))
	emitN("f_T_Event", uint64(net.Event))
	emitN("f_T_Capability", uint64(net.Capability))
	emitN("f_T_Cancel", uint64(net.Cancel))
	emitN("f_T_Cancelled", uint64(net.Cancelled))
	fmt.Fprintf(&out, "Definition f_header_write_layout : list (string * nat * bool) := %s.\n", layoutOf("Write"))
	fmt.Fprintf(&out, "Definition f_header_read_layout : list (string * nat * bool) := %s.\n", layoutOf("Read"))
	// Header.Read's three validity tests, as written
	f, fd := funcDecl("bus/net/message.go", "Header", "Read")
	var conds []string
	if fd != nil {
		ast.Inspect(fd.Body, func(n ast.Node) bool {
			if is, ok := n.(*ast.IfStmt); ok && is.Init == nil {
				conds = append(conds, exprText(f.fset, is.Cond))
			}
			return true
		})
	}
	emitStr("f_header_read_checks", strings.Join(conds, " ; "))
	// Message.Write: how many WriteN calls target the stream parameter w
	f, fd = funcDecl("bus/net/message.go", "Message", "Write")
	n := 0
	if fd != nil {
		for _, c := range calls(f, fd.Body) {
			if exprText(f.fset, c.Fun) == "basic.WriteN" && len(c.Args) == 3 && exprText(f.fset, c.Args[0]) == "w" {
				n++
			}
			if id := exprText(f.fset, c.Fun); id == "w.Write" {
				n++
			}
		}
	}
	emitNat("f_msg_write_stream_writes", n)
	emitStr("f_msg_read_text", normText("bus/net/message.go", "Message", "Read"))
	emitStr("f_readN_text", normText("type/basic/basic.go", "", "ReadN"))
	emitStr("f_writeN_text", normText("type/basic/basic.go", "", "WriteN"))
	emitStr("f_msg_write_text", normText("bus/net/message.go", "Message", "Write"))
	emitStr("f_header_read_text", normText("bus/net/message.go", "Header", "Read"))
	emitStr("f_header_write_text", normText("bus/net/message.go", "Header", "Write"))
}
