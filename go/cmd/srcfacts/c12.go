package main

// Facts for C12: queue capacities, the lock skeletons of the functions through which one
// connection's frames reach an object, and the shape of the stubs' decoding-error handling.

import (
	"go/ast"
	"go/token"
	"os"
	"path/filepath"
	"regexp"
	"strings"
)

func init() { factFns["C12"] = factsC12 }

// chanCap finds `make(chan <elem>, N)` in a function and returns N.
func chanCap(rel, recv, name, elem string) int {
	f, fd := funcDecl(rel, recv, name)
	if fd == nil {
		return -1
	}
	n := -1
	for _, c := range calls(f, fd.Body) {
		if exprText(f.fset, c.Fun) == "make" && len(c.Args) == 2 && strings.Contains(exprText(f.fset, c.Args[0]), elem) {
			if bl, ok := c.Args[1].(*ast.BasicLit); ok && bl.Kind == token.INT {
				n = 0
				for _, ch := range bl.Value {
					n = n*10 + int(ch-'0')
				}
			}
		}
	}
	return n
}

// c12structFields: the fields of a struct type as "names type", in order; c12packageVars: the package-level
// variables of a file.
func c12structFields(rel, typ string) string {
	f := load(rel)
	if f == nil {
		return "<missing>"
	}
	var out []string
	found := false
	for _, d := range f.f.Decls {
		gd, ok := d.(*ast.GenDecl)
		if !ok || gd.Tok != token.TYPE {
			continue
		}
		for _, sp := range gd.Specs {
			ts := sp.(*ast.TypeSpec)
			st, ok := ts.Type.(*ast.StructType)
			if ts.Name.Name != typ || !ok {
				continue
			}
			found = true
			for _, fl := range st.Fields.List {
				var names []string
				for _, n := range fl.Names {
					names = append(names, n.Name)
				}
				out = append(out, strings.TrimSpace(strings.Join(names, ",")+" "+exprText(f.fset, fl.Type)))
			}
		}
	}
	if !found {
		return "<missing>"
	}
	return strings.Join(out, " ; ")
}

func c12packageVars(rel string) string {
	f := load(rel)
	if f == nil {
		return "<missing>"
	}
	var out []string
	for _, d := range f.f.Decls {
		if gd, ok := d.(*ast.GenDecl); ok && gd.Tok == token.VAR {
			for _, sp := range gd.Specs {
				for _, n := range sp.(*ast.ValueSpec).Names {
					out = append(out, n.Name)
				}
			}
		}
	}
	return strings.Join(out, " ; ")
}

func factsC12() {
	// service 0 keeps no state between two requests: its struct holds the authenticator and nothing else, and the
	// file has no package-level variable but the error value (Auth.v: LMbox touches the mailbox and the sender's flag only)
	emitStr("f_c12_service0_fields", c12structFields("bus/authenticate.go", "serviceAuthenticate"))
	emitStr("f_c12_service0_package_vars", c12packageVars("bus/authenticate.go"))
	emitNat("f_consumer_cap", chanCap("bus/server.go", "server", "handle", "net.Message"))
	emitNat("f_c12_mailbox_cap", chanCap("bus/mailbox.go", "", "NewMailBox", "Mail"))
	// serviceImpl.Receive: the mailbox is looked up under RLock, the blocking send happens after RUnlock
	emitStr("f_service_Receive", c13LockSkeleton("bus/service.go", "serviceImpl", "Receive", "SendError"))
	emitStr("f_router_Receive", c13LockSkeleton("bus/router.go", "Router", "Receive", "Receive", "SendError"))
	// endpoint: dispatch and RemoveHandler run under handlersMutex; dispatch writes the "consumer blocked" error itself
	emitStr("f_endpoint_dispatch", c13LockSkeleton("bus/net/endpoint.go", "endPoint", "dispatch", "e.Send", "closeWith"))
	emitStr("f_endpoint_RemoveHandler", c13LockSkeleton("bus/net/endpoint.go", "endPoint", "RemoveHandler", "closeWith"))
	emitStr("f_endpoint_closeWith", c13LockSkeleton("bus/net/endpoint.go", "endPoint", "closeWith", "closeWith", "stream.Close"))
	emitStr("f_mailbox_loop", c13LockSkeleton("bus/mailbox.go", "", "NewMailBox", "r.Receive"))
	// the stubs: every argument decoding site answers with an error; nothing panics
	for _, st := range []struct{ name, rel string }{{"object", "bus/object_stub_gen.go"}, {"directory", "bus/directory/directory_stub_gen.go"}} {
		src, err := os.ReadFile(filepath.Join(repo, st.rel))
		if err != nil {
			emitNat("f_stub_"+st.name+"_panics", 999)
			continue
		}
		// the stub part of the file: up to the first proxy type
		txt := string(src)
		if i := strings.Index(txt, "Proxy represents a proxy object"); i > 0 && st.name == "directory" {
			txt = txt[:i]
		}
		stubFns := regexp.MustCompile(`(?s)func \(p \*stub\w+\) \w+\(msg \*net\.Message, (c|from) (bus\.)?Channel\) error \{.*?\n\}`).FindAllString(txt, -1)
		panics, decodes, answered := 0, 0, 0
		for _, fn := range stubFns {
			panics += strings.Count(fn, "panic(") + strings.Count(fn, "log.Fatal") + strings.Count(fn, "log.Panic") + strings.Count(fn, "os.Exit")
			// top-level statements `x, err := <decoder>` of the stub method and the answers right below them
			decodes += len(regexp.MustCompile(`(?m)^\t\w+, err :?= `).FindAllString(fn, -1))
			answered += len(regexp.MustCompile(`(?m)^\t\treturn c\.SendError\(msg, fmt\.Errorf\("cannot read`).FindAllString(fn, -1))
		}
		emitNat("f_stub_"+st.name+"_fns", len(stubFns))
		emitNat("f_stub_"+st.name+"_panics", panics)
		emitBool("f_stub_"+st.name+"_decode_errors_answered", decodes > 0 && decodes == answered)
	}
}
