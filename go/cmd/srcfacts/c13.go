package main

// Facts for C13 (bus/signal.go, bus/proxy.go, bus/client.go): the skeletons the model's atomic
// actions are cut along, as normalised statement texts, and the queue capacity.

import (
	"go/ast"
	"go/token"
	"strings"
)

func init() { factFns["C13"] = factsC13 }

// c13LockSkeleton lists, in source order, the synchronisation and call-out statements of a function:
// Lock/Unlock/RLock/RUnlock on any mutex, go statements, channel sends/receives/close, plus the
// calls whose callee text contains one of `extra`.
func c13LockSkeleton(rel, recv, name string, extra ...string) string {
	f, fd := funcDecl(rel, recv, name)
	if fd == nil {
		return "<missing " + rel + ":" + recv + "." + name + ">"
	}
	var items []string
	ast.Inspect(fd.Body, func(n ast.Node) bool {
		switch x := n.(type) {
		case *ast.GoStmt:
			items = append(items, "go")
		case *ast.DeferStmt:
			items = append(items, "defer "+exprText(f.fset, x.Call.Fun))
			return false
		case *ast.SendStmt:
			items = append(items, "send "+exprText(f.fset, x.Chan))
		case *ast.UnaryExpr:
			if x.Op == token.ARROW {
				items = append(items, "recv "+exprText(f.fset, x.X))
			}
		case *ast.CallExpr:
			callee := exprText(f.fset, x.Fun)
			switch {
			case strings.HasSuffix(callee, ".Lock"), strings.HasSuffix(callee, ".Unlock"),
				strings.HasSuffix(callee, ".RLock"), strings.HasSuffix(callee, ".RUnlock"):
				items = append(items, callee)
			case callee == "close":
				items = append(items, "close "+exprText(f.fset, x.Args[0]))
			default:
				if strings.ContainsAny(callee, "\n{") {
					break // a function literal called in place
				}
				for _, e := range extra {
					if strings.Contains(callee, e) {
						items = append(items, callee)
						break
					}
				}
			}
		}
		return true
	})
	return strings.Join(items, " ; ")
}

// c13LoopExits counts the statements that leave a for / range loop of a function early: return, goto, and
// break that is not the break of a switch / select nested in the loop.  Function literals are not entered.
func c13LoopExits(rel, recv, name string) int {
	_, fd := funcDecl(rel, recv, name)
	if fd == nil {
		return 999
	}
	n := 0
	var walk func(node ast.Node, inLoop, inSwitch bool)
	walk = func(node ast.Node, inLoop, inSwitch bool) {
		ast.Inspect(node, func(x ast.Node) bool {
			if x == nil || x == node {
				return true
			}
			switch y := x.(type) {
			case *ast.FuncLit:
				return false
			case *ast.ForStmt:
				walk(y.Body, true, false)
				return false
			case *ast.RangeStmt:
				walk(y.Body, true, false)
				return false
			case *ast.SwitchStmt:
				walk(y.Body, inLoop, true)
				return false
			case *ast.TypeSwitchStmt:
				walk(y.Body, inLoop, true)
				return false
			case *ast.SelectStmt:
				walk(y.Body, inLoop, true)
				return false
			case *ast.ReturnStmt:
				if inLoop {
					n++
				}
			case *ast.BranchStmt:
				if inLoop && (y.Tok == token.GOTO || (y.Tok == token.BREAK && (!inSwitch || y.Label != nil))) {
					n++
				}
			}
			return true
		})
	}
	walk(fd.Body, false, false)
	return n
}

func factsC13() {
	// UpdateSignal visits every entry of its snapshot whatever a send returns (SignalsRaw.emit_go)
	emitNat("f_sig_UpdateSignal_loop_exits", c13LoopExits("bus/signal.go", "signalHandler", "UpdateSignal"))
	emitStr("f_sig_addSignalUser", c13LockSkeleton("bus/signal.go", "signalHandler", "addSignalUser", "MakeHandler", "RemoveHandler"))
	emitStr("f_sig_removeSignalUser", c13LockSkeleton("bus/signal.go", "signalHandler", "removeSignalUser", "RemoveHandler"))
	emitStr("f_sig_UpdateSignal", c13LockSkeleton("bus/signal.go", "signalHandler", "UpdateSignal", "replyEvent", "removeSignalUser"))
	emitStr("f_sig_addSignalUser_text", normText("bus/signal.go", "signalHandler", "addSignalUser"))
	emitStr("f_sig_removeSignalUser_text", normText("bus/signal.go", "signalHandler", "removeSignalUser"))
	emitStr("f_sig_UpdateSignal_text", normText("bus/signal.go", "signalHandler", "UpdateSignal"))
	emitStr("f_sig_replyEvent_text", normText("bus/signal.go", "signalHandler", "replyEvent"))
	emitStr("f_sig_RegisterEvent_text", normText("bus/signal.go", "signalHandler", "RegisterEvent"))
	emitStr("f_sig_UnregisterEvent_text", normText("bus/signal.go", "signalHandler", "UnregisterEvent"))
	emitStr("f_proxy_SubscribeID_text", normText("bus/proxy.go", "proxy", "SubscribeID"))
	emitStr("f_client_Subscribe_text", normText("bus/client.go", "client", "Subscribe"))
	emitStr("f_client_State_text", normText("bus/client.go", "client", "State"))
	emitStr("f_client_State", c13LockSkeleton("bus/client.go", "client", "State"))
	// client.Subscribe: who closes what and who touches the handler table, in source order (SignalsFwd.v:
	// the cancel function only closes abort; RemoveHandler is the forwarder's, in its abort branch)
	emitStr("f_client_Subscribe", c13LockSkeleton("bus/client.go", "client", "Subscribe", "MakeHandler", "RemoveHandler"))
	// capacity of the subscription queue: the literal in make(chan *net.Message, N) of client.Subscribe
	capQ := 0
	if f, fd := funcDecl("bus/client.go", "client", "Subscribe"); fd != nil {
		for _, c := range calls(f, fd.Body) {
			if exprText(f.fset, c.Fun) == "make" && len(c.Args) == 2 && strings.Contains(exprText(f.fset, c.Args[0]), "net.Message") {
				if bl, ok := c.Args[1].(*ast.BasicLit); ok {
					for _, ch := range bl.Value {
						capQ = capQ*10 + int(ch-'0')
					}
				}
			}
		}
	}
	emitNat("f_client_subscribe_queue", capQ)
}
