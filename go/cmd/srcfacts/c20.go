package main

// C20 — facts about type/conversion/conversion.go: the kind switch of convertFrom and of
// AsInt64 (which kinds share a branch and which setter they use), the arguments of the
// recursive calls in convertSlice / convertMap / convertStruct, the name comparison and the
// `break` of the field loop, the size of int on this platform, and the statements of the entry
// points (ConvertFrom, DecodeFrom, bus/proxy.go Call2).

import (
	"fmt"
	"go/ast"
	"go/parser"
	"go/token"
	"strconv"
	"strings"
)

func init() { factFns["C20"] = factsC20 }

const c20file = "type/conversion/conversion.go"

// kindSwitch renders the clauses of the first `switch <tag>` statement found at the top level of
// the function body: (case kinds without the reflect. prefix, callees in the clause body).
func kindSwitch(recv, fn, tag string) string {
	f, fd := funcDecl(c20file, recv, fn)
	if fd == nil {
		return "[]"
	}
	var items []string
	for _, st := range fd.Body.List {
		sw, ok := st.(*ast.SwitchStmt)
		if !ok || sw.Tag == nil || exprText(f.fset, sw.Tag) != tag {
			continue
		}
		for _, c := range sw.Body.List {
			cc := c.(*ast.CaseClause)
			var kinds, callees []string
			for _, e := range cc.List {
				kinds = append(kinds, strings.TrimPrefix(exprText(f.fset, e), "reflect."))
			}
			if cc.List == nil {
				kinds = []string{"default"}
			}
			for _, s := range cc.Body {
				for _, call := range calls(f, s) {
					callees = append(callees, exprText(f.fset, call.Fun))
				}
				if r, ok := s.(*ast.ReturnStmt); ok && len(callees) == 0 {
					var rs []string
					for _, e := range r.Results {
						rs = append(rs, exprText(f.fset, e))
					}
					callees = append(callees, "return "+strings.Join(rs, ", "))
				}
			}
			items = append(items, fmt.Sprintf("(%s, %s)", strList(kinds), strList(callees)))
		}
		break
	}
	return "[" + strings.Join(items, "; ") + "]"
}

// callArgs lists the argument texts of every call to `callee` inside fn, in source order
func callArgs(fn, callee string) [][]string {
	f, fd := funcDecl(c20file, "", fn)
	if fd == nil {
		return nil
	}
	var r [][]string
	for _, c := range calls(f, fd.Body) {
		if exprText(f.fset, c.Fun) != callee {
			continue
		}
		var as []string
		for _, a := range c.Args {
			as = append(as, exprText(f.fset, a))
		}
		r = append(r, as)
	}
	return r
}

// topStmts renders the top-level statements of fn, string literals blanked and whitespace
// collapsed (as normText); of a for/range statement only the header is kept (what the loop bodies
// do is the subject of the call facts).  This is what the model of destinations that are not
// fresh was written from: which array / map the function goes on to fill.
func topStmts(fn string) []string { return topStmtsOf(c20file, "", fn) }

func topStmtsOf(rel, recv, fn string) []string {
	f, fd := funcDecl(rel, recv, fn)
	if fd == nil {
		return []string{"<missing " + fn + ">"}
	}
	fset := token.NewFileSet()
	g, err := parser.ParseFile(fset, "x.go", "package x\n"+exprText(f.fset, fd), 0)
	if err != nil {
		return []string{"<unparsable>"}
	}
	ast.Inspect(g, func(n ast.Node) bool {
		if bl, ok := n.(*ast.BasicLit); ok && bl.Kind == token.STRING {
			bl.Value = `""`
		}
		return true
	})
	var r []string
	for _, st := range g.Decls[0].(*ast.FuncDecl).Body.List {
		switch s := st.(type) {
		case *ast.RangeStmt:
			r = append(r, fmt.Sprintf("for %s, %s := range %s", exprText(fset, s.Key), exprText(fset, s.Value), exprText(fset, s.X)))
			continue
		case *ast.ForStmt:
			r = append(r, fmt.Sprintf("for %s; %s; %s", exprText(fset, s.Init), exprText(fset, s.Cond), exprText(fset, s.Post)))
			continue
		}
		r = append(r, strings.Join(strings.Fields(exprText(fset, st)), " "))
	}
	return r
}

func factsC20() {
	// the entry points (Conv.enter): ConvertFrom and DecodeFrom go straight to convertFrom, DecodeFrom
	// on a freshly allocated value of the remote type; Call2 reads the reply directly when the
	// advertised signature is the caller's and otherwise hands it to DecodeFrom, whose error it returns
	fmt.Fprintf(&out, "Definition f_c20_convertfrom_stmts : list string := %s.\n", strList(topStmts("ConvertFrom")))
	fmt.Fprintf(&out, "Definition f_c20_decodefrom_stmts : list string := %s.\n", strList(topStmts("DecodeFrom")))
	fmt.Fprintf(&out, "Definition f_c20_call2_stmts : list string := %s.\n", strList(topStmtsOf("bus/proxy.go", "proxy", "Call2")))
	fmt.Fprintf(&out, "Definition f_c20_slice_stmts : list string := %s.\n", strList(topStmts("convertSlice")))
	fmt.Fprintf(&out, "Definition f_c20_map_stmts : list string := %s.\n", strList(topStmts("convertMap")))
	emitN("f_c20_int_size", uint64(strconv.IntSize))
	fmt.Fprintf(&out, "Definition f_c20_kind_switch : list (list string * list string) := %s.\n", kindSwitch("", "convertFrom", "v.Kind()"))
	fmt.Fprintf(&out, "Definition f_c20_asint64_switch : list (list string * list string) := %s.\n", kindSwitch("", "AsInt64", "w.Kind()"))
	// convertSlice: the recursive call
	var flat []string
	for _, as := range callArgs("convertSlice", "convertFrom") {
		flat = append(flat, strings.Join(as, ", "))
	}
	fmt.Fprintf(&out, "Definition f_c20_slice_calls : list string := %s.\n", strList(flat))
	// convertMap: the variable each convertFrom call writes to, what it reads, and the SetMapIndex arguments
	flat = nil
	for _, as := range callArgs("convertMap", "convertFrom") {
		flat = append(flat, strings.Join(as, ", "))
	}
	fmt.Fprintf(&out, "Definition f_c20_map_calls : list string := %s.\n", strList(flat))
	flat = nil
	for _, as := range callArgs("convertMap", "v.SetMapIndex") {
		flat = append(flat, strings.Join(as, ", "))
	}
	fmt.Fprintf(&out, "Definition f_c20_map_set : list string := %s.\n", strList(flat))
	flat = nil
	for _, as := range callArgs("convertMap", "reflect.New") {
		flat = append(flat, strings.Join(as, ", "))
	}
	fmt.Fprintf(&out, "Definition f_c20_map_new : list string := %s.\n", strList(flat))
	// convertStruct: loops, comparison, break, recursive call
	flat = nil
	for _, as := range callArgs("convertStruct", "convertFrom") {
		flat = append(flat, strings.Join(as, ", "))
	}
	fmt.Fprintf(&out, "Definition f_c20_struct_calls : list string := %s.\n", strList(flat))
	f, fd := funcDecl(c20file, "", "convertStruct")
	var shape []string
	if fd != nil {
		var walk func(n ast.Node, depth int)
		walk = func(n ast.Node, depth int) {
			ast.Inspect(n, func(m ast.Node) bool {
				if m == n {
					return true
				}
				switch s := m.(type) {
				case *ast.ForStmt:
					shape = append(shape, fmt.Sprintf("for%d %s; %s; %s", depth, exprText(f.fset, s.Init), exprText(f.fset, s.Cond), exprText(f.fset, s.Post)))
					walk(s.Body, depth+1)
					return false
				case *ast.IfStmt:
					if depth > 0 {
						shape = append(shape, fmt.Sprintf("if%d %s", depth, exprText(f.fset, s.Cond)))
					}
				case *ast.BranchStmt:
					shape = append(shape, fmt.Sprintf("%s%d", s.Tok.String(), depth))
				case *ast.AssignStmt:
					if depth > 0 && len(s.Lhs) == 1 && exprText(f.fset, s.Lhs[0]) == "name" {
						shape = append(shape, fmt.Sprintf("name%d := %s", depth, exprText(f.fset, s.Rhs[0])))
					}
				}
				return true
			})
		}
		walk(fd.Body, 0)
	}
	fmt.Fprintf(&out, "Definition f_c20_struct_shape : list string := %s.\n", strList(shape))
}
