package main

import (
	"fmt"
	"go/ast"
	"sort"
	"strings"

	"github.com/lugu/qiloop/bus"
	"github.com/lugu/qiloop/meta/signature"
	"github.com/lugu/qiloop/type/basic"
	"github.com/lugu/qiloop/type/encoding"
	"github.com/lugu/qiloop/type/value"
)

func init() { factFns["Wire"] = factsWire }

// facts shared by C02, C03, C07, C08: limits, the NewValue dispatch table, the
// signature-letter table with the reader each letter gets.
func factsWire() {
	// the source files the wire models transliterate, function by function
	emitFuncDigests("f_src_reader_go", "meta/signature/reader.go")
	emitFuncDigests("f_src_encoding_go", "type/encoding/encoding.go")
	emitFuncDigests("f_src_value_go", "type/value/value.go")
	emitFuncDigests("f_src_basic_go", "type/basic/basic.go")
	emitFuncDigests("f_src_message_go", "bus/net/message.go")
	emitFuncDigests("f_src_metaobject_gen_go", "type/object/metaobject_gen.go")
	emitFuncDigests("f_src_authenticate_go", "bus/authenticate.go")
	emitFuncDigests("f_src_type_go", "meta/signature/type.go")
	emitFuncDigests("f_src_signature_go", "meta/signature/signature.go")
	emitN("f_MaxStringSize", uint64(basic.MaxStringSize))
	emitN("f_rawValueMaxSize", uint64(value.VerifRawValueMaxSize))
	emitN("f_listValueMaxSize", uint64(value.VerifListValueMaxSize))
	emitN("f_encListValueMaxSize", uint64(encoding.VerifListValueMaxSize))
	emitN("f_capabilityMapSizeMax", uint64(bus.VerifCapabilityMapSizeMax))
	emitStr("f_ObjectReferenceSignature", value.ObjectReferenceSignature)
	emitStr("f_wire_ObjectSignature", signature.ObjectSignature)
	emitStr("f_wire_MetaObjectSignature", signature.MetaObjectSignature)

	// NewValue: solve := map[string]func{...}
	f, fd := funcDecl("type/value/value.go", "", "NewValue")
	var rows []string
	if fd != nil {
		ast.Inspect(fd.Body, func(n ast.Node) bool {
			cl, ok := n.(*ast.CompositeLit)
			if !ok {
				return true
			}
			if _, isMap := cl.Type.(*ast.MapType); !isMap {
				return true
			}
			for _, e := range cl.Elts {
				if kv, ok := e.(*ast.KeyValueExpr); ok {
					rows = append(rows, fmt.Sprintf("(%s%%string, \"%s\"%%string)", exprText(f.fset, kv.Key), exprText(f.fset, kv.Value)))
				}
			}
			return false
		})
	}
	sort.Strings(rows)
	fmt.Fprintf(&out, "Definition f_value_dispatch : list (string * string) := [%s].\n", strings.Join(rows, "; "))
	// what each newXxx reads: the basic.ReadXxx call it makes
	var reads []string
	ff := load("type/value/value.go")
	if ff != nil {
		for _, d := range ff.f.Decls {
			g, ok := d.(*ast.FuncDecl)
			if !ok || g.Recv != nil || !strings.HasPrefix(g.Name.Name, "new") {
				continue
			}
			var cs []string
			for _, c := range calls(ff, g.Body) {
				callee := exprText(ff.fset, c.Fun)
				if strings.HasPrefix(callee, "basic.Read") {
					cs = append(cs, strings.TrimPrefix(callee, "basic."))
				}
			}
			reads = append(reads, fmt.Sprintf("(\"%s\"%%string, \"%s\"%%string)", g.Name.Name, strings.Join(cs, ",")))
		}
	}
	sort.Strings(reads)
	fmt.Fprintf(&out, "Definition f_value_readers : list (string * string) := [%s].\n", strings.Join(reads, "; "))

	// type.go: for every scalar constructor, (signature letter, reader expression)
	var letters []string
	tf := load("meta/signature/type.go")
	if tf != nil {
		for _, d := range tf.f.Decls {
			g, ok := d.(*ast.FuncDecl)
			if !ok || g.Recv != nil || !strings.HasPrefix(g.Name.Name, "New") {
				continue
			}
			sig, reader := "", ""
			ast.Inspect(g.Body, func(n ast.Node) bool {
				kv, ok := n.(*ast.KeyValueExpr)
				if !ok {
					return true
				}
				k := exprText(tf.fset, kv.Key)
				if k == "signature" {
					sig = strings.Trim(exprText(tf.fset, kv.Value), "\"")
				}
				if k == "reader" {
					reader = exprText(tf.fset, kv.Value)
				}
				return true
			})
			if len(sig) == 1 {
				letters = append(letters, fmt.Sprintf("(\"%s\"%%string, \"%s\"%%string)", sig, coqEscape(reader)))
			}
		}
	}
	sort.Strings(letters)
	fmt.Fprintf(&out, "Definition f_sig_letters : list (string * string) := [%s].\n", strings.Join(letters, "; "))
}
