package main

// C09 facts: the signature grammar as written in meta/signature/signature.go init(), the
// letter table of basicType()/nodifyBasicType, the regular expressions of structName(), the
// format strings of the Signature() printers, Parse's text, the MetaObject/ObjectReference
// signature constants and the pinned goparsec version.

import (
	"fmt"
	"go/ast"
	"go/token"
	"os"
	"path/filepath"
	"regexp"
	"strconv"
	"strings"

	"github.com/lugu/qiloop/meta/signature"
)

func init() { factFns["C09"] = factsC09 }

func strList(items []string) string {
	q := make([]string, len(items))
	for i, s := range items {
		q[i] = "\"" + coqEscape(s) + "\"%string"
	}
	return "[" + strings.Join(q, "; ") + "]"
}

func emitStrList(name string, items []string) {
	fmt.Fprintf(&out, "Definition %s : list string := %s.\n", name, strList(items))
}

// argTexts renders the arguments of a call, string literals unquoted
func argTexts(f *file, c *ast.CallExpr) []string {
	var as []string
	for _, a := range c.Args {
		as = append(as, compact(f, a))
	}
	return as
}

// compact: parsec.Atom("x", "name") -> atom:x ; parsec.Ident() / typeName() etc. by name;
// &v -> v ; nested combinators rendered recursively
func compact(f *file, e ast.Expr) string {
	switch v := e.(type) {
	case *ast.UnaryExpr:
		if v.Op == token.AND {
			return compact(f, v.X)
		}
	case *ast.BasicLit:
		if v.Kind == token.STRING {
			s, _ := strconv.Unquote(v.Value)
			return s
		}
	case *ast.CallExpr:
		fn := exprText(f.fset, v.Fun)
		switch fn {
		case "parsec.Atom":
			if len(v.Args) == 2 {
				return "atom:" + compact(f, v.Args[0])
			}
		case "parsec.And", "parsec.OrdChoice", "parsec.Kleene", "parsec.Many", "parsec.Maybe":
			return strings.TrimPrefix(fn, "parsec.") + "(" + strings.Join(argTexts(f, v), " ") + ")"
		}
		return fn + "()"
	}
	return exprText(f.fset, e)
}

// stringLits lists the string literals of a function body in source order
func stringLits(rel, recv, name string) []string {
	_, fd := funcDecl(rel, recv, name)
	var ls []string
	if fd == nil {
		return []string{"<missing " + name + ">"}
	}
	ast.Inspect(fd.Body, func(n ast.Node) bool {
		if bl, ok := n.(*ast.BasicLit); ok && bl.Kind == token.STRING {
			s, _ := strconv.Unquote(bl.Value)
			ls = append(ls, s)
		}
		return true
	})
	return ls
}

func factsC09() {
	const rel = "meta/signature/signature.go"
	emitStr("f_MetaObjectSignature", signature.MetaObjectSignature)
	emitStr("f_ObjectSignature", signature.ObjectSignature)

	// basicType(): the atoms in order
	f, fd := funcDecl(rel, "", "basicType")
	var letters []string
	if fd != nil {
		for _, c := range calls(f, fd.Body) {
			if exprText(f.fset, c.Fun) == "parsec.Atom" && len(c.Args) == 2 {
				letters = append(letters, compact(f, c.Args[0]))
			}
		}
	}
	emitStrList("f_sig_basic_letters", letters)

	// nodifyBasicType: case "x": return NewYType()
	f, fd = funcDecl(rel, "", "nodifyBasicType")
	var table []string
	if fd != nil {
		ast.Inspect(fd.Body, func(n ast.Node) bool {
			cc, ok := n.(*ast.CaseClause)
			if !ok || len(cc.List) != 1 || len(cc.Body) != 1 {
				return true
			}
			ret, ok := cc.Body[0].(*ast.ReturnStmt)
			if !ok || len(ret.Results) != 1 {
				return true
			}
			table = append(table, compact(f, cc.List[0])+"="+strings.TrimSuffix(exprText(f.fset, ret.Results[0]), "()"))
			return true
		})
	}
	emitStrList("f_sig_basic_table", table)

	// the scalar constructors: signature letter and IDL name as the built package reports them
	var ctors []string
	for _, c := range []struct {
		name string
		t    signature.Type
	}{{"NewInt8Type", signature.NewInt8Type()}, {"NewUint8Type", signature.NewUint8Type()}, {"NewInt16Type", signature.NewInt16Type()},
		{"NewUint16Type", signature.NewUint16Type()}, {"NewIntType", signature.NewIntType()}, {"NewUintType", signature.NewUintType()},
		{"NewLongType", signature.NewLongType()}, {"NewULongType", signature.NewULongType()}, {"NewFloatType", signature.NewFloatType()},
		{"NewDoubleType", signature.NewDoubleType()}, {"NewBoolType", signature.NewBoolType()}, {"NewStringType", signature.NewStringType()},
		{"NewValueType", signature.NewValueType()}, {"NewObjectType", signature.NewObjectType()}, {"NewUnknownType", signature.NewUnknownType()},
		{"NewVoidType", signature.NewVoidType()}} {
		ctors = append(ctors, c.name+"="+c.t.Signature()+"="+c.t.SignatureIDL())
	}
	emitStrList("f_sig_scalar_ctors", ctors)

	// init(): every grammar assignment, combinators rendered compactly
	f, fd = funcDecl(rel, "", "init")
	var rules []string
	if fd != nil {
		ast.Inspect(fd.Body, func(n ast.Node) bool {
			switch v := n.(type) {
			case *ast.AssignStmt:
				if len(v.Lhs) == 1 && len(v.Rhs) == 1 {
					rules = append(rules, exprText(f.fset, v.Lhs[0])+" := "+compact(f, v.Rhs[0]))
				}
				return false
			case *ast.ValueSpec:
				if len(v.Names) == 1 && len(v.Values) == 1 {
					rules = append(rules, v.Names[0].Name+" := "+compact(f, v.Values[0]))
				}
				return false
			}
			return true
		})
	}
	emitStrList("f_sig_grammar", rules)
	emitStrList("f_sig_structName_lits", stringLits(rel, "", "structName"))
	emitStr("f_sig_typeName_text", normText(rel, "", "typeName"))
	emitStr("f_sig_Parse_text", normText(rel, "", "Parse"))
	emitStr("f_sig_extractValue_text", normText(rel, "", "extractValue"))
	emitStr("f_sig_nodifyStrucType_text", normText(rel, "", "nodifyStrucType"))
	emitStr("f_sig_extractMembers_text", normText(rel, "", "extractMembers"))
	// the callback of the repaired grammar ("(" list ")" with an optional struct definition);
	// "<missing ...>" on the pinned grammar
	emitStr("f_sig_nodifyTupleOrStruct_text", normText(rel, "", "nodifyTupleOrStruct"))
	emitStr("f_sig_nodifyTupleType_text", normText(rel, "", "nodifyTupleType"))

	// the printers' format strings
	const trel = "meta/signature/type.go"
	emitStrList("f_sig_print_list", stringLits(trel, "ListType", "Signature"))
	emitStrList("f_sig_print_map", stringLits(trel, "MapType", "Signature"))
	emitStrList("f_sig_print_tuple", stringLits(trel, "TupleType", "Signature"))
	emitStrList("f_sig_print_struct", stringLits(trel, "StructType", "Signature"))
	emitStr("f_sig_print_tuple_text", normText(trel, "TupleType", "Signature"))
	emitStr("f_sig_print_struct_text", normText(trel, "StructType", "Signature"))
	emitStrList("f_sig_idl_list", stringLits(trel, "ListType", "SignatureIDL"))
	emitStrList("f_sig_idl_map", stringLits(trel, "MapType", "SignatureIDL"))
	emitStrList("f_sig_idl_tuple", stringLits(trel, "TupleType", "SignatureIDL"))
	emitStr("f_sig_idl_struct_text", normText(trel, "StructType", "SignatureIDL"))
	emitStr("f_sig_MapType_Type_text", normText(trel, "MapType", "Type"))
	emitStr("f_sig_StructType_Type_text", normText(trel, "StructType", "Type"))
	emitStrList("f_sig_NewTupleType_lits", stringLits(trel, "", "NewTupleType"))

	// the goparsec version the combinator model (Peg.v) was read from
	ver := "<not found>"
	if b, err := os.ReadFile(filepath.Join(repo, "go.mod")); err == nil {
		if m := regexp.MustCompile(`github.com/prataprc/goparsec\s+(\S+)`).FindSubmatch(b); m != nil {
			ver = string(m[1])
		}
	}
	emitStr("f_goparsec_version", ver)
}
