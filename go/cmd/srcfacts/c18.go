package main

// C18 facts: the IDL grammar of meta/idl/parser.go (basic type atoms in order, regular
// expressions, the combinator expression each grammar function returns), the Sscanf format of the
// uid comment, the first default action id, and the format strings GenerateIDL writes with.

import (
	"fmt"
	"go/ast"
	"go/token"
	"strconv"
	"strings"
)

func init() { factFns["C18"] = factsC18 }

// returnExpr renders the single returned expression of a grammar function compactly
func returnExpr(rel, name string) string {
	f, fd := funcDecl(rel, "", name)
	if fd == nil {
		return "<missing " + name + ">"
	}
	out := ""
	ast.Inspect(fd.Body, func(n ast.Node) bool {
		if r, ok := n.(*ast.ReturnStmt); ok && len(r.Results) == 1 && out == "" {
			out = compactIdl(f, r.Results[0])
		}
		return true
	})
	return out
}

func compactIdl(f *file, e ast.Expr) string {
	switch v := e.(type) {
	case *ast.BasicLit:
		if v.Kind == token.STRING {
			s, _ := strconv.Unquote(v.Value)
			return s
		}
	case *ast.CompositeLit:
		var it []string
		for _, x := range v.Elts {
			it = append(it, compactIdl(f, x))
		}
		return "[" + strings.Join(it, " | ") + "]"
	case *ast.CallExpr:
		fn := exprText(f.fset, v.Fun)
		var as []string
		for _, a := range v.Args {
			as = append(as, compactIdl(f, a))
		}
		switch fn {
		case "parsec.Atom":
			if len(as) == 2 {
				return "atom:" + as[0]
			}
		case "parsec.Token":
			if len(as) == 2 {
				return "token:" + as[0]
			}
		}
		fn = strings.TrimPrefix(fn, "parsec.")
		return fn + "(" + strings.Join(as, " ") + ")"
	}
	return exprText(f.fset, e)
}

func factsC18() {
	const rel = "meta/idl/parser.go"
	for _, fn := range []string{"basicType", "mapType", "tupleType", "vecType", "typeParser", "comments", "returns", "parameter", "parameters",
		"ident", "typeIdent", "method", "signal", "property", "action", "interfaceParser", "referenceType", "member", "constValue",
		"enumConst", "enum", "structure", "declaration", "declarationsList", "packageName", "packageParser"} {
		emitStr("f_idl_"+fn, returnExpr(rel, fn))
	}
	// basicType(): the atoms in order
	{
		f, fd := funcDecl(rel, "", "basicType")
		var atoms []string
		if fd != nil {
			for _, c := range calls(f, fd.Body) {
				if exprText(f.fset, c.Fun) == "parsec.Atom" && len(c.Args) == 2 {
					atoms = append(atoms, compactIdl(f, c.Args[0]))
				}
			}
		}
		if len(atoms) == 0 { // the repaired basicType(): a slice of names, each matched as Token(name+`\b`)
			for _, l := range stringLits(rel, "", "basicType") {
				if l != "" && !strings.Contains(l, `\b`) {
					atoms = append(atoms, l)
				}
			}
		}
		emitStrList("f_idl_basic_atoms", atoms)
	}
	emitStr("f_idl_basicType_text", normText(rel, "", "basicType"))
	emitStrList("f_idl_commentContent_lits", stringLits(rel, "", "nodifyCommentContent"))
	emitStr("f_idl_ParsePackage_text", normText(rel, "", "ParsePackage"))
	emitStr("f_idl_nodifyActionList_text", normText(rel, "", "nodifyActionList"))
	emitStrList("f_idl_nodifyActionList_lits", stringLits(rel, "", "nodifyActionList"))
	emitStrList("f_idl_nodifyBasicType_lits", stringLits(rel, "", "nodifyBasicType"))
	// customAction := uint32(100)
	f, fd := funcDecl(rel, "", "nodifyActionList")
	start := "<not found>"
	if fd != nil {
		ast.Inspect(fd.Body, func(n ast.Node) bool {
			if vs, ok := n.(*ast.ValueSpec); ok && len(vs.Names) == 1 && vs.Names[0].Name == "customAction" && len(vs.Values) == 1 {
				start = exprText(f.fset, vs.Values[0])
			}
			return true
		})
	}
	emitStr("f_idl_customAction_start", start)
	const grel = "meta/idl/idl.go"
	for _, fn := range []string{"generateMethod", "generateProperty", "generateSignal", "generateStructure", "GenerateIDL"} {
		emitStrList("f_idl_"+fn+"_lits", stringLits(grel, "", fn))
		emitStr("f_idl_"+fn+"_text", normText(grel, "", fn))
	}
	emitStrList("f_idl_ParamIDL_lits", stringLits("meta/signature/type.go", "TupleType", "ParamIDL"))
	emitStrList("f_idl_ResolveCollision_lits", stringLits("meta/signature/type.go", "TypeSet", "ResolveCollision"))
	emitStr("f_idl_ResolveCollision_text", normText("meta/signature/type.go", "TypeSet", "ResolveCollision"))
	emitStr("f_idl_StructRegisterTo_text", normText("meta/signature/type.go", "StructType", "RegisterTo"))
	emitStr("f_idl_scopeAdd_text", normText("meta/idl/scope.go", "scopeImpl", "Add"))
	emitStr("f_idl_RefSignature_text", normText("meta/idl/ref.go", "RefType", "Signature"))
	emitStrList("f_idl_searchLocal_lits", stringLits("meta/idl/scope.go", "scopeImpl", "searchLocal"))
	emitStr("f_idl_MethodMeta_text", normText("meta/idl/interface.go", "Method", "Meta"))
	emitStr("f_idl_SignalMeta_text", normText("meta/idl/interface.go", "Signal", "Meta"))
	emitStr("f_idl_PropertyMeta_text", normText("meta/idl/interface.go", "Property", "Meta"))
	emitStr("f_idl_ForEach_text", normText("type/object/metaobject_decorator.go", "MetaObject", "ForEachMethodAndSignal"))
	_ = fmt.Sprint
}
