package main

import (
	"go/ast"
	"strings"
)

func init() { factFns["C14"] = factsC14 }

// c14CallSeq lists, in source order, the calls of a function whose rendered callee is in keep,
// together with `defer`.
func c14CallSeq(rel, recv, name string, keep map[string]string) []string {
	f, fd := funcDecl(rel, recv, name)
	if fd == nil {
		return []string{"<missing " + name + ">"}
	}
	var out []string
	for _, c := range calls(f, fd.Body) {
		if s, ok := keep[exprText(f.fset, c.Fun)]; ok {
			out = append(out, s)
		}
	}
	return out
}

// c14Deferred: the calls that appear in defer statements of a function
func c14Deferred(rel, recv, name string) []string {
	f, fd := funcDecl(rel, recv, name)
	var out []string
	if fd != nil {
		ast.Inspect(fd.Body, func(n ast.Node) bool {
			if d, ok := n.(*ast.DeferStmt); ok {
				out = append(out, exprText(f.fset, d.Call.Fun))
			}
			return true
		})
	}
	return out
}

func factsC14() {
	keep := map[string]string{
		"o.onPropertyChange": "validate", "objImpl.onPropertyChange": "validate",
		"o.saveProperty": "save", "objImpl.saveProperty": "save",
		"o.signalHandler.UpdateProperty": "notify", "s.signal.UpdateProperty": "notify",
		"o.propertiesMutex.Lock": "Lock", "o.propertiesMutex.Unlock": "Unlock",
		"o.propertiesMutex.RLock": "RLock", "o.propertiesMutex.RUnlock": "RUnlock",
	}
	// the order validate ; save ; notify and which of them run under the mutex
	c16EmitStrList("f_setproperty_seq", c14CallSeq("bus/object.go", "objectImpl", "SetProperty", keep))
	c16EmitStrList("f_updateproperty_seq", c14CallSeq("bus/object.go", "stubObject", "UpdateProperty", keep))
	c16EmitStrList("f_saveproperty_seq", c14CallSeq("bus/object.go", "objectImpl", "saveProperty", keep))
	c16EmitStrList("f_saveproperty_defer", c14Deferred("bus/object.go", "objectImpl", "saveProperty"))
	c16EmitStrList("f_property_seq", c14CallSeq("bus/object.go", "objectImpl", "Property", keep))
	c16EmitStrList("f_property_defer", c14Deferred("bus/object.go", "objectImpl", "Property"))
	emitStr("f_saveproperty_text", normText("bus/object.go", "objectImpl", "saveProperty"))
	emitStr("f_property_text", normText("bus/object.go", "objectImpl", "Property"))
	emitStr("f_signal_updateproperty_text", normText("bus/signal.go", "signalHandler", "UpdateProperty"))
	// the generated validator, getter and update helper of the object the harness runs
	emitStr("f_bomb_validator_text", normText("examples/space/space_stub_gen.go", "stubBomb", "onPropertyChange"))
	emitStr("f_bomb_update_text", normText("examples/space/space_stub_gen.go", "stubBomb", "UpdateDelay"))
	g := normText("examples/space/space_stub_gen.go", "proxyBomb", "GetDelay")
	emitBool("f_bomb_getter_checks_signature", strings.Contains(g, `sig := "" if sig != s { return ret, fmt.Errorf("", s, sig) }`))
	emitStr("f_bomb_meta_text", c14RawText("examples/space/space_stub_gen.go", "stubBomb", "metaObject"))
	// the generator templates behind them
	emitBool("f_stub_template_decodes_declared_type", strings.Contains(c14RawText("meta/stub/stub.go", "", "generateStubPropertyCallback"), `property.Type().Unmarshal("buf")`))
	emitBool("f_proxy_template_checks_signature", strings.Contains(c14RawText("meta/idl/proxy.go", "", "generatePropertyGet"), `if sig != s {`))
	// the subscriber table behind registerEvent / unregisterEvent (PropertySubs.v: add_user, remove_user, subs_of)
	emitStr("f_c14_addsignaluser_text", normText("bus/signal.go", "signalHandler", "addSignalUser"))
	emitStr("f_c14_removesignaluser_text", normText("bus/signal.go", "signalHandler", "removeSignalUser"))
	emitStr("f_c14_updatesignal_text", normText("bus/signal.go", "signalHandler", "UpdateSignal"))
	emitStr("f_bomb_signalboom_text", normText("examples/space/space_stub_gen.go", "stubBomb", "SignalBoom"))
	// objects with several properties (PropertyMulti.v): the harness builds its object the way every generated
	// stub does, and a numeric name is looked up in the declared properties
	emitBool("f_bomb_object_is_newbasicobject", strings.Contains(c14RawText("examples/space/space_stub_gen.go", "", "BombObject"),
		`obj := bus.NewBasicObject(&stb, stb.metaObject(), stb.onPropertyChange)`))
	emitBool("f_setproperty_uid_in_meta_properties", strings.Contains(c14RawText("bus/object.go", "objectImpl", "SetProperty"),
		`property, ok := o.meta.Properties[idValue.Value()]`))
	// the optional features that wrap the channel of an incoming message (PropertySubs.v: SAux is transparent,
	// and a registration made through a wrapper is the registration of the connection behind it): a wrapper
	// made for THAT message, which hands every frame to the channel it wraps; the entry a closer forgets is
	// found by (user id, endpoint)
	emitStr("f_c14_tracer_text", normText("bus/object.go", "objectImpl", "Tracer"))
	emitStr("f_c14_statchannel_send_text", normText("bus/channel.go", "statChannel", "Send"))
	emitStr("f_c14_tracedchannel_send_text", normText("bus/channel.go", "tracedChannel", "Send"))
	emitStr("f_c14_forgetsignaluser_text", normText("bus/signal.go", "signalHandler", "forgetSignalUser"))
	emitN("f_action_enablestats", c14ActionOf("p.EnableStats"))
	emitN("f_action_enabletrace", c14ActionOf("p.EnableTrace"))
	emitN("f_action_registerevent", c14ActionOf("p.RegisterEvent"))
	emitN("f_action_unregisterevent", c14ActionOf("p.UnregisterEvent"))
	emitN("f_action_property", c14ActionOf("p.Property"))
	emitN("f_action_setproperty", c14ActionOf("p.SetProperty"))
}

// c14RawText: the function as written, white space collapsed, literals kept
func c14RawText(rel, recv, name string) string {
	f, fd := funcDecl(rel, recv, name)
	if fd == nil {
		return "<missing " + name + ">"
	}
	return strings.Join(strings.Fields(exprText(f.fset, fd)), " ")
}

func c14ActionOf(method string) uint64 {
	f, fd := funcDecl("bus/object_stub_gen.go", "stubObject", "Receive")
	var n uint64
	if fd == nil {
		return 0
	}
	ast.Inspect(fd.Body, func(x ast.Node) bool {
		cc, ok := x.(*ast.CaseClause)
		if !ok || len(cc.List) != 1 || len(cc.Body) != 1 {
			return true
		}
		if ret, ok := cc.Body[0].(*ast.ReturnStmt); ok && len(ret.Results) == 1 {
			if call, ok := ret.Results[0].(*ast.CallExpr); ok && exprText(f.fset, call.Fun) == method {
				var v uint64
				for _, ch := range exprText(f.fset, cc.List[0]) {
					v = v*10 + uint64(ch-'0')
				}
				n = v
			}
		}
		return true
	})
	return n
}
