package main

import (
	"go/ast"
	"strings"
)

func init() { factFns["C04"] = factsC04 }

// switchTags: the tag expression of every switch statement in the function.
func switchTags(rel, recv, fn string) string {
	f, fd := funcDecl(rel, recv, fn)
	if fd == nil {
		return "<missing>"
	}
	var tags []string
	ast.Inspect(fd.Body, func(n ast.Node) bool {
		if sw, ok := n.(*ast.SwitchStmt); ok && sw.Tag != nil {
			tags = append(tags, exprText(f.fset, sw.Tag))
		}
		return true
	})
	return strings.Join(tags, " ; ")
}

// lockSkeleton: the Lock/Unlock/defer calls and assignments to fields of the receiver, in source order.
func lockSkeleton(rel, recv, fn string) string {
	f, fd := funcDecl(rel, recv, fn)
	if fd == nil {
		return "<missing>"
	}
	var items []string
	ast.Inspect(fd.Body, func(n ast.Node) bool {
		switch x := n.(type) {
		case *ast.DeferStmt:
			items = append(items, "defer "+exprText(f.fset, x.Call.Fun))
			return false
		case *ast.CallExpr:
			t := exprText(f.fset, x.Fun)
			if strings.HasSuffix(t, "Lock") || strings.HasSuffix(t, "Unlock") {
				items = append(items, t)
			}
		case *ast.AssignStmt:
			items = append(items, exprText(f.fset, x))
		case *ast.ReturnStmt:
			items = append(items, strings.Join(strings.Fields(exprText(f.fset, x)), " "))
		}
		return true
	})
	return strings.Join(items, " ; ")
}

// closeWithOrder: what endPoint.closeWith does to the stream and to the handler table, in source
// order, and whether the call of stream.Close() comes before the loop over the table.
func closeWithOrder() (string, bool) {
	f, fd := funcDecl("bus/net/endpoint.go", "endPoint", "closeWith")
	if fd == nil {
		return "<missing>", false
	}
	var items []string
	closeAt, rangeAt := -1, -1
	ast.Inspect(fd.Body, func(n ast.Node) bool {
		switch x := n.(type) {
		case *ast.DeferStmt:
			items = append(items, "defer "+exprText(f.fset, x.Call.Fun))
			return false
		case *ast.GoStmt:
			items = append(items, "go "+exprText(f.fset, x.Call.Fun))
			return false
		case *ast.RangeStmt:
			if rangeAt < 0 {
				rangeAt = len(items)
			}
			items = append(items, "range "+exprText(f.fset, x.X))
		case *ast.CallExpr:
			t := exprText(f.fset, x.Fun)
			if strings.HasSuffix(t, ".Close") {
				if closeAt < 0 {
					closeAt = len(items)
				}
				items = append(items, t)
			} else if strings.HasSuffix(t, "Lock") || strings.HasSuffix(t, "Unlock") {
				items = append(items, t)
			}
		case *ast.AssignStmt:
			if _, ok := x.Lhs[0].(*ast.IndexExpr); ok {
				items = append(items, strings.Join(strings.Fields(exprText(f.fset, x)), " "))
			}
		}
		return true
	})
	return strings.Join(items, " ; "), closeAt >= 0 && rangeAt >= 0 && closeAt < rangeAt
}

func factsC04() {
	order, closeFirst := closeWithOrder()
	emitStr("f_c04_closewith_order", order)
	emitBool("f_c04_closewith_close_first", closeFirst)
	emitNList("f_c04_filter_dropped", typesDroppedByFilter())
	emitStr("f_c04_nextid_skeleton", lockSkeleton("bus/client.go", "client", "nextMessageID"))
	emitStr("f_c04_newclient_text", normText("bus/client.go", "", "NewClient"))
	emitStr("f_c04_newmessage_text", normText("bus/client.go", "client", "newMessage"))
	emitStr("f_c04_cancelmessage_text", normText("bus/client.go", "client", "cancelMessage"))
	emitStr("f_c04_call_filter_text", funcLitAssigned("bus/client.go", "client", "Call", "filter"))
	emitStr("f_c04_call_text", normText("bus/client.go", "client", "Call"))
	emitStr("f_c04_dispatch_text", normText("bus/net/endpoint.go", "endPoint", "dispatch"))
	emitStr("f_c04_sendreply_text", normText("bus/channel.go", "channel", "SendReply"))
	emitStr("f_c04_senderror_text", normText("bus/channel.go", "channel", "SendError"))
	emitStr("f_c04_router_receive_text", normText("bus/router.go", "Router", "Receive"))
	emitStr("f_c04_service_receive_text", normText("bus/service.go", "serviceImpl", "Receive"))
	emitStr("f_c04_mailbox_text", normText("bus/mailbox.go", "", "NewMailBox"))
	// the optional wrappers of the reply channel (statistics, traces): objectImpl.Tracer builds them
	// around the channel of the message at hand, their Send ends in the Send of that channel
	emitStr("f_c04_tracer_text", normText("bus/object.go", "objectImpl", "Tracer"))
	emitStr("f_c04_statchannel_send_text", normText("bus/channel.go", "statChannel", "Send"))
	emitStr("f_c04_tracedchannel_send_text", normText("bus/channel.go", "tracedChannel", "Send"))
	// generated stubs switch on the action only
	emitStr("f_c04_stub_switch_object", switchTags("bus/object_stub_gen.go", "stubObject", "Receive"))
	emitStr("f_c04_stub_switch_pingpong", switchTags("examples/pong/ping_stub_gen.go", "stubPingPong", "Receive"))
	emitStr("f_c04_stub_switch_timestamp", switchTags("examples/clock/clock_stub_gen.go", "stubTimestamp", "Receive"))
	// a generated method body: decode, call, Post test, error, reply
	emitStr("f_c04_stub_hello_text", normText("examples/pong/ping_stub_gen.go", "stubPingPong", "Hello"))
	emitStr("f_c04_stub_nanoseconds_text", normText("examples/clock/clock_stub_gen.go", "stubTimestamp", "Nanoseconds"))
	// the generator: what it emits for the dispatch and after the call of the method
	_, fd := funcDecl("meta/stub/stub.go", "", "generateReceiveMethod")
	sw := ""
	if fd != nil {
		ast.Inspect(fd.Body, func(n ast.Node) bool {
			if bl, ok := n.(*ast.BasicLit); ok && strings.Contains(bl.Value, "msg.Header.") {
				sw += strings.Trim(bl.Value, "\"`") + " ; "
			}
			return true
		})
	}
	emitStr("f_c04_generator_switch_on", sw)
	_, fd = funcDecl("meta/stub/stub.go", "", "methodBodyBlock")
	post := ""
	if fd != nil {
		ast.Inspect(fd.Body, func(n ast.Node) bool {
			if bl, ok := n.(*ast.BasicLit); ok && strings.Contains(bl.Value, "net.Post") {
				post = strings.Join(strings.Fields(strings.Trim(bl.Value, "`")), " ")
			}
			return true
		})
	}
	emitStr("f_c04_generator_post_block", post)
}
