package main

import (
	"fmt"

	"github.com/lugu/qiloop/bus/net"
)

func main() { fmt.Println(net.Magic) }
