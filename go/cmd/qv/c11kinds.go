package main

// c11kinds.go — the kinds of error with which a connection is lost, as a transport reports them
// to bus/net's stream wrappers: the values a net.Conn (or an *os.File) really returns — io.EOF,
// io.ErrUnexpectedEOF, net.ErrClosed, *net.OpError around an errno, an expired deadline — and
// net.Error implementations with every combination of Temporary() and Timeout().  A kind is
// "persistent" (every later Read fails in the same way, as ETIMEDOUT from a dead peer or an
// expired deadline do) or "once" (the next Read reports io.EOF).  C11 is worded for the loss of
// the connection, whatever its kind: the endpoint must hand every one of them to closeWith.

import (
	"errors"
	"io"
	gonet "net"
	"os"
	"syscall"
)

// c11NetErr is a net.Error of the harness (a transport of a third party may define its own).
type c11NetErr struct {
	tmp, timeout bool
}

func (e *c11NetErr) Error() string   { return "c11: injected net.Error" }
func (e *c11NetErr) Temporary() bool { return e.tmp }
func (e *c11NetErr) Timeout() bool   { return e.timeout }

type c11ErrKind struct {
	name string
	mk   func(op string) error
}

func c11Errno(e syscall.Errno) func(string) error {
	return func(op string) error {
		return &gonet.OpError{Op: op, Net: "tcp", Err: os.NewSyscallError(op, e)}
	}
}

func c11Const(e error) func(string) error { return func(string) error { return e } }

var c11ErrKinds = []c11ErrKind{
	{"eof", c11Const(io.EOF)},
	{"ueof", c11Const(io.ErrUnexpectedEOF)},
	{"closed", func(op string) error { return &gonet.OpError{Op: op, Net: "tcp", Err: gonet.ErrClosed} }},
	{"closed-bare", c11Const(gonet.ErrClosed)},
	{"reset", c11Errno(syscall.ECONNRESET)},
	{"epipe", c11Errno(syscall.EPIPE)},
	{"timedout", c11Errno(syscall.ETIMEDOUT)},
	{"hostunreach", c11Errno(syscall.EHOSTUNREACH)},
	{"netunreach", c11Errno(syscall.ENETUNREACH)},
	{"aborted", c11Errno(syscall.ECONNABORTED)},
	{"eagain", c11Errno(syscall.EAGAIN)},
	{"eintr", c11Errno(syscall.EINTR)},
	{"deadline", func(op string) error { return &gonet.OpError{Op: op, Net: "tcp", Err: os.ErrDeadlineExceeded} }},
	{"deadline-bare", c11Const(os.ErrDeadlineExceeded)},
	{"neterr-tmp-timeout", c11Const(&c11NetErr{true, true})},
	{"neterr-tmp", c11Const(&c11NetErr{true, false})},
	{"neterr-timeout", c11Const(&c11NetErr{false, true})},
	{"neterr", c11Const(&c11NetErr{false, false})},
	{"plain", c11Const(errors.New("c11: injected failure"))},
}

func c11KindByName(name string) c11ErrKind {
	for _, k := range c11ErrKinds {
		if k.name == name {
			return k
		}
	}
	panic("c11: unknown error kind " + name)
}

// c11Addr / c11Conn: the gated stream of c11stream.go presented as a net.Conn, so that the real
// wrapper of bus/net (net.ConnStream, what every dialled or accepted tcp, tcps and unix connection
// runs on) sits between the endpoint and the harness.
type c11Addr struct{}

func (c11Addr) Network() string { return "c11" }
func (c11Addr) String() string  { return "harness" }
