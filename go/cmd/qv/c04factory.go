package main

// C04 (ix) — calls pipelined to ONE object whose method adds or removes objects of its own service.
//
// Generated stubs call Service.Add for every object-typed argument or result, factory methods add
// the objects they create, `terminate` removes one: the method runs in the mailbox goroutine of its
// object while the connection goroutines of the server keep delivering the next calls to the same
// service (serviceImpl.Receive), so the object table of the service is changed under the feet of
// the dispatch.  A mailbox holds 10 mails: with 12 or more calls in flight for one object one is
// being executed, ten are queued and the connection goroutine(s) are blocked handing over the next.
// Every call must return exactly one outcome - its own - within a deadline, whatever the methods
// do to the service; so must calls to the objects they created and later calls from a fresh
// connection.
//
// Service 4 of the harness is a factory object speaking the protocol of the PingPong probe
// (action 100: string -> "re:"+arg+"#"+n) whose method, depending on the first letters of its
// argument, adds a child object to its own service ("mk"), removes the oldest child ("rm"), does
// both ("mr") or nothing ("no").  Children answer action 100 in the same way.  The frames of
// every connection are compared in Coq like those of the other concurrent runs (C04Run.tcase).

import (
	"fmt"
	"sort"
	"strings"
	"sync"
	"time"

	"github.com/lugu/qiloop/bus"
	"github.com/lugu/qiloop/bus/net"
	"qv/internal/hx"
)

const c04FactorySvc = 4

type c04Child struct {
	cnt *c04Counters
}

func (c *c04Child) Activate(a bus.Activation) error { return nil }
func (c *c04Child) OnTerminate()                    {}
func (c *c04Child) Receive(m *net.Message, from bus.Channel) error {
	return c04PongLike(c.cnt, m, from, nil)
}

type c04Factory struct {
	cnt     *c04Counters
	mu      sync.Mutex
	service bus.Service
	kids    []uint32          // children alive, oldest first
	made    map[string]uint32 // argument of the call that made it -> object id
	removed map[uint32]bool
	addErrs []string
	delay   func() time.Duration
}

func (f *c04Factory) Activate(a bus.Activation) error { f.service = a.Service; return nil }
func (f *c04Factory) OnTerminate()                    {}
func (f *c04Factory) Receive(m *net.Message, from bus.Channel) error {
	return c04PongLike(f.cnt, m, from, f.sideEffect)
}

// what the method does to its own service, after it has been counted and before it answers
func (f *c04Factory) sideEffect(arg string) {
	f.mu.Lock()
	d := f.delay
	f.mu.Unlock()
	if d != nil {
		if x := d(); x > 0 {
			time.Sleep(x)
		}
	}
	add := strings.HasPrefix(arg, "mk") || strings.HasPrefix(arg, "mr")
	del := strings.HasPrefix(arg, "rm") || strings.HasPrefix(arg, "mr")
	if add {
		id, err := f.service.Add(&c04Child{f.cnt})
		f.mu.Lock()
		if err != nil {
			f.addErrs = append(f.addErrs, err.Error())
		} else {
			f.kids = append(f.kids, id)
			f.made[arg] = id
		}
		f.mu.Unlock()
	}
	if del {
		f.mu.Lock()
		var id uint32
		ok := len(f.kids) > 0
		if ok {
			id = f.kids[0]
			f.kids = f.kids[1:]
			f.removed[id] = true
		}
		f.mu.Unlock()
		if ok {
			if err := f.service.Remove(id); err != nil {
				f.mu.Lock()
				f.addErrs = append(f.addErrs, err.Error())
				f.mu.Unlock()
			}
		}
	}
}

// c04PongLike: action 100 of the probe protocol for an object that is not a generated stub:
// only Call and Post run the method, a Post is not answered.
func c04PongLike(cnt *c04Counters, m *net.Message, from bus.Channel, effect func(string)) error {
	if m.Header.Type != net.Call && m.Header.Type != net.Post {
		return nil
	}
	if m.Header.Action != 100 {
		if m.Header.Type == net.Post {
			return nil
		}
		return from.SendError(m, bus.ErrActionNotFound)
	}
	arg, ok := c04DecodeStr(m.Payload)
	if !ok {
		if m.Header.Type == net.Post {
			return nil
		}
		return from.SendError(m, fmt.Errorf("cannot read a"))
	}
	n := cnt.run(c04Key(c04FactorySvc, "hello", arg))
	if effect != nil {
		effect(arg)
	}
	if m.Header.Type == net.Post {
		return nil
	}
	return from.SendReply(m, c04Str(fmt.Sprintf("re:%s#%d", arg, n)))
}

type c04FacCall struct {
	arg      string
	obj      uint32
	objDesc  string // "" : object <obj>
	conn     int
	out      string
	raw      []byte
	err      error
	returned bool
}

// factoryWave: the calls are issued at once, one goroutine each, over the given clients; waits for
// them with a deadline; returns the calls (snapshot)
func c04FactoryWave(clients []bus.Client, calls []*c04FacCall, started func(), d time.Duration) []c04FacCall {
	var mu sync.Mutex
	var wg sync.WaitGroup
	for _, c := range calls {
		wg.Add(1)
		go func(c *c04FacCall) {
			defer wg.Done()
			out, err := clients[c.conn].Call(nil, c04FactorySvc, c.obj, 100, c04Str(c.arg))
			s, ok := c04DecodeStr(out)
			mu.Lock()
			c.out, c.err, c.returned = s, err, true
			if err == nil && !ok {
				c.raw = append([]byte{}, out...)
			}
			mu.Unlock()
		}(c)
	}
	if started != nil {
		started()
	}
	done := make(chan struct{})
	go func() { wg.Wait(); close(done) }()
	c04WaitCh(done, d)
	mu.Lock()
	defer mu.Unlock()
	snap := make([]c04FacCall, len(calls))
	for i, c := range calls {
		snap[i] = *c
	}
	return snap
}

func (h *c04Harness) factoryOracle(res *hx.Result, scen string, calls []c04FacCall, countEach bool) (hung int) {
	if !countEach {
		res.Count(scen, true)
	}
	for _, c := range calls {
		n := h.cnt.get(c04Key(c04FactorySvc, "hello", c.arg))
		od := c.objDesc
		if od == "" {
			od = fmt.Sprintf("object %d", c.obj)
		}
		desc := fmt.Sprintf("%s; call Hello(%q) to service %d %s on connection %d", scen, c.arg, c04FactorySvc, od, c.conn)
		switch {
		case !c.returned:
			hung++
			res.Fail("call-without-outcome", fmt.Sprintf("%s: still pending after %v (no reply, no error; its method body ran %d time(s)): zero outcomes instead of exactly one", desc, c04Deadline, n))
		case c.err == nil:
			want := "re:" + c.arg + "#1"
			if c.raw != nil || c.out != want {
				res.Fail("wrong-or-foreign-result", fmt.Sprintf("%s returned %q %x without error, its own result is %q", desc, c.out, c.raw, want))
			}
			if n != 1 {
				res.Fail("successful-call-exec-count", fmt.Sprintf("%s succeeded but its method body ran %d times", desc, n))
			}
		default:
			if n > 1 {
				res.Fail("failed-call-ran-more-than-once", fmt.Sprintf("%s ended with %v and its method body ran %d times", desc, c.err, n))
			}
			// nothing is cancelled and no method errs here: the only error a call may end with is the
			// refusal by the server's full consumer queue (beyond 1 call executing + 10 in the mailbox +
			// 1 being handed over + 10 queued by endPoint.dispatch; the body must then not have run)
			if c.err.Error() == net.ErrConsumerBlocked.Error() {
				res.Dist("outcome:consumer-blocked")
				if n != 0 {
					res.Fail("dropped-call-ran", fmt.Sprintf("%s was refused with %q but its method body ran %d time(s)", desc, c.err, n))
				}
			} else {
				res.Fail("call-failed-unexpectedly", fmt.Sprintf("%s ended with %v", desc, c.err))
			}
		}
		if countEach {
			res.Count(desc, true)
		}
	}
	return hung
}

// factoryRun: one run.  conns: how many relayed connections (0: the server's local client);
// n: calls of the wave; gated: the first call is held inside its method until every call of the
// wave has been written and the server's connection goroutines had time to fill the mailbox.
func (h *c04Harness) factoryRun(res *hx.Result, rng *hx.Rng, cases *hx.Cases, f *c04Factory, k, conns, n int, gated, mixed bool) (hung int) {
	var links []*c04Link
	var clients []bus.Client
	where := "the server's local client (srv.Client())"
	if conns == 0 {
		clients = []bus.Client{h.srv.Client()}
	} else {
		where = fmt.Sprintf("%d connection(s) of real clients over the frame relay", conns)
		for i := 0; i < conns; i++ {
			l, err := h.newLink()
			if err != nil {
				res.Fail("harness", "factory run: "+err.Error())
				return 0
			}
			links = append(links, l)
			clients = append(clients, l.client)
		}
	}
	defer func() {
		for _, l := range links {
			l.ep.Close()
		}
	}()
	tag := fmt.Sprintf("f%d", k)
	var calls []*c04FacCall
	ops := []string{"mk"}
	if mixed {
		ops = []string{"mk", "mk", "rm", "mr", "no"}
	}
	for i := 0; i < n; i++ {
		op := ops[rng.Intn(len(ops))]
		if i == 0 {
			op = "mk"
		}
		calls = append(calls, &c04FacCall{arg: fmt.Sprintf("%s-%s-i%d", op, tag, i), obj: 1, conn: i % len(clients)})
	}
	f.mu.Lock()
	f.delay = nil
	if !gated {
		seed := rng.U64()
		var dmu sync.Mutex
		dr := hx.NewRng(seed)
		f.delay = func() time.Duration { dmu.Lock(); defer dmu.Unlock(); return time.Duration(dr.Intn(400)) * time.Microsecond }
	}
	f.mu.Unlock()
	var started func()
	release := func() {}
	if gated {
		var held <-chan struct{}
		held, release = h.cnt.hold(c04Key(c04FactorySvc, "hello", calls[0].arg))
		started = func() {
			c04WaitCh(held, c04TearStep)
			// every call of the wave has been written by its client ...
			deadline := time.Now().Add(c04TearStep)
			for len(links) > 0 && time.Now().Before(deadline) {
				w := 0
				for _, l := range links {
					l.mu.Lock()
					for _, fr := range l.c2s {
						if fr.ty == net.Call && fr.svc == c04FactorySvc {
							w++
						}
					}
					l.mu.Unlock()
				}
				if w >= n {
					break
				}
				time.Sleep(100 * time.Microsecond)
			}
			// ... and the connection goroutines had time to queue what the mailbox takes
			for _, l := range links {
				l.ss.WaitIdle(20 * time.Millisecond)
			}
			if len(links) == 0 {
				time.Sleep(15 * time.Millisecond) // nothing to watch on the server's own pipe
			}
			time.Sleep(2 * time.Millisecond)
			release()
		}
	}
	snap := c04FactoryWave(clients, calls, started, c04Deadline)
	release()
	scen := fmt.Sprintf("factory run %d: %d calls pipelined to object 1 of service %d (its method adds/removes child objects of its own service: %s) over %s, %s",
		k, n, c04FactorySvc, strings.Join(ops, "/"), where,
		map[bool]string{true: "the first call held inside its method until all were written", false: "methods taking 0-400 us"}[gated])
	hung = h.factoryOracle(res, scen, snap, true)
	res.Dist(fmt.Sprintf("factory:%dconn:%s", conns, map[bool]string{true: "gated", false: "timed"}[gated]))
	res.Sample(scen)
	if hung > 0 {
		return hung
	}
	// the children: each one that is still there answers a call of its own; a later call from a fresh
	// connection is served
	f.mu.Lock()
	var kidCalls []*c04FacCall
	var makers []string
	for arg, id := range f.made {
		if strings.Contains(arg, "-"+tag+"-") && !f.removed[id] {
			makers = append(makers, arg)
		}
	}
	sort.Strings(makers)
	for i, arg := range makers {
		kidCalls = append(kidCalls, &c04FacCall{arg: "kid-of-" + arg, obj: f.made[arg], objDesc: "the child object made by " + arg, conn: i % len(clients)})
	}
	for _, e := range f.addErrs {
		h.note("factory: " + e)
	}
	f.addErrs = nil
	f.mu.Unlock()
	if len(kidCalls) > 0 {
		ks := c04FactoryWave(clients, kidCalls, nil, c04Deadline)
		hung += h.factoryOracle(res, scen+"; afterwards a call to each child object it created", ks, false)
	}
	fresh, err := h.newLink()
	if err != nil {
		res.Fail("call-without-outcome", scen+": afterwards a fresh connection cannot be set up: "+err.Error())
		return hung + 1
	}
	fs := c04FactoryWave([]bus.Client{fresh.client}, []*c04FacCall{{arg: "no-" + tag + "-fresh", obj: 1}}, nil, c04Deadline)
	hung += h.factoryOracle(res, scen+"; afterwards a call from a fresh connection", fs, true)
	links = append(links, fresh)
	for li, l := range links {
		l.cs.WaitIdle(c04Deadline)
		l.ss.WaitIdle(c04Deadline)
		cases.Add("ts", c04TraceTerm(l), fmt.Sprintf("factory run %d connection %d: frames written by the client and by the server", k, li))
	}
	return hung
}

func (h *c04Harness) factory(res *hx.Result, rng *hx.Rng, cases *hx.Cases, tier string) {
	f := &c04Factory{cnt: h.cnt, made: map[string]uint32{}, removed: map[uint32]bool{}}
	s, err := h.srv.NewService("c04factory", f)
	if err != nil {
		res.Fail("harness", "factory service: "+err.Error())
		return
	}
	if s.ServiceID() != c04FactorySvc {
		res.Fail("harness", fmt.Sprintf("factory service has id %d, want %d", s.ServiceID(), c04FactorySvc))
		return
	}
	rounds := 1
	if tier == "thorough" {
		rounds = 25
	}
	k := 0
	for round := 0; round < rounds; round++ {
		for _, conns := range []int{1, 0, 2, 3} {
			for _, gated := range []bool{true, false} {
				k++
				n := 12 + rng.Intn(13)
				if h.factoryRun(res, rng, cases, f, k, conns, n, gated, k > 2 && rng.Chance(0.6)) > 0 {
					// the service does not answer any more: every further run would wait for its deadline
					h.note(fmt.Sprintf("factory runs: stopped after run %d, calls did not return", k))
					return
				}
			}
		}
	}
}
