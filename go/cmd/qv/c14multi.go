package main

// C14, objects with several properties.  examples/space's Bomb has one property, so everything in
// c14.go is about ONE register.  bus/object.go keeps all the properties of an object in one table
// (a map under one mutex): here the harness builds an object that declares 2..8 int32 properties
// with bus.NewBasicObject (what every generated stub does), registers it as a service of a real
// server and writes DIFFERENT properties of it from several goroutines at once:
//
//   * service-side updates (stubObject.UpdateProperty — what a generated Update<Prop> helper calls)
//     from several goroutines: the implementor may call its helper from any goroutine;
//   * client setProperty calls, by name or by uid, through further mailboxes of the same object
//     (bus.NewMailBox: an object created with Create<X> has a second mailbox), through
//     bus.DirectClient, and through harness connections of the server.
//
// Oracle = the linearizability oracle of c14.go extended to several registers: every property is a
// register of its own; reading a property returns the last accepted write of THAT property.
//
//   c14MultiRace        many short rounds released by a spin barrier; every writer owns one
//                       property (so "the last accepted write" of a property is known exactly),
//                       reads it back after its burst; a reader polls all properties meanwhile; the
//                       coordinator reads every property after the round.  Stops at the first
//                       failure and reports the window of the recorded history that is not
//                       linearizable (also written as a case for the model).
//   c14MShared          the same rounds with all the writers on ONE property of such an object and a
//                       subscriber on every property: each round is linearizable for the register, the
//                       written property's subscription got exactly the accepted writes, the others nothing.
//   c14MultiConcurrent  small, fully recorded histories: any thread gets / sets / updates any
//                       property (same and different ones), subscribers per property; compared
//                       with PropertyMulti.v through Lin.lin_check (C14Run.mcase_ok).

import (
	"bytes"
	"encoding/binary"
	"encoding/hex"
	"fmt"
	"runtime"
	"sort"
	"strings"
	"sync"
	"sync/atomic"
	"time"

	"github.com/lugu/qiloop/bus"
	"github.com/lugu/qiloop/bus/net"
	"github.com/lugu/qiloop/type/basic"
	"github.com/lugu/qiloop/type/object"
	"qv/internal/hx"
)

// ---------- the object ----------

type c14MProp struct {
	name string
	uid  uint32
}

var c14MNames = []string{"a", "b", "c", "d", "e", "f", "g", "h"}

func c14MTable(k int) []c14MProp {
	t := make([]c14MProp, k)
	for i := range t {
		t[i] = c14MProp{c14MNames[i], uint32(101 + i)}
	}
	return t
}

func c14MTableTerm(t []c14MProp) string {
	it := make([]string, len(t))
	for i, p := range t {
		it[i] = fmt.Sprintf("(%s, %d)", hx.Str(p.name), p.uid)
	}
	return "[" + strings.Join(it, "; ") + "]"
}

// the part of the object a generated stub provides: no method of its own
type c14MActor struct{}

func (c14MActor) Activate(bus.Activation) error { return nil }
func (c14MActor) OnTerminate()                  {}
func (c14MActor) Receive(msg *net.Message, from bus.Channel) error {
	return from.SendError(msg, bus.ErrActionNotFound)
}

// c14MOnChange has the shape of a generated onPropertyChange: switch on the name, decode the
// declared type, ask the implementor (here: the value must not be negative)
func c14MOnChange(t []c14MProp) func(string, []byte) error {
	known := map[string]bool{}
	for _, p := range t {
		known[p.name] = true
	}
	return func(name string, data []byte) error {
		if !known[name] {
			return fmt.Errorf("unknown property %s", name)
		}
		x, err := basic.ReadInt32(bytes.NewBuffer(data))
		if err != nil {
			return fmt.Errorf("cannot read %s: %s", name, err)
		}
		if x < 0 {
			return fmt.Errorf("%s cannot be negative (%d)", name, x)
		}
		return nil
	}
}

type c14MEnv struct {
	env    *svEnv
	sid    uint32
	props  []c14MProp
	obj    bus.BasicObject
	nextID uint32
	clock  int64
}

func c14MNewEnv(t []c14MProp) (*c14MEnv, error) {
	env, err := svNewEnv(3)
	if err != nil {
		return nil, err
	}
	meta := object.MetaObject{
		Description: "Multi",
		Methods:     map[uint32]object.MetaMethod{},
		Signals:     map[uint32]object.MetaSignal{},
		Properties:  map[uint32]object.MetaProperty{},
	}
	for _, p := range t {
		meta.Properties[p.uid] = object.MetaProperty{Name: p.name, Signature: "i", Uid: p.uid}
	}
	obj := bus.NewBasicObject(c14MActor{}, meta, c14MOnChange(t))
	svc, err := env.srv.NewService("multi", obj)
	if err != nil {
		return nil, err
	}
	return &c14MEnv{env: env, sid: svc.ServiceID(), props: t, obj: obj, nextID: 1}, nil
}

func (e *c14MEnv) close()        { e.env.close() }
func (e *c14MEnv) msgID() uint32 { return atomic.AddUint32(&e.nextID, 1) }
func (e *c14MEnv) tick() int64   { return atomic.AddInt64(&e.clock, 1) }

// index of the property a name resolves to (setProperty: string or uid; property: string only), -1: none
func (e *c14MEnv) resolve(nm c14Name, forGet bool) int {
	for i, p := range e.props {
		if nm.kind == 0 && nm.s == p.name {
			return i
		}
		if nm.kind == 1 && !forGet && nm.n == p.uid {
			return i
		}
	}
	return -1
}

func (e *c14MEnv) update(k int, x uint32) c14Res {
	if err := e.obj.UpdateProperty(e.props[k].uid, "i", svU32(x)); err != nil {
		return c14Res{kind: 1}
	}
	return c14Res{kind: 2}
}

// ---------- the ways a client reaches the object ----------

type c14MPort interface {
	call(action uint32, payload []byte) (*net.Message, bool) // false: no answer within the deadline
	label() string
}

// a channel that keeps the answer for the harness goroutine that posted the call
type c14MChan struct {
	cap   bus.CapabilityMap
	reply chan *net.Message
}

func (c *c14MChan) Cap() bus.CapabilityMap { return c.cap }
func (c *c14MChan) EndPoint() net.EndPoint { return nil }
func (c *c14MChan) Send(msg *net.Message) error {
	m := *msg
	select {
	case c.reply <- &m:
	default:
	}
	return nil
}
func (c *c14MChan) SendError(msg *net.Message, err error) error {
	hdr := net.NewHeader(net.Error, msg.Header.Service, msg.Header.Object, msg.Header.Action, msg.Header.ID)
	m := net.NewMessage(hdr, nil)
	return c.Send(&m)
}
func (c *c14MChan) SendReply(msg *net.Message, response []byte) error {
	hdr := msg.Header
	hdr.Type = net.Reply
	m := net.NewMessage(hdr, response)
	return c.Send(&m)
}
func (c *c14MChan) Authenticate() error { return nil }
func (c *c14MChan) Authenticated() bool { return true }
func (c *c14MChan) SetAuthenticated()   {}

// a further mailbox of the object (bus.NewMailBox): its goroutine calls Actor.Receive concurrently
// with the server's mailbox of the service and with the other ones
type c14MMailPort struct {
	e     *c14MEnv
	box   bus.MailBox
	ch    *c14MChan
	timer *time.Timer
}

func (e *c14MEnv) mailPort() *c14MMailPort {
	t := time.NewTimer(time.Hour)
	t.Stop()
	return &c14MMailPort{e: e, box: bus.NewMailBox(e.obj), ch: &c14MChan{cap: bus.DefaultCap(), reply: make(chan *net.Message, 4)}, timer: t}
}
func (p *c14MMailPort) label() string { return "mailbox" }
func (p *c14MMailPort) call(action uint32, payload []byte) (*net.Message, bool) {
	id := p.e.msgID()
	msg := net.NewMessage(net.NewHeader(net.Call, p.e.sid, 1, action, id), payload)
	for len(p.ch.reply) > 0 { // a late answer of a call that was given up
		<-p.ch.reply
	}
	p.timer.Reset(5 * time.Second)
	defer p.timer.Stop()
	select {
	case p.box <- bus.NewMail(&msg, p.ch):
	case <-p.timer.C:
		return nil, false
	}
	for {
		select {
		case m := <-p.ch.reply:
			if m.Header.ID == id {
				return m, true
			}
		case <-p.timer.C:
			return nil, false
		}
	}
}
func (p *c14MMailPort) close() { close(p.box) }

type c14MDirectPort struct {
	e  *c14MEnv
	cl bus.Client
}

func (e *c14MEnv) directPort() *c14MDirectPort { return &c14MDirectPort{e, bus.DirectClient(e.obj)} }
func (p *c14MDirectPort) label() string        { return "DirectClient" }
func (p *c14MDirectPort) call(action uint32, payload []byte) (*net.Message, bool) {
	type ans struct {
		p   []byte
		err error
	}
	ch := make(chan ans, 1)
	cancel := make(chan struct{})
	go func() {
		b, err := p.cl.Call(cancel, p.e.sid, 1, action, payload)
		ch <- ans{b, err}
	}()
	select {
	case a := <-ch:
		typ := uint8(net.Reply)
		if a.err != nil {
			typ = net.Error
		}
		m := net.NewMessage(net.NewHeader(typ, p.e.sid, 1, action, 0), a.p)
		return &m, true
	case <-time.After(5 * time.Second):
		close(cancel)
		return nil, false
	}
}

type c14MRawPort struct {
	e    *c14MEnv
	conn int
}

func (p *c14MRawPort) label() string { return fmt.Sprintf("connection %d", p.conn) }
func (p *c14MRawPort) call(action uint32, payload []byte) (*net.Message, bool) {
	id := p.e.msgID()
	c := p.e.env.conns[p.conn]
	if err := c.send(net.Call, p.e.sid, 1, action, id, payload); err != nil {
		return nil, false
	}
	m := c.waitSeen(id, 5*time.Second)
	return m, m != nil
}

func c14MGet(p c14MPort, nm c14Name) (c14Res, bool) {
	m, ok := p.call(c14ActGet, nm.bytes())
	if !ok {
		return c14Res{}, false
	}
	if m.Header.Type != net.Reply {
		return c14Res{kind: 1}, true
	}
	v, ok := c14ParseValue(m.Payload)
	if !ok {
		return c14Res{kind: 1}, true
	}
	return c14Res{kind: 0, val: v}, true
}

func c14MSet(p c14MPort, nm c14Name, v c14Val) (c14Res, bool) {
	m, ok := p.call(c14ActSet, append(nm.bytes(), v.bytes()...))
	if !ok {
		return c14Res{}, false
	}
	if m.Header.Type != net.Reply {
		return c14Res{kind: 1}, true
	}
	return c14Res{kind: 2}, true
}

// ---------- recorded operations ----------

// c14MOp: kind 0 get, 1 set, 2 service-side update
type c14MOp struct {
	tid      int
	kind     int
	prop     int // the property the name resolves to, -1: none
	nm       c14Name
	v        c14Val
	x        uint32
	via      string
	inv, ret int64
	res      c14Res
	done     bool
}

func (o *c14MOp) term(t []c14MProp) string {
	switch o.kind {
	case 0:
		return "(MGet " + o.nm.term() + ")"
	case 2:
		return fmt.Sprintf("(MUpdate %d %d)", t[o.prop].uid, o.x)
	}
	return fmt.Sprintf("(MSet %s %s)", o.nm.term(), o.v.term())
}

func (o *c14MOp) rec(t []c14MProp) string {
	if !o.done {
		return fmt.Sprintf("orm %d %s %d None", o.tid, o.term(t), o.inv)
	}
	return fmt.Sprintf("orm %d %s %d (Some (%d%%N, %s))", o.tid, o.term(t), o.inv, o.ret, o.res.pres())
}

func c14MNameStr(nm c14Name) string {
	switch nm.kind {
	case 0:
		return fmt.Sprintf("%q", nm.s)
	case 1:
		return fmt.Sprintf("uid %d", nm.n)
	}
	return "int32 name"
}

func (o *c14MOp) str(t []c14MProp) string {
	r := "no answer"
	if o.done {
		r = o.res.String()
		if o.res.kind == 0 && o.res.val.sig == "i" && len(o.res.val.data) == 4 {
			r = fmt.Sprintf("%d", int32(binary.LittleEndian.Uint32(o.res.val.data)))
		}
	}
	switch o.kind {
	case 0:
		return fmt.Sprintf("[t%d %d..%d property(%s) via %s -> %s]", o.tid, o.inv, o.ret, c14MNameStr(o.nm), o.via, r)
	case 2:
		return fmt.Sprintf("[t%d %d..%d UpdateProperty(%s, %d) service-side -> %s]", o.tid, o.inv, o.ret, t[o.prop].name, int32(o.x), r)
	}
	val := o.v.String()
	if o.v.sig == "i" && len(o.v.data) == 4 {
		val = fmt.Sprintf("%d", int32(binary.LittleEndian.Uint32(o.v.data)))
	}
	return fmt.Sprintf("[t%d %d..%d setProperty(%s, %s) via %s -> %s]", o.tid, o.inv, o.ret, c14MNameStr(o.nm), val, o.via, r)
}

// written: the value an accepted write stores
func (o *c14MOp) written() c14Val {
	if o.kind == 2 {
		return c14Int(o.x)
	}
	return o.v
}

// c14MProject: the operations that address property k, in the vocabulary of the one-register oracle
// (c14Linearizable): the property is "delay" there
func c14MProject(ops []*c14MOp, k int) []*c14Op {
	var out []*c14Op
	for _, o := range ops {
		if o.prop != k || !o.done {
			continue
		}
		out = append(out, &c14Op{tid: o.tid, get: o.kind == 0, update: o.kind == 2, nm: c14Delay, v: o.v, x: o.x,
			inv: o.inv, ret: o.ret, res: o.res, done: true})
	}
	return out
}

func c14MHistory(t []c14MProp, ops []*c14MOp) (terms []string, descs []string) {
	sorted := append([]*c14MOp(nil), ops...)
	sort.SliceStable(sorted, func(i, j int) bool { return sorted[i].inv < sorted[j].inv })
	for _, o := range sorted {
		terms = append(terms, o.rec(t))
		descs = append(descs, o.str(t))
	}
	return
}

func c14MCase(t []c14MProp, initOps []string, ops []*c14MOp, evTerms []string) (string, string) {
	terms, descs := c14MHistory(t, ops)
	return fmt.Sprintf("{| mc_props := %s; mc_init := [%s]; mc_hist := [\n    %s];\n  mc_events := [%s] |}",
		c14MTableTerm(t), strings.Join(initOps, "; "), strings.Join(terms, ";\n    "), strings.Join(evTerms, "; ")), strings.Join(descs, " ")
}

// ---------- family 1: rounds of racing writers, one property each ----------

const (
	c14WUpdate = iota // service-side UpdateProperty from a goroutine of its own
	c14WMailName
	c14WMailUID
	c14WDirect
	c14WRaw
)

var c14WKindName = []string{"service-side update", "setProperty by name through a mailbox of its own", "setProperty by uid through a mailbox of its own",
	"setProperty through DirectClient", "setProperty through a server connection"}

type c14MWriter struct {
	tid   int
	kind  int
	prop  int
	port  c14MPort // client-side writes, read-back
	seq   uint32   // the number of values tried
	mul   uint32   // the value tried is seq*mul + add: writers that share a property write distinct values
	add   uint32
	last  uint32 // the value of the last accepted write
	start uint32 // ... when the round began
	rnd   uint64
	log   []c14MOp
	bad   string // an operation without an answer, or the validator not obeyed
}

func (w *c14MWriter) next() uint64 {
	w.rnd ^= w.rnd << 13
	w.rnd ^= w.rnd >> 7
	w.rnd ^= w.rnd << 17
	return w.rnd
}

type c14MConfig struct {
	nprops   int
	kinds    []int
	reader   bool
	subs     bool
	rounds   int
	burst    int // writes per round of a service-side writer (client-side writers: fewer, see c14MBurst)
	scripted bool
}

func c14MBurst(kind, burst int) int {
	switch kind {
	case c14WUpdate:
		return burst
	case c14WMailName, c14WMailUID:
		return (burst + 3) / 4
	case c14WDirect:
		return (burst + 15) / 16
	}
	return 1
}

func c14MSpin(cond func() bool, d time.Duration) bool {
	deadline := time.Now().Add(d)
	for i := 0; ; i++ {
		if cond() {
			return true
		}
		if i&63 == 63 {
			runtime.Gosched()
			if i&4095 == 4095 && time.Now().After(deadline) {
				return false
			}
		}
	}
}

// one burst of a writer: writes to its own property (one in ten invalid: the validator refuses
// negative values), then reads the property back
func (w *c14MWriter) burst(e *c14MEnv, n int) {
	w.log = w.log[:0]
	w.start = w.last
	p := e.props[w.prop]
	for j := 0; j < n && w.bad == ""; j++ {
		w.seq++
		x := w.seq*w.mul + w.add
		valid := w.next()%10 != 0
		if !valid {
			x = uint32(-int32(x))
		}
		op := c14MOp{tid: w.tid, prop: w.prop, x: x, v: c14Int(x), done: true}
		switch w.kind {
		case c14WUpdate:
			op.kind = 2
			op.via = "service"
			op.inv = e.tick()
			op.res = e.update(w.prop, x)
			op.ret = e.tick()
		default:
			op.kind = 1
			op.nm = c14Name{kind: 0, s: p.name}
			if w.kind == c14WMailUID || (w.kind != c14WMailName && w.next()%3 == 0) {
				op.nm = c14Name{kind: 1, n: p.uid}
			}
			op.via = w.port.label()
			op.inv = e.tick()
			op.res, op.done = c14MSet(w.port, op.nm, op.v)
			op.ret = e.tick()
		}
		w.log = append(w.log, op)
		if !op.done {
			w.bad = "call-unanswered"
			return
		}
		if (op.res.kind == 2) != valid {
			w.bad = "validator-not-obeyed"
			return
		}
		if valid {
			w.last = x
		}
	}
	op := c14MOp{tid: w.tid, kind: 0, prop: w.prop, nm: c14Name{kind: 0, s: p.name}, via: w.port.label()}
	op.inv = e.tick()
	op.res, op.done = c14MGet(w.port, op.nm)
	op.ret = e.tick()
	w.log = append(w.log, op)
	if !op.done {
		w.bad = "call-unanswered"
	}
}

func c14MIsInt(r c14Res, x uint32) bool {
	return r.kind == 0 && r.val.sig == "i" && len(r.val.data) == 4 && binary.LittleEndian.Uint32(r.val.data) == x
}

type c14MRaceStats struct {
	rounds, writes, overlaps int
}

// c14MRace runs one configuration; returns false when a failure was reported (the family stops)
func c14MRace(res *hx.Result, rng *hx.Rng, cf *hx.Cases, ci int, cfg c14MConfig) bool {
	t := c14MTable(cfg.nprops)
	e, err := c14MNewEnv(t)
	if err != nil {
		res.Fail("harness-setup", err.Error())
		return false
	}
	defer e.close()
	var mailPorts []*c14MMailPort
	defer func() {
		for _, p := range mailPorts {
			p.close()
		}
	}()
	newMail := func() *c14MMailPort {
		p := e.mailPort()
		mailPorts = append(mailPorts, p)
		return p
	}
	var kindNames []string
	writers := make([]*c14MWriter, len(cfg.kinds))
	rawConn := 1
	for i, k := range cfg.kinds {
		w := &c14MWriter{tid: i, kind: k, prop: i, mul: 1, rnd: rng.U64() | 1, log: make([]c14MOp, 0, cfg.burst+2)}
		switch k {
		case c14WDirect:
			w.port = e.directPort()
		case c14WRaw:
			w.port = &c14MRawPort{e, rawConn}
			rawConn = 3 - rawConn
		default:
			w.port = newMail()
		}
		writers[i] = w
		kindNames = append(kindNames, fmt.Sprintf("t%d: %s of %q", i, c14WKindName[k], t[i].name))
	}
	desc := fmt.Sprintf("object with %d int32 properties, one writer per property (%s)", cfg.nprops, strings.Join(kindNames, "; "))
	// subscribers: one per written property, on connection 0
	type msub struct {
		prop int
		mid  uint32
	}
	var subs []msub
	var initSubs []string
	if cfg.subs {
		for i := range writers {
			id := e.msgID()
			c := e.env.conns[0]
			payload := append(svU32(1, t[i].uid), svU32(uint32(700+i), 0)...)
			if err := c.send(net.Call, e.sid, 1, 0, id, payload); err != nil {
				res.Fail("harness-setup", "registerEvent: "+err.Error())
				return false
			}
			if m := c.waitSeen(id, 5*time.Second); m == nil || m.Header.Type != net.Reply {
				res.Fail("subscribe-refused", fmt.Sprintf("registerEvent for property %q (uid %d) was refused: %s", t[i].name, t[i].uid, desc))
				return false
			}
			subs = append(subs, msub{i, id})
			initSubs = append(initSubs, fmt.Sprintf("MSubscribe %d 0 %d", t[i].uid, id))
		}
	}
	// every property holds 0 before the first round
	for k := range t {
		if e.update(k, 0).kind != 2 {
			res.Fail("validator-not-obeyed", fmt.Sprintf("UpdateProperty(%s, 0) was refused: %s", t[k].name, desc))
			return false
		}
	}
	e.env.syncAll()
	for _, c := range e.env.conns {
		c.take()
	}
	accepted := make([][][]byte, len(writers)) // per written property: the data of the accepted writes (only kept with subscribers)

	var phase, done, readerDone, stop int32
	var wg sync.WaitGroup
	burstOf := int32(cfg.burst)
	for _, w := range writers {
		wg.Add(1)
		go func(w *c14MWriter) {
			defer wg.Done()
			for r := int32(1); ; r++ {
				if !c14MSpin(func() bool { return atomic.LoadInt32(&phase) >= r || atomic.LoadInt32(&stop) != 0 }, 30*time.Second) || atomic.LoadInt32(&stop) != 0 {
					return
				}
				w.burst(e, c14MBurst(w.kind, int(atomic.LoadInt32(&burstOf))))
				atomic.AddInt32(&done, 1)
			}
		}(w)
	}
	// the reader polls every property through a mailbox of its own while the writers run
	var rlog []c14MOp
	readerTid := len(writers)
	if cfg.reader {
		rport := newMail()
		wg.Add(1)
		go func() {
			defer wg.Done()
			k := 0
			for r := int32(1); ; r++ {
				if !c14MSpin(func() bool { return atomic.LoadInt32(&phase) >= r || atomic.LoadInt32(&stop) != 0 }, 30*time.Second) || atomic.LoadInt32(&stop) != 0 {
					return
				}
				rlog = rlog[:0]
				for atomic.LoadInt32(&done) < int32(len(writers)) && len(rlog) < 48 {
					k = (k + 1) % len(writers)
					op := c14MOp{tid: readerTid, kind: 0, prop: k, nm: c14Name{kind: 0, s: t[k].name}, via: "mailbox"}
					op.inv = e.tick()
					op.res, op.done = c14MGet(rport, op.nm)
					op.ret = e.tick()
					rlog = append(rlog, op)
					if !op.done {
						break
					}
				}
				atomic.StoreInt32(&readerDone, r)
			}
		}()
	}
	coordTid := len(writers) + 1
	coordMail := newMail()
	coordRaw := &c14MRawPort{e, 2}
	stats := c14MRaceStats{}
	ok := true
	var lastRound []*c14MOp
	var lastInit []string

	// window: the part of the round's history about property k from the write whose value the
	// failing read returned, plus the accepted writes to OTHER properties that overlap it
	report := func(kind string, k int, bad *c14MOp, round int, finals []*c14MOp) {
		w := writers[k]
		var win []*c14MOp
		got := uint32(0)
		isInt := bad.done && bad.res.kind == 0 && bad.res.val.sig == "i" && len(bad.res.val.data) == 4
		if isInt {
			got = binary.LittleEndian.Uint32(bad.res.val.data)
		}
		from := 0
		if isInt {
			for i := range w.log {
				if w.log[i].kind != 0 && w.log[i].res.kind == 2 && w.log[i].x == got {
					from = i
				}
			}
		}
		for i := from; i < len(w.log); i++ {
			if w.log[i].inv < bad.ret && &w.log[i] != bad {
				win = append(win, &w.log[i])
			}
		}
		for i := range rlog {
			if rlog[i].prop == k && rlog[i].ret <= bad.ret && len(win) > 0 && rlog[i].inv > win[0].inv && &rlog[i] != bad {
				win = append(win, &rlog[i])
			}
		}
		win = append(win, bad)
		if len(win) > 14 {
			win = win[len(win)-14:]
		}
		lo := win[0].inv
		var others []*c14MOp
		for _, v := range writers {
			if v == w {
				continue
			}
			for i := range v.log {
				o := &v.log[i]
				if o.kind != 0 && o.res.kind == 2 && o.inv < bad.ret && o.ret > lo && len(others) < 6 {
					others = append(others, o)
				}
			}
		}
		init := c14Int(w.start)
		proj := c14MProject(win, k)
		lin := c14Linearizable(&init, proj)
		var initOps []string
		for i, v := range writers {
			initOps = append(initOps, fmt.Sprintf("MUpdate %d %d", t[i].uid, v.start))
		}
		all := append(append([]*c14MOp(nil), win...), others...)
		term, _ := c14MCase(t, initOps, all, nil)
		_, wdesc := c14MHistory(t, win)
		_, odesc := c14MHistory(t, others)
		verdict := "no order of the operations on this property consistent with real time makes every read return the latest accepted write"
		if lin {
			verdict = "the read does not return the value of the last accepted write of the property"
		}
		detail := fmt.Sprintf("%s; round %d; property %q held %d when the round began; history of %q: %s — %s. Accepted writes to OTHER properties of the object that overlap it: %s",
			desc, round, t[k].name, int32(w.start), t[k].name, strings.Join(wdesc, " "), verdict, strings.Join(odesc, " "))
		res.Fail(kind, detail)
		cf.Add("mcases", term, fmt.Sprintf("race configuration %d, round %d, failing window: %s | %s", ci, round, strings.Join(wdesc, " "), strings.Join(odesc, " ")))
		ok = false
	}

	for round := 1; round <= cfg.rounds && ok; round++ {
		small := round == cfg.rounds // the last round is short and recorded whole
		if small {
			atomic.StoreInt32(&burstOf, 2)
		}
		atomic.StoreInt32(&done, 0)
		atomic.StoreInt32(&phase, int32(round))
		fin := c14MSpin(func() bool {
			return atomic.LoadInt32(&done) == int32(len(writers)) && (!cfg.reader || atomic.LoadInt32(&readerDone) == int32(round))
		}, 20*time.Second)
		if !fin {
			res.Fail("call-unanswered", fmt.Sprintf("%s; round %d did not finish within 20 s", desc, round))
			ok = false
			break
		}
		stats.rounds++
		// the coordinator reads every property: alternately through a mailbox and through the server
		var finals []*c14MOp
		for k := range t {
			var port c14MPort = coordMail
			if (round+k)%8 == 0 || small {
				port = coordRaw
			}
			op := &c14MOp{tid: coordTid, kind: 0, prop: k, nm: c14Name{kind: 0, s: t[k].name}, via: port.label()}
			op.inv = e.tick()
			op.res, op.done = c14MGet(port, op.nm)
			op.ret = e.tick()
			finals = append(finals, op)
		}
		// oracles
		for k, w := range writers {
			stats.writes += len(w.log) - 1
			if w.bad != "" {
				res.Fail(w.bad, fmt.Sprintf("%s; round %d: %s", desc, round, w.log[len(w.log)-1].str(t)))
				ok = false
				break
			}
			if cfg.subs {
				for i := range w.log {
					if w.log[i].kind != 0 && w.log[i].res.kind == 2 {
						accepted[k] = append(accepted[k], svU32(w.log[i].x))
					}
				}
			}
			rb := &w.log[len(w.log)-1]
			if !c14MIsInt(rb.res, w.last) {
				kind := "accepted-write-lost"
				if !(rb.res.kind == 0 && rb.res.val.sig == "i") {
					kind = "read-not-last-accepted-write"
				}
				report(kind, k, rb, round, finals)
				break
			}
			if !c14MIsInt(finals[k].res, w.last) {
				kind := "accepted-write-lost"
				if !finals[k].done {
					kind = "call-unanswered"
				} else if !(finals[k].res.kind == 0 && finals[k].res.val.sig == "i") {
					kind = "read-not-last-accepted-write"
				}
				report(kind, k, finals[k], round, finals)
				break
			}
		}
		for k := len(writers); k < len(t) && ok; k++ { // properties nobody writes keep their first value
			if !c14MIsInt(finals[k].res, 0) {
				res.Fail("unwritten-property-changed", fmt.Sprintf("%s; round %d: nobody wrote %q since UpdateProperty(%s, 0), yet %s", desc, round, t[k].name, t[k].name, finals[k].str(t)))
				ok = false
			}
		}
		// the reader: each read of property k lies between the last accepted write that returned
		// before the read began and the last one that was invoked before the read ended (the
		// accepted values of a property increase), and successive reads never go back
		if ok && cfg.reader {
			prev := make([]uint32, len(writers))
			for i, w := range writers {
				prev[i] = w.start
			}
			for i := range rlog {
				rd := &rlog[i]
				if !rd.done {
					res.Fail("call-unanswered", fmt.Sprintf("%s; round %d: %s", desc, round, rd.str(t)))
					ok = false
					break
				}
				w := writers[rd.prop]
				lower, upper := prev[rd.prop], w.start
				for j := range w.log {
					o := &w.log[j]
					if o.kind == 0 || o.res.kind != 2 {
						continue
					}
					if o.ret < rd.inv && o.x > lower {
						lower = o.x
					}
					if o.inv < rd.ret {
						upper = o.x
					}
				}
				if upper < lower {
					upper = lower
				}
				v := uint32(0)
				isInt := rd.res.kind == 0 && rd.res.val.sig == "i" && len(rd.res.val.data) == 4
				if isInt {
					v = binary.LittleEndian.Uint32(rd.res.val.data)
				}
				if !isInt || v < lower || v > upper {
					kind := "accepted-write-lost"
					if !isInt || v > upper {
						kind = "read-not-last-accepted-write"
					}
					// the window wants the earlier reads of the property too: they are in rlog
					report(kind, rd.prop, rd, round, finals)
					break
				}
				prev[rd.prop] = v
			}
		}
		if !ok {
			break
		}
		if small || round%64 == 1 { // how much the writers really overlapped (sampled)
			for i, w := range writers {
				for a := range w.log {
					o := &w.log[a]
					if o.kind == 0 || o.res.kind != 2 {
						continue
					}
					hit := false
					for j, v := range writers {
						if j == i {
							continue
						}
						for b := range v.log {
							p := &v.log[b]
							if p.kind != 0 && p.res.kind == 2 && p.inv < o.ret && o.inv < p.ret {
								hit = true
							}
						}
					}
					if hit {
						stats.overlaps++
					}
				}
			}
		}
		if small {
			for _, w := range writers {
				for i := range w.log {
					lastRound = append(lastRound, &w.log[i])
				}
				lastInit = append(lastInit, fmt.Sprintf("MUpdate %d %d", t[w.prop].uid, w.start))
			}
			for k := len(writers); k < len(t); k++ {
				lastInit = append(lastInit, fmt.Sprintf("MUpdate %d 0", t[k].uid))
			}
			n := len(rlog)
			if n > 8 {
				n = 8
			}
			for i := 0; i < n; i++ {
				lastRound = append(lastRound, &rlog[i])
			}
			lastRound = append(lastRound, finals...)
		}
	}
	atomic.StoreInt32(&stop, 1)
	wgDone := make(chan struct{})
	go func() { wg.Wait(); close(wgDone) }()
	select {
	case <-wgDone:
	case <-time.After(30 * time.Second):
		res.Fail("call-unanswered", desc+": the writers did not stop within 30 s")
		return false
	}
	// events: each subscription received exactly the accepted writes of ITS property
	if ok && cfg.subs {
		e.env.syncAll()
		got := make([][][]byte, len(writers))
		for _, m := range e.env.conns[0].take() {
			if m.Header.Type != net.Event {
				continue
			}
			for _, s := range subs {
				if m.Header.ID == s.mid && m.Header.Action == t[s.prop].uid {
					got[s.prop] = append(got[s.prop], m.Payload)
				}
			}
		}
		for _, s := range subs {
			if !c14SameMultiset(got[s.prop], accepted[s.prop]) {
				res.Fail("events-not-one-per-accepted-write", fmt.Sprintf("%s; the subscription to %q received %d events for %d accepted writes of that property (first difference: %s)",
					desc, t[s.prop].name, len(got[s.prop]), len(accepted[s.prop]), c14MFirstDiff(got[s.prop], accepted[s.prop])))
				ok = false
			}
		}
	}
	res.Dist(fmt.Sprintf("race-properties:%d", cfg.nprops))
	res.Dist(fmt.Sprintf("race-writers:%d", len(writers)))
	for _, k := range cfg.kinds {
		res.Distribution["race-writer:"+c14WKindName[k]]++
	}
	res.Distribution["race-rounds"] += stats.rounds
	res.Distribution["race-writes"] += stats.writes
	res.Distribution["race-sampled-accepted-writes-overlapping-a-write-to-another-property"] += stats.overlaps
	res.Count(fmt.Sprintf("race|%d|%v|%v|%v|%d|%d", cfg.nprops, cfg.kinds, cfg.reader, cfg.subs, cfg.rounds, cfg.burst), stats.overlaps > 0)
	if ok && len(lastRound) > 0 {
		term, d := c14MCase(t, lastInit, lastRound, nil)
		cf.Add("mcases", term, fmt.Sprintf("race configuration %d, last round: %s", ci, d))
		if ci < 2 {
			res.Sample(desc + ": " + d)
		}
	}
	return ok
}

func c14MFirstDiff(got, want [][]byte) string {
	for i := 0; i < len(got) || i < len(want); i++ {
		var g, w []byte
		if i < len(got) {
			g = got[i]
		}
		if i < len(want) {
			w = want[i]
		}
		if !bytes.Equal(g, w) {
			return fmt.Sprintf("position %d: received %x, written %x", i, g, w)
		}
	}
	return "same sequences in another order"
}

func c14MultiRace(res *hx.Result, rng *hx.Rng, cf *hx.Cases, tier string) {
	U, MN, MU, D, R := c14WUpdate, c14WMailName, c14WMailUID, c14WDirect, c14WRaw
	rounds, nrandom := 400, 6
	if tier == "thorough" {
		rounds, nrandom = 5000, 40
	}
	configs := []c14MConfig{
		{nprops: 2, kinds: []int{U, U}, rounds: rounds, burst: 16, scripted: true},
		{nprops: 2, kinds: []int{U, MN}, reader: true, rounds: rounds, burst: 16, scripted: true},
		{nprops: 3, kinds: []int{U, U, MU}, reader: true, rounds: rounds, burst: 12, scripted: true},
		{nprops: 4, kinds: []int{U, MN, D, R}, reader: true, rounds: rounds / 4, burst: 16, scripted: true},
		{nprops: 8, kinds: []int{U, U, U, U, MN, MU}, rounds: rounds, burst: 8, scripted: true},
		{nprops: 3, kinds: []int{U, U, MN}, subs: true, rounds: rounds / 4, burst: 4, scripted: true},
	}
	for i := 0; i < nrandom; i++ {
		k := 2 + rng.Intn(7)
		w := 2 + rng.Intn(5)
		if w > k {
			w = k
		}
		c := c14MConfig{nprops: k, reader: rng.Bool(), rounds: rounds, burst: 4 + rng.Intn(20)}
		for j := 0; j < w; j++ {
			kind := []int{U, U, U, U, MN, MN, MU, D, R}[rng.Intn(9)]
			if kind == D || kind == R {
				c.rounds = rounds / 4
			}
			c.kinds = append(c.kinds, kind)
		}
		if rng.Intn(4) == 0 {
			c.subs = true
			c.rounds = rounds / 4
			if c.burst > 6 {
				c.burst = 6
			}
		}
		configs = append(configs, c)
	}
	for i, c := range configs {
		if !c14MRace(res, rng, cf, i, c) {
			return // the first failure ends the family
		}
	}
	// several writers of ONE property, subscribers on every property
	shared := []c14MConfig{
		{nprops: 2, kinds: []int{U, U}, rounds: rounds / 2, burst: 3},
		{nprops: 3, kinds: []int{U, MN, U}, rounds: rounds / 2, burst: 2},
		{nprops: 2, kinds: []int{U, R}, rounds: rounds / 4, burst: 2},
		{nprops: 3, kinds: []int{MU, D, U}, rounds: rounds / 4, burst: 2},
		{nprops: 2, kinds: []int{U, U, U, U}, rounds: rounds / 2, burst: 8}, // long rounds: decided without search, not given to the model
		{nprops: 3, kinds: []int{U, MN, U, MU, U, U}, rounds: rounds / 2, burst: 6},
	}
	for i, c := range shared {
		if !c14MShared(res, rng, cf, i, c) {
			return
		}
	}
}

// ---------- family 1b: rounds of writers racing on ONE property of a several-property object, subscribers on every property ----------

// c14MShared: the writers all write property `target` (distinct values); every property has a
// subscriber on connection 0.  After each round: the whole round (writes, read-backs, a final read)
// must be linearizable for the register; the subscription to the target received exactly the
// accepted writes of the round, the other subscriptions nothing.  Returns false after a failure.
func c14MShared(res *hx.Result, rng *hx.Rng, cf *hx.Cases, ci int, cfg c14MConfig) bool {
	t := c14MTable(cfg.nprops)
	e, err := c14MNewEnv(t)
	if err != nil {
		res.Fail("harness-setup", err.Error())
		return false
	}
	defer e.close()
	var mailPorts []*c14MMailPort
	defer func() {
		for _, p := range mailPorts {
			p.close()
		}
	}()
	target := cfg.nprops - 1
	var kindNames []string
	writers := make([]*c14MWriter, len(cfg.kinds))
	for i, k := range cfg.kinds {
		w := &c14MWriter{tid: i, kind: k, prop: target, mul: 8, add: uint32(i), rnd: rng.U64() | 1, log: make([]c14MOp, 0, cfg.burst+2)}
		switch k {
		case c14WDirect:
			w.port = e.directPort()
		case c14WRaw:
			w.port = &c14MRawPort{e, 1}
		default:
			p := e.mailPort()
			mailPorts = append(mailPorts, p)
			w.port = p
		}
		writers[i] = w
		kindNames = append(kindNames, fmt.Sprintf("t%d: %s", i, c14WKindName[k]))
	}
	desc := fmt.Sprintf("object with %d int32 properties, %d writers of the one property %q (%s), one subscriber per property", cfg.nprops, len(writers), t[target].name, strings.Join(kindNames, "; "))
	mids := make([]uint32, len(t))
	var initOps []string
	for k := range t {
		id := e.msgID()
		c := e.env.conns[0]
		if err := c.send(net.Call, e.sid, 1, 0, id, append(svU32(1, t[k].uid), svU32(uint32(900+k), 0)...)); err != nil {
			res.Fail("harness-setup", "registerEvent: "+err.Error())
			return false
		}
		if m := c.waitSeen(id, 5*time.Second); m == nil || m.Header.Type != net.Reply {
			res.Fail("subscribe-refused", fmt.Sprintf("registerEvent for property %q (uid %d) was refused: %s", t[k].name, t[k].uid, desc))
			return false
		}
		mids[k] = id
		initOps = append(initOps, fmt.Sprintf("MSubscribe %d 0 %d", t[k].uid, id))
	}
	for k := range t {
		if e.update(k, 0).kind != 2 {
			res.Fail("validator-not-obeyed", fmt.Sprintf("UpdateProperty(%s, 0) was refused: %s", t[k].name, desc))
			return false
		}
	}
	e.env.syncAll()
	for _, c := range e.env.conns {
		c.take()
	}
	var phase, done, stop int32
	var wg sync.WaitGroup
	for _, w := range writers {
		wg.Add(1)
		go func(w *c14MWriter) {
			defer wg.Done()
			for r := int32(1); ; r++ {
				if !c14MSpin(func() bool { return atomic.LoadInt32(&phase) >= r || atomic.LoadInt32(&stop) != 0 }, 30*time.Second) || atomic.LoadInt32(&stop) != 0 {
					return
				}
				w.burst(e, cfg.burst)
				atomic.AddInt32(&done, 1)
			}
		}(w)
	}
	coord := &c14MRawPort{e, 2}
	ok := true
	cur := uint32(0) // what the target held when the round began
	rounds, overlaps := 0, 0
	var lastTerm, lastDesc string
	for round := 1; round <= cfg.rounds && ok; round++ {
		atomic.StoreInt32(&done, 0)
		atomic.StoreInt32(&phase, int32(round))
		if !c14MSpin(func() bool { return atomic.LoadInt32(&done) == int32(len(writers)) }, 20*time.Second) {
			res.Fail("call-unanswered", fmt.Sprintf("%s; round %d did not finish within 20 s", desc, round))
			ok = false
			break
		}
		rounds++
		final := &c14MOp{tid: len(writers), kind: 0, prop: target, nm: c14Name{kind: 0, s: t[target].name}, via: coord.label()}
		final.inv = e.tick()
		final.res, final.done = c14MGet(coord, final.nm)
		final.ret = e.tick()
		if !e.env.conns[0].sync() {
			res.Fail("call-unanswered", fmt.Sprintf("%s; round %d: the subscriber's connection did not answer the barrier call within 5 s", desc, round))
			ok = false
			break
		}
		var all []*c14MOp
		var acc [][]byte
		for _, w := range writers {
			if w.bad != "" {
				res.Fail(w.bad, fmt.Sprintf("%s; round %d: %s", desc, round, w.log[len(w.log)-1].str(t)))
				ok = false
			}
			for i := range w.log {
				o := &w.log[i]
				all = append(all, o)
				if o.kind != 0 && o.res.kind == 2 {
					acc = append(acc, svU32(o.x))
					for _, v := range writers {
						for j := range v.log {
							if p := &v.log[j]; v != w && p.kind != 0 && p.res.kind == 2 && p.inv < o.ret && o.inv < p.ret {
								overlaps++
							}
						}
					}
				}
			}
		}
		if !ok {
			break
		}
		all = append(all, final)
		got := make([][][]byte, len(t))
		stray := 0
		for _, m := range e.env.conns[0].take() {
			if m.Header.Type != net.Event {
				continue
			}
			hit := false
			for k := range t {
				if m.Header.ID == mids[k] && m.Header.Action == t[k].uid {
					got[k] = append(got[k], m.Payload)
					hit = true
				}
			}
			if !hit {
				stray++
			}
		}
		var evTerms, evDesc []string
		for k := range t {
			var pl, pd []string
			for _, d := range got[k] {
				pl = append(pl, hx.Str(hex.EncodeToString(d)))
				if len(d) == 4 {
					pd = append(pd, fmt.Sprint(int32(binary.LittleEndian.Uint32(d))))
				} else {
					pd = append(pd, hex.EncodeToString(d))
				}
			}
			evTerms = append(evTerms, fmt.Sprintf("(%d, 0%%nat, %d, [%s])", t[k].uid, mids[k], strings.Join(pl, "; ")))
			evDesc = append(evDesc, fmt.Sprintf("%q: [%s]", t[k].name, strings.Join(pd, " ")))
		}
		init := append(append([]string(nil), initOps...), fmt.Sprintf("MUpdate %d %d", t[target].uid, cur))
		for k := range t {
			if k != target {
				init = append(init, fmt.Sprintf("MUpdate %d 0", t[k].uid))
			}
		}
		// a round of at most 14 operations is decided whole (linearizability search here, lin_check in
		// the model); a longer one by the oracles that need no search, and it is reported through the
		// writes whose value was not received exactly once and the final read
		full := len(all) <= 14
		shown := all
		if !full {
			shown = nil
			for _, o := range all {
				if o.kind == 0 || o.res.kind != 2 {
					continue
				}
				n := 0
				for _, d := range got[target] {
					if bytes.Equal(d, svU32(o.x)) {
						n++
					}
				}
				if n != 1 {
					shown = append(shown, o)
				}
			}
			shown = append(shown, final)
		}
		term, _ := c14MCase(t, init, all, evTerms)
		_, sdesc := c14MHistory(t, shown)
		what := "history"
		if !full {
			what = fmt.Sprintf("of the %d operations of the round, the accepted writes whose value was not received exactly once, and the final read", len(all))
		}
		text := fmt.Sprintf("%s; round %d; %q held %d when the round began; %s: %s; change events received by the subscriptions meanwhile: %s", desc, round, t[target].name, int32(cur), what, strings.Join(sdesc, " "), strings.Join(evDesc, ", "))
		failed := func(kind, what string) {
			res.Fail(kind, what+": "+text)
			ok = false
		}
		iv := c14Int(cur)
		switch {
		case !final.done:
			failed("call-unanswered", "the final read got no answer")
		case full:
			if !c14Linearizable(&iv, c14MProject(all, target)) {
				failed("not-linearizable", "no order of these operations consistent with real time makes every read return the latest accepted write")
			}
		default:
			// the final read returns an accepted write of the round that no other accepted write follows
			// in real time — or, when none was accepted, what the property held
			good, any := false, false
			for _, c := range all {
				if c.kind == 0 || c.res.kind != 2 {
					continue
				}
				any = true
				if !c14MIsInt(final.res, c.x) {
					continue
				}
				last := true
				for _, o := range all {
					if o.kind != 0 && o.res.kind == 2 && o.inv > c.ret {
						last = false
					}
				}
				good = good || last
			}
			if !any {
				good = c14MIsInt(final.res, cur)
			}
			if !good {
				failed("not-linearizable", "the final read returns no accepted write that could be the last one in an order consistent with real time")
			}
		}
		if !c14SameMultiset(got[target], acc) {
			failed("events-not-one-per-accepted-write", fmt.Sprintf("the subscription to %q did not receive exactly one event, carrying the written value, per accepted write", t[target].name))
		}
		for k := range t {
			if k != target && len(got[k]) != 0 {
				failed("event-without-accepted-write", fmt.Sprintf("nobody wrote %q, its subscription received %d events", t[k].name, len(got[k])))
			}
		}
		if stray != 0 {
			failed("event-without-subscription", fmt.Sprintf("%d event frames match no subscription", stray))
		}
		if !ok {
			if full {
				cf.Add("mcases", term, fmt.Sprintf("shared-property configuration %d, round %d (failing): %s", ci, round, text))
			}
			break
		}
		if full {
			lastTerm, lastDesc = term, text
		}
		if final.res.kind == 0 && len(final.res.val.data) == 4 {
			cur = binary.LittleEndian.Uint32(final.res.val.data)
		}
		lastTerm, lastDesc = term, text
	}
	atomic.StoreInt32(&stop, 1)
	wgDone := make(chan struct{})
	go func() { wg.Wait(); close(wgDone) }()
	select {
	case <-wgDone:
	case <-time.After(30 * time.Second):
		res.Fail("call-unanswered", desc+": the writers did not stop within 30 s")
		return false
	}
	res.Dist(fmt.Sprintf("shared-writers:%d", len(writers)))
	res.Distribution["shared-rounds"] += rounds
	res.Distribution["shared-accepted-writes-overlapping-another-accepted-write-of-the-property"] += overlaps
	res.Count(fmt.Sprintf("shared|%d|%v|%d|%d", cfg.nprops, cfg.kinds, cfg.rounds, cfg.burst), overlaps > 0)
	if ok && lastTerm != "" {
		cf.Add("mcases", lastTerm, fmt.Sprintf("shared-property configuration %d, last round: %s", ci, lastDesc))
		if ci == 0 {
			res.Sample(lastDesc)
		}
	}
	return ok
}

// ---------- family 2: small histories, any thread on any property ----------

func c14MGenName(rng *hx.Rng, t []c14MProp, k int, forGet bool) c14Name {
	switch rng.Intn(12) {
	case 0:
		return c14Name{kind: 0, s: "other"}
	case 1, 2, 3:
		return c14Name{kind: 1, n: t[k].uid}
	case 4:
		return c14Name{kind: 1, n: 7}
	case 5:
		if !forGet {
			return c14Name{kind: 2, n: t[k].uid}
		}
	}
	return c14Name{kind: 0, s: t[k].name}
}

func c14MultiConcurrent(res *hx.Result, rng *hx.Rng, cf *hx.Cases, n int) {
	for i := 0; i < n; i++ {
		nprops := 2 + rng.Intn(2)
		t := c14MTable(nprops)
		e, err := c14MNewEnv(t)
		if err != nil {
			res.Fail("harness-setup", err.Error())
			return
		}
		var initOps []string
		type msub struct {
			prop, conn int
			mid        uint32
		}
		var subs []msub
		for k := range t {
			conn := k % 2
			id := e.msgID()
			c := e.env.conns[conn]
			if err := c.send(net.Call, e.sid, 1, 0, id, append(svU32(1, t[k].uid), svU32(uint32(800+k), 0)...)); err != nil {
				continue
			}
			if m := c.waitSeen(id, 5*time.Second); m != nil && m.Header.Type == net.Reply {
				subs = append(subs, msub{k, conn, id})
				initOps = append(initOps, fmt.Sprintf("MSubscribe %d %d %d", t[k].uid, conn, id))
			} else {
				res.Fail("subscribe-refused", fmt.Sprintf("registerEvent for property %q (uid %d) of an object with %d properties was refused", t[k].name, t[k].uid, nprops))
			}
		}
		inits := make([]*c14Val, nprops)
		for k := range t {
			if rng.Bool() {
				x := uint32(10 + k)
				if e.update(k, x).kind == 2 {
					v := c14Int(x)
					inits[k] = &v
					initOps = append(initOps, fmt.Sprintf("MUpdate %d %d", t[k].uid, x))
				}
			}
		}
		e.env.syncAll()
		for _, c := range e.env.conns {
			c.take()
		}
		// threads: 0, 1 service-side goroutines; 2, 3 mailboxes of their own; 4 DirectClient; 5 a server connection
		nthreads := 3 + rng.Intn(3)
		kinds := rng.Intn(6)
		var mails []*c14MMailPort
		ports := make([]c14MPort, nthreads)
		tkind := make([]int, nthreads)
		for th := 0; th < nthreads; th++ {
			tkind[th] = (kinds + th*5) % 6 // a permutation step: all six kinds come up, two service-side goroutines are common
			switch tkind[th] {
			case 0, 1, 2, 3:
				p := e.mailPort()
				mails = append(mails, p)
				ports[th] = p
			case 4:
				ports[th] = e.directPort()
			default:
				ports[th] = &c14MRawPort{e, 2}
			}
		}
		threads := make([][]*c14MOp, nthreads)
		val := uint32(20)
		for th := 0; th < nthreads; th++ {
			home := th % nprops // most of a thread's writes go to one property: threads write DIFFERENT properties
			cnt := 2 + rng.Intn(3)
			for j := 0; j < cnt; j++ {
				k := home
				if rng.Chance(0.25) {
					k = rng.Intn(nprops)
				}
				o := &c14MOp{tid: th, via: ports[th].label()}
				val++
				switch {
				case rng.Chance(0.3):
					o.kind = 0
					o.nm = c14MGenName(rng, t, k, true)
					o.prop = e.resolve(o.nm, true)
				case tkind[th] < 2:
					o.kind = 2
					o.prop = k
					o.x = val
					if rng.Chance(0.15) {
						o.x = uint32(-int32(val))
					}
					o.via = "service"
				default:
					o.kind = 1
					o.nm = c14MGenName(rng, t, k, false)
					o.prop = e.resolve(o.nm, false)
					o.v = c14Int(val)
					switch rng.Intn(10) {
					case 0:
						o.v = c14Int(uint32(-int32(val)))
					case 1:
						o.v, _ = c14GenVal(rng)
					}
				}
				threads[th] = append(threads[th], o)
			}
		}
		var phase int32
		var wg sync.WaitGroup
		for th := 0; th < nthreads; th++ {
			wg.Add(1)
			go func(th int) {
				defer wg.Done()
				c14MSpin(func() bool { return atomic.LoadInt32(&phase) == 1 }, 5*time.Second)
				for _, o := range threads[th] {
					o.done = true
					o.inv = e.tick()
					switch o.kind {
					case 0:
						o.res, o.done = c14MGet(ports[th], o.nm)
					case 2:
						o.res = e.update(o.prop, o.x)
					default:
						o.res, o.done = c14MSet(ports[th], o.nm, o.v)
					}
					o.ret = e.tick()
				}
			}(th)
		}
		atomic.StoreInt32(&phase, 1)
		wg.Wait()
		var all []*c14MOp
		for _, th := range threads {
			all = append(all, th...)
		}
		// final reads pin the last value of every property down
		fport := &c14MRawPort{e, 2}
		for k := range t {
			o := &c14MOp{tid: 9, kind: 0, prop: k, nm: c14Name{kind: 0, s: t[k].name}, via: fport.label()}
			o.inv = e.tick()
			o.res, o.done = c14MGet(fport, o.nm)
			o.ret = e.tick()
			all = append(all, o)
		}
		e.env.syncAll()
		type mev struct {
			conn   int
			action uint32
			mid    uint32
			data   []byte
		}
		var evs []mev
		for ci, c := range e.env.conns {
			for _, m := range c.take() {
				if m.Header.Type == net.Event {
					evs = append(evs, mev{ci, m.Header.Action, m.Header.ID, m.Payload})
				}
			}
		}
		for _, p := range mails {
			p.close()
		}
		e.close()

		_, descs := c14MHistory(t, all)
		trace := fmt.Sprintf("object with properties %v: %s", t, strings.Join(descs, " "))
		untyped, overlap, crossOverlap := false, false, false
		for _, o := range all {
			if !o.done {
				res.Fail("call-unanswered", "an operation of a concurrent history got no answer: "+o.str(t)+" in "+trace)
				continue
			}
			if o.kind == 1 && o.res.kind == 2 && o.v.sig != "i" {
				untyped = true
			}
			if o.kind != 0 && o.res.kind == 2 && o.prop < 0 {
				res.Fail("write-to-unknown-name-accepted", o.str(t)+" in "+trace)
			}
			if o.kind == 0 && o.res.kind == 0 && o.prop < 0 {
				res.Fail("read-of-unknown-name-answered", o.str(t)+" in "+trace)
			}
			for _, p := range all {
				if p.tid != o.tid && p.inv < o.ret && o.inv < p.ret {
					overlap = true
					if o.kind != 0 && p.kind != 0 && o.res.kind == 2 && p.res.kind == 2 && o.prop != p.prop {
						crossOverlap = true
					}
				}
			}
		}
		fail := func(kind, detail string) {
			if untyped {
				res.FailKnown(kind, detail, "store_untyped")
			} else {
				res.Fail(kind, detail)
			}
		}
		var evTerms []string
		for k := range t {
			proj := c14MProject(all, k)
			if !c14Linearizable(inits[k], proj) {
				var pd []string
				for _, o := range all {
					if o.prop == k {
						pd = append(pd, o.str(t))
					}
				}
				res.Fail("not-linearizable", fmt.Sprintf("property %q: no order of the operations on it consistent with real time makes every read return the latest accepted write of that property: %s — whole history: %s", t[k].name, strings.Join(pd, " "), trace))
			}
			var acc [][]byte
			for _, o := range all {
				if o.prop == k && o.done && o.kind != 0 && o.res.kind == 2 {
					acc = append(acc, o.written().data)
				}
				if o.prop == k && o.done && o.kind == 0 && o.res.kind == 0 && o.res.val.sig != "i" {
					fail("stored-value-not-of-declared-type", fmt.Sprintf("%s returned signature %q: %s", o.str(t), o.res.val.sig, trace))
				}
			}
			for _, s := range subs {
				if s.prop != k {
					continue
				}
				var got [][]byte
				var pl []string
				for _, ev := range evs {
					if ev.conn == s.conn && ev.mid == s.mid && ev.action == t[k].uid {
						got = append(got, ev.data)
						pl = append(pl, hx.Str(hex.EncodeToString(ev.data)))
					}
				}
				if !c14SameMultiset(got, acc) {
					fail("events-not-one-per-accepted-write", fmt.Sprintf("the subscription to %q (conn %d, id %d) received payloads %x, the accepted writes of that property carried %x: %s", t[k].name, s.conn, s.mid, got, acc, trace))
				}
				evTerms = append(evTerms, fmt.Sprintf("(%d, %d%%nat, %d, [%s])", t[k].uid, s.conn, s.mid, strings.Join(pl, "; ")))
			}
		}
		for _, ev := range evs { // an event nobody subscribed to, or of a property under another subscription's id
			known := false
			for _, s := range subs {
				if ev.conn == s.conn && ev.mid == s.mid && ev.action == t[s.prop].uid {
					known = true
				}
			}
			if !known {
				fail("event-without-subscription", fmt.Sprintf("event (conn %d, action %d, id %d, %x) matches no subscription: %s", ev.conn, ev.action, ev.mid, ev.data, trace))
			}
		}
		term, _ := c14MCase(t, initOps, all, evTerms)
		res.Count("multi|"+term, crossOverlap)
		res.Dist(fmt.Sprintf("multi-properties:%d", nprops))
		res.Dist(fmt.Sprintf("multi-threads:%d", nthreads))
		if overlap {
			res.Dist("multi-overlapping")
		}
		if crossOverlap {
			res.Dist("multi-overlapping-accepted-writes-to-different-properties")
		}
		if i < 2 {
			res.Sample(trace)
		}
		cf.Add("mcases", term, fmt.Sprintf("multi-property history %d: %s", i, trace))
	}
}
