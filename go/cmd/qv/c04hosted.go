package main

// C04 (xii) — objects HOSTED BY A CLIENT, called by several callers at once.
//
// An object does not have to live in the process of the service: generated stubs publish every
// object-typed argument with Service.Add(bus.NewClientObject(remoteID, from)) (LogManager.AddProvider,
// the space example), and the hosting side serves it on its own connection through a service
// reference (bus.NewServiceReference(...).Add(actor)).  A call to such an object makes TWO hops:
// caller -> server, where the clientObject relay issues a call of its own on the hosting connection
// (a second message id, a second reply handler), hosting client -> server -> caller.  Everything the
// relay keeps from one forwarded message to the next (its client, the id counter) is reached by this
// use only, and by nothing else in the harness.  Every caller must get the result of ITS arguments.
//
// Service 5 of the harness = a registrar (action 200: uint32 remote id -> uint32 public id) which
// publishes an object of the calling connection in its own service.  The hosted objects speak the
// probe protocol (action 100: string -> "re:"+arg+"#"+n) with execution counters in the harness.
// One run = 1-2 hosting connections with 1-2 objects each, 1-2 further connections (+ the server's
// local client every third run), all real clients over the frame relay; every connection calls,
// the hosting ones too:
//   in turn   every caller calls every hosted object, one call at a time;
//   gated     one caller's call to object X is held inside the hosted method while every other caller
//             (and the same client a second time) calls X, and everybody calls another hosted object,
//             which answers at once: the relayed calls are all in flight on the hosting connection;
//             then the first call is released;
//   timed     1-2 goroutines per caller, 3-5 calls each to random hosted objects (methods take
//             0-300 us) and now and then to the PingPong objects of the server;
//   gated     again, on another object (the second wave through the same relay).
// Oracle, per call, unchanged (c04FeatRun.judge).  Trace check in Coq (tcase): every connection as
// usual; the hosting connections also with the directions swapped - every Reply written by the hosting
// client answers exactly one Call the relay wrote on that connection, once, with the result of that
// call's own payload.

import (
	"encoding/binary"
	"fmt"
	"sync"
	"time"

	"github.com/lugu/qiloop/bus"
	"github.com/lugu/qiloop/bus/net"
	"qv/internal/hx"
)

const c04HostSvc = 5

type c04Registrar struct {
	service bus.Service
}

func (g *c04Registrar) Activate(a bus.Activation) error { g.service = a.Service; return nil }
func (g *c04Registrar) OnTerminate()                    {}
func (g *c04Registrar) Receive(m *net.Message, from bus.Channel) error {
	if m.Header.Type != net.Call {
		return nil
	}
	if m.Header.Action != 200 || len(m.Payload) != 4 {
		return from.SendError(m, bus.ErrActionNotFound)
	}
	id, err := g.service.Add(bus.NewClientObject(binary.LittleEndian.Uint32(m.Payload), from))
	if err != nil {
		return from.SendError(m, err)
	}
	out := make([]byte, 4)
	binary.LittleEndian.PutUint32(out, id)
	return from.SendReply(m, out)
}

// c04Hosted: the object a client hosts
type c04Hosted struct {
	cnt   *c04Counters
	mu    sync.Mutex
	delay func() time.Duration
}

func (o *c04Hosted) Activate(a bus.Activation) error { return nil }
func (o *c04Hosted) OnTerminate()                    {}
func (o *c04Hosted) Receive(m *net.Message, from bus.Channel) error {
	if m.Header.Type != net.Call {
		return nil
	}
	arg, ok := c04DecodeStr(m.Payload)
	if m.Header.Action != 100 || !ok {
		return from.SendError(m, bus.ErrActionNotFound)
	}
	n := o.cnt.run(c04Key(c04HostSvc, "hello", arg))
	o.mu.Lock()
	d := o.delay
	o.mu.Unlock()
	if d != nil {
		if x := d(); x > 0 {
			time.Sleep(x)
		}
	}
	return from.SendReply(m, c04Str(fmt.Sprintf("re:%s#%d", arg, n)))
}

type c04HostedObj struct {
	pub, remote uint32
	host        int
	impl        *c04Hosted
	name        string
}

// c04TraceTermSwapped: the trace of a hosting connection seen from the other side: the server is the
// caller (the relay's Calls), the client the one that answers
func c04TraceTermSwapped(l *c04Link) string {
	l.mu.Lock()
	l.c2s, l.s2c = l.s2c, l.c2s
	l.mu.Unlock()
	t := c04TraceTerm(l)
	l.mu.Lock()
	l.c2s, l.s2c = l.s2c, l.c2s
	l.mu.Unlock()
	return t
}

func (h *c04Harness) hostedRun(res *hx.Result, rng *hx.Rng, cases *hx.Cases, k, nhost, nother int, withLocal bool) (hung int) {
	r := &c04FeatRun{h: h, res: res, st: &c04FeatState{stats: map[uint32]bool{}, trace: map[uint32]bool{}}, tag: fmt.Sprintf("ho%d", k)}
	for i := 0; i < nhost+nother; i++ {
		l, err := h.newLink()
		if err != nil {
			res.Fail("harness", "hosted-object run: "+err.Error())
			return 0
		}
		name := fmt.Sprintf("connection %c", 'A'+i)
		if i < nhost {
			name += " (hosting)"
		}
		r.callers = append(r.callers, &c04FeatCaller{name: name, client: l.client, link: l})
	}
	if withLocal {
		r.callers = append(r.callers, &c04FeatCaller{name: "the server's local client", client: h.srv.Client()})
	}
	defer func() {
		for _, cl := range r.callers {
			if cl.link != nil {
				cl.link.ep.Close()
			}
		}
	}()
	nc := len(r.callers)
	r.scen = fmt.Sprintf("hosted-object run %d (%d connection(s) hosting objects published in service %d through NewClientObject + Service.Add, %d other connection(s)%s; real clients over the frame relay, every connection calls the hosted objects)",
		k, nhost, c04HostSvc, nother, map[bool]string{true: " + the server's local client", false: ""}[withLocal])
	res.Sample(r.scen)
	res.Dist(fmt.Sprintf("hosted:%dhost:%dother:local=%v", nhost, nother, withLocal))
	stop := func() bool { return r.hung >= 3 }
	// ---- the hosting clients publish their objects ----
	var objs []*c04HostedObj
	for hi := 0; hi < nhost; hi++ {
		cl := r.callers[hi]
		ref := bus.NewServiceReference(nil, cl.link.ep, c04HostSvc)
		for j := 0; j < 1+(k+hi)%2; j++ {
			impl := &c04Hosted{cnt: h.cnt}
			rid, err := ref.Add(impl)
			if err != nil {
				res.Fail("harness", "hosted-object run: "+err.Error())
				return 0
			}
			p := make([]byte, 4)
			binary.LittleEndian.PutUint32(p, rid)
			c := &c04FeatCall{who: hi, svc: c04HostSvc, act: 200, payload: p, kind: fkObjectID,
				what: fmt.Sprintf("publish(%d) (the registrar adds a relay to object %d of the calling connection to its service)", rid, rid)}
			r.one(c, "publishing")
			c.mu.Lock()
			published := c.returned && c.err == nil && len(c.out) == 4
			c.mu.Unlock()
			if !published {
				return r.hung
			}
			o := &c04HostedObj{pub: binary.LittleEndian.Uint32(c.out), remote: rid, host: hi, impl: impl}
			o.name = fmt.Sprintf("object %d (hosted by %s as %d)", o.pub, cl.name, rid)
			objs = append(objs, o)
		}
	}
	call := func(who int, o *c04HostedObj) *c04FeatCall {
		c := r.hello(who, c04HostSvc)
		c.obj = o.pub
		c.what += " for " + o.name
		return c
	}
	setDelay := func(f func() time.Duration) {
		for _, o := range objs {
			o.impl.mu.Lock()
			o.impl.delay = f
			o.impl.mu.Unlock()
		}
	}
	inTurn := func() {
		for _, who := range c04Perm(rng, nc) {
			for _, o := range objs {
				if stop() {
					return
				}
				r.one(call(who, o), "callers in turn")
			}
		}
	}
	gated := func(x *c04HostedObj, wave int) {
		first := rng.Intn(nc)
		pn := fmt.Sprintf("gated wave %d: the call of %s to %s is held inside the hosted method while every caller calls the same object (and everybody another one), then released", wave, r.callers[first].name, x.name)
		c0 := call(first, x)
		held, release := h.cnt.hold(c04Key(c04HostSvc, "hello", c0.arg))
		defer release()
		calls := []*c04FeatCall{c0}
		dones := []<-chan struct{}{r.start(c0)}
		if !c04WaitCh(held, c04TearStep) {
			h.note(fmt.Sprintf("hosted-object run %d: the held call did not reach the hosted method", k))
		}
		for _, who := range c04Perm(rng, nc) { // `first` too: a second call of the same client
			c := call(who, x)
			calls = append(calls, c)
			dones = append(dones, r.start(c))
		}
		r.written()
		for _, who := range c04Perm(rng, nc) {
			var c *c04FeatCall
			if len(objs) > 1 {
				y := objs[rng.Intn(len(objs))]
				for y == x {
					y = objs[rng.Intn(len(objs))]
				}
				c = call(who, y)
			} else {
				c = r.hello(who, 1)
			}
			calls = append(calls, c)
			dones = append(dones, r.start(c))
		}
		r.written()
		release()
		r.await(dones)
		for _, c := range calls {
			r.judge(c, pn)
		}
		res.Dist("hosted:gated-wave")
	}
	timed := func() {
		pn := "timed wave: 1-2 goroutines per caller call random hosted objects (methods taking 0-300 us) and the server's own objects"
		var dmu sync.Mutex
		dr := hx.NewRng(rng.U64())
		setDelay(func() time.Duration { dmu.Lock(); defer dmu.Unlock(); return time.Duration(dr.Intn(300)) * time.Microsecond })
		defer setDelay(nil)
		var wmu sync.Mutex
		var all []*c04FeatCall
		var wg sync.WaitGroup
		for who := 0; who < nc; who++ {
			for g := 0; g < 1+rng.Intn(2); g++ {
				var mine []*c04FeatCall
				for i := 0; i < 3+rng.Intn(3); i++ {
					if rng.Chance(0.2) {
						mine = append(mine, r.hello(who, uint32(rng.Pick(1, 3))))
					} else {
						mine = append(mine, call(who, objs[rng.Intn(len(objs))]))
					}
				}
				all = append(all, mine...)
				wg.Add(1)
				go func(mine []*c04FeatCall) {
					defer wg.Done()
					for _, c := range mine {
						wmu.Lock()
						d := r.start(c)
						wmu.Unlock()
						if !c04WaitCh(d, c04FeatDeadline) {
							return
						}
					}
				}(mine)
			}
		}
		wdone := make(chan struct{})
		go func() { wg.Wait(); close(wdone) }()
		c04WaitCh(wdone, 2*c04FeatDeadline)
		r.judgeIssued(all, nil, pn)
		res.Dist("hosted:timed-wave")
	}
	inTurn()
	if !stop() {
		gated(objs[k%len(objs)], 1)
	}
	if !stop() {
		timed()
	}
	if !stop() {
		gated(objs[(k+1)%len(objs)], 2)
	}
	if !stop() {
		inTurn()
	}
	for li, cl := range r.callers {
		if cl.link == nil {
			continue
		}
		cl.link.cs.WaitIdle(c04FeatDeadline)
		cl.link.ss.WaitIdle(c04FeatDeadline)
		cases.Add("ts", c04TraceTerm(cl.link), fmt.Sprintf("hosted-object run %d connection %d: frames written by the client and by the server", k, li))
		if li < nhost {
			cases.Add("ts", c04TraceTermSwapped(cl.link), fmt.Sprintf("hosted-object run %d hosting connection %d, directions swapped: Calls written by the server's relay, answers written by the hosting client", k, li))
		}
	}
	return r.hung
}

func (h *c04Harness) hostedObjects(res *hx.Result, rng *hx.Rng, cases *hx.Cases, tier string) {
	s, err := h.srv.NewService("c04host", &c04Registrar{})
	if err != nil {
		res.Fail("harness", "registrar service: "+err.Error())
		return
	}
	if s.ServiceID() != c04HostSvc {
		res.Fail("harness", fmt.Sprintf("registrar service has id %d, want %d", s.ServiceID(), c04HostSvc))
		return
	}
	runs := 4
	if tier == "thorough" {
		runs = 80
	}
	for k := 1; k <= runs; k++ {
		if h.hostedRun(res, rng, cases, k, 1+(k+1)%2, 1+k%2, k%3 == 0) > 0 {
			h.note(fmt.Sprintf("hosted-object runs: stopped after run %d, calls did not return", k))
			break
		}
	}
}
