package main

// C16, client side (round 6): what the other parts of the harness never did is to look at the
// property through the REAL client library.  They write raw frames and read raw frames, so
// everything between the wire and the user of a proxy (bus/net/endpoint.go handlers, filters,
// closers; bus/client.go Subscribe; bus/proxy.go SubscribeID fan-out; bus/service_reference.go)
// was invisible.  Here real proxies subscribe and read their channels, and objects are added
// both through Service.Add on the server and through a service REFERENCE (clientService.Add, the
// identifiers of 2^31 and above).  Oracles on the implementation only (the model has no client
// library): identifiers unique; every object callable through every proxy; every emission
// reaches every subscription exactly once; after the removal / own termination the hook has run
// exactly once, EVERY remaining subscription is told (its channel is closed, no event before),
// a second Remove is refused and runs nothing, later calls through the proxies of a server-side
// object are answered with an error and invoke nothing, and the other object (hook, subscriber,
// events) is untouched.

import (
	"fmt"
	"strings"
	"sync"
	"time"

	"github.com/lugu/qiloop/bus"
	"github.com/lugu/qiloop/examples/space"
	"qv/internal/hx"
)

type c16Bomb struct {
	mu      sync.Mutex
	hooks   int
	changes int
	helper  space.BombSignalHelper
	act     bus.Activation
}

func (b *c16Bomb) Activate(a bus.Activation, h space.BombSignalHelper) error {
	b.mu.Lock()
	b.helper, b.act = h, a
	b.mu.Unlock()
	return h.UpdateDelay(10)
}
func (b *c16Bomb) OnTerminate() { b.mu.Lock(); b.hooks++; b.mu.Unlock() }
func (b *c16Bomb) OnDelayChange(d int32) error {
	b.mu.Lock()
	b.changes++
	b.mu.Unlock()
	return nil
}
func (b *c16Bomb) counts() (int, int) { b.mu.Lock(); defer b.mu.Unlock(); return b.hooks, b.changes }

type c16Craft struct{}

func (c *c16Craft) Activate(a bus.Activation, h space.SpacecraftSignalHelper) error { return nil }
func (c *c16Craft) OnTerminate()                                                    {}
func (c *c16Craft) Shoot() (space.BombProxy, error)                                 { return nil, fmt.Errorf("no ammo") }
func (c *c16Craft) Ammo(b space.BombProxy) error                                    { return nil }

// one subscription made through a real proxy
type c16ClientSub struct {
	conn      int
	sig       string // "boom" (signal 100) or "delay" (property 101)
	ch        chan int32
	cancel    func()
	cancelled bool
}

// c16Read reads one value from a subscription channel: (value, open, in time).
func c16Read(ch chan int32, d time.Duration) (int32, bool, bool) {
	select {
	case v, ok := <-ch:
		return v, ok, true
	case <-time.After(d):
		return 0, false, false
	}
}

func c16Clients(res *hx.Result, rng *hx.Rng, rounds int) {
	for round := 0; round < rounds; round++ {
		clientHost := round%2 == 1 // the objects are added through a service reference (ids >= 2^31)
		end := (round / 2) % 3     // 0 Service.Remove, 1 terminate action through a proxy, 2 activation.Terminate()
		env, err := svNewEnv(0)
		if err != nil {
			res.Fail("harness-setup", err.Error())
			return
		}
		var steps []string
		note := func(f string, a ...interface{}) { steps = append(steps, fmt.Sprintf(f, a...)) }
		failed := false
		fail := func(kind, f string, a ...interface{}) {
			failed = true
			res.Fail(kind, fmt.Sprintf(f, a...)+" — after: "+strings.Join(steps, " ; "))
		}
		wait := func() time.Duration { return c16Wait(3 * time.Second) }
		func() {
			srvSvc, err := env.srv.NewService("Spacecraft", space.SpacecraftObject(&c16Craft{}))
			if err != nil {
				res.Fail("harness-setup", err.Error())
				return
			}
			session := env.srv.Session()
			sid := srvSvc.ServiceID()
			var svc bus.Service = srvSvc
			if clientHost {
				craft, err := space.Spacecraft(session)
				if err != nil {
					res.Fail("harness-setup", err.Error())
					return
				}
				svc = craft.Proxy().ProxyService(session)
				note("ref := Spacecraft proxy.ProxyService(session) (service %d)", sid)
			} else {
				note("server-side service %d", sid)
			}
			type object struct {
				name    string
				impl    *c16Bomb
				id      uint32
				proxies []space.BombProxy
				subs    []*c16ClientSub
			}
			// add: Add (or the generated CreateBomb) + n proxies, each on its own connection
			add := func(name string, n int, create bool) *object {
				o := &object{name: name, impl: &c16Bomb{}}
				if create {
					p, err := space.CreateBomb(session, svc, o.impl)
					if err != nil {
						fail("add-refused", "CreateBomb(session, service, impl) failed: %v", err)
						return nil
					}
					o.id = p.Proxy().ObjectID()
					o.proxies = []space.BombProxy{p}
					note("%s := CreateBomb(session, service, impl) -> id %d, its proxy is connection 0", name, o.id)
					return o
				}
				actor := space.BombObject(o.impl)
				id, err := svc.Add(actor)
				if err != nil {
					fail("add-refused", "Add(%s) failed: %v", name, err)
					return nil
				}
				o.id = id
				note("%s: Add(BombObject(impl)) -> id %d, %d proxies on %d connections", name, id, n, n)
				for i := 0; i < n; i++ {
					var p bus.Proxy
					if clientHost {
						clt := bus.DirectClient(actor) // what CreateBomb does
						meta, err := bus.GetMetaObject(clt, sid, id)
						if err != nil {
							fail("live-object-not-callable", "metaObject of %s (id %d) through a direct client: %v", name, id, err)
							return nil
						}
						p = bus.NewProxy(clt, meta, sid, id)
					} else {
						p, err = session.Proxy("Spacecraft", id)
						if err != nil {
							fail("live-object-not-callable", "session.Proxy(Spacecraft, %d) for the live object %s: %v", id, name, err)
							return nil
						}
					}
					o.proxies = append(o.proxies, space.MakeBomb(session, p))
				}
				return o
			}
			subscribe := func(o *object, conn int, sig string) bool {
				var cancel func()
				var ch chan int32
				var err error
				if sig == "boom" {
					cancel, ch, err = o.proxies[conn].SubscribeBoom()
				} else {
					cancel, ch, err = o.proxies[conn].SubscribeDelay()
				}
				note("%s: connection %d Subscribe%s() = subscription %d", o.name, conn, strings.Title(sig), len(o.subs))
				if err != nil {
					fail("live-object-not-callable", "subscription to %s of the live object %s refused: %v", sig, o.name, err)
					return false
				}
				o.subs = append(o.subs, &c16ClientSub{conn: conn, sig: sig, ch: ch, cancel: cancel})
				return true
			}
			val := int32(100 + round)
			// emit: one emission of sig; every subscription to it that was not cancelled reads exactly that value
			emit := func(o *object, sig string) {
				val++
				o.impl.mu.Lock()
				h := o.impl.helper
				o.impl.mu.Unlock()
				if sig == "boom" {
					h.SignalBoom(val)
				} else {
					h.UpdateDelay(val)
				}
				note("%s emits %s(%d)", o.name, sig, val)
				for i, sb := range o.subs {
					if sb.sig != sig || sb.cancelled {
						continue
					}
					v, open, ok := c16Read(sb.ch, wait())
					switch {
					case !ok:
						c16Expired++
						fail("subscriber-of-live-object-lost", "subscription %d (connection %d, %s) of the live object %s received nothing within 3 s", i, sb.conn, sig, o.name)
					case !open:
						fail("subscriber-of-live-object-lost", "the channel of subscription %d (connection %d, %s) of the live object %s was closed", i, sb.conn, sig, o.name)
					case v != val:
						fail("subscriber-of-live-object-lost", "subscription %d (connection %d, %s) of %s read %d, emitted %d", i, sb.conn, sig, o.name, v, val)
					}
				}
			}
			// callable: GetDelay through every proxy answers
			callable := func(o *object) {
				for i, p := range o.proxies {
					if _, err := p.GetDelay(); err != nil {
						fail("live-object-not-callable", "GetDelay on the live object %s through connection %d: %v", o.name, i, err)
					}
				}
			}
			nconn := 1 + rng.Intn(3)
			a := add("A", nconn, false)
			if a == nil {
				return
			}
			b := add("B", 1, clientHost && round%4 == 1)
			if b == nil {
				return
			}
			if a.id == b.id {
				fail("id-not-unique", "two live objects of one service have the identifier %d", a.id)
				return
			}
			if clientHost && (a.id < 1<<31 || b.id < 1<<31) {
				fail("id-not-unique", "objects added through a service reference got the identifiers %d and %d (below 2^31: the server's range)", a.id, b.id)
				return
			}
			// subscriptions to A: the same signal twice through one proxy, then a random mix
			c0 := rng.Intn(nconn)
			first := []string{"boom", "delay"}[rng.Intn(2)]
			plan := [][2]interface{}{{c0, first}, {c0, first}}
			for n := rng.Intn(4); n > 0; n-- {
				plan = append(plan, [2]interface{}{rng.Intn(nconn), []string{"boom", "delay"}[rng.Intn(2)]})
			}
			// random order
			for i := len(plan) - 1; i > 0; i-- {
				j := rng.Intn(i + 1)
				plan[i], plan[j] = plan[j], plan[i]
			}
			for _, pl := range plan {
				if !subscribe(a, pl[0].(int), pl[1].(string)) {
					return
				}
			}
			if !subscribe(b, 0, "boom") {
				return
			}
			callable(a)
			callable(b)
			emit(a, "boom")
			emit(a, "delay")
			emit(b, "boom")
			if failed {
				return
			}
			// one subscriber leaves before the end (the others REMAIN)
			if round%3 == 2 {
				i := rng.Intn(len(a.subs))
				a.subs[i].cancel()
				a.subs[i].cancelled = true
				note("A: subscription %d cancelled", i)
				emit(a, a.subs[i].sig)
				if failed {
					return
				}
			}
			// the end of A
			_, changesA := a.impl.counts()
			switch end {
			case 0:
				err := svc.Remove(a.id)
				note("service.Remove(%d) -> err=%v", a.id, err != nil)
				if err != nil {
					fail("remove-refused", "Remove of the live object A failed: %v", err)
				}
			case 1:
				c := rng.Intn(len(a.proxies))
				done := make(chan error, 1)
				go func() { done <- a.proxies[c].Terminate(a.id) }()
				note("A: Terminate(%d) through connection %d", a.id, c)
				select {
				case err := <-done:
					if err != nil {
						fail("remove-refused", "the terminate action of the live object A was answered with an error: %v", err)
					}
				case <-time.After(wait()):
					c16Expired++
					fail("call-unanswered", "the terminate action of A was not answered within 3 s")
				}
			default:
				a.impl.mu.Lock()
				term := a.impl.act.Terminate
				a.impl.mu.Unlock()
				done := make(chan struct{})
				go func() { term(); close(done) }()
				note("A's implementor calls activation.Terminate()")
				select {
				case <-done:
				case <-time.After(wait()):
					c16Expired++
					fail("remove-stalled", "activation.Terminate() of A did not return within 3 s")
				}
			}
			if failed {
				return
			}
			if h, _ := a.impl.counts(); h != 1 {
				kind := "hook-not-run"
				if h > 1 {
					kind = "terminated-twice"
				}
				fail(kind, "the object A (id %d) has been removed; its termination hook has run %d times", a.id, h)
			}
			for i, sb := range a.subs {
				if sb.cancelled {
					continue
				}
				_, open, ok := c16Read(sb.ch, wait())
				switch {
				case !ok:
					c16Expired++
					fail("subscriber-not-told", "A (id %d) is gone; subscription %d (connection %d, %s) was not told within 3 s: its channel is still open", a.id, i, sb.conn, sb.sig)
				case open:
					fail("event-after-termination", "A (id %d) is gone; subscription %d (connection %d, %s) received an event nobody emitted", a.id, i, sb.conn, sb.sig)
				}
			}
			if err := svc.Remove(a.id); err == nil {
				fail("removed-twice", "the second Remove of A (id %d) reported success", a.id)
			}
			if h, _ := a.impl.counts(); h > 1 {
				fail("terminated-twice", "after a second Remove the termination hook of A has run %d times", h)
			}
			if !clientHost {
				// later messages through the proxies (for an object behind a service reference the
				// generated proxy talks to the object directly, not through the service)
				for i, p := range a.proxies {
					p := p
					done := make(chan error, 2)
					go func() { _, err := p.GetDelay(); done <- err; done <- p.SetDelay(5) }()
					for k := 0; k < 2; k++ {
						select {
						case err := <-done:
							if err == nil {
								fail("reachable-after-removal", "A (id %d) was removed; %s through connection %d succeeded", a.id, []string{"GetDelay", "SetDelay"}[k], i)
							}
						case <-time.After(wait()):
							c16Expired++
							fail("call-unanswered", "a call to the removed object A (id %d) through connection %d was not answered within 3 s", a.id, i)
							k = 2
						}
					}
				}
				if _, ch := a.impl.counts(); ch != changesA {
					fail("reachable-after-removal", "A (id %d) was removed; SetDelay reached its implementor (%d -> %d calls of OnDelayChange)", a.id, changesA, ch)
				}
			}
			// B is untouched
			if h, _ := b.impl.counts(); h != 0 {
				fail("other-object-affected", "A was removed; the termination hook of B (id %d) has run %d times", b.id, h)
			}
			callable(b)
			emit(b, "boom")
			if failed {
				return
			}
			// and ends the same way
			if err := svc.Remove(b.id); err != nil {
				fail("remove-refused", "Remove of the live object B failed: %v", err)
			}
			note("service.Remove(%d)", b.id)
			if h, _ := b.impl.counts(); h != 1 {
				fail("hook-not-run", "B (id %d) has been removed; its termination hook has run %d times", b.id, h)
			}
			if _, open, ok := c16Read(b.subs[0].ch, wait()); !ok || open {
				if !ok {
					c16Expired++
				}
				fail("subscriber-not-told", "B (id %d) is gone; its subscriber was not told (channel closed=%v)", b.id, ok && !open)
			}
			if h, _ := a.impl.counts(); h != 1 {
				fail("terminated-twice", "after the removal of B the termination hook of A has run %d times", h)
			}
		}()
		env.close()
		res.Count(fmt.Sprintf("clients %d", round), true)
		res.Dist(fmt.Sprintf("real-proxies:service-reference=%v:end=%d", clientHost, end))
	}
}
