package main

// C10, start-up: the peer talks first.
//
// The messages of the peer are ALREADY written (in the socket / the pipe / the harness buffer) before
// the endpoint exists.  The endpoint is then built in each way the package offers:
//
//   - EndPointFinalizer(stream, fin) where fin does some work (yields, sleeps, sends a greeting through
//     the endpoint) before and between its MakeHandler calls: every handler registered by the finalizer
//     must be consulted for every message from the very first one on, and receive exactly what its
//     filter selects of them while its queue has room;
//   - NewEndPoint(stream) followed by MakeHandler calls: the documentation allows the messages dispatched
//     before a registration to be dropped, so the oracle is the window of the theorem: each handler is
//     consulted for one contiguous run of the arrival sequence, starting at its registration and holding
//     every message the peer wrote after MakeHandler had returned; windows start in registration order;
//   - bus.StandAloneServer over a listener whose client connected and wrote its calls before the server
//     (and so its Accept and its EndPointFinalizer) existed: every call is answered once.
//
// Every run of the first two is also written as an operation sequence (registrations and dispatches in
// the observed order) and replayed on the endpoint model (C17Run.case_ok).

import (
	"bytes"
	"errors"
	"fmt"
	"io"
	gonet "net"
	"runtime"
	"strings"
	"sync"
	"sync/atomic"
	"time"

	"github.com/lugu/qiloop/bus"
	"github.com/lugu/qiloop/bus/net"
	"qv/internal/hx"
)

// ---------- a stream that tells when the endpoint has consumed everything ----------

// obsStream wraps the stream an endpoint is built on: it counts the bytes the endpoint has read, knows
// whether a Read is pending (the endpoint waits for the next frame), records the endpoint's own writes
// and Close calls.
type obsStream struct {
	net.Stream
	mu        sync.Mutex
	cond      *sync.Cond
	consumed  int
	reading   bool
	startedAt int // consumed when the pending Read began
	reads     int
	writes    [][]byte
	closes    int
}

func newObsStream(inner net.Stream) *obsStream {
	s := &obsStream{Stream: inner}
	s.cond = sync.NewCond(&s.mu)
	return s
}

func (s *obsStream) Read(p []byte) (int, error) {
	s.mu.Lock()
	s.reading, s.startedAt = true, s.consumed
	s.reads++
	s.cond.Broadcast()
	s.mu.Unlock()
	n, err := s.Stream.Read(p)
	s.mu.Lock()
	s.consumed += n
	s.reading = false
	s.cond.Broadcast()
	s.mu.Unlock()
	return n, err
}

func (s *obsStream) Write(p []byte) (int, error) {
	s.mu.Lock()
	s.writes = append(s.writes, append([]byte(nil), p...))
	s.mu.Unlock()
	return s.Stream.Write(p)
}

func (s *obsStream) Close() error {
	s.mu.Lock()
	s.closes++
	s.cond.Broadcast()
	s.mu.Unlock()
	return s.Stream.Close()
}

// waitCloses: the endpoint has called Close at least n times
func (s *obsStream) waitCloses(n int, d time.Duration) bool {
	timedOut := false
	t := time.AfterFunc(d, func() { s.mu.Lock(); timedOut = true; s.cond.Broadcast(); s.mu.Unlock() })
	defer t.Stop()
	s.mu.Lock()
	defer s.mu.Unlock()
	for s.closes < n {
		if timedOut {
			return false
		}
		s.cond.Wait()
	}
	return true
}

// waitConsumed: the endpoint has read total bytes and asked for more: the frame that ended at byte
// total has been dispatched (process reads one frame, dispatches it, reads the next).
func (s *obsStream) waitConsumed(total int, d time.Duration) bool {
	timedOut := false
	t := time.AfterFunc(d, func() { s.mu.Lock(); timedOut = true; s.cond.Broadcast(); s.mu.Unlock() })
	defer t.Stop()
	s.mu.Lock()
	defer s.mu.Unlock()
	for !(s.reading && s.startedAt == total) {
		if timedOut || s.consumed > total {
			return false
		}
		s.cond.Wait()
	}
	return true
}

func (s *obsStream) snapshot() (reads int, writes [][]byte, closes int, consumed int) {
	s.mu.Lock()
	defer s.mu.Unlock()
	return s.reads, append([][]byte(nil), s.writes...), s.closes, s.consumed
}

// ---------- the peer ----------

// startPeer is the other side of the connection: send returns once the message is written (or, on the
// synchronous in-memory pipe, once a writer is blocked with it), stream is what the endpoint under test
// is going to be built on.
type startPeer struct {
	name    string
	send    func(m net.Message) error
	stream  net.Stream
	cleanup func()
	// hangup: the peer closes its side after what it has written so far (c10end.go).  The endpoint reads
	// everything that was written, then the end of the stream.
	hangup func()
}

func frameOf(m net.Message) []byte {
	var w writerBuf
	m.Write(&w)
	return w.b
}

func newStartPeer(name, dir string, k int) (*startPeer, error) {
	switch name {
	case "harness-buffer":
		st := newHStream()
		return &startPeer{name: name, stream: st,
			send:    func(m net.Message) error { st.feed(frameOf(m)); return nil },
			hangup:  func() { st.fail(io.EOF) },
			cleanup: func() { st.fail(errors.New("harness: end of case")) }}, nil
	case "mem-pipe":
		// net.Pipe of the standard library is synchronous: "already written" is a writer blocked in Write
		a, b := gonet.Pipe()
		q := make(chan net.Message, 64)
		var pending int32
		go func() {
			for m := range q {
				m.Write(a)
				atomic.AddInt32(&pending, -1)
			}
		}()
		go io.Copy(io.Discard, a) // what the endpoint sends back (error replies) must not block it
		return &startPeer{name: name, stream: net.ConnStream(b),
			send: func(m net.Message) error {
				atomic.AddInt32(&pending, 1)
				q <- m
				time.Sleep(300 * time.Microsecond) // let the writer reach its Write
				return nil
			},
			hangup: func() {
				// synchronous pipe: the peer's last Write returns when the endpoint has read it; then it closes
				waitUntil(4*time.Second, func() bool { return atomic.LoadInt32(&pending) == 0 })
				a.Close()
			},
			cleanup: func() { a.Close(); b.Close(); close(q) }}, nil
	}
	addr := map[string]string{
		"unix":    "unix://" + sockPath(dir, fmt.Sprintf("s%d.sock", k)),
		"tcp":     "tcp://127.0.0.1:0",
		"tls":     "tcps://127.0.0.1:0",
		"fd-pipe": "pipe://" + sockPath(dir, fmt.Sprintf("q%d.sock", k)),
	}[name]
	if addr == "" {
		return nil, fmt.Errorf("unknown transport %q", name)
	}
	l, err := net.Listen(addr)
	if err != nil {
		return nil, fmt.Errorf("listen %s: %v", addr, err)
	}
	dialAddr := addr
	if strings.HasPrefix(addr, "tcp") {
		a := net.VerifListenerAddr(l)
		if a == "" {
			l.Close()
			return nil, fmt.Errorf("no listener address")
		}
		dialAddr = addr[:strings.Index(addr, "://")+3] + a
	}
	type acc struct {
		s   net.Stream
		err error
	}
	ach := make(chan acc, 1)
	go func() {
		s, err := l.Accept()
		if err == nil && name == "tls" {
			// an empty Read runs the handshake (the dialing side waits for it) and consumes no data
			_, err = s.Read(nil)
		}
		ach <- acc{s, err}
	}()
	type dialed struct {
		e   net.EndPoint
		err error
	}
	dch := make(chan dialed, 1)
	go func() { e, err := net.DialEndPoint(dialAddr); dch <- dialed{e, err} }()
	var peer net.EndPoint
	var stream net.Stream
	deadline := time.After(8 * time.Second)
	for peer == nil || stream == nil {
		select {
		case d := <-dch:
			if d.err != nil {
				l.Close()
				return nil, fmt.Errorf("dial %s: %v", dialAddr, d.err)
			}
			peer = d.e
		case a := <-ach:
			if a.err != nil {
				l.Close()
				return nil, fmt.Errorf("accept %s: %v", addr, a.err)
			}
			stream = a.s
		case <-deadline:
			l.Close()
			return nil, fmt.Errorf("connecting %s: timeout", addr)
		}
	}
	return &startPeer{name: name, stream: stream, send: peer.Send,
		hangup:  func() { peer.Close() },
		cleanup: func() { peer.Close(); stream.Close(); l.Close() }}, nil
}

// ---------- one start-up run ----------

const (
	workNone = iota
	workYield
	workSleepShort
	workSleepLong
	workGreeting
)

var workNames = []string{"nothing", "200 yields", "2 ms of work", "25 ms of work", "sends a greeting, then 10 ms of work"}

type startSpec struct {
	transport string
	ctor      string // "finalizer" or "new-endpoint"
	work      []int  // work[i] is done before the i-th MakeHandler
	makes     []sop
	pre, post []mspec
}

func (sp startSpec) String() string {
	var hs, ws []string
	for i, o := range sp.makes {
		hs = append(hs, fmt.Sprintf("h%d=%s cap=%d cl=%d", i, o.F, o.Cap, o.Cl))
		ws = append(ws, workNames[sp.work[i]])
	}
	ms := func(l []mspec) string {
		var it []string
		for _, m := range l {
			it = append(it, fmt.Sprintf("{type %d action %d id %d len %d}", m.Typ, m.Action, m.ID, len(m.Payload)))
		}
		return "[" + strings.Join(it, " ") + "]"
	}
	how := "EndPointFinalizer whose finalizer registers"
	if sp.ctor == "new-endpoint" {
		how = "NewEndPoint, then the caller registers"
	}
	return fmt.Sprintf("start-up on %s: the peer has written %s before the endpoint exists; %s %d handlers (%s), doing before each registration (%s); then the peer writes %s",
		sp.transport, ms(sp.pre), how, len(sp.makes), strings.Join(hs, "; "), strings.Join(ws, "; "), ms(sp.post))
}

func genStartSpec(rng *hx.Rng, transport, ctor string, firstWork int) startSpec {
	sp := startSpec{transport: transport, ctor: ctor}
	nH := 1 + rng.Intn(4)
	for i := 0; i < nH; i++ {
		f := genFilter(rng)
		if i == 0 && rng.Chance(0.5) {
			f = fdesc{Kind: 0, Tab: []bb{{true, true}, {true, true}, {true, true}, {true, true}}} // catch-all
		}
		sp.makes = append(sp.makes, sop{Kind: opMake, F: f, Cl: rng.Pick(0, 1), Cap: rng.Pick(0, 1, 2, 3, 8, 40, 40)})
		w := rng.Pick(workNone, workNone, workYield, workSleepShort)
		if i == 0 {
			w = firstWork
		}
		sp.work = append(sp.work, w)
	}
	id := uint32(100)
	gen := func(n int) (l []mspec) {
		for i := 0; i < n; i++ {
			id++
			l = append(l, mspec{Typ: uint32(rng.Pick(1, 1, 2, 4, 5, 3, 6, 7, 8)), Service: uint32(rng.Intn(3)), Object: 1,
				Action: uint32(rng.Intn(4)), ID: id, Payload: rng.Bytes(rng.Pick(0, 0, 2, 9))})
		}
		return
	}
	sp.pre = gen(1 + rng.Intn(6))
	sp.post = gen(rng.Intn(4))
	return sp
}

func fanswer(f fdesc, n int, action uint32) bb {
	if f.Kind == 0 {
		if int(action) < len(f.Tab) {
			return f.Tab[action]
		}
		return bb{false, true}
	}
	if n < f.K {
		return f.A
	}
	return f.B
}

// windowFrom: what a handler registered just before msgs[start] is consulted for and receives when nobody
// takes anything out of its queue.
func windowFrom(o sop, msgs []mspec, start int) (consulted, received []uint32) {
	for j := start; j < len(msgs); j++ {
		a := fanswer(o.F, j-start, msgs[j].Action)
		consulted = append(consulted, msgs[j].ID)
		if a.M && len(received) < o.Cap {
			received = append(received, msgs[j].ID)
		}
		if !a.K {
			break
		}
	}
	return
}

var greeting = net.NewMessage(net.NewHeader(net.Capability, 0, 0, 0, 0), []byte{0, 0, 0, 0})

func doWork(kind int, e net.EndPoint) error {
	switch kind {
	case workYield:
		for i := 0; i < 200; i++ {
			runtime.Gosched()
		}
	case workSleepShort:
		time.Sleep(2 * time.Millisecond)
	case workSleepLong:
		time.Sleep(25 * time.Millisecond)
	case workGreeting:
		err := e.Send(greeting)
		time.Sleep(10 * time.Millisecond)
		return err
	}
	return nil
}

type startObs struct {
	fails  []string
	term   string // Gallina ocase; "" when the run cannot be replayed
	canon  string
	starts []int
}

func runStartUp(sp startSpec, dir string, k int) (obs startObs, unavailable error) {
	desc := sp.String()
	fail := func(format string, a ...interface{}) { obs.fails = append(obs.fails, desc+": "+fmt.Sprintf(format, a...)) }
	peer, err := newStartPeer(sp.transport, dir, k)
	if err != nil {
		return obs, err
	}
	defer peer.cleanup()
	msgs := append(append([]mspec(nil), sp.pre...), sp.post...)
	total := 0
	// the peer talks first
	for i, m := range sp.pre {
		if err := peer.send(m.message()); err != nil {
			fail("the peer could not write message %d: %v", i+1, err)
			return
		}
		total += 28 + len(m.Payload)
	}
	st := newObsStream(peer.stream)
	hs := make([]*hh, len(sp.makes))
	logs := make([][]uint32, len(sp.makes))
	var logMu sync.Mutex
	var workErr error
	register := func(e net.EndPoint) {
		for i, o := range sp.makes {
			if err := doWork(sp.work[i], e); err != nil {
				workErr = err
			}
			i := i
			h := &hh{idx: i, f: o.F, cl: o.Cl, capq: o.Cap, q: make(chan *net.Message, o.Cap),
				entered: make(chan struct{}), gate: make(chan struct{}), e: e}
			hs[i] = h
			var cl net.Closer
			if o.Cl != 0 {
				cl = h.closer
			}
			filter := func(hdr *net.Header) (bool, bool) {
				logMu.Lock()
				logs[i] = append(logs[i], hdr.ID)
				logMu.Unlock()
				return h.filter(hdr)
			}
			h.slot = e.MakeHandler(filter, h.q, cl)
		}
	}
	var e net.EndPoint
	res := callWithin(5*time.Second, func() {
		if sp.ctor == "finalizer" {
			e = net.EndPointFinalizer(st, register)
		} else {
			e = net.NewEndPoint(st)
			register(e)
		}
	})
	if res != "" {
		fail("constructing the endpoint and registering the handlers: %s", res)
		return
	}
	defer e.Close()
	if workErr != nil {
		fail("Send of the greeting from the finalizer failed: %v", workErr)
	}
	for i, m := range sp.post {
		if err := peer.send(m.message()); err != nil {
			fail("the peer could not write message %d: %v", len(sp.pre)+i+1, err)
			return
		}
		total += 28 + len(m.Payload)
	}
	if !st.waitConsumed(total, 4*time.Second) {
		_, _, _, consumed := st.snapshot()
		fail("the endpoint has read %d of the %d bytes the peer wrote within 4 s and is not waiting for the next frame", consumed, total)
		return
	}
	// observe
	logMu.Lock()
	consultedBy := make([][]uint32, len(logs))
	for i := range logs {
		consultedBy[i] = append([]uint32(nil), logs[i]...)
	}
	logMu.Unlock()
	idx := func(id uint32) int { return int(id) - int(msgs[0].ID) }
	starts := make([]int, len(hs))
	ok := true
	for i, h := range hs {
		starts[i] = len(msgs)
		if len(consultedBy[i]) > 0 {
			starts[i] = idx(consultedBy[i][0])
		}
		if starts[i] < 0 || starts[i] > len(msgs) {
			fail("handler h%d was consulted for message id %d, which the peer never sent", i, consultedBy[i][0])
			return
		}
		wantC, wantR := windowFrom(sp.makes[i], msgs, starts[i])
		h.mu.Lock()
		h.pull()
		got := append([]uint32(nil), h.stash...)
		bad := append([]string(nil), h.bad...)
		h.mu.Unlock()
		switch {
		case sp.ctor == "finalizer" && starts[i] != 0:
			fullC, fullR := windowFrom(sp.makes[i], msgs, 0)
			fail("handler h%d, registered by the finalizer, was first consulted for message %d of the connection (ids consulted %v, received %v); messages 1..%d were dispatched before it was registered and it should have been consulted for ids %v and have received %v",
				i, starts[i]+1, consultedBy[i], got, starts[i], fullC, fullR)
			ok = false
		case !equalU32(consultedBy[i], wantC):
			fail("handler h%d was consulted for ids %v; registered before message %d it should have been consulted for the contiguous run %v", i, consultedBy[i], starts[i]+1, wantC)
			ok = false
		case !equalU32(got, wantR):
			fail("handler h%d received ids %v; of the messages it was consulted for (%v) its filter selects, while its queue of %d has room, %v", i, got, consultedBy[i], sp.makes[i].Cap, wantR)
			ok = false
		}
		for _, b := range bad {
			fail("handler h%d: %s", i, b)
			ok = false
		}
		if i > 0 && starts[i] < starts[i-1] {
			fail("handler h%d, registered after h%d, was consulted from message %d on but h%d only from message %d on", i, i-1, starts[i]+1, i-1, starts[i-1]+1)
			ok = false
		}
		if len(sp.post) > 0 && starts[i] > len(sp.pre) {
			fail("handler h%d was registered before the peer wrote message %d but was first consulted for message %d", i, len(sp.pre)+1, starts[i]+1)
			ok = false
		}
	}
	obs.starts = starts
	obs.canon = fmt.Sprintf("%s starts=%v", desc, starts)
	_, writes, closes, _ := st.snapshot()
	if len(sp.work) > 0 && sp.work[0] == workGreeting {
		if len(writes) == 0 || !bytes.Equal(writes[0], frameOf(greeting)) {
			fail("the greeting sent by the finalizer is not the first Write on the stream (%d Write calls: %s)", len(writes), hexHead(writes, 2))
			ok = false
		} else {
			writes = writes[1:]
		}
	}
	if !ok {
		return
	}
	// the run as an operation sequence for the model: registrations and dispatches in the observed order
	var ops, hobs, sent []string
	next := 0
	for i, o := range sp.makes {
		for ; next < starts[i]; next++ {
			ops = append(ops, fmt.Sprintf("OMsg %s 9%%N", msgs[next].term()))
		}
		ops = append(ops, fmt.Sprintf("OMake (%s) false %d%%N %d%%N %d%%N", o.F.term(), o.Cl, o.Cap, hs[i].slot))
	}
	for ; next < len(msgs); next++ {
		ops = append(ops, fmt.Sprintf("OMsg %s 9%%N", msgs[next].term()))
	}
	for _, h := range hs {
		h.mu.Lock()
		closed := h.pull()
		ids := make([]uint64, len(h.stash))
		for i, x := range h.stash {
			ids[i] = uint64(x)
		}
		hobs = append(hobs, fmt.Sprintf("(%d%%N, %d%%N, %s, %s)", atomic.LoadInt32(&h.closerCalls), h.closerArg, hx.Bool(closed), hx.NList(ids)))
		h.mu.Unlock()
	}
	for _, w := range writes {
		sent = append(sent, hx.Hex(w))
	}
	var wire []byte
	for _, w := range writes {
		wire = append(wire, w...)
	}
	obs.term = fmt.Sprintf("{| c_ops := %s; c_end := 0%%N; c_hs := %s; c_sent := %s; c_wire := %s; c_sclose := %d%%N |}", hx.List(ops), hx.List(hobs), hx.List(sent), hx.Hex(wire), closes)
	return
}

var startTransports = []string{"harness-buffer", "mem-pipe", "unix", "tcp", "tls", "fd-pipe"}

func phaseStartUp(out *c10Out, rng *hx.Rng, dir string, perTransport int) {
	k := 0
	for _, tr := range startTransports {
		unavailable := false
		for _, ctor := range []string{"finalizer", "new-endpoint"} {
			for i := 0; i < perTransport && !unavailable; i++ {
				k++
				// every transport sees a finalizer that works for a while, one that sends first, and instantaneous ones
				first := []int{workSleepLong, workGreeting, workYield, workSleepShort, workNone}[i%5]
				if ctor == "new-endpoint" {
					first = []int{workNone, workYield, workSleepShort, workNone, workYield}[i%5]
				}
				sp := genStartSpec(rng, tr, ctor, first)
				obs, err := runStartUp(sp, dir, k)
				if err != nil {
					out.Notes = append(out.Notes, fmt.Sprintf("start-up: transport %s not available here: %v", tr, err))
					out.Dist["unavailable:start-up:"+tr]++
					unavailable = true
					break
				}
				for _, f := range obs.fails {
					out.KFails = append(out.KFails, [2]string{"start-up", f})
				}
				out.Dist["start-up:"+tr+":"+ctor]++
				dropped := 0
				if len(obs.starts) > 0 {
					dropped = obs.starts[0]
				}
				if ctor == "new-endpoint" && dropped > 0 {
					out.Dist["start-up:new-endpoint:messages-dispatched-before-the-first-registration"]++
				}
				if obs.canon != "" {
					out.Counts = append(out.Counts, c10Count{obs.canon, len(sp.makes) >= 2 && len(sp.pre) >= 2})
				}
				if obs.term != "" {
					out.DCases = append(out.DCases, [2]string{obs.term, fmt.Sprintf("%s; first consultations at %v", sp.String(), obs.starts)})
				}
				if len(out.Samples) < 9 && i == 0 {
					out.Samples = append(out.Samples, fmt.Sprintf("%s; each handler first consulted for message (0-based) %v", sp.String(), obs.starts))
				}
			}
		}
	}
}

// ---------- the accept path of a bus server ----------

// busServerTalksFirst: a client connects to a listener and writes its authentication call before the
// server (its accept loop, and the endpoint it builds with EndPointFinalizer for the connection) exists.
// The call must be answered, and so must the calls the client writes afterwards, one at a time.
// (Only ONE call is written ahead: the server reads the connection's capability map for every frame it
// lets through while the authentication service writes it for the call before — pipelined frames make the
// race detector report bus/auth.go, which is not this property's business.)
func busServerTalksFirst(out *c10Out, rng *hx.Rng, dir string, k int, scheme string) {
	n := 1 + rng.Intn(4)
	desc := fmt.Sprintf("bus server on %s: a client connected and wrote its authentication call (id 1) before StandAloneServer was called, then %d more calls, each after the answer to the one before", scheme, n-1)
	fail := func(format string, a ...interface{}) {
		out.KFails = append(out.KFails, [2]string{"start-up", desc + ": " + fmt.Sprintf(format, a...)})
	}
	addr := "tcp://127.0.0.1:0"
	network, target := "tcp", ""
	if scheme == "unix" {
		p := sockPath(dir, fmt.Sprintf("b%d.sock", k))
		addr, network, target = "unix://"+p, "unix", p
	}
	l, err := net.Listen(addr)
	if err != nil {
		out.Notes = append(out.Notes, fmt.Sprintf("start-up: bus server on %s not available here: %v", scheme, err))
		return
	}
	if network == "tcp" {
		target = net.VerifListenerAddr(l)
	}
	c, err := gonet.DialTimeout(network, target, 4*time.Second)
	if err != nil {
		l.Close()
		out.Notes = append(out.Notes, fmt.Sprintf("start-up: bus server on %s: dial: %v", scheme, err))
		return
	}
	defer c.Close()
	var capm bytes.Buffer
	bus.WriteCapabilityMap(bus.ClientCap("", ""), &capm)
	write := func(i int) bool {
		c.SetWriteDeadline(time.Now().Add(4 * time.Second))
		m := net.NewMessage(net.NewHeader(net.Call, 0, 0, 8, uint32(i)), capm.Bytes())
		if err := m.Write(c); err != nil {
			fail("the client could not write call %d: %v", i, err)
			return false
		}
		return true
	}
	if !write(1) {
		l.Close()
		return
	}
	srv, err := bus.StandAloneServer(l, bus.Yes{}, bus.PrivateNamespace())
	if err != nil {
		l.Close()
		fail("StandAloneServer: %v", err)
		return
	}
	defer srv.Terminate()
	var order []uint32
	for i := 1; i <= n; i++ {
		if i > 1 && !write(i) {
			break
		}
		c.SetReadDeadline(time.Now().Add(4 * time.Second))
		var m net.Message
		if err := m.Read(c); err != nil {
			when := "after the answer to the call before"
			if i == 1 {
				when = "before the server existed"
			}
			fail("call %d, written %s, was not answered within 4 s (answers received for ids %v; read: %v)", i, when, order, err)
			break
		}
		if m.Header.Type != net.Reply || m.Header.ID != uint32(i) {
			fail("waiting for the answer to call %d: received %s (answers so far: ids %v)", i, hdrStr(m.Header), order)
			break
		}
		order = append(order, m.Header.ID)
	}
	out.Dist["start-up:bus-server:"+scheme]++
	out.Counts = append(out.Counts, c10Count{fmt.Sprintf("%s answers=%v", desc, order), n >= 2})
}
