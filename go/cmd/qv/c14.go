package main

// C14 — A property is an atomic, typed register with validated writes and change events.
// Runs a real server with the generated Bomb stub of examples/space (property "delay", int32)
// whose implementor — the validator OnDelayChange — belongs to the harness.  Clients: raw frames
// on harness connections (any name form, any value form), the generated proxy (GetDelay /
// SetDelay), a second mailbox through bus.DirectClient, and the implementor's UpdateDelay helper.
// Sequential sequences are compared step by step with Property.pstep; concurrent histories
// (stamps from one atomic counter) are checked by Lin.lin_check against the register spec, and
// by a small register-linearizability oracle here that decides violations on its own.

import (
	"bytes"
	"encoding/binary"
	"encoding/hex"
	"fmt"
	"runtime"
	"strings"
	"sync"
	"sync/atomic"
	"time"

	"github.com/lugu/qiloop/bus"
	"github.com/lugu/qiloop/bus/net"
	"github.com/lugu/qiloop/examples/space"
	"github.com/lugu/qiloop/type/object"
	"qv/internal/hx"
)

func init() { props["C14"] = runC14 }

const (
	c14PropUID   = 101
	c14ActGet    = 5
	c14ActSet    = 6
	c14HoldValue = 77
)

// ---------- the implementor ----------

type c14Bomb struct {
	mu      sync.Mutex
	helper  space.BombSignalHelper
	calls   int
	hold    chan struct{} // non-nil: the validator holds the values +-c14HoldValue until it is closed
	holding chan struct{} // closed when the validator has started to hold
}

func (b *c14Bomb) Activate(a bus.Activation, h space.BombSignalHelper) error {
	b.mu.Lock()
	b.helper = h
	b.mu.Unlock()
	return nil
}
func (b *c14Bomb) OnTerminate() {}
func (b *c14Bomb) OnDelayChange(d int32) error {
	b.mu.Lock()
	b.calls++
	hold, holding := b.hold, b.holding
	b.mu.Unlock()
	if (d == c14HoldValue || d == -c14HoldValue) && hold != nil {
		select {
		case <-holding:
		default:
			close(holding)
		}
		select {
		case <-hold:
		case <-time.After(2 * time.Second):
		}
	}
	if d < 0 {
		return fmt.Errorf("duration cannot be negative (%d)", d)
	}
	return nil
}

// ---------- values and names ----------

type c14Val struct {
	sig  string
	data []byte
}

func (v c14Val) bytes() []byte { return append(svStr(v.sig), v.data...) }
func (v c14Val) term() string {
	return fmt.Sprintf("(mkv %s %s)", hx.Str(v.sig), hx.Str(hex.EncodeToString(v.data)))
}
func (v c14Val) String() string { return fmt.Sprintf("%s:%x", v.sig, v.data) }

func c14Int(x uint32) c14Val { return c14Val{"i", svU32(x)} }

type c14Name struct {
	kind int // 0 string, 1 uint, 2 other
	s    string
	n    uint32
}

func (n c14Name) bytes() []byte {
	switch n.kind {
	case 0:
		return append(svStr("s"), svStr(n.s)...)
	case 1:
		return append(svStr("I"), svU32(n.n)...)
	}
	return append(svStr("i"), svU32(n.n)...)
}
func (n c14Name) term() string {
	switch n.kind {
	case 0:
		return fmt.Sprintf("(NmStr %s)", hx.Str(n.s))
	case 1:
		return fmt.Sprintf("(NmUint %d)", n.n)
	}
	return "NmOther"
}
func (n c14Name) resolves() bool {
	return (n.kind == 0 && n.s == "delay") || (n.kind == 1 && n.n == c14PropUID)
}

var c14Delay = c14Name{kind: 0, s: "delay"}

func c14GenName(rng *hx.Rng) c14Name {
	switch rng.Intn(12) {
	case 0:
		return c14Name{kind: 0, s: "other"}
	case 1, 2:
		return c14Name{kind: 1, n: c14PropUID}
	case 3:
		return c14Name{kind: 1, n: 7}
	case 4:
		return c14Name{kind: 2, n: c14PropUID}
	}
	return c14Delay
}

func c14GenInt(rng *hx.Rng) uint32 {
	switch rng.Intn(10) {
	case 0:
		return 0
	case 1:
		return 0x7fffffff
	case 2:
		return 0x80000000
	case 3:
		return 0xffffffff
	case 4:
		return uint32(rng.U64())
	}
	return uint32(rng.Intn(50))
}

// c14GenVal: mostly the declared type; separately the wrongly-typed forms
func c14GenVal(rng *hx.Rng) (c14Val, string) {
	switch rng.Intn(16) {
	case 0:
		s := []string{"abcd", "", "ab", "a longer string"}[rng.Intn(4)]
		return c14Val{"s", svStr(s)}, "string"
	case 1:
		return c14Val{"I", svU32(c14GenInt(rng))}, "uint32"
	case 2:
		return c14Val{"b", []byte{byte(rng.Intn(2))}}, "bool"
	case 3:
		var b [8]byte
		binary.LittleEndian.PutUint64(b[:], rng.U64()>>uint(rng.Intn(40)))
		return c14Val{"l", b[:]}, "int64"
	case 4:
		return c14Val{"f", svU32(uint32(rng.U64()) &^ 0x7f800000)}, "float"
	case 5:
		return c14Val{"(i)", svU32(c14GenInt(rng))}, "tuple"
	case 6:
		return c14Val{"c", []byte{byte(rng.U64())}}, "int8"
	}
	return c14Int(c14GenInt(rng)), "int32"
}

// ---------- one environment ----------

type c14Env struct {
	env    *svEnv
	impl   *c14Bomb
	sid    uint32
	bomb   space.BombProxy
	direct bus.Client
	nextID uint32
	closed map[int]bool // harness connections the sequence has closed (c14feat.go)
}

func c14NewEnv() (*c14Env, error) {
	env, err := svNewEnv(3)
	if err != nil {
		return nil, err
	}
	impl := &c14Bomb{}
	obj := space.BombObject(impl)
	svc, err := env.srv.NewService("bomb", obj)
	if err != nil {
		return nil, err
	}
	e := &c14Env{env: env, impl: impl, sid: svc.ServiceID(), nextID: 1}
	meta := object.FullMetaObject(object.MetaObject{
		Description: "Bomb",
		Methods:     map[uint32]object.MetaMethod{},
		Properties:  map[uint32]object.MetaProperty{101: {Name: "delay", Signature: "i", Uid: 101}},
		Signals:     map[uint32]object.MetaSignal{100: {Name: "boom", Signature: "i", Uid: 100}},
	})
	e.bomb = space.MakeBomb(env.srv.Session(), bus.NewProxy(env.srv.Client(), meta, e.sid, 1))
	e.direct = bus.DirectClient(obj)
	return e, nil
}

func (e *c14Env) close() { e.env.close() }

func (e *c14Env) msgID() uint32 { return atomic.AddUint32(&e.nextID, 1) }

// result of an operation as observed: kind 0 value, 1 failed, 2 done
type c14Res struct {
	kind int
	val  c14Val
}

func (r c14Res) sres() string {
	switch r.kind {
	case 0:
		return fmt.Sprintf("(SVal %s %s)", hx.Str(r.val.sig), hx.Str(hex.EncodeToString(r.val.data)))
	case 1:
		return "SFail"
	}
	return "SDone"
}
func (r c14Res) pres() string {
	switch r.kind {
	case 0:
		return "(RVal " + r.val.term() + ")"
	case 1:
		return "RFail"
	}
	return "RDone"
}
func (r c14Res) String() string {
	switch r.kind {
	case 0:
		return "value " + r.val.String()
	case 1:
		return "error"
	}
	return "ok"
}

func c14ParseValue(p []byte) (c14Val, bool) {
	if len(p) < 4 {
		return c14Val{}, false
	}
	n := int(binary.LittleEndian.Uint32(p))
	if n < 0 || 4+n > len(p) {
		return c14Val{}, false
	}
	return c14Val{string(p[4 : 4+n]), append([]byte(nil), p[4+n:]...)}, true
}

// raw get / set on a harness connection
func (e *c14Env) rawCall(conn int, action uint32, payload []byte) (*net.Message, bool) {
	id := e.msgID()
	c := e.env.conns[conn]
	if err := c.send(net.Call, e.sid, 1, action, id, payload); err != nil {
		return nil, false
	}
	m := c.waitAnswer(id, 5*time.Second)
	return m, m != nil
}
func (e *c14Env) rawGet(conn int, nm c14Name) (c14Res, bool) {
	m, ok := e.rawCall(conn, c14ActGet, nm.bytes())
	if !ok {
		return c14Res{}, false
	}
	if m.Header.Type != net.Reply {
		return c14Res{kind: 1}, true
	}
	v, ok := c14ParseValue(m.Payload)
	if !ok {
		return c14Res{kind: 1}, true
	}
	return c14Res{kind: 0, val: v}, true
}
func (e *c14Env) rawSet(conn int, nm c14Name, v c14Val) (c14Res, bool) {
	m, ok := e.rawCall(conn, c14ActSet, append(nm.bytes(), v.bytes()...))
	if !ok {
		return c14Res{}, false
	}
	if m.Header.Type != net.Reply {
		return c14Res{kind: 1}, true
	}
	return c14Res{kind: 2}, true
}

// the same through the second mailbox (bus.DirectClient)
func (e *c14Env) directGet(nm c14Name) c14Res {
	p, err := e.direct.Call(nil, e.sid, 1, c14ActGet, nm.bytes())
	if err != nil {
		return c14Res{kind: 1}
	}
	v, ok := c14ParseValue(p)
	if !ok {
		return c14Res{kind: 1}
	}
	return c14Res{kind: 0, val: v}
}
func (e *c14Env) directSet(nm c14Name, v c14Val) c14Res {
	if _, err := e.direct.Call(nil, e.sid, 1, c14ActSet, append(nm.bytes(), v.bytes()...)); err != nil {
		return c14Res{kind: 1}
	}
	return c14Res{kind: 2}
}
func (e *c14Env) update(x uint32) c14Res {
	e.impl.mu.Lock()
	h := e.impl.helper
	e.impl.mu.Unlock()
	if err := h.UpdateDelay(int32(x)); err != nil {
		return c14Res{kind: 1}
	}
	return c14Res{kind: 2}
}
func (e *c14Env) subscribe(conn int, uid uint64) (uint32, bool) {
	id := e.msgID()
	c := e.env.conns[conn]
	payload := append(svU32(1, c14PropUID), svU32(uint32(uid), uint32(uid>>32))...)
	if err := c.send(net.Call, e.sid, 1, 0, id, payload); err != nil {
		return 0, false
	}
	m := c.waitAnswer(id, 5*time.Second)
	return id, m != nil && m.Header.Type == net.Reply
}

type c14Event struct {
	conn int
	mid  uint32
	data []byte
}

// events collects the property-change events every connection received since the last call
func (e *c14Env) events() []c14Event {
	e.env.syncAll()
	var out []c14Event
	for ci, c := range e.env.conns {
		for _, m := range c.take() {
			if m.Header.Type == net.Event && m.Header.Action == c14PropUID {
				out = append(out, c14Event{ci, m.Header.ID, m.Payload})
			}
		}
	}
	return out
}

func c14EventsTerm(evs []c14Event) string {
	it := make([]string, len(evs))
	for i, ev := range evs {
		it[i] = fmt.Sprintf("(%d%%nat, %d%%N, %s)", ev.conn, ev.mid, hx.Str(hex.EncodeToString(ev.data)))
	}
	return "[" + strings.Join(it, "; ") + "]"
}

// ---------- sequential sequences ----------

type c14Sub struct {
	conn int
	mid  uint32
}

// c14Exhaustive runs every sequence of length 1..maxLen over a six-operation alphabet (get, two
// valid writes, an invalid write, a wrongly-typed write whose bytes decode, a service-side update),
// each on a fresh object with one subscriber.
func c14Exhaustive(res *hx.Result, rng *hx.Rng, cf *hx.Cases, maxLen int) {
	const k = 6
	wedged := 0
	for l := 1; l <= maxLen; l++ {
		total := 1
		for i := 0; i < l; i++ {
			total *= k
		}
		for code := 0; code < total; code++ {
			script := make([]int, l)
			c := code
			for i := range script {
				script[i] = c % k
				c /= k
			}
			if !c14Sequence(res, rng, cf, -1, script) {
				if wedged++; wedged >= 3 {
					return
				}
			}
		}
	}
}

func c14Sequential(res *hx.Result, rng *hx.Rng, cf *hx.Cases, n int) {
	wedged := 0 // sequences given up because a call got no answer within its deadline: the family stops after three
	for i := 0; i < n && wedged < 3; i++ {
		if !c14Sequence(res, rng, cf, i, nil) {
			wedged++
		}
	}
}

// c14Sequence: one sequence on a fresh object; script == nil: random operations
func c14Sequence(res *hx.Result, rng *hx.Rng, cf *hx.Cases, i int, script []int) bool {
	{
		e, err := c14NewEnv()
		if err != nil {
			res.Fail("harness-setup", err.Error())
			return false
		}
		wedged := false
		var ops, descs []string
		var subs []c14Sub
		var last *c14Val // the value of the most recent write the implementation accepted
		untyped := false // a wrongly-typed write has been accepted (known defect): typed oracles are known failures from here on
		uid := uint64(100)
		invalid := false
		record := func(op string, r string, evs []c14Event, desc string) {
			ops = append(ops, fmt.Sprintf("(%s, so %s %s)", op, r, c14EventsTerm(evs)))
			descs = append(descs, desc)
		}
		// half of the random sequences run with method statistics (a quarter: and traces) switched on
		// beforehand by one of the connections — for the model no step at all; a stream of its own decides
		feat := ""
		if script == nil {
			fr := hx.NewRng(res.Seed*0x9e3779b97f4a7c15 + uint64(i)*0x51ed27 + 0xc145e9)
			switch fr.Intn(4) {
			case 0:
				e.rawCall(fr.Intn(3), c14ActEnableStats, []byte{1})
				feat = "[statistics on] "
			case 1:
				e.rawCall(fr.Intn(3), c14ActEnableStats, []byte{1})
				e.rawCall(fr.Intn(3), c14ActEnableTrace, []byte{1})
				feat = "[statistics and traces on] "
			}
			if feat != "" {
				res.Dist("seq-features-on")
			}
		}
		trace := func() string { return feat + strings.Join(descs, " ; ") }
		fail := func(kind, detail string) {
			if untyped {
				res.FailKnown(kind, detail, "store_untyped")
			} else {
				res.Fail(kind, detail)
			}
		}
		checkWrite := func(desc string, r c14Res, v c14Val, evs []c14Event) {
			if r.kind == 2 {
				// accepted: exactly one event per subscriber carrying the new value
				for _, s := range subs {
					k := 0
					for _, ev := range evs {
						if ev.conn == s.conn && ev.mid == s.mid {
							k++
							if !bytes.Equal(ev.data, v.data) {
								fail("event-value", fmt.Sprintf("%s was accepted but the event to subscriber (conn %d, id %d) carries %x: %s", desc, s.conn, s.mid, ev.data, trace()))
							}
						}
					}
					if k != 1 {
						fail("event-count", fmt.Sprintf("%s was accepted and subscriber (conn %d, id %d) received %d events: %s", desc, s.conn, s.mid, k, trace()))
					}
				}
				if v.sig != "i" {
					untyped = true
					res.FailKnown("wrongly-typed-accepted", fmt.Sprintf("%s (signature %q on an int32 property) was accepted: %s", desc, v.sig, trace()), "store_untyped")
				}
				vv := v
				last = &vv
			} else {
				if len(evs) != 0 {
					fail("event-on-rejected-write", fmt.Sprintf("%s was rejected but %d events were emitted: %s", desc, len(evs), trace()))
				}
				// a rejected write changes nothing
				g, ok := e.rawGet(0, c14Delay)
				if ok {
					same := (last == nil && g.kind == 1) || (last != nil && g.kind == 0 && g.val.sig == last.sig && bytes.Equal(g.val.data, last.data))
					if !same {
						fail("rejected-write-changed-state", fmt.Sprintf("%s was rejected; the property now reads %s: %s", desc, g, trace()))
					}
				}
			}
		}
		nops := 12 + rng.Intn(14)
		if script != nil {
			nops = len(script) + 1
		}
	opsLoop:
		for j := 0; j < nops; j++ {
			x := rng.Intn(100)
			var forcedName *c14Name
			var forcedVal *c14Val
			var forcedInt *uint32
			if script != nil {
				forcedName = &c14Delay
				if j == 0 {
					x = 0 // subscribe
				} else {
					switch script[j-1] {
					case 0:
						x = 20 // raw get
					case 1, 2, 3, 4:
						x = 50 // raw set
						v := []c14Val{c14Int(5), c14Int(7), c14Int(0xffffffff), {"s", svStr("abcd")}}[script[j-1]-1]
						forcedVal = &v
					case 5:
						x = 90 // service-side update
						u := uint32(9)
						forcedInt = &u
					}
				}
			}
			switch {
			case x < 10 && len(subs) < 3:
				conn := rng.Intn(3)
				uid++
				mid, ok := e.subscribe(conn, uid)
				evs := e.events()
				desc := fmt.Sprintf("subscribe(conn %d)", conn)
				if !ok {
					res.Fail("subscribe-refused", "registerEvent for the property was refused: "+trace())
					continue
				}
				subs = append(subs, c14Sub{conn, mid})
				record(fmt.Sprintf("PSubscribe %d %d", conn, mid), "SDone", evs, desc)
			case x < 30:
				nm := c14GenName(rng)
				if forcedName != nil {
					nm = *forcedName
				}
				g, ok := e.rawGet(rng.Intn(3), nm)
				evs := e.events()
				desc := fmt.Sprintf("get(%s)->%s", nm.term(), g)
				if !ok {
					res.Fail("call-unanswered", "property() got no answer: "+trace())
					continue
				}
				record("PGet "+nm.term(), g.sres(), evs, desc)
				if nm == c14Delay {
					if g.kind == 0 && g.val.sig != "i" {
						fail("stored-value-not-of-declared-type", fmt.Sprintf("%s: signature %q: %s", desc, g.val.sig, trace()))
					}
					okv := (last == nil && g.kind == 1) || (last != nil && g.kind == 0 && g.val.sig == last.sig && bytes.Equal(g.val.data, last.data))
					if !okv {
						fail("read-not-last-accepted-write", fmt.Sprintf("%s but the last accepted write was %v: %s", desc, last, trace()))
					}
				}
				if len(evs) != 0 {
					fail("event-on-read", fmt.Sprintf("%s emitted %d events: %s", desc, len(evs), trace()))
				}
			case x < 38:
				// the generated getter
				var d int32
				var err error
				if _, answered := c14Within(5*time.Second, func() c14Res { d, err = e.bomb.GetDelay(); return c14Res{} }); !answered {
					res.Fail("call-unanswered", "GetDelay(): no answer within 5 s, after: "+trace())
					wedged = true
					break opsLoop
				}
				evs := e.events()
				r := "(STyped None)"
				desc := "GetDelay()->error"
				if err == nil {
					r = fmt.Sprintf("(STyped (Some %d%%N))", uint32(d))
					desc = fmt.Sprintf("GetDelay()->%d", d)
				}
				record("PGet "+c14Delay.term(), r, evs, desc)
				if last != nil && err != nil {
					fail("typed-get-fails", fmt.Sprintf("GetDelay fails although a write was accepted (%v): %s", *last, trace()))
				}
			case x < 68:
				nm := c14GenName(rng)
				v, vk := c14GenVal(rng)
				if forcedVal != nil {
					nm, v, vk = *forcedName, *forcedVal, "int32"
					if v.sig != "i" {
						vk = "string"
					}
				}
				r, ok := e.rawSet(rng.Intn(3), nm, v)
				evs := e.events()
				desc := fmt.Sprintf("set(%s, %s %s)->%s", nm.term(), vk, v, r)
				if !ok {
					res.Fail("call-unanswered", "setProperty got no answer: "+trace())
					continue
				}
				record(fmt.Sprintf("PSet %s %s", nm.term(), v.term()), r.sres(), evs, desc)
				if vk != "int32" || !nm.resolves() || int32(binary.LittleEndian.Uint32(v.data)) < 0 {
					invalid = true
				}
				checkWrite(desc, r, v, evs)
				if r.kind == 2 && !nm.resolves() {
					res.Fail("write-to-unknown-name-accepted", desc+": "+trace())
				}
			case x < 78:
				// the generated setter
				xv := c14GenInt(rng)
				r, answered := c14Within(5*time.Second, func() c14Res {
					if err := e.bomb.SetDelay(int32(xv)); err != nil {
						return c14Res{kind: 1}
					}
					return c14Res{kind: 2}
				})
				if !answered {
					res.Fail("call-unanswered", fmt.Sprintf("SetDelay(%d): no answer within 5 s, after: %s", int32(xv), trace()))
					wedged = true
					break opsLoop
				}
				evs := e.events()
				desc := fmt.Sprintf("SetDelay(%d)->%s", int32(xv), r)
				record(fmt.Sprintf("PSet %s %s", c14Delay.term(), c14Int(xv).term()), r.sres(), evs, desc)
				checkWrite(desc, r, c14Int(xv), evs)
				if (int32(xv) >= 0) != (r.kind == 2) {
					fail("validator-not-obeyed", fmt.Sprintf("%s: the validator accepts exactly the non-negative values: %s", desc, trace()))
				}
				if int32(xv) < 0 {
					invalid = true
				}
			default:
				xv := c14GenInt(rng)
				if forcedInt != nil {
					xv = *forcedInt
				}
				r, answered := c14Within(5*time.Second, func() c14Res { return e.update(xv) })
				if !answered {
					res.Fail("call-unanswered", fmt.Sprintf("UpdateDelay(%d): did not return within 5 s, after: %s", int32(xv), trace()))
					wedged = true
					break opsLoop
				}
				evs := e.events()
				desc := fmt.Sprintf("UpdateDelay(%d)->%s", int32(xv), r)
				record(fmt.Sprintf("PUpdate %d", xv), r.sres(), evs, desc)
				checkWrite(desc, r, c14Int(xv), evs)
				if (int32(xv) >= 0) != (r.kind == 2) {
					fail("validator-not-obeyed", fmt.Sprintf("%s: the validator accepts exactly the non-negative values: %s", desc, trace()))
				}
				if int32(xv) < 0 {
					invalid = true
				}
			}
		}
		e.close()
		res.Count(strings.Join(ops, "|"), invalid)
		if script != nil {
			res.Dist(fmt.Sprintf("exhaustive-seq-len:%d", len(script)))
		} else {
			res.Dist(fmt.Sprintf("seq-ops:%d0s", len(ops)/10))
			for _, d := range descs {
				res.Dist("seq:" + strings.SplitN(d, "(", 2)[0])
			}
		}
		if i >= 0 && i < 2 {
			res.Sample(trace())
		}
		cf.Add("scases", fmt.Sprintf("{| sc_ops := [\n    %s] |}", strings.Join(ops, ";\n    ")), fmt.Sprintf("sequence %d: %s", i, trace()))
		return !wedged
	}
}

// ---------- sequences with the subscriber table: raw registerEvent / unregisterEvent, client-chosen ids ----------

const c14BoomUID = 100

type c14Reg struct {
	conn int
	uid  uint64
	sig  uint32
	mid  uint32
}

// c14ROp: kind 0 registerEvent, 1 unregisterEvent, 2 raw get, 3 raw set, 4 generated SetDelay,
// 5 implementor UpdateDelay, 6 implementor SignalBoom; c14feat.go: 7 another method of the generic
// object (action, for enableStats / enableTrace the argument on), 8 setProperty through the second
// mailbox (bus.DirectClient), 9 the connection is closed
type c14ROp struct {
	kind     int
	conn     int
	obj, sig uint32
	uid      uint64
	v        c14Val
	x        uint32
	action   uint32
	on       bool
}

type c14AnyEvent struct {
	conn   int
	action uint32
	mid    uint32
	data   []byte
}

// rawReg sends registerEvent (action 0) or unregisterEvent (action 1): (object, signal, user id)
func (e *c14Env) rawReg(conn int, action uint32, obj, sig uint32, uid uint64) (uint32, bool, bool) {
	id := e.msgID()
	c := e.env.conns[conn]
	payload := append(svU32(obj, sig), svU32(uint32(uid), uint32(uid>>32))...)
	if err := c.send(net.Call, e.sid, 1, action, id, payload); err != nil {
		return id, false, false
	}
	m := c.waitAnswer(id, 5*time.Second)
	return id, m != nil && m.Header.Type == net.Reply, m != nil
}

func (e *c14Env) signalBoom(x uint32) c14Res {
	e.impl.mu.Lock()
	h := e.impl.helper
	e.impl.mu.Unlock()
	if err := h.SignalBoom(int32(x)); err != nil {
		return c14Res{kind: 1}
	}
	return c14Res{kind: 2}
}

// allEvents: every event frame (whatever its action) each connection received since the last call,
// connection by connection, in arrival order
func (e *c14Env) allEvents() ([]c14AnyEvent, bool) {
	ok := true
	for ci, c := range e.env.conns {
		if !e.closed[ci] && !c.sync() {
			ok = false
		}
	}
	var out []c14AnyEvent
	for ci, c := range e.env.conns {
		for _, m := range c.take() {
			if m.Header.Type == net.Event {
				out = append(out, c14AnyEvent{ci, m.Header.Action, m.Header.ID, m.Payload})
			}
		}
	}
	return out, ok
}

func c14AnyEventsTerm(evs []c14AnyEvent) string {
	it := make([]string, len(evs))
	for i, ev := range evs {
		it[i] = fmt.Sprintf("(%d%%nat, %d, %d, %s)", ev.conn, ev.action, ev.mid, hx.Str(hex.EncodeToString(ev.data)))
	}
	return "[" + strings.Join(it, "; ") + "]"
}

var c14UIDPool = []uint64{42, 1, 2, 0, 1<<32 | 1, 1<<63 | 42}
var c14SigPool = []uint32{c14PropUID, c14PropUID, c14PropUID, c14BoomUID, c14BoomUID, 7}

func c14GenObj(rng *hx.Rng) uint32 {
	switch rng.Intn(10) {
	case 0:
		return 0
	case 1:
		return 2
	}
	return 1
}

// c14GenROp: the next operation of a random sequence.  Registrations and unregistrations aim, half
// of the time, at a (connection, user id) pair that is registered right now — for the same or for
// another signal of the object — so that collisions, re-registrations and unregistrations that name
// another signal are the common case, not the exception.
func c14GenROp(rng *hx.Rng, active []c14Reg) c14ROp {
	x := rng.Intn(100)
	switch {
	case x < 32:
		o := c14ROp{kind: 0, conn: rng.Intn(3), obj: c14GenObj(rng), sig: c14SigPool[rng.Intn(len(c14SigPool))], uid: c14UIDPool[rng.Intn(len(c14UIDPool))]}
		if len(active) > 0 && rng.Chance(0.5) {
			a := active[rng.Intn(len(active))]
			o.uid = a.uid
			if rng.Chance(0.75) {
				o.conn = a.conn
			}
		}
		return o
	case x < 44:
		o := c14ROp{kind: 1, conn: rng.Intn(3), obj: c14GenObj(rng), sig: c14SigPool[rng.Intn(len(c14SigPool))], uid: c14UIDPool[rng.Intn(len(c14UIDPool))]}
		if len(active) > 0 && rng.Chance(0.6) {
			a := active[rng.Intn(len(active))]
			o.conn, o.uid = a.conn, a.uid
			if rng.Bool() {
				o.sig = a.sig
			}
		}
		return o
	case x < 50:
		return c14ROp{kind: 2, conn: rng.Intn(3)}
	case x < 68:
		v, _ := c14GenVal(rng)
		if rng.Chance(0.7) {
			v = c14Int(c14GenInt(rng))
		}
		return c14ROp{kind: 3, conn: rng.Intn(3), v: v}
	case x < 76:
		return c14ROp{kind: 4, x: c14GenInt(rng)}
	case x < 90:
		return c14ROp{kind: 5, x: c14GenInt(rng)}
	}
	return c14ROp{kind: 6, x: c14GenInt(rng)}
}

// c14RegistryScripts: small-scope enumeration of the collisions of one user id.  A first client
// registers signal A under id 42 on connection 0; optionally unregisters (naming signal A or B);
// id 42 is registered again for signal B on the same or on another connection; then a client write,
// a service-side update, a rejected write and a signal emission; then the id is unregistered and
// the property is written once more.
func c14RegistryScripts() [][]c14ROp {
	sigs := []uint32{c14PropUID, c14BoomUID, 7}
	var out [][]c14ROp
	for _, a := range sigs {
		for _, b := range sigs {
			for conn2 := 0; conn2 < 2; conn2++ {
				for mid := 0; mid < 3; mid++ {
					if mid == 2 && a == b {
						continue
					}
					sc := []c14ROp{
						{kind: 0, conn: 1, obj: 1, sig: c14PropUID, uid: 7},
						{kind: 0, conn: 0, obj: 1, sig: a, uid: 42},
					}
					switch mid {
					case 1:
						sc = append(sc, c14ROp{kind: 1, conn: 0, obj: 1, sig: a, uid: 42})
					case 2:
						sc = append(sc, c14ROp{kind: 1, conn: 0, obj: 1, sig: b, uid: 42})
					}
					sc = append(sc,
						c14ROp{kind: 0, conn: conn2, obj: 1, sig: b, uid: 42},
						c14ROp{kind: 3, conn: 2, v: c14Int(33)},
						c14ROp{kind: 5, x: 34},
						c14ROp{kind: 3, conn: 2, v: c14Int(0xffffffff)},
						c14ROp{kind: 6, x: 8},
						c14ROp{kind: 1, conn: 0, obj: 1, sig: c14PropUID, uid: 42},
						c14ROp{kind: 4, x: 35},
						c14ROp{kind: 2, conn: 0})
					out = append(out, sc)
				}
			}
		}
	}
	return out
}

func c14Registry(res *hx.Result, rng *hx.Rng, cf *hx.Cases, n int) {
	wedged := 0 // sequences given up because a call got no answer within its deadline: the family stops after three
	for i, sc := range c14RegistryScripts() {
		if wedged < 3 && !c14RegistrySequence(res, rng, cf, i, sc, c14RegFamily) {
			wedged++
		}
	}
	for i := 0; i < n && wedged < 3; i++ {
		if !c14RegistrySequence(res, rng, cf, i, nil, c14RegFamily) {
			wedged++
		}
	}
}

// c14Family: a generator of operations for c14RegistrySequence and the prefix of its distribution keys
type c14Family struct {
	tag  string
	gen  func(rng *hx.Rng, active []c14Reg) c14ROp
	nops func(rng *hx.Rng) int
}

var c14RegFamily = c14Family{"reg", c14GenROp, func(rng *hx.Rng) int { return 14 + rng.Intn(14) }}

// c14Within runs a call that has no deadline of its own (generated proxy, implementor helpers) under one
func c14Within(d time.Duration, f func() c14Res) (c14Res, bool) {
	ch := make(chan c14Res, 1)
	go func() { ch <- f() }()
	select {
	case r := <-ch:
		return r, true
	case <-time.After(d):
		return c14Res{}, false
	}
}

// c14RegistrySequence: one sequence on a fresh object; script == nil: random operations.
// Oracle (on the implementation alone): `active` holds the registrations that were acknowledged and
// not unregistered since (an acknowledged unregisterEvent ends what that connection registered
// under that user id); every accepted write must give each active registration for the property
// exactly one event, carrying the written bytes; a rejected write, a read, a registration, an
// unregistration, a signal emission must produce no property event.
func c14RegistrySequence(res *hx.Result, rng *hx.Rng, cf *hx.Cases, i int, script []c14ROp, fam c14Family) bool {
	e, err := c14NewEnv()
	if err != nil {
		res.Fail("harness-setup", err.Error())
		return false
	}
	defer e.close()
	var ops, descs []string
	var active []c14Reg
	var last *c14Val
	untyped := false
	collisions, rereg, invalid := 0, 0, false
	everReg := map[string]bool{}
	recording := true // false once a connection was closed: from there on the oracles only (the model has no such step)
	record := func(op string, r string, evs []c14AnyEvent, desc string) {
		if recording {
			ops = append(ops, fmt.Sprintf("(%s, ro %s %s)", op, r, c14AnyEventsTerm(evs)))
		}
		descs = append(descs, desc)
	}
	trace := func() string { return strings.Join(descs, " ; ") }
	synced := true // false: a connection did not answer the barrier call within its deadline
	// optional features of the object as the sequence switched them (c14feat.go)
	statsOn, traceOn, featWrites, traceFrames := false, false, 0, 0
	events := func() []c14AnyEvent {
		all, ok := e.allEvents()
		if !ok {
			synced = false
		}
		// traceObject frames (signal 0x56: time stamps, one per traced message) are not the property's
		// events and not in the model: counted, not compared
		evs := all[:0]
		for _, ev := range all {
			if ev.action == c14TraceUID {
				traceFrames++
				continue
			}
			evs = append(evs, ev)
		}
		return evs
	}
	liveConn := func(c int) int { // the connection itself, or the next one the sequence has not closed
		for k := 0; k < len(e.env.conns); k++ {
			if !e.closed[(c+k)%len(e.env.conns)] {
				return (c + k) % len(e.env.conns)
			}
		}
		return c
	}
	fail := func(kind, detail string) {
		if untyped {
			res.FailKnown(kind, detail, "store_untyped")
		} else {
			res.Fail(kind, detail)
		}
	}
	propEvents := func(evs []c14AnyEvent) int {
		k := 0
		for _, ev := range evs {
			if ev.action == c14PropUID {
				k++
			}
		}
		return k
	}
	silent := func(desc string, evs []c14AnyEvent) {
		if k := propEvents(evs); k != 0 {
			fail("event-without-accepted-write", fmt.Sprintf("%s emitted %d change events of the property: %s", desc, k, trace()))
		}
	}
	checkWrite := func(desc string, r c14Res, v c14Val, evs []c14AnyEvent) {
		if r.kind == 2 {
			// a subscriber = what one connection registered for the property under one user id (the
			// pinned code refuses a second registration of the pair, so this is one registration)
			seen := map[string]bool{}
			for _, a := range active {
				key := fmt.Sprintf("%d/%d", a.conn, a.uid)
				if a.sig != c14PropUID || seen[key] {
					continue
				}
				seen[key] = true
				mids := map[uint32]bool{}
				var midl []string
				for _, b := range active {
					if b.sig == c14PropUID && b.conn == a.conn && b.uid == a.uid {
						mids[b.mid] = true
						midl = append(midl, fmt.Sprint(b.mid))
					}
				}
				who := fmt.Sprintf("(conn %d, user id %d, registered by message %s: acknowledged, not unregistered)", a.conn, a.uid, strings.Join(midl, "/"))
				k := 0
				for _, ev := range evs {
					if ev.conn == a.conn && mids[ev.mid] && ev.action == c14PropUID {
						k++
						if !bytes.Equal(ev.data, v.data) {
							fail("event-value", fmt.Sprintf("%s was accepted but the event to the subscription %s carries %x: %s", desc, who, ev.data, trace()))
						}
					}
				}
				if k != 1 {
					var fr []string // where the change events of this write went
					for _, ev := range evs {
						if ev.action == c14PropUID {
							fr = append(fr, fmt.Sprintf("(conn %d, message id %d, %x)", ev.conn, ev.mid, ev.data))
						}
					}
					feat := ""
					if statsOn || traceOn {
						feat = fmt.Sprintf(" [statistics on: %v, traces on: %v]", statsOn, traceOn)
					}
					fail("event-count", fmt.Sprintf("%s was accepted and the subscription %s received %d events (change event frames of this write: %s)%s: %s", desc, who, k, strings.Join(fr, " "), feat, trace()))
				}
				if statsOn || traceOn {
					featWrites++
				}
			}
			if v.sig != "i" {
				untyped = true
				res.FailKnown("wrongly-typed-accepted", fmt.Sprintf("%s (signature %q on an int32 property) was accepted: %s", desc, v.sig, trace()), "store_untyped")
			}
			vv := v
			last = &vv
		} else {
			silent(desc+" (rejected)", evs)
			g, ok := e.rawGet(liveConn(0), c14Delay)
			if ok {
				same := (last == nil && g.kind == 1) || (last != nil && g.kind == 0 && g.val.sig == last.sig && bytes.Equal(g.val.data, last.data))
				if !same {
					fail("rejected-write-changed-state", fmt.Sprintf("%s was rejected; the property now reads %s: %s", desc, g, trace()))
				}
			}
		}
	}
	nops := fam.nops(rng)
	if script != nil {
		nops = len(script)
	}
	for j := 0; j < nops; j++ {
		if !synced {
			res.Fail("call-unanswered", "a connection stopped answering (barrier call: no answer within 5 s) after: "+trace())
			return false
		}
		var o c14ROp
		if script != nil {
			o = script[j]
		} else {
			o = fam.gen(rng, active)
		}
		if o.kind == 9 && (len(e.closed)+2 > len(e.env.conns) || e.closed[o.conn]) {
			continue // at least two connections stay
		}
		o.conn = liveConn(o.conn)
		switch o.kind {
		case 0:
			for _, a := range active {
				if a.conn == o.conn && a.uid == o.uid {
					collisions++
					if a.sig != o.sig {
						res.Dist("reg:collision-across-signals")
					} else {
						res.Dist("reg:collision-same-signal")
					}
				} else if a.uid == o.uid {
					res.Dist("reg:same-id-other-connection")
				}
			}
			key := fmt.Sprintf("%d/%d", o.conn, o.uid)
			mid, ok, answered := e.rawReg(o.conn, 0, o.obj, o.sig, o.uid)
			evs := events()
			r := c14Res{kind: 1}
			if ok {
				r.kind = 2
			}
			desc := fmt.Sprintf("registerEvent(conn %d, object %d, signal %d, user id %d)->%s", o.conn, o.obj, o.sig, o.uid, r)
			if !answered {
				res.Fail("call-unanswered", desc+": no answer within 5 s, after: "+trace())
				return false
			}
			record(fmt.Sprintf("SRegister %d %d %d %d %d", o.conn, o.obj, o.sig, o.uid, mid), r.sres(), evs, desc)
			silent(desc, evs)
			if o.sig == c14TraceUID {
				traceOn = true // objectImpl.RegisterEvent: a registration to traceObject, acknowledged or not, switches traces on
			}
			if ok {
				if everReg[key] {
					rereg++
					res.Dist("reg:re-registration-acknowledged")
				}
				everReg[key] = true
				active = append(active, c14Reg{o.conn, o.uid, o.sig, mid})
			}
		case 1:
			_, ok, answered := e.rawReg(o.conn, 1, o.obj, o.sig, o.uid)
			evs := events()
			r := c14Res{kind: 1}
			if ok {
				r.kind = 2
			}
			desc := fmt.Sprintf("unregisterEvent(conn %d, object %d, signal %d, user id %d)->%s", o.conn, o.obj, o.sig, o.uid, r)
			if !answered {
				res.Fail("call-unanswered", desc+": no answer within 5 s, after: "+trace())
				return false
			}
			record(fmt.Sprintf("SUnregister %d %d %d %d", o.conn, o.obj, o.sig, o.uid), r.sres(), evs, desc)
			silent(desc, evs)
			if ok {
				var keep []c14Reg
				for _, a := range active {
					if a.conn == o.conn && a.uid == o.uid {
						if a.sig != o.sig {
							res.Dist("reg:unregister-names-another-signal")
						}
						continue
					}
					keep = append(keep, a)
				}
				active = keep
			}
		case 2:
			g, ok := e.rawGet(o.conn, c14Delay)
			evs := events()
			desc := fmt.Sprintf("get(delay)->%s", g)
			if !ok {
				res.Fail("call-unanswered", desc+": no answer within 5 s, after: "+trace())
				return false
			}
			record("SOp (PGet "+c14Delay.term()+")", g.sres(), evs, desc)
			if g.kind == 0 && g.val.sig != "i" {
				fail("stored-value-not-of-declared-type", fmt.Sprintf("%s: signature %q: %s", desc, g.val.sig, trace()))
			}
			okv := (last == nil && g.kind == 1) || (last != nil && g.kind == 0 && g.val.sig == last.sig && bytes.Equal(g.val.data, last.data))
			if !okv {
				fail("read-not-last-accepted-write", fmt.Sprintf("%s but the last accepted write was %v: %s", desc, last, trace()))
			}
			silent(desc, evs)
		case 3:
			r, ok := e.rawSet(o.conn, c14Delay, o.v)
			evs := events()
			desc := fmt.Sprintf("set(delay, %s)->%s", o.v, r)
			if !ok {
				res.Fail("call-unanswered", desc+": no answer within 5 s, after: "+trace())
				return false
			}
			record(fmt.Sprintf("SOp (PSet %s %s)", c14Delay.term(), o.v.term()), r.sres(), evs, desc)
			if o.v.sig != "i" || len(o.v.data) != 4 || int32(binary.LittleEndian.Uint32(o.v.data)) < 0 {
				invalid = true
			}
			checkWrite(desc, r, o.v, evs)
		case 4:
			r, answered := c14Within(5*time.Second, func() c14Res {
				if err := e.bomb.SetDelay(int32(o.x)); err != nil {
					return c14Res{kind: 1}
				}
				return c14Res{kind: 2}
			})
			if !answered {
				res.Fail("call-unanswered", fmt.Sprintf("SetDelay(%d): no answer within 5 s, after: %s", int32(o.x), trace()))
				return false
			}
			evs := events()
			desc := fmt.Sprintf("SetDelay(%d)->%s", int32(o.x), r)
			record(fmt.Sprintf("SOp (PSet %s %s)", c14Delay.term(), c14Int(o.x).term()), r.sres(), evs, desc)
			checkWrite(desc, r, c14Int(o.x), evs)
			if (int32(o.x) >= 0) != (r.kind == 2) {
				fail("validator-not-obeyed", fmt.Sprintf("%s: the validator accepts exactly the non-negative values: %s", desc, trace()))
			}
			if int32(o.x) < 0 {
				invalid = true
			}
		case 5:
			r, answered := c14Within(5*time.Second, func() c14Res { return e.update(o.x) })
			if !answered {
				res.Fail("call-unanswered", fmt.Sprintf("UpdateDelay(%d): did not return within 5 s, after: %s", int32(o.x), trace()))
				return false
			}
			evs := events()
			desc := fmt.Sprintf("UpdateDelay(%d)->%s", int32(o.x), r)
			record(fmt.Sprintf("SOp (PUpdate %d)", o.x), r.sres(), evs, desc)
			checkWrite(desc, r, c14Int(o.x), evs)
			if (int32(o.x) >= 0) != (r.kind == 2) {
				fail("validator-not-obeyed", fmt.Sprintf("%s: the validator accepts exactly the non-negative values: %s", desc, trace()))
			}
			if int32(o.x) < 0 {
				invalid = true
			}
		case 6:
			r, answered := c14Within(5*time.Second, func() c14Res { return e.signalBoom(o.x) })
			if !answered {
				res.Fail("call-unanswered", fmt.Sprintf("SignalBoom(%d): did not return within 5 s, after: %s", int32(o.x), trace()))
				return false
			}
			evs := events()
			desc := fmt.Sprintf("SignalBoom(%d)->%s", int32(o.x), r)
			record(fmt.Sprintf("SSignal %d", o.x), r.sres(), evs, desc)
			silent(desc, evs)
		case 7:
			m, answered := e.rawCall(o.conn, o.action, c14AuxPayload(o))
			evs := events()
			r := c14Res{kind: 1}
			if answered && m.Header.Type == net.Reply {
				r.kind = 2
			}
			desc := fmt.Sprintf("%s on conn %d->%s", c14AuxName(o), o.conn, r)
			if !answered {
				res.Fail("call-unanswered", desc+": no answer within 5 s, after: "+trace())
				return false
			}
			record(fmt.Sprintf("SAux %d %d", o.conn, o.action), r.sres(), evs, desc)
			silent(desc, evs)
			if r.kind == 2 {
				switch o.action {
				case c14ActEnableStats:
					statsOn = o.on
				case c14ActEnableTrace:
					traceOn = o.on
				case c14ActIsStats, c14ActIsTrace:
					// the harness only believes a feature is on when the object says so
					want := statsOn
					if o.action == c14ActIsTrace {
						want = traceOn
					}
					if len(m.Payload) != 1 || (m.Payload[0] != 0) != want {
						res.Notes = append(res.Notes, fmt.Sprintf("%s answered %x, the sequence had switched it to %v: %s", c14AuxName(o), m.Payload, want, trace()))
					} else if want {
						res.Dist(fam.tag + ":feature-confirmed-on")
					}
				}
			}
		case 8:
			r, answered := c14Within(5*time.Second, func() c14Res { return e.directSet(c14Delay, o.v) })
			if !answered {
				res.Fail("call-unanswered", fmt.Sprintf("setProperty(delay, %s) through the second mailbox: no answer within 5 s, after: %s", o.v, trace()))
				return false
			}
			evs := events()
			desc := fmt.Sprintf("direct-set(delay, %s)->%s", o.v, r)
			record(fmt.Sprintf("SOp (PSet %s %s)", c14Delay.term(), o.v.term()), r.sres(), evs, desc)
			if o.v.sig != "i" || len(o.v.data) != 4 || int32(binary.LittleEndian.Uint32(o.v.data)) < 0 {
				invalid = true
			}
			checkWrite(desc, r, o.v, evs)
		case 9:
			// the connection leaves without unregistering.  What it registered ends with it; the others
			// keep theirs.  The server drops its entries asynchronously (one closer goroutine per entry),
			// and until then a write fails to reach it and reports that: the harness repeats a
			// service-side update (fresh value each time) until one is answered ok, that one is judged.
			events()
			if e.closed == nil {
				e.closed = map[int]bool{}
			}
			e.closed[o.conn] = true
			e.env.conns[o.conn].c.Close()
			recording = false
			var keep []c14Reg
			for _, a := range active {
				if a.conn != o.conn {
					keep = append(keep, a)
				}
			}
			active = keep
			descs = append(descs, fmt.Sprintf("conn %d closes", o.conn))
			res.Dist(fam.tag + ":connection-closed")
			var r c14Res
			var evs []c14AnyEvent
			x := uint32(1000)
			for try := 0; try < 150; try++ {
				x++
				var answered bool
				r, answered = c14Within(5*time.Second, func() c14Res { return e.update(x) })
				if !answered {
					res.Fail("call-unanswered", fmt.Sprintf("UpdateDelay(%d) after a connection closed: did not return within 5 s, after: %s", x, trace()))
					return false
				}
				evs = events()
				vv := c14Int(x)
				last = &vv // saved before the notification that failed
				if r.kind == 2 {
					break
				}
				time.Sleep(10 * time.Millisecond)
			}
			desc := fmt.Sprintf("UpdateDelay(%d)->%s", int32(x), r)
			descs = append(descs, desc)
			if r.kind != 2 {
				fail("write-keeps-failing-after-subscriber-left", fmt.Sprintf("%s: service-side updates still fail 1.5 s after a subscriber's connection closed: %s", desc, trace()))
				r.kind = 2 // the value is stored: the remaining subscribers are owed its event
			}
			checkWrite(desc, r, c14Int(x), evs)
		}
	}
	canon := strings.Join(ops, "|")
	if !recording {
		canon += "|" + trace()
	}
	res.Count(canon, collisions > 0 || rereg > 0 || invalid || featWrites > 0)
	if traceFrames > 0 {
		res.Dist(fam.tag + ":sequences-with-traceObject-frames")
	}
	if featWrites > 0 {
		res.Dist(fam.tag + ":sequences-with-accepted-writes-while-a-feature-is-on")
	}
	if script != nil {
		res.Dist(fam.tag + "-scripted")
	} else {
		res.Dist(fmt.Sprintf("%s-ops:%d0s", fam.tag, len(ops)/10))
		for _, d := range descs {
			res.Dist(fam.tag + ":" + strings.SplitN(d, "(", 2)[0])
		}
	}
	if script == nil && i < 2 {
		res.Sample(trace())
	}
	cf.Add("rcases", fmt.Sprintf("{| rc_ops := [\n    %s] |}", strings.Join(ops, ";\n    ")), fmt.Sprintf("%s sequence %d: %s", fam.tag, i, trace()))
	return true
}

// ---------- concurrent histories ----------

type c14Op struct {
	tid      int
	get      bool
	update   bool
	nm       c14Name
	v        c14Val
	x        uint32
	inv, ret int64
	res      c14Res
	done     bool
}

func (o *c14Op) opTerm() string {
	switch {
	case o.get:
		return "(PGet " + o.nm.term() + ")"
	case o.update:
		return fmt.Sprintf("(PUpdate %d)", o.x)
	}
	return fmt.Sprintf("(PSet %s %s)", o.nm.term(), o.v.term())
}
func (o *c14Op) String() string {
	r := "pending"
	if o.done {
		r = o.res.String()
	}
	switch {
	case o.get:
		return fmt.Sprintf("[t%d %d..%d get -> %s]", o.tid, o.inv, o.ret, r)
	case o.update:
		return fmt.Sprintf("[t%d %d..%d UpdateDelay(%d) -> %s]", o.tid, o.inv, o.ret, int32(o.x), r)
	}
	return fmt.Sprintf("[t%d %d..%d set(%s) -> %s]", o.tid, o.inv, o.ret, o.v, r)
}

// c14Linearizable: is there an order of the completed operations, consistent with real time, in
// which every get returns the value of the closest preceding accepted write (the initial value if
// there is none)?  Accept / reject of a write is taken from the implementation's own answer.
func c14Linearizable(init *c14Val, ops []*c14Op) bool {
	n := len(ops)
	used := make([]bool, n)
	var rec func(cur *c14Val, left int) bool
	rec = func(cur *c14Val, left int) bool {
		if left == 0 {
			return true
		}
		for i, o := range ops {
			if used[i] {
				continue
			}
			minimal := true
			for j, p := range ops {
				if !used[j] && j != i && p.ret < o.inv {
					minimal = false
					break
				}
			}
			if !minimal {
				continue
			}
			next := cur
			if o.get {
				if o.nm == c14Delay {
					if cur == nil && o.res.kind != 1 {
						continue
					}
					if cur != nil && !(o.res.kind == 0 && o.res.val.sig == cur.sig && bytes.Equal(o.res.val.data, cur.data)) {
						continue
					}
				}
			} else if o.res.kind == 2 {
				v := o.v
				if o.update {
					v = c14Int(o.x)
				}
				next = &v
			}
			used[i] = true
			if rec(next, left-1) {
				return true
			}
			used[i] = false
		}
		return false
	}
	return rec(init, n)
}

func c14Concurrent(res *hx.Result, rng *hx.Rng, cf *hx.Cases, n int) {
	frng := hx.NewRng(res.Seed*0x9e3779b97f4a7c15 + 0xc14c0c) // which histories run with the optional features on: a stream of its own
	wedged := 0                                               // histories in which a call got no answer within its deadline: the family stops after three
	for i := 0; i < n && wedged < 3; i++ {
		e, err := c14NewEnv()
		if err != nil {
			res.Fail("harness-setup", err.Error())
			return
		}
		var initOps []string
		var subs []c14Sub
		// in a third of the histories method statistics (and in half of those traces too) are switched on
		// first, by a connection that neither subscribes nor writes alone: the subscribers then register
		// through the wrapper channels, the writers are other connections (for the model: no step at all)
		feat := ""
		if frng.Intn(3) == 0 {
			feat = "statistics on; "
			e.rawCall(1, c14ActEnableStats, []byte{1})
			if frng.Bool() {
				feat = "statistics and traces on; "
				e.rawCall(2, c14ActEnableTrace, []byte{1})
			}
			res.Dist("conc-features-on")
		}
		for c := 0; c < 2; c++ {
			mid, ok := e.subscribe(c, uint64(500+c))
			if ok {
				subs = append(subs, c14Sub{c, mid})
				initOps = append(initOps, fmt.Sprintf("PSubscribe %d %d", c, mid))
			}
		}
		var init *c14Val
		if rng.Bool() {
			if e.update(10).kind == 2 {
				v := c14Int(10)
				init = &v
				initOps = append(initOps, "PUpdate 10")
			}
		}
		e.events() // discard what the setup produced
		forced := rng.Chance(0.5)
		if forced {
			e.impl.mu.Lock()
			e.impl.hold = make(chan struct{})
			e.impl.holding = make(chan struct{})
			e.impl.mu.Unlock()
		}
		var clock int64
		nthreads := 3 + rng.Intn(2)
		threads := make([][]*c14Op, nthreads)
		for t := 0; t < nthreads; t++ {
			k := 2 + rng.Intn(3)
			for j := 0; j < k; j++ {
				o := &c14Op{tid: t, nm: c14Delay}
				switch {
				case t == 2: // the implementor's own goroutine
					o.update = true
					o.x = c14GenInt(rng)
				case rng.Chance(0.4):
					o.get = true
				default:
					o.v, _ = c14GenVal(rng)
					if rng.Chance(0.7) {
						o.v = c14Int(uint32(rng.Intn(40)))
					}
				}
				threads[t] = append(threads[t], o)
			}
		}
		if forced { // thread 0's first operation is the write the validator holds: a valid or an invalid one
			hv := int32(c14HoldValue)
			if rng.Bool() {
				hv = -hv
				res.Dist("conc-held-write-invalid")
			}
			threads[0][0] = &c14Op{tid: 0, nm: c14Delay, v: c14Int(uint32(hv))}
		}
		var wg sync.WaitGroup
		start := make(chan struct{})
		for t := 0; t < nthreads; t++ {
			wg.Add(1)
			go func(t int) {
				defer wg.Done()
				<-start
				if forced && t != 0 {
					select { // start while thread 0 sits between validation and save
					case <-e.impl.holding:
					case <-time.After(time.Second):
					}
				}
				for j, o := range threads[t] {
					o.inv = atomic.AddInt64(&clock, 1)
					ok := true
					switch { // (the helper and the second mailbox have no deadline of their own)
					case o.update:
						o.res, ok = c14Within(5*time.Second, func() c14Res { return e.update(o.x) })
					case t == 1: // second mailbox
						if o.get {
							o.res, ok = c14Within(5*time.Second, func() c14Res { return e.directGet(o.nm) })
						} else {
							o.res, ok = c14Within(5*time.Second, func() c14Res { return e.directSet(o.nm, o.v) })
						}
					default:
						conn := 2
						if t == 3 {
							conn = 0
						}
						if o.get {
							o.res, ok = e.rawGet(conn, o.nm)
						} else {
							o.res, ok = e.rawSet(conn, o.nm, o.v)
						}
					}
					o.ret = atomic.AddInt64(&clock, 1)
					o.done = ok
					if forced && t == 2 && j == 0 {
						close(e.impl.hold) // one complete update has happened inside the held write
					}
					if !ok {
						break // no answer within 5 s: the thread gives up, its remaining operations are not invoked
					}
				}
			}(t)
		}
		close(start)
		wg.Wait()
		if forced {
			select {
			case <-e.impl.hold:
			default:
				close(e.impl.hold)
			}
		}
		// a final read pins the last value down
		final := &c14Op{tid: 9, get: true, nm: c14Delay}
		final.inv = atomic.AddInt64(&clock, 1)
		final.res, final.done = e.rawGet(2, c14Delay)
		final.ret = atomic.AddInt64(&clock, 1)
		evs := e.events()
		e.close()
		var all []*c14Op
		overlap := false
		unanswered := false
		for _, th := range threads {
			for _, o := range th {
				if o.inv != 0 { // invoked
					all = append(all, o)
					unanswered = unanswered || !o.done
				}
			}
		}
		all = append(all, final)
		if unanswered {
			wedged++
		}
		var hist, descs []string
		var accepted [][]byte
		for _, o := range all {
			descs = append(descs, o.String())
			if !o.done {
				res.Fail("call-unanswered", "an operation of a concurrent history got no answer: "+o.String())
				hist = append(hist, fmt.Sprintf("orc %d %s %d None", o.tid, o.opTerm(), o.inv))
				continue
			}
			hist = append(hist, fmt.Sprintf("orc %d %s %d (Some (%d%%N, %s))", o.tid, o.opTerm(), o.inv, o.ret, o.res.pres()))
			if !o.get && o.res.kind == 2 {
				if o.update {
					accepted = append(accepted, svU32(o.x))
				} else {
					accepted = append(accepted, o.v.data)
				}
			}
			for _, p := range all {
				if p.tid != o.tid && p.inv < o.ret && o.inv < p.ret {
					overlap = true
				}
			}
		}
		trace := feat + strings.Join(descs, " ")
		untyped := false
		for _, o := range all {
			if !o.get && !o.update && o.res.kind == 2 && o.v.sig != "i" {
				untyped = true
			}
		}
		fail := func(kind, detail string) {
			if untyped {
				res.FailKnown(kind, detail, "store_untyped")
			} else {
				res.Fail(kind, detail)
			}
		}
		if !c14Linearizable(init, all) {
			res.Fail("not-linearizable", "no order of these operations consistent with real time makes every read return the latest accepted write: "+trace)
		}
		var evTerms []string
		for _, s := range subs {
			var got [][]byte
			var pl []string
			for _, ev := range evs {
				if ev.conn == s.conn && ev.mid == s.mid {
					got = append(got, ev.data)
					pl = append(pl, hx.Str(hex.EncodeToString(ev.data)))
				}
			}
			if !c14SameMultiset(got, accepted) {
				fail("events-not-one-per-accepted-write", fmt.Sprintf("subscriber (conn %d, id %d) received payloads %x, accepted writes carried %x: %s", s.conn, s.mid, got, accepted, trace))
			}
			evTerms = append(evTerms, fmt.Sprintf("(%d%%nat, %d%%N, [%s])", s.conn, s.mid, strings.Join(pl, "; ")))
		}
		for _, o := range all {
			if o.get && o.done && o.res.kind == 0 && o.res.val.sig != "i" {
				fail("stored-value-not-of-declared-type", fmt.Sprintf("%s returned signature %q: %s", o, o.res.val.sig, trace))
			}
		}
		res.Count(strings.Join(hist, "|"), overlap)
		res.Dist(fmt.Sprintf("conc-threads:%d", nthreads))
		if forced {
			res.Dist("conc-forced-held-write")
		}
		if overlap {
			res.Dist("conc-overlapping")
		}
		if i < 2 {
			res.Sample(trace)
		}
		cf.Add("ccases", fmt.Sprintf("{| cc_init := [%s]; cc_hist := [\n    %s];\n  cc_events := [%s] |}",
			strings.Join(initOps, "; "), strings.Join(hist, ";\n    "), strings.Join(evTerms, "; ")), fmt.Sprintf("history %d: %s", i, trace))
	}
}

func c14SameMultiset(a, b [][]byte) bool {
	if len(a) != len(b) {
		return false
	}
	used := make([]bool, len(b))
outer:
	for _, x := range a {
		for j, y := range b {
			if !used[j] && bytes.Equal(x, y) {
				used[j] = true
				continue outer
			}
		}
		return false
	}
	return true
}

// ---------- defect probe ----------

func c14Probe(res *hx.Result) bool {
	e, err := c14NewEnv()
	if err != nil {
		res.Fail("harness-setup", err.Error())
		return false
	}
	defer e.close()
	e.update(10)
	r, _ := e.rawSet(0, c14Delay, c14Val{"s", svStr("abcd")})
	g, _ := e.rawGet(0, c14Delay)
	_, gerr := e.bomb.GetDelay()
	on := r.kind == 2 && g.kind == 0 && g.val.sig == "s"
	res.Switch("store_untyped", on, fmt.Sprintf("UpdateDelay(10); setProperty(\"delay\", String(\"abcd\")) -> %s; property(\"delay\") -> %s; generated GetDelay() error: %v", r, g, gerr))
	return on
}

func runC14(res *hx.Result, rng *hx.Rng, tier string, outdir string) {
	res.Rule = "sequential: 12-25 operations (raw get/set with every name form and value form: int32 incl. negative and boundary, string, " +
		"uint32, bool, int64, float, 1-tuple, int8; generated GetDelay/SetDelay; implementor UpdateDelay; up to 3 subscribers) on a real Bomb object; " +
		"subscriber table: 14-27 operations (raw registerEvent / unregisterEvent on three connections with client-chosen user ids from a pool of six — " +
		"half of them aimed at a (connection, id) pair registered right now, for the same or another signal/property of the object, any object id form —, " +
		"raw and generated writes, UpdateDelay, SignalBoom, reads) plus the 48 scripted collisions of one id (signal A, optional unregister naming A or B, signal B on the same or another connection); " +
		"optional features: 16-30 operations (enableStats / enableTrace on and off and a registration to traceObject, by any of the three connections; metaObject, properties, stats, clearStats, isStatsEnabled, isTraceEnabled; " +
		"registerEvent / unregisterEvent under the SAME user ids on the three connections for the property, the signal and traceObject; writes by raw connections, the generated proxy, the second mailbox, the service; SignalBoom; reads; " +
		"a connection that closes without unregistering, after which the harness repeats a service-side update until one is answered ok and judges that one) plus 20 scripted sequences " +
		"(feature setting none / statistics / traces / both / traces by registration x switched off again or not x the second subscriber leaves by unregisterEvent or by closing; the three connections do the same steps); " +
		"half of the sequential sequences and a third of the concurrent histories run with statistics (and traces) switched on beforehand; " +
		"concurrent: 3-4 threads (server mailbox, second mailbox through DirectClient, the implementor's goroutine, a second connection) x 2-4 operations, " +
		"stamped by one atomic counter, half of them with a write held inside the validator while others complete; " +
		"several properties (an object built with bus.NewBasicObject declaring 2-8 int32 properties): 3-5 threads (service-side UpdateProperty goroutines, further mailboxes of the object, " +
		"DirectClient, a server connection) x 2-4 reads / writes by name or uid / updates mostly of DIFFERENT properties, a subscriber per property, final reads; and rounds of bursts released by a spin barrier — " +
		"one writer per property with read-back, a polling reader and final reads of every property, or several writers of one property with subscribers on all — that stop at the first failure; " +
		"value sizes (the same kind of object declaring a string, a list, a raw and an int32 property): values of 8 B to 700 KiB (below, at and above 4 / 32 / 64 KiB) written in bursts by 1-3 service goroutines and up to two connections at once, the int32 property by a further writer, " +
		"subscriptions of both properties on shared connections that also carry the replies to their own reads and writes, half of the configurations with connections that read in pieces of 16 KiB; before every burst accepted ; read ; refused service-side update / client write ; read, for both properties; " +
		"non-trivial = an invalid or wrongly-typed write is present (sequential), a user id collision, a re-registration or an invalid write is present (subscriber table), the same or an accepted write to a subscriber while statistics or traces are on (optional features), two operations of different threads overlap (concurrent), " +
		"two accepted writes of different threads to different properties overlap (several properties; for a configuration of rounds: in a sampled round); distinct by sha256"
	nSeq, nReg, nConc, nMulti, nFeat := 120, 60, 80, 40, 50
	if tier == "thorough" {
		nSeq, nReg, nConc, nMulti, nFeat = 4000, 3000, 4000, 2000, 2500
	}
	on := c14Probe(res)
	cf := hx.NewCases(outdir, "C14", "From QV Require Import Bytes Property PropertySubs PropertyMulti Lin C14Run.", "mismatches cfg scases ccases rcases mcases", res,
		"scases", "scase", "ccases", "ccase", "rcases", "rcase", "mcases", "mcase")
	cf.Extra = append(cf.Extra, "Local Open Scope N_scope.", fmt.Sprintf("Definition cfg := mkcfg %s.", hx.Bool(on)))
	c14Sequential(res, rng, cf, nSeq)
	if tier == "thorough" {
		c14Exhaustive(res, rng, cf, 5)
		res.Exhaustive = true
		res.Notes = append(res.Notes, "exhaustive part: every sequence of length <= 5 over {get, set 5, set 7, set -1, set String(abcd), UpdateDelay(9)} on a fresh object with one subscriber (9330 sequences)")
	}
	c14Concurrent(res, rng, cf, nConc)
	c14Registry(res, rng, cf, nReg) // after the two above: they keep the random stream they had before this family existed
	c14Features(res, cf, nFeat)     // optional features on and off, same steps on several connections, leavers (c14feat.go); own random stream
	// objects with several properties (c14multi.go); these schedules want several CPUs
	if prev := runtime.GOMAXPROCS(0); prev < 4 {
		runtime.GOMAXPROCS(4)
		defer runtime.GOMAXPROCS(prev)
	}
	res.Notes = append(res.Notes, fmt.Sprintf("several-property families ran with GOMAXPROCS=%d on %d CPUs", runtime.GOMAXPROCS(0), runtime.NumCPU()))
	c14MultiConcurrent(res, rng, cf, nMulti)
	c14MultiRace(res, rng, cf, tier)
	// values of every size class written by service goroutines and clients at once, subscribers on shared connections (c14sizes.go); own random stream
	if tier == "thorough" {
		c14Sizes(res, 40, 10)
	} else {
		c14Sizes(res, 6, 3)
	}
	cf.Flush()
}
