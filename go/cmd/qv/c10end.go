package main

// C10, send-then-end: what a handler has been given when its life ends.
//
// The peer sends a few messages and then the handler's life ends, in every way the package offers:
//
//   - the peer hangs up right after its last message (the end of the stream follows the last frame at once;
//     on the harness buffer also a read error that is not io.EOF),
//   - the local side calls Close,
//   - RemoveHandler,
//   - the handler's own filter answers keep=false,
//
// for every handler flavour of the package — MakeHandler with a queue of the caller, AddHandler with a
// consumer callback (the package's own queue of 10 and forwarding goroutine), ReceiveAny — while the
// consumer is SLOW: it is still busy with an earlier message (an AddHandler callback that has not returned,
// a reader that has taken 0..2 messages out of its queue) when the end comes.  Nothing in the property lets
// the end of a handler take back what the handler was already given:
//
//     every message that arrived before the end, that the filter selected and that found room in the queue
//     is delivered to the consumer, in arrival order, each once — for a queue of the caller before the
//     queue is seen closed.
//
// The handler's life may end while others go on: after RemoveHandler / keep=false a new handler takes the
// freed slot on the same endpoint and more messages follow (second use after the first use ended).
//
// Every run is also written as an operation sequence (OMake / OMsg / ORecv / ORemove / OCloseAll / OGoCloser /
// OGoClose in the observed order) and replayed on the endpoint model (C17Run.case_ok): an AddHandler is a
// MakeHandler with a queue of 10 whose consumer takes a message (ORecv) each time the callback is entered.

import (
	"errors"
	"fmt"
	"strings"
	"sync"
	"time"

	"github.com/lugu/qiloop/bus/net"
	"qv/internal/hx"
)

const (
	flRaw = iota // MakeHandler(filter, queue of the harness, closer)
	flAdd        // AddHandler(filter, consumer callback, closer)
	flAny        // ReceiveAny()
)

var flNames = []string{"MakeHandler", "AddHandler", "ReceiveAny"}

const (
	endPeerClose  = iota // the peer closes its side right after its last message
	endPeerReset         // harness buffer only: the read fails with an error that is not io.EOF
	endLocalClose        // EndPoint.Close
	endRemove            // RemoveHandler(id of the handler)
	endKeepFalse         // the filter of the handler answers keep=false for the last message
)

var endShort = []string{"peer-hangs-up", "connection-reset", "local-Close", "RemoveHandler", "keep=false"}
var endNames = []string{"the peer hangs up right after its last message", "the connection is reset right after the last message",
	"the local side calls Close", "RemoveHandler", "the handler's filter answers keep=false for the last message"}

// endTimeout: how long the harness waits for something that must happen.  Only a broken tree gets to wait that
// long; after a few such waits the following ones are short.
var endTimeout = 3 * time.Second
var endTimeouts int

func noteEndTimeout() {
	endTimeouts++
	if endTimeouts == 4 {
		endTimeout = 200 * time.Millisecond
	}
}

// ---------- one handler of the harness ----------

type endH struct {
	idx  int
	fl   int
	f    fdesc
	cl   int // 0 nil closer, 1 closer
	capq int

	mu          sync.Mutex
	cond        *sync.Cond
	q           chan *net.Message // flRaw: made by the harness; flAny: returned by ReceiveAny
	slot        int
	consults    int
	qlen        int      // mirror of len(queue)
	expect      []uint32 // ids the filter selected while the queue had room
	got         []uint32 // ids the consumer was given, in order
	inCB        bool     // flAdd: the callback is running (the consumer is busy)
	entries     int      // flAdd: callback invocations
	emitted     int      // flAdd: ... of which written as ORecv operations
	gate        chan struct{}
	free        chan struct{} // closed: callbacks return at once
	closerCalls int
	closerArg   int // 1 nil, 2 error
	closedSeen  bool
	gone        bool // mirror: no longer in the table
	lost        bool // a wait for this handler's consumer timed out
	bad         []string
}

func (h *endH) describe() string {
	switch h.fl {
	case flAny:
		return fmt.Sprintf("h%d=ReceiveAny()", h.idx)
	case flAdd:
		return fmt.Sprintf("h%d=AddHandler(%s, consumer, cl=%d)", h.idx, h.f, h.cl)
	}
	return fmt.Sprintf("h%d=MakeHandler(%s, queue of %d, cl=%d)", h.idx, h.f, h.capq, h.cl)
}

func (h *endH) filter(hdr *net.Header) (bool, bool) {
	h.mu.Lock()
	defer h.mu.Unlock()
	a := fanswer(h.f, h.consults, hdr.Action)
	h.consults++
	if a.M {
		if h.qlen < h.capq {
			h.expect = append(h.expect, hdr.ID)
			h.qlen++
		}
	}
	if !a.K {
		h.gone = true
	}
	return a.M, a.K
}

func (h *endH) closer(err error) {
	h.mu.Lock()
	h.closerCalls++
	if err == nil {
		h.closerArg = 1
	} else {
		h.closerArg = 2
	}
	h.cond.Broadcast()
	h.mu.Unlock()
}

// consumer is the callback of an AddHandler handler: it notes the message and stays busy until the harness
// lets it return.
func (h *endH) consumer(m *net.Message) error {
	h.mu.Lock()
	h.got = append(h.got, m.Header.ID)
	h.qlen--
	h.entries++
	h.inCB = true
	h.cond.Broadcast()
	h.mu.Unlock()
	select {
	case <-h.gate:
	case <-h.free:
	}
	h.mu.Lock()
	h.inCB = false
	h.cond.Broadcast()
	h.mu.Unlock()
	return nil
}

// waitFor waits (with the handler's lock held by the caller) until cond() holds
func (h *endH) waitFor(d time.Duration, cond func() bool) bool {
	timedOut := false
	t := time.AfterFunc(d, func() { h.mu.Lock(); timedOut = true; h.cond.Broadcast(); h.mu.Unlock() })
	defer t.Stop()
	for !cond() {
		if timedOut {
			return false
		}
		h.cond.Wait()
	}
	return true
}

// ---------- one run ----------

type endSpec struct {
	transport string
	hs        []*endH
	target    int
	end       int
	seq       []mspec // written one at a time; the harness waits for each to be dispatched
	takes     [][]int // takes[i]: handlers whose consumer takes one message after seq[i]
	burst     []mspec // written back to back; the end follows the last one at once
	reuse     *endH   // endRemove / endKeepFalse: registered afterwards on the same endpoint (takes the freed slot)
	more      []mspec // ... and these messages follow
}

func mspecList(l []mspec) string {
	var it []string
	for _, m := range l {
		it = append(it, fmt.Sprintf("{type %d action %d id %d len %d}", m.Typ, m.Action, m.ID, len(m.Payload)))
	}
	return "[" + strings.Join(it, " ") + "]"
}

func (sp *endSpec) String() string {
	var hs []string
	for _, h := range sp.hs {
		hs = append(hs, h.describe())
	}
	var tk []string
	for i, t := range sp.takes {
		for _, x := range t {
			tk = append(tk, fmt.Sprintf("h%d after message %d", x, i+1))
		}
	}
	s := fmt.Sprintf("send-then-end on %s: %s; the peer writes %s one at a time (a consumer takes one message: %s), then %s back to back; then %s (h%d)",
		sp.transport, strings.Join(hs, "; "), mspecList(sp.seq), "["+strings.Join(tk, ", ")+"]", mspecList(sp.burst), endNames[sp.end], sp.target)
	if sp.reuse != nil {
		s += fmt.Sprintf("; then %s is registered on the same endpoint and the peer writes %s; then the local side calls Close", sp.reuse.describe(), mspecList(sp.more))
	} else if sp.end == endRemove || sp.end == endKeepFalse {
		s += "; then the local side calls Close"
	}
	return s + "; every consumer is busy until the end has happened"
}

func newEndH(idx, fl int, f fdesc, cl, capq int) *endH {
	h := &endH{idx: idx, fl: fl, f: f, cl: cl, capq: capq, gate: make(chan struct{}, 64), free: make(chan struct{})}
	h.cond = sync.NewCond(&h.mu)
	switch fl {
	case flAdd:
		h.capq = 10
	case flAny:
		h.capq, h.cl = 1, 0
		h.f = fdesc{Kind: 1, K: 0, A: bb{true, false}, B: bb{true, false}}
	}
	return h
}

var catchAll = fdesc{Kind: 0, Tab: []bb{{true, true}, {true, true}, {true, true}, {true, true}}}

func genEndSpec(rng *hx.Rng, transport string, targetFl, end int) *endSpec {
	sp := &endSpec{transport: transport, end: end}
	nH := 1 + rng.Intn(3)
	sp.target = rng.Intn(nH)
	nSeq := rng.Intn(4)
	nBurst := 1 + rng.Intn(9)
	if rng.Chance(0.15) {
		nBurst = 10
	}
	if rng.Chance(0.25) {
		nSeq += 8 + rng.Intn(4) // the AddHandler queue of 10 overflows while its consumer is busy
	}
	total := nSeq + nBurst
	for i := 0; i < nH; i++ {
		fl := rng.Pick(flRaw, flAdd, flAdd, flAny)
		f := genFilter(rng)
		if i == sp.target {
			fl = targetFl
			if rng.Chance(0.7) {
				f = catchAll
			}
			if end == endKeepFalse {
				f = fdesc{Kind: 1, K: total - 1, A: bb{rng.Chance(0.9), true}, B: bb{rng.Chance(0.8), false}}
			}
		}
		sp.hs = append(sp.hs, newEndH(i, fl, f, rng.Pick(0, 1, 1), rng.Pick(1, 2, 3, 8, 12, 40)))
	}
	id := uint32(100)
	gen := func(n int, calls bool) (l []mspec) {
		for i := 0; i < n; i++ {
			id++
			typ := rng.Pick(2, 4, 5, 5, 3, 6, 7, 8)
			if calls && rng.Chance(0.2) {
				typ = 1
			}
			l = append(l, mspec{Typ: uint32(typ), Service: uint32(rng.Intn(3)), Object: 1,
				Action: uint32(rng.Intn(4)), ID: id, Payload: rng.Bytes(rng.Pick(0, 1, 2, 9))})
		}
		return
	}
	sp.seq = gen(nSeq, true)
	sp.burst = gen(nBurst, false)
	sp.takes = make([][]int, nSeq)
	for i := range sp.takes {
		if rng.Chance(0.3) {
			sp.takes[i] = append(sp.takes[i], rng.Intn(nH))
		}
	}
	if (end == endRemove || end == endKeepFalse) && rng.Chance(0.6) {
		sp.reuse = newEndH(nH, rng.Pick(flRaw, flAdd, flAdd, flAny), catchAll, rng.Pick(0, 1), rng.Pick(1, 2, 8))
		if sp.reuse.fl != flAny && rng.Chance(0.3) {
			sp.reuse.f = genFilter(rng)
		}
		sp.more = gen(1+rng.Intn(4), false)
	}
	return sp
}

type endObs struct {
	fails []string
	notes []string
	term  string
	canon string
}

func runEnd(sp *endSpec, dir string, k int) (obs endObs, unavailable error) {
	desc := sp.String()
	fail := func(format string, a ...interface{}) { obs.fails = append(obs.fails, desc+": "+fmt.Sprintf(format, a...)) }
	peer, err := newStartPeer(sp.transport, dir, k)
	if err != nil {
		return obs, err
	}
	defer peer.cleanup()
	st := newObsStream(peer.stream)
	var ops []string
	emit := func(s string) { ops = append(ops, s) }
	slots := make([]*endH, 10) // mirror of the handler table
	all := append([]*endH(nil), sp.hs...)
	replayable := true

	register := func(e net.EndPoint, h *endH) {
		want := 0
		for want < len(slots) && slots[want] != nil {
			want++
		}
		var cl net.Closer
		if h.cl != 0 {
			cl = h.closer
		}
		switch h.fl {
		case flRaw:
			h.q = make(chan *net.Message, h.capq)
			h.slot = e.MakeHandler(h.filter, h.q, cl)
		case flAdd:
			h.slot = e.AddHandler(h.filter, h.consumer, cl)
		case flAny:
			// ReceiveAny keeps its filter and its id for itself: the harness mirrors the documented filter ("one
			// message, then gone", mirrorAny) and the id (the lowest free one)
			q, err := e.ReceiveAny()
			if err != nil || q == nil {
				fail("ReceiveAny: %v", err)
				replayable = false
				q = make(chan *net.Message)
			}
			h.q = q
			h.slot = want
		}
		if h.slot != want {
			fail("%s of %s returned id %d; the lowest free id is %d", flNames[h.fl], h.describe(), h.slot, want)
			replayable = false
		}
		if h.slot >= 0 && h.slot < len(slots) {
			slots[h.slot] = h
		}
		emit(fmt.Sprintf("OMake (%s) false %d%%N %d%%N %d%%N", h.f.term(), h.cl, h.capq, want))
	}
	var e net.EndPoint
	if res := callWithin(5*time.Second, func() {
		e = net.EndPointFinalizer(st, func(e net.EndPoint) {
			for _, h := range sp.hs {
				register(e, h)
			}
		})
	}); res != "" {
		fail("constructing the endpoint and registering the handlers: %s", res)
		return
	}
	defer func() {
		for _, h := range all {
			select {
			case <-h.free:
			default:
				close(h.free)
			}
		}
		e.Close()
	}()

	// mirrorAny: ReceiveAny's own filter is not visible to the harness; what it does is documented
	mirrorAny := func(m mspec) {
		for _, h := range slots {
			if h != nil && h.fl == flAny {
				h.mu.Lock()
				if !h.gone {
					h.consults++
					if h.qlen < h.capq {
						h.expect = append(h.expect, m.ID)
						h.qlen++
					}
					h.gone = true
				}
				h.mu.Unlock()
			}
		}
	}
	// afterDispatch: the table mirror follows the filters that answered keep=false
	sweep := func() {
		for i, h := range slots {
			if h != nil {
				h.mu.Lock()
				if h.gone {
					slots[i] = nil
				}
				h.mu.Unlock()
			}
		}
	}
	// flush writes the callback invocations not yet written as ORecv operations (handler's lock held)
	flush := func(h *endH) {
		for h.emitted < h.entries {
			emit(fmt.Sprintf("ORecv %d%%N %d%%N", h.idx, h.got[h.emitted]))
			h.emitted++
		}
	}
	// settle: an AddHandler consumer that is not busy is handed the next queued message at once
	settle := func(when string) {
		for _, h := range all {
			if h.fl != flAdd {
				continue
			}
			h.mu.Lock()
			flush(h)
			if !h.lost && !h.inCB && h.qlen > 0 {
				next := uint32(0)
				if len(h.got) < len(h.expect) {
					next = h.expect[len(h.got)]
				}
				if h.waitFor(endTimeout, func() bool { return h.entries > h.emitted }) {
					flush(h)
				} else {
					h.lost = true
					noteEndTimeout()
					h.bad = append(h.bad, fmt.Sprintf("%s: message id %d was selected by the filter and accepted into the queue (it had room: %d of %d) but the consumer, which is not busy, was not called for it within %v; the consumer has been given ids %v of the ids %v queued for it",
						when, next, h.qlen-1, h.capq, endTimeout, h.got, h.expect))
				}
			}
			h.mu.Unlock()
		}
	}
	take := func(h *endH) {
		switch h.fl {
		case flRaw, flAny:
			h.mu.Lock()
			select {
			case m, ok := <-h.q:
				if ok {
					h.got = append(h.got, m.Header.ID)
					h.qlen--
					emit(fmt.Sprintf("ORecv %d%%N %d%%N", h.idx, m.Header.ID))
				} else {
					h.closedSeen = true
				}
			default:
			}
			h.mu.Unlock()
		case flAdd:
			// the busy consumer returns; if something is queued the forwarding goroutine hands it over at once
			h.mu.Lock()
			flush(h)
			if h.inCB && !h.lost {
				queued := h.qlen > 0
				h.gate <- struct{}{}
				if queued {
					if h.waitFor(endTimeout, func() bool { return h.entries > h.emitted }) {
						flush(h)
					} else {
						h.lost = true
						noteEndTimeout()
						h.bad = append(h.bad, fmt.Sprintf("the consumer returned with %d messages queued (ids %v selected, %v given so far) but was not called again within %v", h.qlen, h.expect, h.got, endTimeout))
					}
				} else if !h.waitFor(endTimeout, func() bool { return !h.inCB }) {
					h.lost = true
				}
			}
			h.mu.Unlock()
		}
	}
	total := 0
	written := 0
	dispatched := func(what string) bool {
		if !st.waitConsumed(total, 4*time.Second) {
			_, _, _, consumed := st.snapshot()
			fail("%s: the endpoint has read %d of the %d bytes the peer wrote within 4 s and is not waiting for the next frame", what, consumed, total)
			return false
		}
		return true
	}
	write := func(m mspec) bool {
		written++
		if err := peer.send(m.message()); err != nil {
			fail("the peer could not write message %d: %v", written, err)
			return false
		}
		total += 28 + len(m.Payload)
		emit(fmt.Sprintf("OMsg %s 9%%N", m.term()))
		mirrorAny(m)
		return true
	}
	// closed: handlers the shutdown of the endpoint has to close, in slot order
	liveNow := func() (l []*endH) {
		for _, h := range slots {
			if h != nil {
				l = append(l, h)
			}
		}
		return
	}
	goClosed := func(was []*endH, what string) {
		for _, h := range was {
			if h.cl != 0 {
				h.mu.Lock()
				if !h.waitFor(endTimeout, func() bool { return h.closerCalls > 0 }) {
					noteEndTimeout()
					h.bad = append(h.bad, fmt.Sprintf("%s: the close callback was not invoked within %v", what, endTimeout))
				}
				h.mu.Unlock()
			}
			emit(fmt.Sprintf("OGoCloser %d%%N", h.idx))
			emit(fmt.Sprintf("OGoClose %d%%N", h.idx))
		}
		for i := range slots {
			slots[i] = nil
		}
	}
	// localClose: Close() from the harness; the process goroutine then fails to read and shuts down as well
	localClose := func() {
		was := liveNow()
		if res := callWithin(endTimeout, func() { e.Close() }); res != "" {
			fail("Close: %s", res)
			replayable = false
			return
		}
		if hb, ok := peer.stream.(*hstream); ok {
			hb.fail(errors.New("harness: read on a closed stream")) // the harness buffer does not notice Close by itself
		}
		if !st.waitCloses(2, endTimeout) {
			obs.notes = append(obs.notes, "send-then-end: the process goroutine had not shut down "+endTimeout.String()+" after Close on "+sp.transport+" (run not replayed on the model)")
			replayable = false
		}
		// which of the two shutdowns (Close's, with nil; the process goroutine's, with its read error) walked the
		// table first is visible in what the closers were told
		for _, h := range was {
			if h.cl != 0 {
				h.mu.Lock()
				if !h.waitFor(endTimeout, func() bool { return h.closerCalls > 0 }) {
					noteEndTimeout()
					h.bad = append(h.bad, fmt.Sprintf("after Close: the close callback was not invoked within %v", endTimeout))
				}
				h.mu.Unlock()
			}
		}
		byProcFirst := false
		for _, h := range was {
			h.mu.Lock()
			if h.cl != 0 && h.closerArg == 2 {
				byProcFirst = true
			}
			h.mu.Unlock()
		}
		if byProcFirst {
			emit("OCloseAll true true")
			goClosed(was, "after Close")
			emit("OCloseAll false false")
		} else {
			emit("OCloseAll false false")
			goClosed(was, "after Close")
			emit("OCloseAll true true")
		}
	}

	// 1. messages one at a time, consumers taking a message now and then
	for i, m := range sp.seq {
		if !write(m) || !dispatched(fmt.Sprintf("message %d", i+1)) {
			return
		}
		sweep()
		settle(fmt.Sprintf("after message %d (id %d) was dispatched", i+1, m.ID))
		for _, x := range sp.takes[i] {
			take(sp.hs[x])
			settle(fmt.Sprintf("after the consumer of h%d returned", x))
		}
	}
	// 2. the last messages back to back, and the end
	for _, m := range sp.burst {
		if !write(m) {
			return
		}
	}
	target := sp.hs[sp.target]
	processDown := false
	switch sp.end {
	case endPeerClose, endPeerReset:
		if sp.end == endPeerReset {
			peer.stream.(*hstream).fail(errors.New("harness: connection reset by peer"))
		} else {
			peer.hangup()
		}
		if !st.waitCloses(1, 4*time.Second) {
			_, _, _, consumed := st.snapshot()
			fail("the endpoint did not close its stream within 4 s of the end of the stream (%d of %d bytes read)", consumed, total)
			return
		}
		if _, _, _, consumed := st.snapshot(); consumed != total {
			fail("the endpoint shut down after reading %d of the %d bytes the peer wrote before it hung up", consumed, total)
			return
		}
		sweep()
		emit("OCloseAll true true")
		goClosed(liveNow(), "after the end of the stream")
		processDown = true
	default:
		if !dispatched("the last message") {
			return
		}
		sweep()
		switch sp.end {
		case endRemove:
			target.mu.Lock()
			registered := !target.gone
			target.mu.Unlock()
			var rerr error
			if res := callWithin(endTimeout, func() { rerr = e.RemoveHandler(target.slot) }); res != "" {
				fail("RemoveHandler(%d): %s", target.slot, res)
				return
			}
			emit(fmt.Sprintf("ORemove (%d)%%Z %s", target.slot, hx.Bool(rerr == nil)))
			if registered != (rerr == nil) {
				fail("RemoveHandler(%d) returned %v; handler registered under that id: %v", target.slot, rerr, registered)
				replayable = false
			}
			if registered {
				target.mu.Lock()
				target.gone = true
				target.mu.Unlock()
				slots[target.slot] = nil
			}
		case endLocalClose:
			localClose()
			processDown = true
		}
	}
	settle("after " + endNames[sp.end])
	// 3. second use: the freed slot is taken again on the same endpoint
	if !processDown {
		if sp.reuse != nil {
			all = append(all, sp.reuse)
			if res := callWithin(endTimeout, func() { register(e, sp.reuse) }); res != "" {
				fail("registering %s: %s", sp.reuse.describe(), res)
				return
			}
			for i, m := range sp.more {
				if !write(m) || !dispatched(fmt.Sprintf("message %d after the new registration", i+1)) {
					return
				}
				sweep()
				settle(fmt.Sprintf("after message id %d was dispatched", m.ID))
			}
		}
		localClose()
		settle("after Close")
	} else {
		// the connection is down; Close once more, as a caller does (nothing is left in the table)
		callWithin(endTimeout, func() { e.Close() })
		emit("OCloseAll false false")
	}
	// 4. only now do the consumers get on: everything that was queued must come out, in order
	for _, h := range all {
		close(h.free)
	}
	var hobs []string
	for _, h := range all {
		switch h.fl {
		case flAdd:
			h.mu.Lock()
			if !h.lost {
				if !h.waitFor(endTimeout, func() bool { return len(h.got) >= len(h.expect) }) {
					noteEndTimeout()
				}
			}
			h.closedSeen = true // the package's own queue: not visible to the consumer
			h.mu.Unlock()
		default:
			deadline := time.After(endTimeout)
		drain:
			for {
				select {
				case m, ok := <-h.q:
					if !ok {
						h.closedSeen = true
						break drain
					}
					h.mu.Lock()
					h.got = append(h.got, m.Header.ID)
					h.mu.Unlock()
				case <-deadline:
					noteEndTimeout()
					break drain
				}
			}
		}
		h.mu.Lock()
		if !equalU32(h.got, h.expect) {
			fail("%s was given ids %v; before its life ended its filter had selected, while the queue had room, ids %v — every one of them was accepted into the queue and must reach the consumer, in this order (close callback calls: %d, queue seen closed: %v)",
				h.describe(), h.got, h.expect, h.closerCalls, h.closedSeen)
		} else if !h.closedSeen {
			fail("%s: its queue was not closed within %v of the end (ids received %v)", h.describe(), endTimeout, h.got)
		}
		if h.cl != 0 && h.closerCalls != 1 {
			fail("%s: %d close callback calls", h.describe(), h.closerCalls)
		}
		for _, b := range h.bad {
			fail("%s: %s", h.describe(), b)
		}
		ids := make([]uint64, len(h.got))
		for i, x := range h.got {
			ids[i] = uint64(x)
		}
		hobs = append(hobs, fmt.Sprintf("(%d%%N, %d%%N, %s, %s)", h.closerCalls, h.closerArg, hx.Bool(h.closedSeen), hx.NList(ids)))
		h.mu.Unlock()
	}
	obs.canon = desc
	if len(obs.fails) > 0 || !replayable {
		return
	}
	_, writes, closes, _ := st.snapshot()
	var sent []string
	var wire []byte
	for _, w := range writes {
		sent = append(sent, hx.Hex(w))
		wire = append(wire, w...)
	}
	obs.term = fmt.Sprintf("{| c_ops := %s; c_end := 0%%N; c_hs := %s; c_sent := %s; c_wire := %s; c_sclose := %d%%N |}", hx.List(ops), hx.List(hobs), hx.List(sent), hx.Hex(wire), closes)
	return
}

// phaseEnd: every transport x every way a handler's life ends x every handler flavour, rounds times each
func phaseEnd(out *c10Out, rng *hx.Rng, dir string, rounds int) {
	k := 0
	for _, tr := range startTransports {
		ends := []int{endPeerClose, endLocalClose, endRemove, endKeepFalse}
		if tr == "harness-buffer" {
			ends = append(ends, endPeerReset)
		}
		unavailable := false
		for r := 0; r < rounds && !unavailable; r++ {
			for _, end := range ends {
				for _, fl := range []int{flRaw, flAdd, flAny} {
					if unavailable {
						break
					}
					if fl == flAny && end == endKeepFalse {
						continue // ReceiveAny's filter is its own: the first message ends it in every run
					}
					k++
					sp := genEndSpec(rng, tr, fl, end)
					obs, err := runEnd(sp, dir, 1000+k)
					if err != nil {
						out.Notes = append(out.Notes, fmt.Sprintf("send-then-end: transport %s not available here: %v", tr, err))
						out.Dist["unavailable:send-then-end:"+tr]++
						unavailable = true
						break
					}
					for _, f := range obs.fails {
						out.KFails = append(out.KFails, [2]string{"send-then-end", f})
					}
					out.Notes = append(out.Notes, obs.notes...)
					out.Dist["send-then-end:"+tr]++
					out.Dist["send-then-end:"+flNames[fl]+":"+endShort[end]]++
					if obs.canon != "" {
						out.Counts = append(out.Counts, c10Count{obs.canon, len(sp.burst)+len(sp.seq) >= 2})
					}
					if obs.term != "" {
						out.DCases = append(out.DCases, [2]string{obs.term, sp.String()})
					}
					if r == 0 && fl == flAdd && end == endPeerClose && len(out.Samples) < 12 {
						out.Samples = append(out.Samples, sp.String())
					}
				}
			}
		}
	}
}
