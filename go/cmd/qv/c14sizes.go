package main

// C14, property VALUES of every size class.  Everything else in the C14 harness writes int32 values: an
// event or a reply is a frame of 32 bytes.  Here the object (bus.NewBasicObject, what every generated
// stub is) declares a string, a list, a raw and an int32 property, and the values written are a few
// bytes to several hundred KiB long — below, at and above every buffer size the transport may have
// (4 KiB, 32 KiB, 64 KiB).  Several goroutines of the service (the implementor may call its Update<X>
// helper from any goroutine) and clients on server connections write at once, while the subscribers
// listen on SHARED connections: a connection carries the events of several subscriptions, of several
// concurrent emitters, and the replies to its own calls (reads return values of the same sizes).
//
// Every written value carries the number of its write in every 4 / 8 bytes of its content, so that a
// received value is either exactly one written value or visibly not a written value at all.
//
// Oracles (implementation side only — Property.v's values are int32):
//   * every subscription received, for every accepted write of its property, exactly one event, and the
//     event carries exactly the written bytes; nothing for a rejected write; no other frame;
//   * a subscriber's connection, which the harness never closes, still delivers frames after the round;
//   * a read returns an intact value of the declared type that is the last accepted write: a write
//     (accepted or in flight) which no accepted write lies strictly between in real time; in the
//     sequential prologue of every round (accepted ; read ; REJECTED service-side / client write ; read,
//     for every property) that is exactly the value of the last accepted write;
//   * the validator is obeyed.

import (
	"bytes"
	"encoding/binary"
	"fmt"
	gonet "net"
	"sort"
	"strings"
	"sync"
	"sync/atomic"
	"time"

	"github.com/lugu/qiloop/bus"
	"github.com/lugu/qiloop/bus/net"
	"github.com/lugu/qiloop/type/basic"
	"github.com/lugu/qiloop/type/object"
	"qv/internal/hx"
)

type c14ZProp struct {
	name string
	uid  uint32
	sig  string
}

var c14ZProps = []c14ZProp{{"text", 101, "s"}, {"list", 102, "[i]"}, {"raw", 103, "r"}, {"n", 104, "i"}}

const c14ZInt = 3 // index of the int32 property

// content sizes in bytes: a few bytes ... 700 KiB; 32764 / 32768 give event payloads of exactly 32 KiB and 4 bytes more
var c14ZSizes = []int{8, 64, 4096, 32764, 32768, 65536, 262144, 716800}

// c14ZData: the data (without signature) of write number wid (< 2^28).  bad = a value the implementor refuses.
func c14ZData(sig string, wid uint32, size int, bad bool) []byte {
	switch sig {
	case "i":
		if bad {
			return svU32(^wid)
		}
		return svU32(wid)
	case "[i]":
		n := size / 4
		if n < 1 {
			n = 1
		}
		b := make([]byte, 4+4*n)
		binary.LittleEndian.PutUint32(b, uint32(n))
		for i := 0; i < n; i++ {
			binary.LittleEndian.PutUint32(b[4+4*i:], wid)
		}
		if bad {
			binary.LittleEndian.PutUint32(b[4:], ^wid)
		}
		return b
	}
	if size < 8 {
		size = 8
	}
	u := []byte(fmt.Sprintf("%08x", wid))
	b := make([]byte, 4+size)
	binary.LittleEndian.PutUint32(b, uint32(size))
	for i := 0; i < size; i++ {
		b[4+i] = u[i%8]
	}
	if bad {
		b[4] = '!'
	}
	return b
}

// c14ZSeen: what a received value is
type c14ZSeen struct {
	ok   bool // exactly the data of one write
	wid  uint32
	bad  bool
	size int
	why  string
}

func (s c14ZSeen) String() string {
	if !s.ok {
		return "NOT A WRITTEN VALUE (" + s.why + ")"
	}
	if s.bad {
		return fmt.Sprintf("refusable #%d (%d B)", s.wid, s.size)
	}
	return fmt.Sprintf("#%d (%d B)", s.wid, s.size)
}

func c14ZAround(d []byte, i int) string {
	j := i + 12
	if j > len(d) {
		j = len(d)
	}
	return fmt.Sprintf("%x", d[i:j])
}

func c14ZDecode(sig string, d []byte) c14ZSeen {
	bad := func(f string, a ...interface{}) c14ZSeen {
		return c14ZSeen{why: fmt.Sprintf("%d bytes of data: ", len(d)) + fmt.Sprintf(f, a...)}
	}
	switch sig {
	case "i":
		if len(d) != 4 {
			return bad("not an int32")
		}
		x := binary.LittleEndian.Uint32(d)
		if int32(x) < 0 {
			return c14ZSeen{ok: true, wid: ^x, bad: true, size: 4}
		}
		return c14ZSeen{ok: true, wid: x, size: 4}
	case "[i]":
		if len(d) < 8 {
			return bad("too short for a list")
		}
		n := binary.LittleEndian.Uint32(d)
		if uint64(n)*4+4 != uint64(len(d)) {
			return bad("the list announces %d elements", n)
		}
		x := binary.LittleEndian.Uint32(d[4:])
		s := c14ZSeen{ok: true, wid: x, size: 4 * int(n)}
		if int32(x) < 0 {
			s.wid, s.bad = ^x, true
		}
		for i := 1; i < int(n); i++ {
			if y := binary.LittleEndian.Uint32(d[4+4*i:]); y != s.wid {
				return bad("element 0 is %d, element %d is %d (bytes %s)", int32(x), i, int32(y), c14ZAround(d, 4+4*i))
			}
		}
		return s
	}
	if len(d) < 12 {
		return bad("too short")
	}
	n := binary.LittleEndian.Uint32(d)
	if uint64(n)+4 != uint64(len(d)) {
		return bad("the length field says %d (0x%x)", n, n)
	}
	u := append([]byte(nil), d[4:12]...)
	s := c14ZSeen{ok: true, size: int(n)}
	if u[0] == '!' {
		s.bad = true
		u[0] = '0'
	}
	var w uint32
	if _, err := fmt.Sscanf(string(u), "%08x", &w); err != nil || u[0] != '0' {
		return bad("content starts with %x", d[4:12])
	}
	s.wid = w
	for i := 1; i < int(n); i++ {
		if d[4+i] != u[i%8] {
			return bad("content starts with %q, byte %d differs (bytes %s)", d[4:12], i, c14ZAround(d, 4+i))
		}
	}
	return s
}

// c14ZOnChange has the shape of a generated onPropertyChange: switch on the name, decode the declared
// type, ask the implementor (here: no text / raw starting with '!', no list starting with a negative
// element, no negative n)
func c14ZOnChange(name string, data []byte) error {
	r := bytes.NewBuffer(data)
	switch name {
	case "text", "raw":
		s, err := basic.ReadString(r)
		if err != nil {
			return fmt.Errorf("cannot read %s: %s", name, err)
		}
		if strings.HasPrefix(s, "!") {
			return fmt.Errorf("%s refused", name)
		}
		return nil
	case "list":
		n, err := basic.ReadUint32(r)
		if err != nil {
			return fmt.Errorf("cannot read list: %s", err)
		}
		for i := uint32(0); i < n; i++ {
			x, err := basic.ReadInt32(r)
			if err != nil {
				return fmt.Errorf("cannot read list: %s", err)
			}
			if i == 0 && x < 0 {
				return fmt.Errorf("list refused")
			}
		}
		return nil
	case "n":
		x, err := basic.ReadInt32(r)
		if err != nil {
			return fmt.Errorf("cannot read n: %s", err)
		}
		if x < 0 {
			return fmt.Errorf("n refused")
		}
		return nil
	}
	return fmt.Errorf("unknown property %s", name)
}

type c14ZEnv struct {
	env    *svEnv
	sid    uint32
	obj    bus.BasicObject
	nextID uint32
	clock  int64
	wid    uint32
}

// c14ZPaced: a client that takes what the server sends the way a socket delivers it — in pieces of at most
// `chunk` bytes, with a pause after every full piece (svEnv.connect's reader takes a whole payload at once)
type c14ZPaced struct {
	c     gonet.Conn
	chunk int
	pause time.Duration
}

func (r *c14ZPaced) Read(p []byte) (int, error) {
	if len(p) > r.chunk {
		p = p[:r.chunk]
	}
	n, err := r.c.Read(p)
	if n == r.chunk && r.pause > 0 {
		time.Sleep(r.pause)
	}
	return n, err
}

// c14ZConnect is svEnv.connect with a paced reader
func c14ZConnect(e *svEnv, idx, chunk int, pause time.Duration) (*svConn, error) {
	a, b := gonet.Pipe()
	e.l.ch <- net.ConnStream(b)
	c := &svConn{idx: idx, c: a, barrier: 0x80000000}
	c.cond = sync.NewCond(&c.mu)
	rd := &c14ZPaced{a, chunk, pause}
	go func() {
		for {
			var m net.Message
			if err := m.Read(rd); err != nil {
				c.mu.Lock()
				c.dead = true
				c.cond.Broadcast()
				c.mu.Unlock()
				return
			}
			c.mu.Lock()
			c.got = append(c.got, m)
			c.cond.Broadcast()
			c.mu.Unlock()
		}
	}()
	c.send(net.Call, 0, 0, 8, 0x7fffffff, []byte{0, 0, 0, 0})
	m := c.waitID(0x7fffffff, 5*time.Second)
	if m == nil || m.Header.Type != net.Reply {
		return nil, fmt.Errorf("authentication of harness connection %d failed", idx)
	}
	c.mu.Lock()
	c.taken = len(c.got)
	c.mu.Unlock()
	return c, nil
}

// paced: the three connections read in pieces of 16 KiB with a pause of 20 microseconds after each
func c14ZNewEnv(paced bool) (*c14ZEnv, error) {
	n := 3
	if paced {
		n = 0
	}
	env, err := svNewEnv(n)
	if err != nil {
		return nil, err
	}
	for i := 0; paced && i < 3; i++ {
		c, err := c14ZConnect(env, i, 16384, 20*time.Microsecond)
		if err != nil {
			env.close()
			return nil, err
		}
		env.conns = append(env.conns, c)
	}
	meta := object.MetaObject{
		Description: "Sizes",
		Methods:     map[uint32]object.MetaMethod{},
		Signals:     map[uint32]object.MetaSignal{},
		Properties:  map[uint32]object.MetaProperty{},
	}
	for _, p := range c14ZProps {
		meta.Properties[p.uid] = object.MetaProperty{Name: p.name, Signature: p.sig, Uid: p.uid}
	}
	obj := bus.NewBasicObject(c14MActor{}, meta, c14ZOnChange)
	svc, err := env.srv.NewService("sizes", obj)
	if err != nil {
		env.close()
		return nil, err
	}
	e := &c14ZEnv{env: env, sid: svc.ServiceID(), obj: obj, nextID: 1}
	for _, c := range env.conns {
		e.watch(c)
	}
	return e, nil
}

// a harness connection whose reader gave up (the stream ended, or what arrived is not a frame) is closed:
// whoever writes to it gets an error instead of waiting for a reader that is gone
func (e *c14ZEnv) watch(c *svConn) {
	go func() {
		c.mu.Lock()
		for !c.dead {
			c.cond.Wait()
		}
		c.mu.Unlock()
		c.c.Close()
	}()
}

func (e *c14ZEnv) close()        { e.env.close() }
func (e *c14ZEnv) msgID() uint32 { return atomic.AddUint32(&e.nextID, 1) }
func (e *c14ZEnv) tick() int64   { return atomic.AddInt64(&e.clock, 1) }
func (e *c14ZEnv) newWid() uint32 {
	e.wid++
	return e.wid
}

func (c *svConn) isDead() bool {
	c.mu.Lock()
	defer c.mu.Unlock()
	return c.dead
}

// c14ZOp: kind 0 read through a connection, 1 setProperty through a connection, 2 service-side UpdateProperty
type c14ZOp struct {
	kind    int
	prop    int
	wid     uint32
	size    int
	bad     bool
	byUID   bool
	payload []byte
	inv     int64
	ret     int64
	res     int // 0 not run, 1 error, 2 ok, 3 no answer, 4 value (read)
	gotSig  string
	got     c14ZSeen
}

type c14ZThread struct {
	conn int // -1: a goroutine of the service
	ops  []*c14ZOp
}

func c14ZSize(n int) string {
	if n >= 1024 && n%1024 == 0 {
		return fmt.Sprintf("%d KiB", n/1024)
	}
	return fmt.Sprintf("%d B", n)
}

func (o *c14ZOp) String() string {
	p := c14ZProps[o.prop]
	r := [...]string{"not run", "error", "ok", "NO ANSWER", ""}[o.res]
	v := fmt.Sprintf("%s #%d %s", p.sig, o.wid, c14ZSize(o.size))
	if o.bad {
		v += " refusable"
	}
	switch o.kind {
	case 0:
		if o.res == 4 {
			r = o.gotSig + " " + o.got.String()
		}
		return fmt.Sprintf("property(%q)->%s", p.name, r)
	case 1:
		if o.byUID {
			return fmt.Sprintf("setProperty(%d, %s)->%s", p.uid, v, r)
		}
		return fmt.Sprintf("setProperty(%q, %s)->%s", p.name, v, r)
	}
	return fmt.Sprintf("UpdateProperty(%s, %s)->%s", p.name, v, r)
}

func (o *c14ZOp) canon() string {
	return fmt.Sprintf("%d.%d.%d.%v.%v", o.kind, o.prop, o.size, o.bad, o.byUID)
}

func (t *c14ZThread) String() string {
	who := "service goroutine"
	if t.conn >= 0 {
		who = fmt.Sprintf("conn %d", t.conn)
	}
	it := make([]string, len(t.ops))
	for i, o := range t.ops {
		it[i] = o.String()
	}
	return who + ": " + strings.Join(it, " ; ")
}

func (e *c14ZEnv) mkWrite(kind, prop, size int, bad, byUID bool) *c14ZOp {
	p := c14ZProps[prop]
	if prop == c14ZInt {
		size = 4
	}
	o := &c14ZOp{kind: kind, prop: prop, wid: e.newWid(), size: size, bad: bad, byUID: byUID}
	d := c14ZData(p.sig, o.wid, size, bad)
	if kind == 2 {
		o.payload = d
		return o
	}
	nm := c14Name{kind: 0, s: p.name}
	if byUID {
		nm = c14Name{kind: 1, n: p.uid}
	}
	o.payload = append(append(nm.bytes(), svStr(p.sig)...), d...)
	return o
}

func (e *c14ZEnv) mkRead(prop int) *c14ZOp {
	return &c14ZOp{kind: 0, prop: prop, payload: c14Name{kind: 0, s: c14ZProps[prop].name}.bytes()}
}

func (e *c14ZEnv) exec(conn int, o *c14ZOp) {
	p := c14ZProps[o.prop]
	o.inv = e.tick()
	defer func() { o.ret = e.tick() }()
	if o.kind == 2 {
		if err := e.obj.UpdateProperty(p.uid, p.sig, o.payload); err != nil {
			o.res = 1
		} else {
			o.res = 2
		}
		return
	}
	action := uint32(c14ActSet)
	if o.kind == 0 {
		action = c14ActGet
	}
	c := e.env.conns[conn]
	id := e.msgID()
	if err := c.send(net.Call, e.sid, 1, action, id, o.payload); err != nil {
		o.res = 3
		return
	}
	m := c.waitAnswer(id, 5*time.Second)
	switch {
	case m == nil:
		o.res = 3
	case m.Header.Type != net.Reply:
		o.res = 1
	case o.kind == 1:
		o.res = 2
	default:
		v, ok := c14ParseValue(m.Payload)
		if !ok {
			o.res, o.gotSig, o.got = 4, "?", c14ZSeen{why: fmt.Sprintf("a reply of %d bytes that is not a value", len(m.Payload))}
			return
		}
		o.res, o.gotSig, o.got = 4, v.sig, c14ZDecode(v.sig, v.data)
	}
}

// runThreads: all threads released together; false when something is still running after the deadline
func (e *c14ZEnv) runThreads(ths []*c14ZThread) bool {
	var wg sync.WaitGroup
	start := make(chan struct{})
	for _, t := range ths {
		wg.Add(1)
		go func(t *c14ZThread) {
			defer wg.Done()
			<-start
			for _, o := range t.ops {
				e.exec(t.conn, o)
				if o.res == 3 {
					return
				}
			}
		}(t)
	}
	done := make(chan struct{})
	go func() { wg.Wait(); close(done) }()
	close(start)
	select {
	case <-done:
		return true
	case <-time.After(20 * time.Second):
	}
	e.close() // whoever waits for a connection gets an error now
	select {
	case <-done:
	case <-time.After(10 * time.Second):
	}
	return false
}

type c14ZSub struct {
	conn int
	prop int
	mid  uint32
}

type c14ZConfig struct {
	big      int   // the property with the large values: 0 text, 1 list, 2 raw
	size     int   // content bytes of its values
	service  int   // service goroutines writing it
	clients  []int // connections writing it with setProperty (and reading it back)
	intBy    int   // who writes the int32 property next to it: -2 nobody, -1 a service goroutine, k: connection k (must not be in clients)
	subs     [][2]int
	burst    int
	mixSizes bool // every second write of a thread has another size class
	paced    bool // the connections take what they are sent in pieces of 16 KiB (a socket), not payload by payload
}

func (cf c14ZConfig) String() string {
	s := fmt.Sprintf("object {text:s, list:[i], raw:r, n:i}; values of %q: %s", c14ZProps[cf.big].name, c14ZSize(cf.size))
	if cf.mixSizes {
		s += " (every second one of another size)"
	}
	s += fmt.Sprintf("; written by %d service goroutine(s)", cf.service)
	for _, c := range cf.clients {
		s += fmt.Sprintf(" + conn %d", c)
	}
	switch {
	case cf.intBy == -1:
		s += "; n written by a service goroutine"
	case cf.intBy >= 0:
		s += fmt.Sprintf("; n written by conn %d", cf.intBy)
	}
	if cf.paced {
		s += "; the connections read in pieces of 16 KiB"
	}
	s += "; subscriptions:"
	for _, sb := range cf.subs {
		s += fmt.Sprintf(" (conn %d, %s)", sb[0], c14ZProps[sb[1]].name)
	}
	return s
}

func c14ZScripts() []c14ZConfig {
	return []c14ZConfig{
		{big: 0, size: 262144, service: 3, clients: []int{1}, intBy: -2, subs: [][2]int{{0, 0}}, burst: 4},
		{big: 1, size: 65536, service: 2, intBy: -1, subs: [][2]int{{0, 1}, {0, 3}}, burst: 4},
		{big: 2, size: 32768, service: 1, clients: []int{1}, intBy: -2, subs: [][2]int{{1, 2}, {2, 2}}, burst: 5},
		{big: 0, size: 32764, service: 2, clients: []int{2}, intBy: -1, subs: [][2]int{{0, 0}, {0, 3}}, burst: 5},
		{big: 0, size: 716800, service: 2, clients: []int{2}, intBy: 1, subs: [][2]int{{0, 0}, {1, 0}, {0, 3}}, burst: 3},
		{big: 0, size: 8, service: 3, clients: []int{1, 2}, intBy: -2, subs: [][2]int{{0, 0}, {1, 0}, {2, 0}}, burst: 6},
		{big: 1, size: 4096, service: 2, clients: []int{0}, intBy: 1, subs: [][2]int{{0, 1}, {2, 1}, {2, 3}}, burst: 5},
		{big: 2, size: 262144, service: 1, clients: []int{0, 1}, intBy: -2, subs: [][2]int{{0, 2}, {1, 2}}, burst: 3},
		{big: 1, size: 262144, service: 2, clients: []int{1}, intBy: 2, subs: [][2]int{{2, 1}, {2, 3}}, burst: 3, mixSizes: true},
		{big: 0, size: 65536, service: 2, intBy: 0, subs: [][2]int{{0, 0}, {0, 3}, {1, 0}}, burst: 4, mixSizes: true},
	}
}

func c14ZGenConfig(rng *hx.Rng) c14ZConfig {
	cf := c14ZConfig{big: rng.Intn(3), size: c14ZSizes[rng.Intn(len(c14ZSizes))], service: 1 + rng.Intn(3), intBy: -2, mixSizes: rng.Chance(0.4), paced: rng.Bool()}
	free := []int{0, 1, 2}
	for k := rng.Intn(3); k > 0; k-- {
		i := rng.Intn(len(free))
		cf.clients = append(cf.clients, free[i])
		free = append(free[:i], free[i+1:]...)
	}
	if cf.service+len(cf.clients) < 2 {
		cf.service = 2
	}
	if rng.Chance(0.6) {
		cf.intBy = -1
		if len(free) > 0 && rng.Bool() {
			cf.intBy = free[rng.Intn(len(free))]
		}
	}
	for c := 0; c < 3; c++ {
		if rng.Chance(0.6) {
			cf.subs = append(cf.subs, [2]int{c, cf.big})
		}
		if cf.intBy != -2 && rng.Chance(0.4) {
			cf.subs = append(cf.subs, [2]int{c, c14ZInt})
		}
	}
	if len(cf.subs) == 0 {
		cf.subs = [][2]int{{rng.Intn(3), cf.big}}
	}
	cf.burst = 3 + rng.Intn(3)
	if cf.size > 300000 {
		cf.burst = 3
	}
	return cf
}

// c14ZRounds runs one configuration; false: a failure was reported (the family goes on with the next one)
func c14ZRounds(res *hx.Result, rng *hx.Rng, ci int, cf c14ZConfig, rounds int) bool {
	e, err := c14ZNewEnv(cf.paced)
	if err != nil {
		res.Fail("harness-setup", err.Error())
		return false
	}
	defer e.close()
	head := fmt.Sprintf("value sizes, configuration %d: %s", ci, cf)
	// initial values: one accepted service-side update per property
	cur := make([]uint32, len(c14ZProps))
	for k := range c14ZProps {
		o := e.mkWrite(2, k, 8, false, false)
		e.exec(-1, o)
		if o.res != 2 {
			res.Fail("valid-write-refused", head+" | "+o.String())
			return false
		}
		cur[k] = o.wid
	}
	var subs []c14ZSub
	for i, sb := range cf.subs {
		id := e.msgID()
		c := e.env.conns[sb[0]]
		payload := append(svU32(1, c14ZProps[sb[1]].uid), svU32(uint32(10+i), 0)...)
		c.send(net.Call, e.sid, 1, 0, id, payload)
		if m := c.waitAnswer(id, 5*time.Second); m == nil || m.Header.Type != net.Reply {
			res.Fail("call-unanswered", head+fmt.Sprintf(" | registerEvent(conn %d, %s, id %d) refused or not answered", sb[0], c14ZProps[sb[1]].name, 10+i))
			return false
		}
		subs = append(subs, c14ZSub{sb[0], sb[1], id})
	}
	otherSize := func() int { return c14ZSizes[rng.Intn(len(c14ZSizes))] }
	for round := 0; round < rounds; round++ {
		// ---- the operations of the round ----
		// prologue, one goroutine after the other: accepted ; read ; REFUSED ; read — for the large property and n
		var pro []*c14ZThread
		for _, k := range []int{cf.big, c14ZInt} {
			rd := rng.Intn(3)
			th := &c14ZThread{conn: -1}
			th.ops = append(th.ops, e.mkWrite(2, k, cf.size, false, false))
			th.ops = append(th.ops, e.mkWrite(2, k, cf.size, true, false))
			cl := &c14ZThread{conn: rd}
			cl.ops = append(cl.ops, e.mkRead(k), e.mkWrite(1, k, cf.size, true, rng.Bool()), e.mkRead(k))
			if rng.Bool() { // service: accepted, refused ; client: read, refused, read
				pro = append(pro, th, cl)
			} else { // service: accepted ; client: read, refused, read ; service: refused ; client: read
				th2 := &c14ZThread{conn: -1, ops: th.ops[1:]}
				th.ops = th.ops[:1]
				pro = append(pro, th, cl, th2, &c14ZThread{conn: rd, ops: []*c14ZOp{e.mkRead(k)}})
			}
		}
		// burst: everybody at once
		var ths []*c14ZThread
		size := func(j int) int {
			if cf.mixSizes && j%2 == 1 {
				return otherSize()
			}
			return cf.size
		}
		for s := 0; s < cf.service; s++ {
			th := &c14ZThread{conn: -1}
			for j := 0; j < cf.burst; j++ {
				th.ops = append(th.ops, e.mkWrite(2, cf.big, size(j), rng.Chance(0.15), false))
			}
			ths = append(ths, th)
		}
		for _, c := range cf.clients {
			th := &c14ZThread{conn: c}
			for j := 0; j < cf.burst; j++ {
				if rng.Chance(0.25) {
					th.ops = append(th.ops, e.mkRead(cf.big))
				} else {
					th.ops = append(th.ops, e.mkWrite(1, cf.big, size(j), rng.Chance(0.15), rng.Chance(0.3)))
				}
			}
			ths = append(ths, th)
		}
		if cf.intBy != -2 {
			th := &c14ZThread{conn: cf.intBy}
			for j := 0; j < 2*cf.burst; j++ {
				switch {
				case cf.intBy >= 0 && rng.Chance(0.2):
					th.ops = append(th.ops, e.mkRead(c14ZInt))
				case cf.intBy >= 0:
					th.ops = append(th.ops, e.mkWrite(1, c14ZInt, 4, rng.Chance(0.15), rng.Chance(0.3)))
				default:
					th.ops = append(th.ops, e.mkWrite(2, c14ZInt, 4, rng.Chance(0.15), false))
				}
			}
			ths = append(ths, th)
		}
		// ---- run ----
		finished := true
		for _, t := range pro {
			if finished {
				finished = e.runThreads([]*c14ZThread{t})
			}
		}
		if finished {
			finished = e.runThreads(ths)
		}
		all := append(append([]*c14ZThread{}, pro...), ths...)
		desc := func() string {
			var it []string
			for _, t := range pro {
				it = append(it, t.String())
			}
			s := head + fmt.Sprintf(" | round %d, one after the other: ", round) + strings.Join(it, " ; then ")
			it = nil
			for _, t := range ths {
				it = append(it, t.String())
			}
			return s + " | then at once: " + strings.Join(it, " ∥ ")
		}
		if !finished {
			res.Fail("call-unanswered", "operations still running after 20 s: "+head)
			return false
		}
		// ---- what arrived ----
		var lost []string
		for ci, c := range e.env.conns {
			if c.isDead() || !c.sync() {
				lost = append(lost, fmt.Sprintf("conn %d", ci))
			}
		}
		frames := make([][]net.Message, len(e.env.conns))
		for ci, c := range e.env.conns {
			frames[ci] = c.take()
		}
		var ops []*c14ZOp
		byWid := map[uint32]*c14ZOp{}
		var canon []string
		for _, t := range all {
			for _, o := range t.ops {
				ops = append(ops, o)
				canon = append(canon, o.canon())
				if o.kind != 0 {
					byWid[o.wid] = o
				}
			}
			canon = append(canon, "/")
		}
		failed := false
		fail := func(kind, what string) {
			if !failed {
				res.Fail(kind, what+" | "+desc())
			}
			failed = true
		}
		for _, o := range ops {
			if o.kind != 0 && o.bad && o.res == 2 {
				fail("validator-not-obeyed", o.String()+" was answered ok although the implementor refuses the value")
			}
		}
		// events
		overl := false
		for si, sb := range subs {
			p := c14ZProps[sb.prop]
			count := map[uint32]int{}
			var garbled []string
			n := 0
			for _, m := range frames[sb.conn] {
				if m.Header.Type != net.Event || m.Header.Action != p.uid || m.Header.ID != sb.mid {
					continue
				}
				n++
				s := c14ZDecode(p.sig, m.Payload)
				if !s.ok {
					garbled = append(garbled, fmt.Sprintf("event %d: %s", n, s.why))
					continue
				}
				if w := byWid[s.wid]; w == nil || w.prop != sb.prop || w.bad != s.bad || (p.sig != "i" && w.size != s.size) {
					garbled = append(garbled, fmt.Sprintf("event %d carries %s, which nobody wrote to %s", n, s, p.name))
					continue
				}
				count[s.wid]++
			}
			who := fmt.Sprintf("subscription %d (conn %d, %s, message id %d)", si, sb.conn, p.name, sb.mid)
			if len(garbled) > 0 {
				if len(garbled) > 3 {
					garbled = garbled[:3]
				}
				fail("event-not-the-written-value", who+": "+strings.Join(garbled, "; "))
			}
			var wrong []string
			acc := 0
			for _, o := range ops {
				if o.kind == 0 || o.prop != sb.prop {
					continue
				}
				k := count[o.wid]
				delete(count, o.wid)
				switch {
				case o.bad && k > 0:
					fail("event-without-accepted-write", fmt.Sprintf("%s received %d event(s) for %s", who, k, o))
				case !o.bad && o.res == 2:
					acc++
					if k != 1 {
						wrong = append(wrong, fmt.Sprintf("%d for #%d", k, o.wid))
					}
				case !o.bad && k > 1:
					wrong = append(wrong, fmt.Sprintf("%d for #%d", k, o.wid))
				}
			}
			if len(wrong) > 0 {
				sort.Strings(wrong)
				if len(wrong) > 8 {
					wrong = append(wrong[:8], "…")
				}
				fail("events-not-one-per-accepted-write", fmt.Sprintf("%s: %d accepted writes, %d event frames; events received: %s", who, acc, n, strings.Join(wrong, ", ")))
			}
		}
		// frames that are neither an event of a subscription nor an answer
		for ci, fr := range frames {
			for _, m := range fr {
				if m.Header.Type == net.Reply || m.Header.Type == net.Error {
					continue
				}
				known := false
				for _, sb := range subs {
					if sb.conn == ci && m.Header.Type == net.Event && m.Header.Action == c14ZProps[sb.prop].uid && m.Header.ID == sb.mid {
						known = true
					}
				}
				if !known {
					fail("event-without-accepted-write", fmt.Sprintf("conn %d received a frame (type %d, action %d, message id %d, %d bytes) that belongs to none of its subscriptions", ci, m.Header.Type, m.Header.Action, m.Header.ID, len(m.Payload)))
				}
			}
		}
		if len(lost) > 0 {
			fail("subscriber-stream-broken", strings.Join(lost, ", ")+": the harness keeps the connection open, but what the server wrote to it is no longer a sequence of frames (or the server closed it): no later event can arrive")
		}
		// reads: the last accepted write
		final := make([]*c14ZOp, 0, 2)
		if !failed {
			for _, k := range []int{cf.big, c14ZInt} {
				o := e.mkRead(k)
				e.exec(round%3, o)
				ops = append(ops, o)
				final = append(final, o)
			}
		}
		for _, r := range ops {
			if r.kind != 0 || r.res == 0 {
				continue
			}
			p := c14ZProps[r.prop]
			what := fmt.Sprintf("%s [%d..%d]", r, r.inv, r.ret)
			switch {
			case r.res == 3:
				fail("call-unanswered", what)
				continue
			case r.res == 1:
				fail("read-not-last-accepted-write", what+": the property has a value")
				continue
			case r.gotSig != p.sig:
				fail("stored-value-not-of-declared-type", what)
				continue
			case !r.got.ok:
				fail("read-not-last-accepted-write", what)
				continue
			}
			w := byWid[r.got.wid]
			var wret int64 // the write whose value came back ended at
			switch {
			case r.got.wid == cur[r.prop] && !r.got.bad:
			case w == nil || w.prop != r.prop || (p.sig != "i" && w.size != r.got.size) || w.inv > r.ret:
				fail("read-not-last-accepted-write", what+": nobody wrote that value before")
				continue
			case w.bad || r.got.bad:
				fail("rejected-write-changed-state", what+fmt.Sprintf(": that is the value of %s, which was refused", w))
				continue
			default:
				wret = w.ret
				if w.res == 3 {
					wret = 1 << 62
				}
			}
			for _, o := range ops {
				if o.kind != 0 && o.prop == r.prop && !o.bad && o.res == 2 && o.inv > wret && o.ret < r.inv {
					fail("read-not-last-accepted-write", what+fmt.Sprintf(": %s [%d..%d] was accepted after that value was written and before the read began", o, o.inv, o.ret))
					break
				}
			}
		}
		for _, a := range ops {
			for _, b := range ops {
				if a != b && a.kind != 0 && b.kind != 0 && !a.bad && !b.bad && a.res == 2 && b.res == 2 && a.inv < b.ret && b.inv < a.ret {
					overl = true
				}
			}
		}
		res.Count(fmt.Sprintf("Z%d %v %s", ci, cf, strings.Join(canon, " ")), overl)
		res.Dist(fmt.Sprintf("sizes-%s-%s", c14ZProps[cf.big].sig, c14ZSize(cf.size)))
		if failed {
			return false
		}
		for i, k := range []int{cf.big, c14ZInt} {
			cur[k] = final[i].got.wid
		}
		for _, c := range e.env.conns { // the frames of the round are not kept
			c.mu.Lock()
			c.got, c.taken = nil, 0
			c.mu.Unlock()
		}
	}
	return true
}

// c14Sizes: the scripted configurations and n random ones, `rounds` rounds each; own random stream
func c14Sizes(res *hx.Result, n, rounds int) {
	rng := hx.NewRng(res.Seed*0x9e3779b97f4a7c15 + 0xc1451235)
	bad := 0
	cfs := c14ZScripts()
	for i := range cfs { // every second scripted configuration with paced readers, and the first one both ways
		cfs[i].paced = i%2 == 0
	}
	cfs = append(cfs, cfs[0])
	cfs[len(cfs)-1].paced = false
	for i := 0; i < n; i++ {
		cfs = append(cfs, c14ZGenConfig(rng))
	}
	t0 := time.Now()
	for ci, cf := range cfs {
		if bad >= 3 {
			break
		}
		if !c14ZRounds(res, rng, ci, cf, rounds) {
			bad++
		}
	}
	res.Notes = append(res.Notes, fmt.Sprintf("value sizes: %d configurations x %d rounds in %d ms", len(cfs), rounds, time.Since(t0).Milliseconds()))
}
