package main

// C10, sends after FAILED sends.
//
// Before (and while) the concurrent senders of a run work on their healthy connection, other Sends of the
// same process fail: on connections whose peer is gone, on streams that break in the middle of a frame,
// that accept nothing, that report the end of the stream, and Sends the endpoint refuses by itself (payload
// length different from the header's Size).  Nothing a failed Send leaves behind in the process may show on
// another connection: the runs that follow are held to exactly the same oracles, and to the model, which has
// no state outside the stream a sender writes to.

import (
	"errors"
	"fmt"
	gonet "net"
	"sync"

	"github.com/lugu/qiloop/bus/net"
	"qv/internal/hx"
)

const nFailKinds = 8

var failKindNames = []string{"peer gone (closed in-memory pipe)", "stream answers (0, closed pipe)", "stream breaks after 7 bytes of the frame",
	"stream answers (0, EOF)", "stream accepts nothing (0, nil)", "stream takes the frame, then reports EOF", "payload length differs from Header.Size",
	"Error message on a stream that answers (0, closed pipe)"}

// oneFailedSend performs one Send that does not succeed; returns what Send answered
func oneFailedSend(kind, size int) error {
	m := c10Message(200+kind, 1, size, net.Post)
	switch kind {
	case 0:
		x, y := gonet.Pipe()
		y.Close()
		err := m.Write(x)
		x.Close()
		return err
	case 6:
		m.Header.Size++
		st := newHStream()
		e := net.NewEndPoint(st)
		err := e.Send(m)
		st.fail(errors.New("harness: end of case"))
		return err
	case 7:
		m = c10Message(200+kind, 1, size, net.Error)
	}
	st := newHStream()
	st.setWriteMode([]int{0, wmClosedPipe, wmPartial, wmEOF, wmNoProgress, wmFullEOF, 0, wmClosedPipe}[kind])
	e := net.NewEndPoint(st)
	err := e.Send(m)
	st.fail(errors.New("harness: end of case"))
	return err
}

// failedSends: 1..3 kinds of failing Send, each from several goroutines at once (what a failed Send leaves
// behind may be per thread).  Returns a description for the failing input.
func failedSends(rng *hx.Rng) string {
	n := 1 + rng.Intn(3)
	var desc []string
	for i := 0; i < n; i++ {
		kind := rng.Intn(nFailKinds)
		size := rng.Pick(0, 3, 8, 30, 200, 3000)
		par := rng.Pick(1, 2, 4, 8)
		var wg sync.WaitGroup
		for g := 0; g < par; g++ {
			wg.Add(1)
			go func() {
				defer wg.Done()
				oneFailedSend(kind, size)
			}()
		}
		wg.Wait()
		desc = append(desc, fmt.Sprintf("%d x Send of %d payload bytes: %s", par, size, failKindNames[kind]))
	}
	return fmt.Sprintf("after failed Sends on OTHER connections of the process (%s)", joinSemi(desc))
}

// failingBeside keeps failing Sends going on other connections while the senders of a run work; stop() joins it.
func failingBeside(seed uint64) (stop func()) {
	quit := make(chan struct{})
	var wg sync.WaitGroup
	wg.Add(1)
	go func() {
		defer wg.Done()
		rng := hx.NewRng(seed)
		for i := 0; i < 40; i++ {
			select {
			case <-quit:
				return
			default:
			}
			oneFailedSend(rng.Intn(nFailKinds), rng.Pick(0, 8, 200))
		}
	}()
	return func() { close(quit); wg.Wait() }
}
