package main

// c11blocked.go — the loss that shows up FIRST as a failed write issued by the endpoint itself.
//
// Besides client.Call there is one more writer on an endpoint: endPoint.dispatch, run by the only
// reader goroutine with handlersMutex held, answers an incoming message of type Call whose handler
// queue is full with an Error message ("message dropped: consumer blocked").  When the peer has
// just gone away that write is the first operation to fail; the reads fail afterwards.  Nothing
// may depend on the result of that write: every pending call, subscription and callback is
// notified by the read failure that follows, within the bound.
//
// Forced-schedule form (compared with the model): a subscription nobody reads is filled (one
// event in the hands of its goroutine, blocked in `events <- payload`, 100 frames in its queue), then a
// frame of type Call for the same (service, object, action) arrives: the subscription's filter
// matches whatever the type, the queue is full, the endpoint writes the Error reply.  That Write
// arrives in the gated stream like any other: it is held, then released with success, or with an
// error of every kind (nothing / half of the frame written) — the loss — and the reads fail next.
// In the model the whole of dispatch is LDispatch and the reply's result is discarded, so the
// labels are  LPeerMsg (MFor (OSub i) TOther); LConnDie; LDispatch; LReadFail.
//
// The form with a busy service on the endpoint over the real transports is in c11real.go.

import (
	"bytes"
	"fmt"
	"strings"
	"time"

	"github.com/lugu/qiloop/bus/net"
)

const c11QueueCap = 100 // capacity of the queue of client.Subscribe (fact f_c11_caps)

func stFill(i int) c11Step    { return c11Step{kind: "fill", idx: i} }
func stSvcCall(i int) c11Step { return c11Step{kind: "svccall", idx: i} }

// c11InDispatch: fault kinds injected into the Write that dispatch issues (inside a svccall step).
func c11InDispatch(kind string) bool { return kind == "dwkind0" || kind == "dwkindp" }

// bounded runs f, which takes the handlers mutex of the endpoint, under the deadline of the run.
func (r *c11Runner) bounded(f func()) bool {
	done := make(chan struct{})
	go func() { f(); close(done) }()
	select {
	case <-done:
		return true
	case <-time.After(r.hang):
		r.missed()
		return false
	}
}

// fill: subscription i, which nobody reads from now on, ends up with its queue full and its
// goroutine blocked in `events <- payload`.  Nothing of that goroutine is visible from outside, so
// every step is made observable: the first event is read by the harness (a rendezvous: the goroutine
// is back in its loop, the queue is empty); 100 events follow in one piece (the queue takes them
// all, whether or not the goroutine has taken one in the meantime); then frames of type Call for
// the subscription probe the queue: one that finds it full is answered by the endpoint (a Write
// arrives in the stream), the first that is queued instead shows that the goroutine had taken an
// event before it — and that probe makes the queue full again.  The labels follow what was seen.
func (r *c11Runner) fill(i int) {
	if r.faulted || !r.subReg[i] {
		return
	}
	ev := c11Step{kind: "frame", owner: "sub", idx: i, mtype: net.Event, frags: []int{0}}
	r.frame(ev, -1)
	if r.obs.aborted != "" {
		return
	}
	select {
	case _, ok := <-r.subEv[i]:
		if !ok {
			r.abort("sub %d: events closed during the fill", i)
			return
		}
		r.obs.subRead[i]++
		r.lab("LSubTake %d", i)
		r.lab("LSubRead %d", i)
	case <-time.After(r.hang):
		r.abort("sub %d: no event to read", i)
		return
	}
	one := c11Frame("sub", i, net.Event, 0)
	if !r.waitIdle("before fill") {
		return
	}
	r.st.feed(bytes.Repeat(one, c11QueueCap), nil)
	if !r.waitIdle("after fill") {
		return
	}
	r.lab("@fillsub %d %d", i, c11QueueCap)
	term := c11MsgTerm("sub", i, net.Call)
	for try := 0; ; try++ {
		time.Sleep(time.Millisecond)
		blocked, id, ok := r.serviceFrame(i)
		if !ok {
			return
		}
		if !blocked {
			r.lab("LSubTake %d", i)
			r.lab("LPeerMsg (%s)", term)
			r.lab("LDispatch")
			return
		}
		r.st.releaseWrite(id, net.Error, -1, nil)
		if !r.waitIdle("after the reply to a probe") {
			return
		}
		r.lab("LPeerMsg (%s)", term)
		r.lab("LDispatch")
		if try >= 100 {
			r.abort("sub %d: its goroutine took nothing from a full queue within %d ms", i, try)
			return
		}
	}
}

// serviceFrame feeds a frame of type Call which the filter of subscription i matches and reports
// whether the endpoint answers it (blocked: the queue was full, the Write of the Error message for
// id is now held in the stream, inside dispatch) or the reader is back in Read (it was queued).
func (r *c11Runner) serviceFrame(i int) (blocked bool, id uint32, ok bool) {
	r.svcSeq++
	id = uint32(0x7001 + 2*r.svcSeq)
	hdr := net.NewHeader(net.Call, c11SubService, 1, uint32(200+i), id)
	var buf bytes.Buffer
	msg := net.NewMessage(hdr, []byte{0x0c, byte(i)})
	if err := msg.Write(&buf); err != nil {
		panic(err)
	}
	if !r.waitIdle("before service call") {
		return false, id, false
	}
	r.st.feed(buf.Bytes(), nil)
	if !r.st.poll(r.hang, func() bool {
		if r.st.pendingWrite(id, net.Error) != nil {
			blocked = true
			return true
		}
		return r.st.readerIdle()
	}) {
		r.abort("service call for subscription %d: neither queued nor answered", i)
		return false, id, false
	}
	return blocked, id, true
}

// svcCall: a frame of type Call which the filter of subscription i matches.  If the queue has room
// it is queued like any frame; if it is full the endpoint answers it from inside dispatch, and
// that Write is where a dwkind fault strikes.
func (r *c11Runner) svcCall(pos, i int) {
	if r.faulted {
		return
	}
	term := c11MsgTerm("sub", i, net.Call)
	blocked, id, ok := r.serviceFrame(i)
	if !ok {
		return
	}
	if blocked && r.f.pos == pos && c11InDispatch(r.f.kind) {
		// the loss: the peer is gone, the endpoint's own Write is the first operation to fail
		k := c11KindByName(r.f.ek)
		r.faulted = true
		r.obs.pendingAtFault = r.inFlight()
		copy(r.obs.subEarly, r.subReg)
		copy(r.obs.cbEarly, r.cbReg)
		r.st.mu.Lock()
		r.st.holdCl, r.st.holdFrom = r.hold, 1
		n := 0
		if w := r.st.pendingWrite(id, net.Error); w != nil && r.f.kind == "dwkindp" {
			n = len(w.buf) / 2
		}
		r.st.mu.Unlock()
		r.faultAt = time.Now()
		r.lab("LPeerMsg (%s)", term)
		r.lab("LConnDie")
		r.st.releaseWrite(id, net.Error, n, k.mk("write"))
		r.lab("LDispatch")
		r.st.killKind(k, r.f.once)
		r.lab("LReadFail")
		r.failHeld()
		return
	}
	if blocked {
		r.st.releaseWrite(id, net.Error, -1, nil)
		if !r.waitIdle("after the reply of dispatch") {
			return
		}
	}
	r.lab("LPeerMsg (%s)", term)
	r.lab("LDispatch")
}

// c11TraceTerm: the label list of a case; "@f a b" stands for the list (f a b) of C11Run.v.
func c11TraceTerm(labels []string) string {
	var parts, cur []string
	macro := false
	flush := func() {
		if len(cur) > 0 {
			parts = append(parts, "["+strings.Join(cur, "; ")+"]")
			cur = nil
		}
	}
	for _, l := range labels {
		if strings.HasPrefix(l, "@") {
			flush()
			parts = append(parts, "("+l[1:]+")")
			macro = true
		} else {
			cur = append(cur, l)
		}
	}
	flush()
	if !macro {
		return "[" + strings.Join(labels, "; ") + "]"
	}
	return "(" + strings.Join(parts, " ++ ") + ")%list"
}

func c11BlockedScenarios() []c11Scenario {
	R, V := uint8(net.Reply), uint8(net.Event)
	return []c11Scenario{
		// one call in flight, a callback, the blocked consumer; a call made afterwards
		{"blocked-consumer", 2, 1, 1, []c11Step{stOnDisc(0), stSub(0), stStart(0), stFinish(0), stFill(0), stSvcCall(0),
			stStart(1), stFinish(1)}},
		// a second subscription which is read, a call whose Write is still held while dispatch writes,
		// an event and two service calls that find the queue full (the event is dropped), late registrations
		{"blocked-consumer-busy", 3, 2, 2, []c11Step{stSub(0), stOnDisc(0), stSub(1), stStart(0), stFinish(0), stFill(0),
			stStart(1), stFrame("sub", 0, V), stSvcCall(0), stFrame("sub", 1, V), stFrame("call", 0, R, 28, 0), stRead(1), stSvcCall(0), stFinish(1),
			stOnDisc(1), stStart(2), stFinish(2)}},
	}
}

// c11BlockedJobs: the usual enumeration (the loss before every step, in every position kind, on the
// gated stream and through net.ConnStream) and, for every service call that finds the queue full,
// the Write of dispatch failing first in every kind of error.
func c11BlockedJobs(sc c11Scenario, salt int) []c11Job {
	jobs := c11Jobs(sc)
	for _, j := range c11Jobs(sc) {
		j.wrap = "conn"
		jobs = append(jobs, j)
	}
	slot := salt
	full := false
	for pos, st := range sc.script {
		if st.kind == "fill" {
			full = true
		}
		if st.kind != "svccall" || !full {
			continue
		}
		for _, kind := range []string{"dwkind0", "dwkindp"} {
			for _, k := range c11ErrKinds {
				for _, once := range []bool{false, true} {
					slot++
					wrap := ""
					if slot%4 >= 2 {
						wrap = "conn"
					}
					jobs = append(jobs, c11Job{sc: sc, f: c11Fault{pos: pos, kind: kind, ek: k.name, once: once}, hold: slot%2 == 0, wrap: wrap})
				}
			}
		}
	}
	return jobs
}

var _ = fmt.Sprintf
