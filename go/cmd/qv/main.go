// qv — correspondence harness: runs the implementation in /repo (through the module
// replace) on generated cases and writes (a) Gallina case files that the model is
// evaluated on inside Coq and (b) the verdict of property oracles evaluated on the
// implementation's own behaviour.
package main

import (
	"flag"
	"fmt"
	"os"
	"runtime/pprof"
	"time"

	"qv/internal/hx"
)

type runner func(r *hx.Result, rng *hx.Rng, tier string, outdir string)

var props = map[string]runner{}

// subcommands: re-executions of this binary as a child process (decoders that may crash or
// spin, servers in their own process): qv <name> args...
var subcommands = map[string]func(args []string){}

func main() {
	if len(os.Args) > 1 {
		if f, ok := subcommands[os.Args[1]]; ok {
			f(os.Args[2:])
			return
		}
	}
	seed := flag.Uint64("seed", 1, "seed")
	tier := flag.String("tier", "quick", "quick|thorough")
	out := flag.String("out", ".", "output directory")
	flag.Parse()
	if flag.NArg() < 1 {
		fmt.Fprintln(os.Stderr, "usage: qv [flags] Cxx")
		os.Exit(2)
	}
	id := flag.Arg(0)
	f, ok := props[id]
	if !ok {
		fmt.Fprintf(os.Stderr, "qv: unknown property %s\n", id)
		os.Exit(2)
	}
	if err := os.MkdirAll(*out, 0o755); err != nil {
		panic(err)
	}
	// QV_CPUPROFILE=file[:seconds]: profile the harness for that long (default 120 s), write the profile and exit
	if v := os.Getenv("QV_CPUPROFILE"); v != "" {
		secs := 120
		name := v
		if i := len(v) - 1; i > 0 {
			for j := i; j >= 0; j-- {
				if v[j] == ':' {
					fmt.Sscanf(v[j+1:], "%d", &secs)
					name = v[:j]
					break
				}
			}
		}
		if pf, err := os.Create(name); err == nil {
			pprof.StartCPUProfile(pf)
			go func() {
				time.Sleep(time.Duration(secs) * time.Second)
				pprof.StopCPUProfile()
				pf.Close()
				os.Exit(0)
			}()
		}
	}
	res := hx.NewResult(id, *seed, *tier)
	f(res, hx.NewRng(*seed), *tier, *out)
	if err := res.Write(*out); err != nil {
		panic(err)
	}
}
