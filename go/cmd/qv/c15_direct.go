package main

// C15 — truly concurrent calls on the implementation object.
//
// The histories of c15_child.go go through a real server: remote calls are serialised by the
// object's mailbox and a history costs a server set-up, so two calls rarely meet inside the
// directory.  Here many goroutines (several CPUs) call the serviceDirectory methods directly
// and through the local Namespace adapter — the path of Server.NewService / Service.Terminate —
// released together by a spin barrier, one fresh directory per round, tens of thousands of
// rounds.  Every round is a small history (logical clock stamps around each call) judged by
// the oracles of the property: ids handed out pairwise distinct and owned by one name,
// linearizable w.r.t. the reference registry, signals exactly those of the transitions.  The
// histories that fail, and an evenly spaced sample of the others, go back to the parent
// (oracle verdicts + case files for Lin.v's lin_check).
//
// Runs in a child process: an unsynchronised directory dies of `concurrent map writes`, a
// broken lock discipline can hang.

import (
	"bufio"
	"bytes"
	"encoding/json"
	"fmt"
	"os"
	"path/filepath"
	"runtime"
	"sort"
	"strconv"
	"sync"
	"sync/atomic"
	"time"

	"github.com/lugu/qiloop/bus"
	"github.com/lugu/qiloop/bus/directory"
	"qv/internal/hx"
)

func init() { props["C15-child-direct"] = c15ChildDirect }

type dThread struct {
	tid int
	ops []dOp // ID / Info.ID 0xffffffff = the id this thread registered last
	via []bool
}

var directNames = []string{"a", "b", "c", "d", "e", "f"}

// genDirect: 2..6 threads.  Shapes: "burst" (every thread registers first: the critical
// sections of RegisterService are adjacent), "life" (register / ready / lookups / unregister
// of the thread's own service), "mixed" (any operation, shared names, guessed ids).
func genDirect(rng *hx.Rng) (ts []dThread, shape string) {
	own := func(k int) string { return directNames[k%len(directNames)] }
	mkInfo := func(name string, pid int, via bool) dInfo {
		if via {
			return dInfo{Name: name, Machine: seqMachine, Pid: 1, Endpoints: []string{seqAddr}}
		}
		return dInfo{Name: name, Machine: "m", Pid: uint32(pid), Endpoints: []string{"e"}}
	}
	const mine = 0xffffffff
	switch x := rng.Intn(100); {
	case x < 40:
		shape = "burst"
		n := 2 + rng.Intn(5)
		for k := 0; k < n; k++ {
			t := dThread{tid: k + 1}
			via := rng.Chance(0.5)
			name := own(k)
			if rng.Chance(0.15) {
				name = own(rng.Intn(n)) // now and then two threads want the same name
			}
			t.ops = append(t.ops, dOp{Kind: opRegister, Info: mkInfo(name, k+1, via)})
			t.via = append(t.via, via)
			switch rng.Intn(3) {
			case 0:
				t.ops = append(t.ops, dOp{Kind: opReady, ID: mine})
			case 1:
				t.ops = append(t.ops, dOp{Kind: opUnregister, ID: mine})
			default:
				t.ops = append(t.ops, dOp{Kind: opRegister, Info: mkInfo(own(k+n), k+1, via)})
			}
			t.via = append(t.via, rng.Chance(0.5))
			ts = append(ts, t)
		}
	case x < 70:
		shape = "life"
		n := 2 + rng.Intn(3)
		for k := 0; k < n; k++ {
			t := dThread{tid: k + 1}
			via := rng.Chance(0.5)
			t.ops = []dOp{{Kind: opRegister, Info: mkInfo(own(k), k+1, via)}, {Kind: opReady, ID: mine}}
			switch rng.Intn(4) {
			case 0:
				t.ops = append(t.ops, dOp{Kind: opService, Name: own(rng.Intn(n))})
			case 1:
				t.ops = append(t.ops, dOp{Kind: opServices})
			case 2:
				t.ops = append(t.ops, dOp{Kind: opResolve, Name: own(rng.Intn(n))})
			}
			t.ops = append(t.ops, dOp{Kind: opUnregister, ID: mine})
			for range t.ops {
				t.via = append(t.via, via)
			}
			ts = append(ts, t)
		}
	default:
		shape = "mixed"
		n := 2 + rng.Intn(3)
		for k := 0; k < n; k++ {
			t := dThread{tid: k + 1}
			m := 2 + rng.Intn(3)
			for i := 0; i < m; i++ {
				name := own(k)
				if rng.Chance(0.4) {
					name = own(rng.Intn(3))
				}
				id := uint32(mine)
				if rng.Chance(0.3) {
					id = uint32(1 + rng.Intn(4))
				}
				via := rng.Chance(0.4)
				var o dOp
				switch y := rng.Intn(100); {
				case y < 35 || i == 0 && y < 70:
					o = dOp{Kind: opRegister, Info: mkInfo(name, k+1, via)}
				case y < 50:
					o = dOp{Kind: opReady, ID: id}
				case y < 65:
					o = dOp{Kind: opUnregister, ID: id}
				case y < 72:
					via = false
					o = dOp{Kind: opUpdate, Info: dInfo{Name: name, ID: id, Machine: "m", Pid: uint32(k + 1), Endpoints: []string{"e", "f"}}}
				case y < 82:
					o = dOp{Kind: opService, Name: name}
				case y < 92:
					o = dOp{Kind: opServices}
				default:
					o = dOp{Kind: opResolve, Name: name}
				}
				t.ops = append(t.ops, o)
				t.via = append(t.via, via)
			}
			ts = append(ts, t)
		}
	}
	return ts, shape
}

// directPool: one worker goroutine per thread slot, all spinning on the round
// counter: when it moves they enter the directory within nanoseconds of each other (goroutines
// started per round mostly run one after the other on the processor that created them).
const directSlots = 6

type directJob struct {
	no    int64
	ts    []dThread
	impl  directory.ServiceDirectoryImplementor
	ns    bus.Namespace
	clock int64
	mu    sync.Mutex // guards recs against the watchdog's read
	recs  [][]hOp
	done  int32
}

type directPool struct {
	round int64
	job   atomic.Value // *directJob
}

func newDirectPool() *directPool {
	p := &directPool{}
	for k := 0; k < directSlots; k++ {
		go p.worker(k)
	}
	return p
}

func (p *directPool) worker(k int) {
	seen, served := int64(0), int64(0)
	for {
		for spin := 0; atomic.LoadInt64(&p.round) == seen; spin++ {
			if spin%128 == 127 {
				runtime.Gosched()
			}
			if spin > 30000 {
				// the machine is busy (the main goroutine lost its processor): stop burning one
				time.Sleep(50 * time.Microsecond)
			}
		}
		seen = atomic.LoadInt64(&p.round)
		// the job is published before the counter moves; a worker that had no thread in the
		// last rounds may see the counter several rounds later: it serves the current job once
		j := p.job.Load().(*directJob)
		if j.no <= served || k >= len(j.ts) {
			continue
		}
		served = j.no
		t := j.ts[k]
		last := uint32(t.tid) // before its first registration a thread guesses a small id
		for i, o := range t.ops {
			if o.ID == 0xffffffff {
				o.ID = last
			}
			if o.Info.ID == 0xffffffff {
				o.Info.ID = last
			}
			via := "direct"
			if t.via[i] {
				via = "local"
			}
			j.mu.Lock()
			j.recs[k] = append(j.recs[k], hOp{Tid: t.tid, Op: o, Via: via})
			j.mu.Unlock()
			inv := atomic.AddInt64(&j.clock, 1)
			r := applyOp(j.impl, j.ns, o, t.via[i])
			ret := atomic.AddInt64(&j.clock, 1)
			j.mu.Lock()
			j.recs[k][i].Inv, j.recs[k][i].Ret, j.recs[k][i].Res = inv, ret, r
			j.mu.Unlock()
			if o.Kind == opRegister && r.Kind == rID {
				last = r.ID
			}
		}
		atomic.AddInt32(&j.done, 1)
	}
}

// run: the threads against one fresh directory.  ok=false: some call did not return within
// the deadline (the history then carries the pending calls; the pool is unusable afterwards).
func (p *directPool) run(ts []dThread, broken bool, deadline time.Duration) (h hist, ok bool) {
	vd := directory.VerifNewDirectory()
	sig := &sigRecorder{broken: broken}
	j := &directJob{no: atomic.LoadInt64(&p.round) + 1, ts: ts, impl: vd.Impl(), ns: vd.Namespace(seqAddr), recs: make([][]hOp, len(ts))}
	j.impl.Activate(bus.Activation{ServiceID: 1, ObjectID: 1, Terminate: func() {}}, sig)
	for k := range ts {
		j.recs[k] = make([]hOp, 0, len(ts[k].ops))
	}
	p.job.Store(j)
	atomic.AddInt64(&p.round, 1)
	ok = true
	var t0 time.Time
	for spin := 1; atomic.LoadInt32(&j.done) != int32(len(ts)); spin++ {
		if spin > 30000 {
			time.Sleep(50 * time.Microsecond)
		}
		if spin%128 == 0 {
			runtime.Gosched()
			if t0.IsZero() {
				t0 = time.Now()
			} else if time.Since(t0) > deadline {
				ok = false
				break
			}
		}
	}
	j.mu.Lock()
	for k := range j.recs {
		for _, o := range j.recs[k] {
			if o.Inv == 0 { // invoked, stamp not yet written back: pending from "now"
				o.Inv = atomic.AddInt64(&j.clock, 1)
			}
			h.Ops = append(h.Ops, o)
		}
	}
	j.mu.Unlock()
	if ok {
		sig.mu.Lock()
		h.Events = append([]dEvent{}, sig.evs...)
		sig.mu.Unlock()
		// quiescent: what the registry holds now (for the ownership oracle)
		stg, svc, _ := vd.State()
		for _, i := range stg {
			h.Held = append(h.Held, heldEntry{i.ServiceId, i.Name, false})
		}
		for _, i := range svc {
			h.Held = append(h.Held, heldEntry{i.ServiceId, i.Name, true})
		}
	}
	return h, ok
}

// heldEntry: one record of the registry when the history ended (no call running)
type heldEntry struct {
	ID    uint32 `json:"id"`
	Name  string `json:"n"`
	Ready bool   `json:"r"`
}

// idOracle: the identifiers the history handed out are pairwise distinct — every id belongs to
// one registration, hence to one name — and every record the registry holds at the end was
// handed to the caller that registered that name.
func idOracle(h hist) string {
	owner := map[uint32]hOp{}
	for _, o := range h.Ops {
		if o.Op.Kind != opRegister || o.Ret == 0 || o.Res.Kind != rID {
			continue
		}
		if p, dup := owner[o.Res.ID]; dup {
			return fmt.Sprintf("id %d was handed out twice: t%d registerService(%q) [%d,%d] and t%d registerService(%q) [%d,%d]",
				o.Res.ID, p.Tid, p.Op.Info.Name, p.Inv, p.Ret, o.Tid, o.Op.Info.Name, o.Inv, o.Ret)
		}
		owner[o.Res.ID] = o
	}
	pendingReg := false
	for _, o := range h.Ops {
		if o.Ret == 0 && o.Op.Kind == opRegister {
			pendingReg = true
		}
	}
	for _, e := range h.Held {
		p, okk := owner[e.ID]
		if !okk {
			if pendingReg {
				continue
			}
			return fmt.Sprintf("when the history ended the registry held id %d (%q), an identifier no registration was handed", e.ID, e.Name)
		}
		if p.Op.Info.Name != e.Name {
			return fmt.Sprintf("id %d was handed to registerService(%q) but designates the record of %q", e.ID, p.Op.Info.Name, e.Name)
		}
	}
	return ""
}

// quickLin: the calls in invocation order, or in response order, replayed on the reference
// registry (both orders respect real time); the full search only when neither explains the
// results
func quickLin(ops []hOp) bool {
	try := func(less func(a, b hOp) bool) bool {
		s := append([]hOp{}, ops...)
		sort.Slice(s, func(a, b int) bool { return less(s[a], s[b]) })
		d := &refDir{}
		for _, o := range s {
			r, _ := d.step(o.Op)
			if o.Ret == 0 || !resEq(r, o.Res) {
				return false
			}
		}
		return true
	}
	if try(func(a, b hOp) bool { return a.Inv < b.Inv }) || try(func(a, b hOp) bool { return a.Ret < b.Ret }) {
		return true
	}
	return linSearch(ops)
}

type directLine struct {
	Kind  string `json:"kind"` // fail | sample | hang | stats
	Why   string `json:"why,omitempty"`
	Shape string `json:"shape,omitempty"`
	Hist  hist   `json:"hist"`
	// stats
	Rounds      int            `json:"rounds,omitempty"`
	Overlapping int            `json:"overlapping,omitempty"`
	RegOverlap  int            `json:"reg_overlap,omitempty"`
	Broken      int            `json:"broken,omitempty"`
	FullSearch  int            `json:"full_search,omitempty"`
	Shapes      map[string]int `json:"shapes,omitempty"`
	Procs       int            `json:"procs,omitempty"`
	Millis      int64          `json:"ms,omitempty"`
	RunMillis   int64          `json:"run_ms,omitempty"`
}

func c15ChildDirect(res *hx.Result, rng *hx.Rng, tier string, outdir string) {
	rounds, _ := strconv.Atoi(os.Getenv("C15_DIRECT_N"))
	samples, _ := strconv.Atoi(os.Getenv("C15_DIRECT_SAMPLES"))
	maxMs, _ := strconv.Atoi(os.Getenv("C15_DIRECT_MAXMS"))
	seed, _ := strconv.ParseUint(os.Getenv("C15_DIRECT_SEED"), 10, 64)
	if rounds == 0 {
		rounds = 20000
	}
	if maxMs == 0 {
		maxMs = 20000
	}
	if samples == 0 {
		samples = 1
	}
	// two calls meet inside the directory only when their goroutines really run at the same time
	if runtime.GOMAXPROCS(0) < directSlots+2 {
		runtime.GOMAXPROCS(directSlots + 2)
	}
	pool := newDirectPool()
	r := hx.NewRng(seed)
	f, err := os.Create(filepath.Join(outdir, "direct.jsonl"))
	if err != nil {
		panic(err)
	}
	w := bufio.NewWriter(f)
	emit := func(l directLine) {
		b, _ := json.Marshal(l)
		w.Write(b)
		w.WriteString("\n")
		w.Flush()
	}
	st := directLine{Kind: "stats", Shapes: map[string]int{}, Procs: runtime.GOMAXPROCS(0)}
	t0 := time.Now()
	fails := 0
	var runNs int64
	every := rounds / samples
	if every == 0 {
		every = 1
	}
	for n := 0; n < rounds && fails < 6; n++ {
		if n%256 == 0 && time.Since(t0) > time.Duration(maxMs)*time.Millisecond {
			break
		}
		ts, shape := genDirect(r)
		broken := r.Chance(0.25)
		tr := time.Now()
		h, ok := pool.run(ts, broken, 5*time.Second)
		runNs += time.Since(tr).Nanoseconds()
		st.Rounds++
		st.Shapes[shape]++
		if broken {
			st.Broken++
			h.Note = "one subscriber's connection broken: the signal helper returns a write error on every event"
		}
		if !ok {
			emit(directLine{Kind: "hang", Shape: shape, Hist: h, Why: "a call on the directory did not return within 5 s"})
			emit(st)
			os.Exit(0)
		}
		if overlapping(h.Ops) {
			st.Overlapping++
		}
		if regOverlap(h.Ops) {
			st.RegOverlap++
		}
		why := idOracle(h)
		if why == "" && !quickLin(h.Ops) {
			why = "not linearizable"
		}
		if why == "" {
			why = signalOracle(h)
		}
		if why != "" {
			fails++
			emit(directLine{Kind: "fail", Shape: shape, Hist: h, Why: why})
			continue
		}
		if n%every == every/2 && len(h.Ops) <= 14 {
			emit(directLine{Kind: "sample", Shape: shape, Hist: h})
		}
	}
	st.Millis = time.Since(t0).Milliseconds()
	st.RunMillis = runNs / 1e6
	emit(st)
	f.Close()
	os.Exit(0)
}

// regOverlap: two successful registrations of different threads overlap in time
func regOverlap(ops []hOp) bool {
	for a := range ops {
		for b := range ops {
			if a < b && ops[a].Tid != ops[b].Tid && ops[a].Op.Kind == opRegister && ops[b].Op.Kind == opRegister &&
				ops[a].Res.Kind == rID && ops[b].Res.Kind == rID && ops[a].Inv < ops[b].Ret && ops[b].Inv < ops[a].Ret {
				return true
			}
		}
	}
	return false
}

func readDirect(path string) []directLine {
	b, err := os.ReadFile(path)
	if err != nil {
		return nil
	}
	var ls []directLine
	sc := bufio.NewScanner(bytes.NewReader(b))
	sc.Buffer(make([]byte, 1<<20), 1<<26)
	for sc.Scan() {
		var l directLine
		if json.Unmarshal(sc.Bytes(), &l) == nil && l.Kind != "" {
			ls = append(ls, l)
		}
	}
	return ls
}
