package main

// C18, sequences of conversions in one process.  The property is per file: what GenerateIDL writes
// for a package, and what ParseIDL reads back, may not depend on what the process converted
// before.  A sequence is a list of packages; `qv c18seq` runs GenerateIDL and then ParseIDL on each
// of them, in order, in ONE fresh process (so the failing input is the sequence itself).  Steps
// are either ordinary (they meet the hypotheses of C18_file_roundtrip: the round-trip oracle must
// hold for them whatever came before), or built to hit one recorded weakness (`known`), or built
// to make GenerateIDL fail (an invalid signature).  Every step also goes to the case files: the
// model is a function of the package alone, so each step is compared with gen_idl / parse_idl
// applied to that step.

import (
	"bytes"
	"context"
	"encoding/json"
	"fmt"
	"os"
	"os/exec"
	"runtime/debug"
	"strconv"
	"strings"
	"sync"
	"time"

	"github.com/lugu/qiloop/meta/idl"
	"qv/internal/hx"
)

func init() {
	if len(os.Args) >= 4 && os.Args[1] == "c18seq" {
		c18seqChild(os.Args[2], os.Args[3])
		os.Exit(0)
	}
}

type c18StepIn struct {
	Pkg  string
	Objs []oObject
}
type c18StepOut struct {
	Text    string
	Ok      bool
	Crash   string
	Ordered []oObject
	Parse   parseObs
}

// c18seqChild runs sequence number idx of the file: GenerateIDL then ParseIDL per step, in order
func c18seqChild(path, idxArg string) {
	debug.SetMaxStack(48 << 20)
	idx, _ := strconv.Atoi(idxArg)
	data, err := os.ReadFile(path)
	if err != nil {
		os.Exit(3)
	}
	var seqs [][]c18StepIn
	if err := json.Unmarshal(data, &seqs); err != nil || idx < 0 || idx >= len(seqs) {
		os.Exit(3)
	}
	outs := []c18StepOut{}
	for _, st := range seqs[idx] {
		var o c18StepOut
		o.Text, o.Ok, o.Ordered, o.Crash = generate(st.Pkg, st.Objs)
		func() {
			defer func() {
				if e := recover(); e != nil {
					o.Parse = parseObs{Res: 3, Error: fmt.Sprint(e)}
				}
			}()
			metas, err := idl.ParseIDL(strings.NewReader(o.Text))
			if err != nil {
				o.Parse = parseObs{Res: 0, Error: err.Error()}
				return
			}
			o.Parse.Res = 1
			o.Parse.Objs = []oObject{}
			for _, m := range metas {
				o.Parse.Objs = append(o.Parse.Objs, obsOfMeta(m))
			}
		}()
		outs = append(outs, o)
	}
	b, _ := json.Marshal(outs)
	os.Stdout.Write(b)
}

// runSeqs runs every sequence in its own child process (4 at a time, 30 s deadline each);
// errs[i] != "" when the child of sequence i died, hung or gave no answer
func runSeqs(outdir, file string, seqs [][]c18StepIn) (outs [][]c18StepOut, errs []string) {
	path := outdir + "/" + file
	b, _ := json.Marshal(seqs)
	if err := os.WriteFile(path, b, 0o644); err != nil {
		panic(err)
	}
	outs = make([][]c18StepOut, len(seqs))
	errs = make([]string, len(seqs))
	var wg sync.WaitGroup
	jobs := make(chan int)
	for w := 0; w < 4; w++ {
		wg.Add(1)
		go func() {
			defer wg.Done()
			for i := range jobs {
				ctx, cancel := context.WithTimeout(context.Background(), 30*time.Second)
				cmd := exec.CommandContext(ctx, os.Args[0], "c18seq", path, strconv.Itoa(i))
				cmd.Env = append(os.Environ(), "GOTRACEBACK=none")
				var stdout, stderr bytes.Buffer
				cmd.Stdout, cmd.Stderr = &stdout, &stderr
				err := cmd.Run()
				timedOut := ctx.Err() != nil
				cancel()
				var o []c18StepOut
				switch {
				case timedOut:
					errs[i] = "no answer within 30 s"
				case err != nil:
					msg := stderr.String()
					if len(msg) > 300 {
						msg = msg[:300]
					}
					errs[i] = "the process ended: " + err.Error() + " " + msg
				case json.Unmarshal(stdout.Bytes(), &o) != nil || len(o) != len(seqs[i]):
					errs[i] = "no result"
				default:
					outs[i] = o
				}
			}
		}()
	}
	for i := range seqs {
		jobs <- i
	}
	close(jobs)
	wg.Wait()
	return
}

type c18Step struct {
	c       rtCase // known == "": an ordinary package, must round-trip whatever was converted before
	wantErr bool   // an action has an invalid signature: GenerateIDL is expected to fail
}
type c18Seq struct {
	steps []c18Step
	desc  string
}

// ---------- the sequences ----------

func cloneObj(o oObject) oObject {
	c := oObject{Name: o.Name}
	c.Methods = append([]oMethod(nil), o.Methods...)
	c.Signals = append([]oSignal(nil), o.Signals...)
	c.Props = append([]oSignal(nil), o.Props...)
	return c
}

// twinPool: the same struct names with other members (at least one struct differs), nested
// references following the twins — two pools that cannot be used in one package, each fine alone
func twinPool(rng *hx.Rng, pool *structPool) *structPool {
	tw := &structPool{names: pool.names}
	m := map[*gty]*gty{}
	var cp func(t *gty) *gty
	cp = func(t *gty) *gty {
		if t.kind == 'S' {
			if n, ok := m[t]; ok {
				return n
			}
		}
		n := &gty{kind: t.kind, letter: t.letter, name: t.name, fields: append([]string(nil), t.fields...)}
		for _, e := range t.elems {
			n.elems = append(n.elems, cp(e))
		}
		return n
	}
	forced := rng.Intn(len(pool.defs))
	for i, d := range pool.defs {
		n := cp(d)
		if i == forced || rng.Chance(0.4) {
			has := map[string]bool{}
			for _, f := range n.fields {
				has[f] = true
			}
			switch k := rng.Intn(3); {
			case k == 0 && len(n.fields) >= 2: // one member less
				n.fields, n.elems = n.fields[:len(n.fields)-1], n.elems[:len(n.elems)-1]
			case k == 1 && len(n.fields) >= 1 && n.elems[0].kind == 's': // a member of another type
				l := byte('i')
				if n.elems[0].letter == 'i' {
					l = 's'
				}
				n.elems[0] = &gty{kind: 's', letter: l}
			default: // one member more
				f := "tw"
				for has[f] {
					f += "n"
				}
				n.fields = append(n.fields, f)
				n.elems = append(n.elems, &gty{kind: 's', letter: "ifsb"[rng.Intn(4)]})
			}
		}
		m[d] = n
		tw.defs = append(tw.defs, n)
	}
	return tw
}

func c18BuildSequences(rng *hx.Rng, tier string, safe []rtCase) []c18Seq {
	var seqs []c18Seq
	mth := func(uid uint32, name, params, ret string) oMethod {
		return oMethod{Uid: uid, Name: name, Params: params, Ret: ret}
	}
	itf := func(name string, ms []oMethod, ss, ps []oSignal) oObject {
		return oObject{Name: name, Methods: ms, Signals: ss, Props: ps}
	}
	st := func(known, desc string, objs ...oObject) c18Step {
		return c18Step{c: rtCase{pkg: "p", objs: objs, known: known, desc: desc, nontr: true}}
	}
	ord := func(desc string, objs ...oObject) c18Step { return st("", desc, objs...) }
	bad := func(desc string, objs ...oObject) c18Step {
		s := st("", desc, objs...)
		s.wantErr = true
		return s
	}
	add := func(desc string, steps ...c18Step) { seqs = append(seqs, c18Seq{steps, desc}) }
	tup := func(ts ...string) string { return "(" + strings.Join(ts, "") + ")" }
	const col = "colliding_struct_names"

	// ---- deterministic: each recorded weak input (and a failed generation) first, then ordinary
	// packages made of the same / overlapping signature strings; also the ordinary package first
	A, B := "(i)<A,a>", "(s)<A,b>"
	clashM := itf("I", []oMethod{mth(1, "f", tup(A), "v"), mth(2, "g", tup(B), "v")}, nil, nil)
	onlyF := itf("K", []oMethod{mth(1, "f", tup(A), "v")}, nil, nil)
	onlyG := itf("J", []oMethod{mth(2, "g", tup(B), "v")}, nil, nil)
	add("two structs named A in two methods, then each method alone",
		st(col, "f(A{a}) and g(A{b})", clashM), ord("g(A{b}) alone", onlyG), ord("f(A{a}) alone", onlyF),
		st(col, "the clash again", clashM), ord("g(A{b}) alone again", onlyG), ord("f(A{a}) alone again", onlyF))
	add("each method alone, the clash, each alone again",
		ord("g(A{b}) alone", onlyG), ord("f(A{a}) alone", onlyF), st(col, "f(A{a}) and g(A{b})", clashM),
		ord("g(A{b}) alone", onlyG), ord("f(A{a}) alone", onlyF))
	clashR := itf("I", []oMethod{mth(1, "f", "()", A), mth(2, "g", "()", B)}, nil, nil)
	add("two structs named A as return types, then each alone",
		st(col, "f()->A{a} and g()->A{b}", clashR), ord("g alone", itf("J", []oMethod{mth(2, "g", "()", B)}, nil, nil)),
		ord("f alone", itf("K", []oMethod{mth(1, "f", "()", A)}, nil, nil)))
	s1, s2 := "(fb)<Status,temperature,stiff>", "(ib)<Status,charge,plugged>"
	motor := itf("Motor", []oMethod{mth(100, "status", "()", s1)}, nil, nil)
	battery := itf("Battery", []oMethod{mth(100, "level", "()", s2)}, nil, nil)
	add("two services with different structs named Status in one package, then each service alone",
		st(col, "Motor and Battery", motor, battery), ord("Motor alone", motor), ord("Battery alone", battery),
		ord("Motor alone again", motor), ord("Battery alone again", battery))
	add("a struct named as its interface, then the same method in another interface",
		st(col, "interface I, struct I", itf("I", []oMethod{mth(1, "f", tup("(i)<I,a>"), "[(i)<I,a>]")}, nil, nil)),
		ord("interface J, struct I", itf("J", []oMethod{mth(1, "f", tup("(i)<I,a>"), "[(i)<I,a>]")}, nil, nil)),
		ord("interface K, struct I in a signal", itf("K", nil, []oSignal{{Uid: 3, Name: "s", Sig: tup("(i)<I,a>")}}, nil)))
	add("two structs named A in one signature, then each in a signature of its own",
		st(col, "f(A{a}, A{b})", itf("I", []oMethod{mth(1, "f", tup(A, B), "v")}, nil, nil)),
		ord("f(A{a})", onlyF), ord("g(A{b})", onlyG),
		ord("h(s, A{b}) -> [A{b}]", itf("L", []oMethod{mth(4, "h", tup("s", B), "["+B+"]")}, nil, nil)))
	nest := "(" + A + "s)<B,x,y>"
	add("a struct nested in another is renamed, then the outer struct alone",
		st(col, "g(A{b}) then f(B{x: A{a}})", itf("I", []oMethod{mth(1, "g", tup(B), "v"), mth(2, "f", tup(nest), "v")}, nil, nil)),
		ord("f(B{x: A{a}}) alone", itf("J", []oMethod{mth(2, "f", tup(nest), "v")}, nil, nil)),
		ord("h() -> [B], signal (A{a})", itf("K", []oMethod{mth(5, "h", "()", "["+nest+"]")}, []oSignal{{Uid: 6, Name: "s", Sig: tup(A)}}, nil)),
		ord("g(A{b}) alone", onlyG))
	for _, kind := range []string{"signal", "property"} {
		mk := func(name string, uid uint32, act, sig string) oObject {
			if kind == "signal" {
				return itf(name, nil, []oSignal{{Uid: uid, Name: act, Sig: sig}}, nil)
			}
			return itf(name, nil, nil, []oSignal{{Uid: uid, Name: act, Sig: sig}})
		}
		both := mk("I", 1, "s", tup(A))
		if kind == "signal" {
			both.Signals = append(both.Signals, oSignal{Uid: 2, Name: "t", Sig: tup(B)})
		} else {
			both.Props = append(both.Props, oSignal{Uid: 2, Name: "t", Sig: tup(B)})
		}
		add("two structs named A in two "+kind+" signatures, then each alone and in the other roles",
			st(col, kind+"s s(A{a}) and t(A{b})", both), ord("t(A{b}) alone", mk("J", 2, "t", tup(B))), ord("s(A{a}) alone", mk("K", 1, "s", tup(A))),
			ord("method (A{b}) -> A{b}", itf("L", []oMethod{mth(7, "m", tup(B), B)}, nil, nil)),
			ord("signal and property (A{b})", itf("M", nil, []oSignal{{Uid: 8, Name: "u", Sig: tup(B)}}, []oSignal{{Uid: 9, Name: "w", Sig: tup(B)}})))
	}
	add("a signal that is not a tuple, then the tuple and the bare struct where it is allowed",
		st("non_tuple_signal_property", "signal A{a}", itf("I", nil, []oSignal{{Uid: 1, Name: "s", Sig: A}}, nil)),
		ord("signal (A{a})", itf("J", nil, []oSignal{{Uid: 1, Name: "s", Sig: tup(A)}}, nil)),
		ord("method () -> A{a}", itf("K", []oMethod{mth(2, "f", "()", A)}, nil, nil)))
	add("a property that is not a tuple, then the tuple",
		st("non_tuple_signal_property", "property [s]", itf("I", nil, nil, []oSignal{{Uid: 1, Name: "q", Sig: "[s]"}})),
		ord("property ([s])", itf("J", nil, nil, []oSignal{{Uid: 1, Name: "q", Sig: "([s])"}})),
		ord("method ([s]) -> [s]", itf("K", []oMethod{mth(2, "f", "([s])", "[s]")}, nil, nil)))
	add("uid 0, then the same actions with other uids",
		st("uid_zero", "method and signal uid 0", itf("I", []oMethod{mth(0, "f", tup(A), A)}, []oSignal{{Uid: 0, Name: "s", Sig: tup(A)}}, nil)),
		ord("uids 7 and 8", itf("I", []oMethod{mth(7, "f", tup(A), A)}, []oSignal{{Uid: 8, Name: "s", Sig: tup(A)}}, nil)),
		ord("registerEvent uid 0", itf("I", []oMethod{mth(0, "registerEvent", "(IIL)", "L")}, nil, nil)),
		ord("uid 100", itf("I", []oMethod{mth(100, "f", tup(A), A)}, nil, nil)))
	add("an empty tuple and void inside a signature, then ordinary tuples",
		st("empty_tuple_or_void_in_container", "parameter ()", itf("I", []oMethod{mth(1, "f", "(())", "[()]")}, nil, nil)),
		st("empty_tuple_or_void_in_container", "parameter v", itf("I", []oMethod{mth(1, "f", "(v)", "{sv}")}, nil, nil)),
		ord("((i)) -> [(s)]", itf("I", []oMethod{mth(1, "f", "((i))", "[(s)]")}, nil, nil)),
		ord("() -> v", itf("I", []oMethod{mth(1, "f", "()", "v")}, nil, nil)))
	add("structs named like IDL types, then ordinary names over the same members",
		st("basic_type_struct_name", "struct str", itf("I", []oMethod{mth(1, "f", tup("(i)<str,a>"), "v")}, nil, nil)),
		st("container_prefix_struct_name", "struct Vec<T>", itf("I", []oMethod{mth(1, "f", tup("(i)<Vec<T>,a>"), "v")}, nil, nil)),
		ord("struct Str", itf("I", []oMethod{mth(1, "f", tup("(i)<Str,a>"), "v")}, nil, nil)),
		ord("struct T in a list", itf("I", []oMethod{mth(1, "f", tup("[(i)<T,a>]"), "v")}, nil, nil)),
		ord("str and Vec<int32>", itf("I", []oMethod{mth(1, "f", "(s[i])", "v")}, nil, nil)))
	for _, inv := range []string{"(i", "(s)<A", "[", "{s", "z"} {
		add("GenerateIDL fails on the signature "+inv+" (after a struct was registered), then ordinary packages",
			bad("f(A{a}) then g with an invalid signature", itf("I", []oMethod{mth(1, "f", tup(A), "v"), mth(2, "g", inv, "v")}, nil, nil)),
			ord("f(A{a}) alone", onlyF), ord("g(A{b}) alone", onlyG),
			bad("a signal with the invalid signature", itf("I", nil, []oSignal{{Uid: 1, Name: "s", Sig: inv}}, nil)),
			ord("f(A{a}) alone again", onlyF))
	}
	pose := "(fff)<Pose,x,y,theta>"
	entry := "(sI)<Entry<T>,text,level>"
	motion := oObject{Name: "Motion",
		Methods: []oMethod{{Uid: 100, Name: "moveTo", Params: tup(pose, "["+pose+"]"), Ret: "b", PNames: []string{"target", "via"}}, mth(101, "stop", "()", "v")},
		Signals: []oSignal{{Uid: 102, Name: "moved", Sig: tup("{s" + pose + "}")}}, Props: []oSignal{{Uid: 103, Name: "speed", Sig: "(f)"}}}
	logger := itf("Log", []oMethod{mth(5, "log", tup(entry, "m"), "o")}, nil, nil)
	path := "([" + pose + "]s)<Path,points,name>"
	nav := itf("Navigation", []oMethod{mth(10, "follow", tup(path), pose)}, []oSignal{{Uid: 11, Name: "arrived", Sig: tup(pose, entry)}}, nil)
	add("the same ordinary package three times",
		ord("Motion and Log", motion, logger), ord("Motion and Log again", motion, logger), ord("Motion and Log a third time", motion, logger))
	add("ordinary packages sharing struct signatures",
		ord("Motion", motion), ord("Navigation (Pose inside Path)", nav), ord("Log", logger), ord("Navigation and Log", nav, logger),
		ord("Motion and Navigation", motion, nav), ord("Motion", motion))
	pose2 := "(dd)<Pose,x,y>"
	gps := itf("Gps", []oMethod{mth(1, "where", "()", pose2)}, nil, nil)
	add("packages sharing struct signatures with a package in which one of the names clashes",
		ord("Motion", motion), st(col, "Motion and Gps: two structs named Pose", motion, gps), ord("Motion", motion), ord("Gps", gps),
		ord("Navigation and Log", nav, logger), st(col, "Navigation and Gps", nav, gps), ord("Navigation", nav), ord("Gps", gps))

	// ---- random: objects over a pool of structs and over its twin (same names, other members) ----
	nSeq := 36
	if tier == "thorough" {
		nSeq = 1500
	}
	for q := 0; q < nSeq; q++ {
		reserved := map[string]bool{}
		var names []string
		for len(names) < 5 {
			n := genIdlName(rng, roleItf)
			if !reserved[n] {
				reserved[n] = true
				names = append(names, n)
			}
		}
		pool := genPool(rng, 1+rng.Intn(3), reserved, false)
		twins := twinPool(rng, pool)
		usedAct := map[string]bool{}
		var as, bs, weak []oObject
		for k := 0; k < 2; k++ {
			seed := rng.U64()
			ua := map[string]bool{}
			for n := range usedAct {
				ua[n] = true
			}
			as = append(as, genObject(hx.NewRng(seed), names[k], pool, fmt.Sprintf("_a%d_", k), genOpts{usedAct: usedAct}))
			// the same object with its one-parameter signals and properties not wrapped in a tuple
			weak = append(weak, genObject(hx.NewRng(seed), names[k], pool, fmt.Sprintf("_a%d_", k), genOpts{usedAct: ua, nonTuple: true}))
			bs = append(bs, genObject(rng, names[2+k], twins, fmt.Sprintf("_b%d_", k), genOpts{usedAct: usedAct}))
		}
		pkg := genPkgName(rng)
		mk := func(known, desc string, objs ...oObject) c18Step {
			return c18Step{c: rtCase{pkg: pkg, objs: objs, known: known, desc: desc, nontr: true}}
		}
		first := func() c18Step {
			i, j := rng.Intn(2), rng.Intn(2)
			switch rng.Intn(6) {
			case 0, 1, 2:
				return mk(col, "an object over the pool and one over its twin", as[i], bs[j])
			case 3: // the interface takes the name of a struct of the pool
				var cand []string
				for _, d := range pool.defs {
					if !strings.Contains(d.name, "<") {
						cand = append(cand, d.name)
					}
				}
				if len(cand) > 0 {
					o := cloneObj(as[i])
					o.Name = cand[rng.Intn(len(cand))]
					return mk(col, "an interface named as a struct of the pool", o)
				}
				return mk(col, "both objects over the pool and one over its twin", as[0], as[1], bs[j])
			case 4:
				return mk("non_tuple_signal_property", "an object whose one-parameter signals are not tuples", weak[i])
			default:
				o := cloneObj(as[i])
				if len(o.Methods) > 0 {
					o.Methods[0].Uid = 0
				} else if len(o.Signals) > 0 {
					o.Signals[0].Uid = 0
				} else {
					o.Props[0].Uid = 0
				}
				return mk("uid_zero", "an object with uid 0", o)
			}
		}
		ordinary := func() c18Step {
			switch rng.Intn(6) {
			case 0:
				return mk("", "both objects over the pool", as[0], as[1])
			case 1:
				return mk("", "both objects over the twin pool", bs[0], bs[1])
			case 2, 3:
				i := rng.Intn(2)
				return mk("", fmt.Sprintf("object %d over the pool alone", i), as[i])
			default:
				i := rng.Intn(2)
				return mk("", fmt.Sprintf("object %d over the twin pool alone", i), bs[i])
			}
		}
		var steps []c18Step
		if rng.Chance(0.25) {
			steps = append(steps, ordinary())
		}
		f := first()
		steps = append(steps, f)
		if f.c.known == col && len(f.c.objs) >= 2 && rng.Chance(0.7) { // each object of the clash alone
			for _, o := range f.c.objs {
				steps = append(steps, mk("", "an object of the clashing package alone", o))
			}
		}
		for n := 1 + rng.Intn(3); n > 0; n-- {
			switch {
			case rng.Chance(0.2):
				steps = append(steps, first())
			case rng.Chance(0.2):
				steps = append(steps, steps[rng.Intn(len(steps))]) // a package of the sequence once more
			default:
				steps = append(steps, ordinary())
			}
		}
		seqs = append(seqs, c18Seq{steps, fmt.Sprintf("random: %d structs and their twins", len(pool.defs))})
	}
	// ---- packages of the safe family twice, and one after the other ----
	nPair := 8
	if tier == "thorough" {
		nPair = 300
	}
	for q := 0; q < nPair && len(safe) > 1; q++ {
		a, b := safe[rng.Intn(len(safe))], safe[rng.Intn(len(safe))]
		seqs = append(seqs, c18Seq{[]c18Step{{c: a}, {c: b}, {c: a}, {c: b}}, "two packages of the safe family, twice"})
	}
	return seqs
}

// c18Sequences runs the sequences, evaluates the oracle on every ordinary step and adds every step
// to the case files
func c18Sequences(res *hx.Result, rng *hx.Rng, tier, outdir string, addCase func(list, term, desc string), safe []rtCase) (pend []c18Pending) {
	seqs := c18BuildSequences(rng, tier, safe)
	in := make([][]c18StepIn, len(seqs))
	for i, s := range seqs {
		for _, st := range s.steps {
			in[i] = append(in[i], c18StepIn{st.c.pkg, st.c.objs})
		}
	}
	outs, errs := runSeqs(outdir, "c18_sequences.json", in)
	describe := func(s c18Seq, upto int) string {
		var b strings.Builder
		for k := 0; k <= upto; k++ {
			fmt.Fprintf(&b, "step %d: GenerateIDL(%q, %s) then ParseIDL of its text; ", k+1, s.steps[k].c.pkg, objsTerm(s.steps[k].c.objs))
		}
		return b.String()
	}
	type failed struct {
		seq, step int
		fail      string
	}
	var fails []failed
	for i, s := range seqs {
		if errs[i] != "" {
			res.Fail("sequence-crash", fmt.Sprintf("a fresh process running the sequence [%s] (%s): %s", describe(s, len(s.steps)-1), s.desc, errs[i]))
			continue
		}
		prefix := ""
		for k, st := range s.steps {
			o := outs[i][k]
			c := st.c
			desc := fmt.Sprintf("sequence %d (%s) step %d/%d: %s", i, s.desc, k+1, len(s.steps), c.desc)
			if o.Crash != "" {
				res.Fail("generate-crash", fmt.Sprintf("sequence [%s]: GenerateIDL panics in step %d: %s", describe(s, k), k+1, o.Crash))
			}
			addCase("gcases", fmt.Sprintf("G %s %s %s %s", idlStr(c.pkg), objsTerm(o.Ordered), hx.Bool(o.Ok), idlStr(o.Text)), "generate in "+desc)
			if o.Parse.Res <= 2 {
				addCase("pcases", fmt.Sprintf("P %s %d%%N %s", idlStr(o.Text), o.Parse.Res, objsTerm(o.Parse.Objs)), "parse in "+desc)
			}
			prefix += "|" + c.pkg + "|" + objsTerm(c.objs)
			kind := "ordinary"
			switch {
			case st.wantErr:
				kind = "invalid-signature"
			case c.known != "":
				kind = "weak:" + c.known
			}
			res.Dist(fmt.Sprintf("sequence-step:%s", kind))
			pos := k + 1
			if pos > 6 {
				pos = 6
			}
			res.Dist(fmt.Sprintf("sequence-position:%d", pos))
			res.Count("SEQ"+prefix, k > 0)
			if i == 0 && k == 1 {
				res.Sample(fmt.Sprintf("sequence [%s] -> last text %q", describe(s, k), o.Text))
			}
			switch o.Parse.Res {
			case 3:
				res.Fail("parser-panic", fmt.Sprintf("sequence [%s]: ParseIDL panics on the text of step %d %q: %s", describe(s, k), k+1, o.Text, o.Parse.Error))
			}
			if st.wantErr {
				continue
			}
			if !o.Ok {
				res.Fail("generate-error", fmt.Sprintf("sequence [%s]: GenerateIDL fails in step %d on a meta-object with valid signatures", describe(s, k), k+1))
				continue
			}
			fail := rtFail(c.objs, o.Parse)
			if fail == "" {
				continue
			}
			if c.known != "" {
				pend = append(pend, c18Pending{kind: "roundtrip", prio: 2, known: c.known,
					det: fmt.Sprintf("sequence step with a recorded weak input: meta-objects %s; generated IDL %q; %s", objsTerm(c.objs), o.Text, fail)})
				continue
			}
			fails = append(fails, failed{i, k, fail})
		}
	}
	// a failing ordinary step: does the package fail alone in a fresh process too?
	if len(fails) > 0 {
		if len(fails) > 40 {
			fails = fails[:40]
		}
		alone := make([][]c18StepIn, len(fails))
		for j, f := range fails {
			c := seqs[f.seq].steps[f.step].c
			alone[j] = []c18StepIn{{c.pkg, c.objs}}
		}
		aouts, aerrs := runSeqs(outdir, "c18_sequences_alone.json", alone)
		for j, f := range fails {
			s := seqs[f.seq]
			o := outs[f.seq][f.step]
			if aerrs[j] == "" && aouts[j][0].Ok && rtFail(s.steps[f.step].c.objs, aouts[j][0].Parse) == "" {
				pend = append(pend, c18Pending{kind: "roundtrip-depends-on-history", det: fmt.Sprintf("in one fresh process, [%s]: the package of step %d does not come back: %s; generated IDL %q. "+
					"The same package alone in a fresh process round-trips (generated IDL %q): the result of a conversion depends on the conversions before it (%s)",
					describe(s, f.step), f.step+1, f.fail, o.Text, aouts[j][0].Text, s.desc)})
			} else {
				pend = append(pend, c18Pending{kind: "roundtrip", det: fmt.Sprintf("sequence [%s]: the package of step %d does not come back (alone in a fresh process neither): %s; generated IDL %q",
					describe(s, f.step), f.step+1, f.fail, o.Text)})
			}
		}
	}
	return pend
}
