package main

// C20 — every entry point through which a conversion happens, in sequences.
//
// conversion.ConvertFrom is one of three ways into convertFrom.  conversion.DecodeFrom receives
// the *bytes* of a value of a remote type and the destination; bus.Proxy.Call2 receives a reply
// payload, compares the return signature advertised in the meta object with the one the caller
// expects, reads the reply directly when they are the same text and hands it to DecodeFrom (with
// the type of the parsed advertised signature) when they are not.  What the property says about
// "converting a value" holds for each of them: compatible pairs keep every element, key and
// field, kinds of another class are refused with an error — and nothing an entry point did for an
// earlier call (an intermediate value it keeps, a parsed signature it remembers, a fallback it
// takes after a refusal) may show in a later one.
//
// A sequence is a handful of calls in this process against one proxy object: 1-3 remote types
// (= advertised return signatures of its methods), 1-3 local types for each (identical,
// compatible, perturbed, of another class), and for every call a fresh source value — later ones
// biased to fewer keys and shorter lists —, one of the entry points, and a destination that is
// fresh or the reply variable of the previous call of the same pair.  Calls go on after a refused
// one.  Every call is judged by the oracles of evaluate and written as a case for the model,
// which has no history at all: a call whose outcome depends on an earlier one differs from it.

import (
	"bytes"
	"fmt"
	"reflect"
	"strings"

	"github.com/lugu/qiloop/bus"
	"github.com/lugu/qiloop/meta/signature"
	"github.com/lugu/qiloop/type/conversion"
	"github.com/lugu/qiloop/type/encoding"
	"github.com/lugu/qiloop/type/object"
	"qv/internal/hx"
)

// c20entry: one way of reaching the conversion for the next evaluate
type c20entry struct {
	name  string // for reports
	short string // for the history of a sequence and the input distribution
	coq   string // Conv.entry term
	call func(dst, src reflect.Value) error
	// direct: the advertised signature is the caller's own, Call2 reads the reply as it is.  Nothing
	// is converted, so nothing can be "of another kind" (two fields whose names differ in case only
	// would make ConvertFrom pair a field with the wrong one; a positional read does not look at names)
	direct bool
}

func (en *c20entry) run(dst, src reflect.Value) (o c20obs) {
	o.dst = dst.Elem()
	defer func() {
		if e := recover(); e != nil {
			o.panicked = fmt.Sprint(e)
		}
	}()
	o.err = en.call(dst, src)
	return o
}

// c20Encode: the bytes of v as the remote side writes them (reflection encoder, no capability)
func c20Encode(v reflect.Value) []byte {
	var buf bytes.Buffer
	if err := encoding.NewEncoder(nil, &buf).Encode(v.Interface()); err != nil {
		panic(fmt.Sprintf("qv C20: cannot encode a %v: %v", v.Type(), err))
	}
	return buf.Bytes()
}

// c20DecodeInto: conversion.DecodeFrom(bytes of src, dst, type of src)
func c20DecodeInto(dst, src reflect.Value) (o c20obs) {
	o.dst = dst.Elem()
	defer func() {
		if e := recover(); e != nil {
			o.panicked = fmt.Sprint(e)
		}
	}()
	dec := encoding.NewDecoder(nil, bytes.NewBuffer(c20Encode(src)))
	o.err = conversion.DecodeFrom(dec, dst.Interface(), src.Type())
	return o
}

var c20EntryDecodeFrom = &c20entry{name: "conversion.DecodeFrom(bytes of the value, &dst, its type)", short: "DecodeFrom", coq: "EDecodeFrom",
	call: func(dst, src reflect.Value) error {
		dec := encoding.NewDecoder(nil, bytes.NewBuffer(c20Encode(src)))
		return conversion.DecodeFrom(dec, dst.Interface(), src.Type())
	}}

// conversion.EncodeInto(e, x, typ) is the outgoing direction: "encodes x as if it was of type typ".
// On the pinned tree it hands a reflect.Value to ConvertFrom and to Encode as if it were the value
// (a scalar is refused, a struct "succeeds" and the bytes written are those of reflect.Value's own
// fields); nothing in /repo calls it.  The probe tells whether it is usable at all; only then is it
// one of the entry points of the sequences (so that a repair is judged like the others).
func c20EncodeIntoUsable() bool {
	defer func() { recover() }()
	var buf bytes.Buffer
	err := conversion.EncodeInto(encoding.NewEncoder(nil, &buf), int32(-7), reflect.TypeOf(int64(0)))
	return err == nil && bytes.Equal(buf.Bytes(), []byte{0xf9, 0xff, 0xff, 0xff, 0xff, 0xff, 0xff, 0xff})
}

var c20EntryEncodeInto = &c20entry{name: "conversion.EncodeInto(bytes, value, type of dst), the bytes then read as a dst", short: "EncodeInto", coq: "EConvertFrom",
	call: func(dst, src reflect.Value) error {
		var buf bytes.Buffer
		if err := conversion.EncodeInto(encoding.NewEncoder(nil, &buf), src.Interface(), dst.Type().Elem()); err != nil {
			return err
		}
		if err := encoding.NewDecoder(nil, &buf).Decode(dst.Interface()); err != nil {
			panic(fmt.Sprintf("qv C20: EncodeInto wrote %x for a %v, which does not decode: %v", buf.Bytes(), dst.Type().Elem(), err))
		}
		return nil
	}}

// ---------- signatures ----------

var c20SigOfInt = map[string]string{"I8": "c", "I16": "w", "I32": "i", "I64": "l", "IInt": "l",
	"U8": "C", "U16": "W", "U32": "I", "U64": "L", "UInt": "L"}

// c20Sig: the signature of a Go type as a proxy generator writes it for the caller's variable
// (int is 64 bits on the wire).  Structs are named by their position in the text, so that equal
// types have equal signatures and nothing else has.
func c20Sig(t *gt) string {
	n := 0
	var f func(t *gt) string
	f = func(t *gt) string {
		switch t.k {
		case gBool:
			return "b"
		case gString:
			return "s"
		case gInt:
			return c20SigOfInt[ikinds[t.ik].coq]
		case gF32:
			return "f"
		case gF64:
			return "d"
		case gSlice:
			return "[" + f(t.elem) + "]"
		case gMap:
			return "{" + f(t.key) + f(t.elem) + "}"
		}
		name := fmt.Sprintf("S%d", n)
		n++
		var members, names []string
		for _, fl := range t.fields {
			members = append(members, f(fl.t))
			names = append(names, fl.name)
		}
		return "(" + strings.Join(members, "") + ")<" + strings.Join(append([]string{name}, names...), ",") + ">"
	}
	return f(t)
}

// c20AsRemote rewrites t in place into a type a signature can denote: Go's int and uint are 64-bit
// integers on the wire
func c20AsRemote(t *gt) {
	var ss []site
	sites(t, false, &ss)
	for _, s := range ss {
		if s.p.k == gInt {
			switch ikinds[s.p.ik].coq {
			case "IInt":
				s.p.ik = 3
			case "UInt":
				s.p.ik = 8
			}
		}
		s.p.named = nil
	}
}

// c20Advertised: the Go type bus.Proxy.Call2 derives from the advertised signature of t, or nil if
// the signature does not denote t (struct{} has no signature)
func c20Advertised(t *gt) (string, reflect.Type) {
	sig := c20Sig(t)
	var ss []site
	sites(t, false, &ss)
	for _, s := range ss {
		if s.p.k == gStruct && len(s.p.fields) == 0 {
			return sig, nil
		}
	}
	typ, err := signature.Parse(sig)
	if err != nil {
		return sig, nil
	}
	rt := typ.Type()
	defer func() { recover() }() // gtOf panics outside the universe
	if gtOf(rt).coq() != t.coq() {
		return sig, nil
	}
	return sig, rt
}

// ---------- a proxy whose remote side is the harness ----------

type c20client struct {
	channel bus.Channel
	reply   []byte
	called  []uint32 // action ids of the calls received
}

func (f *c20client) Call(cancel <-chan struct{}, s, o, m uint32, p []byte) ([]byte, error) {
	f.called = append(f.called, m)
	return append([]byte{}, f.reply...), nil
}
func (f *c20client) Subscribe(s, o, a uint32) (func(), chan []byte, error) {
	return func() {}, make(chan []byte), nil
}
func (f *c20client) OnDisconnect(cb func(error)) error { return nil }
func (f *c20client) State(signal string, inc int) int  { return 0 }
func (f *c20client) Channel() bus.Channel              { return f.channel }

// c20local: one type the caller wants a reply in
type c20local struct {
	t    *gt
	kind string
	sig  string
}

// c20remote: one method of the proxy object = one remote type
type c20remote struct {
	t      *gt
	sig    string
	rt     reflect.Type // type of the parsed signature; nil: not reachable through a signature
	method string
	id     uint32
	locals []c20local
}

// c20Widen: widen for a source type that may hold two fields whose names differ in case only (a
// perturbed source): re-casing must not make them one Go name
func c20Widen(rng *hx.Rng, t1 *gt) *gt {
	for try := 0; try < 20; try++ {
		t2 := widen(rng, t1)
		var ss []site
		sites(t2, false, &ss)
		dup := false
		for _, s := range ss {
			seen := map[string]bool{}
			for _, f := range s.p.fields {
				dup = dup || seen[f.name]
				seen[f.name] = true
			}
		}
		if !dup {
			return t2
		}
	}
	return t1.clone()
}

// c20LocalFor: another local type for the remote type t1
func c20LocalFor(rng *hx.Rng, t1 *gt) c20local {
	var t2 *gt
	kind := "compatible"
	switch r := rng.Intn(10); {
	case r < 3: // the caller's type is the advertised one (int for a 64-bit integer here and there)
		t2 = t1.clone()
		var ss []site
		sites(t2, false, &ss)
		for _, s := range ss {
			if s.p.k == gInt && ikinds[s.p.ik].bits == 64 && rng.Chance(0.3) {
				s.p.ik++ // I64 -> IInt, U64 -> UInt
			}
		}
		kind = "same-signature"
	case r < 6:
		t2 = c20Widen(rng, t1)
	case r < 7:
		for {
			t2 = c20GenType(rng, 1)
			if t2.class() != t1.class() {
				break
			}
		}
		kind = "top-class-mismatch"
	default:
		t2 = c20Widen(rng, t1)
		if k := perturb(rng, t2); k != "" {
			kind = k
		}
	}
	return c20local{t2, kind, c20Sig(t2)}
}

// c20NamedRemote: a source-declared point type as a remote type (the structural copy a signature
// gives) with the source-declared wide types as locals: what an entry point remembers under the
// printed name of the caller's type is applied to the wrong type
func c20NamedRemote(rng *hx.Rng) *c20remote {
	points := []reflect.Type{c20PointA(), c20PointB(), c20PointC(), c20PointD()}
	wides := []reflect.Type{c20WideA(), c20WideB(), c20WideC(), c20WideD()}
	t1 := gtOf(points[rng.Intn(len(points))])
	if rng.Bool() {
		// the structural copy; otherwise DecodeFrom and ConvertFrom get the declared type itself
		// (Call2 derives the copy from the signature either way)
		c20AsRemote(t1)
	}
	r := &c20remote{t: t1}
	for n, i := 2+rng.Intn(2), rng.Intn(len(wides)); n > 0; n, i = n-1, i+1 {
		t2 := gtOf(wides[i%len(wides)])
		r.locals = append(r.locals, c20local{t2, "same-name-types", c20Sig(t2)})
	}
	return r
}

type c20kept struct {
	dst   reflect.Value
	t     *gt
	canon string
	what  string
}

// entrySequence: see the head of this file
func (e *c20env) entrySequence() {
	rng, res := e.rng, e.res
	defer func() { e.entry, e.history = nil, "" }()

	// the remote side: 1-3 methods
	var remotes []*c20remote
	meta := object.MetaObject{Methods: map[uint32]object.MetaMethod{}}
	nR := rng.Pick(1, 1, 2, 2, 3)
	for j := 0; j < nR; j++ {
		var r *c20remote
		if rng.Chance(0.1) {
			r = c20NamedRemote(rng)
		} else {
			t1, t2, kind := c20GenPair(rng, rng.Pick(0, 1, 1, 2, 2, 2, 3))
			if rng.Chance(0.5) { // a container that can hold something over from an earlier call
				for try := 0; try < 6 && t1.k < gSlice; try++ {
					t1, t2, kind = c20GenPair(rng, rng.Pick(1, 2, 2, 3))
				}
			}
			c20AsRemote(t1)
			r = &c20remote{t: t1, locals: []c20local{{t2, kind, c20Sig(t2)}}}
			for n := rng.Pick(0, 1, 1, 2); n > 0; n-- {
				r.locals = append(r.locals, c20LocalFor(rng, t1))
			}
		}
		r.sig, r.rt = c20Advertised(r.t)
		// the same names and ids in every sequence: whatever is remembered per method, per action id
		// or per struct name meets other types under the same key
		r.method, r.id = fmt.Sprintf("m%d", j), uint32(100+j)
		if r.rt != nil {
			meta.Methods[r.id] = object.MetaMethod{Uid: r.id, Name: r.method, ParametersSignature: "()", ReturnSignature: r.sig}
			res.Dist("entry:remote-type-has-a-signature")
		} else {
			res.Dist("entry:remote-type-without-signature")
		}
		remotes = append(remotes, r)
	}
	client := &c20client{channel: bus.NewContext(nil)}
	proxy := bus.NewProxy(client, meta, 1, 1)

	var kept []c20kept
	checkKept := func(after string) {
		for _, k := range kept {
			if now := coqVal(k.t, k.dst.Elem()); now != k.canon {
				res.Fail("earlier-result-changed", fmt.Sprintf("the result of %s was %s; after %s the same variable holds %s",
					k.what, k.canon, after, now))
			}
		}
	}
	var hist []string
	prevJ, prevK := -1, -1
	var prevDst reflect.Value
	prevOK := false
	steps := 3 + rng.Intn(4)
	for i := 0; i < steps; i++ {
		j := rng.Intn(len(remotes))
		if prevJ >= 0 && rng.Chance(0.6) {
			j = prevJ
		}
		r := remotes[j]
		k := rng.Intn(len(r.locals))
		if j == prevJ && rng.Chance(0.5) {
			k = prevK
		}
		l := r.locals[k]
		src := reflect.New(r.t.rtype()).Elem()
		genValOpt(rng, r.t, src, false, 2, vopt{small: i >= 1 && rng.Chance(0.6)})
		direct := false
		var entry *c20entry
		switch p := rng.Intn(20); {
		case p < 3:
			entry = nil // conversion.ConvertFrom on the value itself
			if e.encodeInto && rng.Bool() {
				entry = c20EntryEncodeInto
			}
		case p < 10 || r.rt == nil:
			entry = c20EntryDecodeFrom
		case p < 17:
			direct = r.sig == l.sig
			name := fmt.Sprintf("proxy.Call2(%q, (), Response(%q, &dst)), return signature advertised in the meta object %q, reply = bytes of the value", r.method, l.sig, r.sig)
			coq := "ECall2"
			entry = &c20entry{name: name, short: "Call2", coq: coq, direct: direct, call: func(dst, src reflect.Value) error {
				client.reply = c20Encode(src)
				n := len(client.called)
				err := proxy.Call2(r.method, bus.NewParams("()"), bus.NewResponse(l.sig, dst.Interface()))
				if len(client.called) != n+1 || client.called[n] != r.id {
					panic(fmt.Sprintf("qv C20: Call2(%s) reached the client as %v", r.method, client.called[n:]))
				}
				return err
			}}
		default:
			// what a hand-written client does: the payload through Proxy.CallID, then DecodeFrom with
			// the type of the advertised signature
			entry = &c20entry{name: fmt.Sprintf("reply, _ := proxy.CallID(%d, nil); conversion.DecodeFrom(reply, &dst, type of %q)", r.id, r.sig), short: "CallID+DecodeFrom", coq: "EDecodeFrom",
				call: func(dst, src reflect.Value) error {
					want := c20Encode(src)
					client.reply = want
					got, err := proxy.CallID(r.id, nil)
					if err != nil || !bytes.Equal(got, want) {
						return fmt.Errorf("CallID returned %x, %v for the reply %x", got, err, want)
					}
					return conversion.DecodeFrom(encoding.NewDecoder(nil, bytes.NewBuffer(got)), dst.Interface(), r.rt)
				}}
		}
		// the destination: fresh, or the reply variable of the previous call of the same pair
		dst, dirty := reflect.New(l.t.rtype()), false
		if !direct && entry != c20EntryEncodeInto && prevOK && j == prevJ && k == prevK && rng.Chance(0.3) {
			dst, dirty = prevDst, true
			// it is written again: no longer an earlier result to watch
			for x := range kept {
				if kept[x].dst.Pointer() == dst.Pointer() {
					kept = append(kept[:x], kept[x+1:]...)
					break
				}
			}
		}
		e.entry = entry
		e.history = strings.Join(hist, "; then ")
		kind := "sequence:" + l.kind
		if direct {
			res.Dist("entry:Call2-same-signature(direct read)")
		}
		which := "ConvertFrom"
		if entry != nil {
			which = entry.short
		}
		res.Dist("entry:" + which)
		if j == prevJ {
			res.Dist("entry:same-remote-type-as-the-call-before")
		} else if prevJ >= 0 {
			res.Dist("entry:other-remote-type-than-the-call-before")
		}
		if !prevOK && i > 0 {
			res.Dist("entry:after-a-refused-call")
		}
		canon := coqVal(r.t, src)
		ok := e.evaluate(r.t, l.t, src, dst, dirty, kind)
		what := fmt.Sprintf("%s %s -> %s of %s", which, r.t, l.t, canon)
		if !ok {
			what += " (refused)"
		}
		checkKept(what)
		if ok {
			kept = append(kept, c20kept{dst, l.t, coqVal(l.t, dst.Elem()), what})
		}
		hist = append(hist, what)
		if len(hist) > 4 {
			hist = hist[len(hist)-4:]
		}
		prevJ, prevK, prevDst, prevOK = j, k, dst, ok
	}
}

func (e *c20env) entrySequences(n int) {
	e.encodeInto = c20EncodeIntoUsable()
	// a defect of the pinned tree (repaired 7f8be04): a switch, so that it is reported again should it return
	e.res.Switch("encode_into_unusable", !e.encodeInto, "conversion.EncodeInto(enc, x, typ) passes the reflect.Value it built (not the value in it) to ConvertFrom and to the encoder: "+
		"EncodeInto(enc, int32(-7), int64) fails with \"Failed to convert struct reflect.Value into int32\", and EncodeInto(enc, struct{X int32}{5}, struct{X int64}) returns nil "+
		"after writing the bytes of reflect.Value's own fields instead of the 8 bytes of 5")
	if !e.encodeInto {
		e.res.Notes = append(e.res.Notes, "conversion.EncodeInto is not exercised: on this tree it is unusable")
	}
	for i := 0; i < n; i++ {
		e.entrySequence()
	}
}
